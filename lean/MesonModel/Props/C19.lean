/-
C19 — Version comparison is a consistent order and constraint logic is sound.
Property theorems only; helper lemmas live in `MesonModel/Version/*Lemmas.lean`.
All statements quantify over every token tuple (hence, through `tokenize`, over every string).
-/
import MesonModel.Version.RangeLemmas
import MesonModel.Version.TokLemmas
import MesonModel.Version.GateLemmas
import MesonModel.Version.EntryLemmas

namespace MesonModel.Props.C19
open MesonModel.Version MesonModel.Py

/-! ### Total preorder -/

/-- exactly one of `<`, `==`, `>` holds -/
theorem trichotomy (a b : Ver) :
    (vlt a b = true ∧ veq a b = false ∧ vgt a b = false) ∨
    (vlt a b = false ∧ veq a b = true ∧ vgt a b = false) ∨
    (vlt a b = false ∧ veq a b = false ∧ vgt a b = true) := by
  simp only [vlt_eq, veq_eq, vgt_eq]
  have := Lt.total a b
  by_cases h1 : Lt a b <;> by_cases h2 : a = b <;> by_cases h3 : Lt b a <;>
    simp_all [Lt.irrefl] <;> exact absurd h3 (Lt.asymm h1)

theorem lt_trans (a b c : Ver) : vlt a b = true → vlt b c = true → vlt a c = true := by
  simp only [vlt_iff]; exact Lt.trans

theorem le_trans (a b c : Ver) : vle a b = true → vle b c = true → vle a c = true := by
  simp only [vle_iff]
  intro h1 h2 h3
  rcases Lt.total a b with h | h | h
  · exact h2 (Lt.trans h3 h)
  · subst h; exact h2 h3
  · exact h1 h

theorem le_iff_lt_or_eq (a b : Ver) : vle a b = true ↔ (vlt a b = true ∨ veq a b = true) := by
  simp only [vle_iff, vlt_iff, veq_iff]
  have := Lt.total a b
  constructor
  · intro h; rcases this with h' | h' | h' <;> simp_all
  · rintro (h | h)
    · exact Lt.asymm h
    · subst h; exact Lt.irrefl a

theorem ge_iff_gt_or_eq (a b : Ver) : vge a b = true ↔ (vgt a b = true ∨ veq a b = true) := by
  simp only [vge_iff, vgt_iff, veq_iff]
  have := Lt.total a b
  constructor
  · intro h; rcases this with h' | h' | h' <;> simp_all
  · rintro (h | h)
    · exact Lt.asymm h
    · subst h; exact Lt.irrefl a

theorem ne_iff_not_eq (a b : Ver) : vne a b = !veq a b := rfl

theorem lt_iff_gt_swap (a b : Ver) : vlt a b = vgt b a := by
  rw [vlt_eq, vgt_eq]

theorem le_iff_ge_swap (a b : Ver) : vle a b = vge b a := by
  rw [vle_eq, vge_eq]

/-- `==` is equality of the token tuples, and equal versions hash equally -/
theorem eq_iff_tokens_eq (a b : Ver) : veq a b = true ↔ a = b := veq_iff a b

theorem hash_congr (a b : Ver) : veq a b = true → hashKey a = hashKey b := by
  simp [veq_iff, hashKey]

/-- the three-way result of `__cmp` is `eq` exactly for `==` versions, so `<=`/`>=` (computed by
`__cmp`) and `==` (tuple equality) never contradict each other -/
theorem cmp_eq_iff_eq (a b : Ver) : vcmp a b = .eq ↔ veq a b = true := by
  rw [veq_iff]; exact vcmp_eq_iff a b

/-! ### Component rules -/

theorem vcmp_append_left (p a b : Ver) : vcmp (p ++ a) (p ++ b) = vcmp a b := by
  induction p with
  | nil => rfl
  | cons t p ih =>
    have : tokCmp t t = .eq := (tokCmpLaws.eq_iff t t).mpr rfl
    simp only [List.cons_append, vcmp, lexCmp, this]
    exact ih

/-- at the first differing position numeric components compare numerically -/
theorem num_compares_numerically (p s t : Ver) (m n : Nat) (h : m ≠ n) :
    vcmp (p ++ .num m :: s) (p ++ .num n :: t) = compare m n := by
  rw [vcmp_append_left]
  simp only [vcmp, lexCmp, tokCmp]
  cases hc : compare m n <;> simp_all

/-- at the first differing position a numeric component ranks above an alphabetic one -/
theorem num_above_alpha (p s t : Ver) (n : Nat) (w : List Char) :
    vlt (p ++ .alpha w :: s) (p ++ .num n :: t) = true ∧
    vgt (p ++ .num n :: t) (p ++ .alpha w :: s) = true := by
  have h1 : vcmp (p ++ .alpha w :: s) (p ++ .num n :: t) = .lt := by
    rw [vcmp_append_left]; simp [vcmp, lexCmp, tokCmp]
  have h2 : vcmp (p ++ .num n :: t) (p ++ .alpha w :: s) = .gt := by
    rw [vcmp_append_left]; simp [vcmp, lexCmp, tokCmp]
  simp [vlt, vgt, h1, h2]

/-- a longer version with an equal prefix is greater -/
theorem proper_prefix_lt (p t : Ver) (h : t ≠ []) : vlt p (p ++ t) = true := by
  have : vcmp (p ++ []) (p ++ t) = .lt := by
    rw [vcmp_append_left]; cases t <;> simp_all [vcmp, lexCmp]
  simpa [vlt] using this

/-! ### `version_compare` agrees with the order -/

/-- every operator is the order relation it names -/
theorem op_apply_spec (a b : Ver) :
    (CmpOp.ge.apply a b = true ↔ ¬ Lt a b) ∧ (CmpOp.le.apply a b = true ↔ ¬ Lt b a) ∧
    (CmpOp.gt.apply a b = true ↔ Lt b a) ∧ (CmpOp.lt.apply a b = true ↔ Lt a b) ∧
    (CmpOp.eq.apply a b = true ↔ a = b) ∧ (CmpOp.ne.apply a b = true ↔ a ≠ b) :=
  ⟨vge_iff a b, vle_iff a b, vgt_iff a b, vlt_iff a b, veq_iff a b, vne_iff a b⟩

theorem versionCompare_agrees (v s : List Char) :
    versionCompare v s = (extractCmpOp s).1.apply (tokenize v) (tokenize (extractCmpOp s).2) := rfl

/-- the seven operator spellings and the bare form select the operator they spell -/
theorem extract_ge (w : List Char) : extractCmpOp ('>' :: '=' :: w) = (.ge, strip w) := by
  simp [extractCmpOp, startsWith]
theorem extract_le (w : List Char) : extractCmpOp ('<' :: '=' :: w) = (.le, strip w) := by
  simp [extractCmpOp, startsWith]
theorem extract_ne (w : List Char) : extractCmpOp ('!' :: '=' :: w) = (.ne, strip w) := by
  simp [extractCmpOp, startsWith]
theorem extract_eqeq (w : List Char) : extractCmpOp ('=' :: '=' :: w) = (.eq, strip w) := by
  simp [extractCmpOp, startsWith]
theorem extract_eq (w : List Char) (h : w.head? ≠ some '=') :
    extractCmpOp ('=' :: w) = (.eq, strip w) := by
  cases w with
  | nil => simp [extractCmpOp, startsWith]
  | cons c cs =>
    simp at h
    have h' : ¬ '=' = c := fun e => h e.symm
    simp [extractCmpOp, startsWith, h, h']
theorem extract_gt (w : List Char) (h : w.head? ≠ some '=') :
    extractCmpOp ('>' :: w) = (.gt, strip w) := by
  cases w with
  | nil => simp [extractCmpOp, startsWith]
  | cons c cs =>
    simp at h
    have h' : ¬ '=' = c := fun e => h e.symm
    simp [extractCmpOp, startsWith, h, h']
theorem extract_lt (w : List Char) (h : w.head? ≠ some '=') :
    extractCmpOp ('<' :: w) = (.lt, strip w) := by
  cases w with
  | nil => simp [extractCmpOp, startsWith]
  | cons c cs =>
    simp at h
    have h' : ¬ '=' = c := fun e => h e.symm
    simp [extractCmpOp, startsWith, h, h']
theorem extract_bare (s : List Char)
    (h : ∀ c, s.head? = some c → c ≠ '>' ∧ c ≠ '<' ∧ c ≠ '=' ∧ c ≠ '!') :
    extractCmpOp s = (.eq, strip s) := by
  cases s with
  | nil => simp [extractCmpOp, startsWith]
  | cons c cs =>
    have := h c rfl
    simp [extractCmpOp, startsWith, this]
    grind

/-- `version_compare(v, op + w)` is the order relation `op` names, applied to the token tuples of
`v` and `w` themselves: the operator is cut off, and the `strip()` in between is invisible. -/
theorem versionCompare_ge (v w : List Char) :
    versionCompare v ('>' :: '=' :: w) = vge (tokenize v) (tokenize w) := by
  rw [versionCompare_agrees, extract_ge]; simp [CmpOp.apply, tokenize_strip]
theorem versionCompare_le (v w : List Char) :
    versionCompare v ('<' :: '=' :: w) = vle (tokenize v) (tokenize w) := by
  rw [versionCompare_agrees, extract_le]; simp [CmpOp.apply, tokenize_strip]
theorem versionCompare_ne (v w : List Char) :
    versionCompare v ('!' :: '=' :: w) = vne (tokenize v) (tokenize w) := by
  rw [versionCompare_agrees, extract_ne]; simp [CmpOp.apply, tokenize_strip]
theorem versionCompare_eqeq (v w : List Char) :
    versionCompare v ('=' :: '=' :: w) = veq (tokenize v) (tokenize w) := by
  rw [versionCompare_agrees, extract_eqeq]; simp [CmpOp.apply, tokenize_strip]
theorem versionCompare_eq (v w : List Char) (h : w.head? ≠ some '=') :
    versionCompare v ('=' :: w) = veq (tokenize v) (tokenize w) := by
  rw [versionCompare_agrees, extract_eq w h]; simp [CmpOp.apply, tokenize_strip]
theorem versionCompare_gt (v w : List Char) (h : w.head? ≠ some '=') :
    versionCompare v ('>' :: w) = vgt (tokenize v) (tokenize w) := by
  rw [versionCompare_agrees, extract_gt w h]; simp [CmpOp.apply, tokenize_strip]
theorem versionCompare_lt (v w : List Char) (h : w.head? ≠ some '=') :
    versionCompare v ('<' :: w) = vlt (tokenize v) (tokenize w) := by
  rw [versionCompare_agrees, extract_lt w h]; simp [CmpOp.apply, tokenize_strip]
theorem versionCompare_bare (v s : List Char)
    (h : ∀ c, s.head? = some c → c ≠ '>' ∧ c ≠ '<' ∧ c ≠ '=' ∧ c ≠ '!') :
    versionCompare v s = veq (tokenize v) (tokenize s) := by
  rw [versionCompare_agrees, extract_bare s h]; simp [CmpOp.apply, tokenize_strip]

/-- a constraint list holds iff each constraint holds -/
theorem compareMany_iff_all (v : List Char) (cs : List (List Char)) :
    (versionCompareMany v cs).1 = true ↔ ∀ c ∈ cs, versionCompare v c = true := by
  simp [versionCompareMany, List.filter_eq_nil_iff]

/-- the two returned lists partition the constraints by truth, in order -/
theorem compareMany_lists (v : List Char) (cs : List (List Char)) :
    (versionCompareMany v cs).2.1 = cs.filter (fun c => !versionCompare v c) ∧
    (versionCompareMany v cs).2.2 = cs.filter (fun c => versionCompare v c) := ⟨rfl, rfl⟩

/-! ### Range algebra -/

/-- a version lies in `intersect(a, b)` iff it lies in both — for all field values -/
theorem mem_intersect_iff (a b : Range) (x : Ver) :
    (a.intersect b).contains x = true ↔ (a.contains x = true ∧ b.contains x = true) := by
  simp only [Range.contains_iff]; exact Range.mem_intersect a b x

/-- membership in the range one non-`!=` check contributes is exactly that check -/
theorem checkRange_mem (st : Range) (op : CmpOp) (v x : Ver) (h : op ≠ .ne) :
    (checkRange st op v).contains x = true ↔ op.apply x v = true := by
  rw [Range.contains_iff]
  have t := Lt.total x v
  cases op <;> simp only [checkRange, Range.new] at * <;> try contradiction
  all_goals
    first
    | (rw [Range.mem_postInit _ _ rfl]
       simp [Range.Mem, CmpOp.apply, vge_iff, vle_iff, vgt_iff, vlt_iff, veq_iff]
       try grind [Lt.irrefl, Lt.trans])

/-- a version in `start` that differs from `v` is in the range the `!= v` check contributes -/
theorem checkRange_ne_mem (st : Range) (v x : Ver) (hx : st.contains x = true) (hne : x ≠ v) :
    (checkRange st .ne v).contains x = true := by
  rw [Range.contains_iff] at *
  have t := Lt.total x v
  unfold checkRange
  simp only [Range.new]
  by_cases h1 : st.min = some v <;> by_cases h2 : st.max = some v <;> simp only [h1, h2, if_true, if_false]
  · rw [Range.mem_intersect, Range.mem_postInit _ _ rfl, Range.mem_postInit _ _ rfl]
    have a1 := hx.2.1 v h1
    have a2 := hx.2.2 v h2
    simp [Range.Mem]
    cases hq : st.minEq <;> cases hq' : st.maxEq <;> simp_all <;> grind
  · rw [Range.mem_postInit _ _ rfl]
    have a1 := hx.2.1 v h1
    simp [Range.Mem]
    cases hq : st.minEq <;> simp_all <;> grind
  · rw [Range.mem_intersect, Range.mem_postInit _ _ rfl, Range.mem_postInit _ _ rfl]
    have a2 := hx.2.2 v h2
    simp [Range.Mem]
    cases hq' : st.maxEq <;> simp_all <;> grind
  · rw [Range.mem_postInit _ _ rfl]; simp [Range.Mem]

/-- the range built from a list of checks contains every version of `start` satisfying all checks -/
theorem checkToRange_complete (checks : List (List Char)) (start : Range) (x : List Char)
    (hx : start.contains (tokenize x) = true)
    (hall : ∀ c ∈ checks, versionCompare x c = true) :
    (versionCheckToRange checks start).contains (tokenize x) = true := by
  induction checks generalizing start with
  | nil => simpa [versionCheckToRange] using hx
  | cons c cs ih =>
    simp only [versionCheckToRange, List.foldl_cons]
    apply ih
    · rw [mem_intersect_iff]
      refine ⟨hx, ?_⟩
      have hc : versionCompare x c = true := hall c (by simp)
      rw [versionCompare_agrees] at hc
      by_cases hop : (extractCmpOp c).1 = .ne
      · have : tokenize x ≠ tokenize (extractCmpOp c).2 := by
          rw [hop] at hc; exact (vne_iff _ _).mp hc
        have := checkRange_ne_mem start _ _ hx this
        rw [← hop] at this; exact this
      · exact (checkRange_mem start _ _ _ hop).mpr hc
    · intro c' hc'; exact hall c' (by simp [hc'])

/-- the range built from a list of checks contains no version violating a non-`!=` check, and
nothing outside `start` -/
theorem checkToRange_sound (checks : List (List Char)) (start : Range) (x : Ver)
    (hx : (versionCheckToRange checks start).contains x = true) :
    start.contains x = true ∧
    ∀ c ∈ checks, (extractCmpOp c).1 ≠ .ne →
      (extractCmpOp c).1.apply x (tokenize (extractCmpOp c).2) = true := by
  induction checks generalizing start with
  | nil => simpa [versionCheckToRange] using hx
  | cons c cs ih =>
    simp only [versionCheckToRange, List.foldl_cons] at hx
    have := ih _ hx
    rw [mem_intersect_iff] at this
    refine ⟨this.1.1, ?_⟩
    intro c' hc' hop
    simp only [List.mem_cons] at hc'
    rcases hc' with rfl | hc'
    · exact (checkRange_mem start _ _ _ hop).mp this.1.2
    · exact this.2 c' hc' hop

/-- `always()` answers `True` only if every version in the range satisfies the inner condition -/
theorem always_true_sound (r inner : Range) (h : r.always inner = some true) (x : Ver)
    (hx : r.contains x = true) : inner.contains x = true := by
  unfold Range.always at h
  by_cases h1 : (r.intersect inner).isEmpty = true
  · simp [h1] at h
  · by_cases h2 : r.intersect inner = r
    · have := (mem_intersect_iff r inner x)
      rw [h2] at this
      exact (this.mp hx).2
    · rw [if_neg h1, if_neg h2] at h; simp at h

/-- `always()` answers `False` only if no version in the range satisfies the inner condition -/
theorem always_false_sound (r inner : Range) (h : r.always inner = some false) (x : Ver)
    (hx : r.contains x = true) : inner.contains x = false := by
  unfold Range.always at h
  by_cases h1 : (r.intersect inner).isEmpty = true
  · have hc : (r.intersect inner).contains x = false := by simp [Range.contains, h1]
    cases hi : inner.contains x
    · rfl
    · have := (mem_intersect_iff r inner x).mpr ⟨hx, hi⟩
      simp [hc] at this
  · rw [if_neg h1] at h
    split at h <;> simp at h

/-- `version_compare_condition_with_min` answers `True` only if every version satisfying the
condition is at least `minimum` -/
theorem condWithMin_sound (cond : Range) (minimum : List Char)
    (h : condWithMinRange cond minimum = true) (x : Ver) (hx : cond.contains x = true) :
    vge x (tokenize minimum) = true := by
  rw [Range.contains_iff] at hx
  unfold condWithMinRange at h
  rw [vge_iff]
  cases hm : cond.min with
  | none => simp [hm] at h; simp [Range.Mem, h] at hx
  | some m =>
    simp only [hm] at h
    rw [vle_iff] at h
    have := hx.2.1 m hm
    have t := Lt.total x m
    cases hq : cond.minEq <;> simp [hq] at this <;> grind [Lt.irrefl, Lt.trans, Lt.total]


/-! ### The range algebra as `evaluate_if` applies it to feature checks

`GBlock` abstracts a block of build-definition code to its `if`/`elif`/`else` structure, with each condition
reduced to the range its `meson.version().version_compare()` call records (if it makes one) and its truth
value; `runBlock` is `evaluate_codeblock`/`evaluate_if` with `tmp_meson_version` threaded as interpreter
state; a probe logs the project's version range in force where it runs — what a `FeatureNew` check there
reads. -/

/-- the range in force at every executed statement is the range in force outside the block narrowed by exactly
the version checks of the clauses enclosing the statement — whatever `tmp_meson_version` held before, and
however blocks are left (`break`, `continue`, `subdir_done()`); the block is also left the way the control flow
alone prescribes -/
theorem gate_log_eq_spec (b : GBlock) (cur : Range) (tmp : GTmp) :
    (runBlock b cur tmp).log = (pathsBlock b).1.map (fun p => (p.1, narrow cur p.2)) ∧
    (runBlock b cur tmp).sig = (pathsBlock b).2 :=
  runBlock_spec b cur tmp

/-- soundness of the application: a version lies in the range a statement runs under iff it lies in the
outer range and satisfies the check of every enclosing clause that makes one (nothing leaks in from a
sibling clause, an earlier statement, a condition that was evaluated but not taken, or a block that was left
early) -/
theorem gate_sound (b : GBlock) (cur : Range) (tmp : GTmp) (n : Nat) (r : Range)
    (h : (n, r) ∈ (runBlock b cur tmp).log) :
    ∃ path, (n, path) ∈ (pathsBlock b).1 ∧
      ∀ x : Ver, r.contains x = true ↔ (cur.contains x = true ∧ ∀ q ∈ path, q.contains x = true) := by
  rw [(gate_log_eq_spec b cur tmp).1] at h
  obtain ⟨p, hp, he⟩ := List.mem_map.1 h
  refine ⟨p.2, ?_, ?_⟩
  · have : p.1 = n := by simpa using congrArg Prod.fst he
    rw [← this]; exact hp
  · intro x
    have : r = narrow cur p.2 := by simpa using (congrArg Prod.snd he).symm
    rw [this]; exact mem_narrow cur p.2 x

/-- what `tmp_meson_version` holds when a block starts never matters -/
theorem gate_tmp_irrelevant (b : GBlock) (cur : Range) (t1 t2 : GTmp) :
    (runBlock b cur t1).log = (runBlock b cur t2).log := by
  rw [(gate_log_eq_spec b cur t1).1, (gate_log_eq_spec b cur t2).1]

/-- after an `if` statement that is left normally the range in force is the one before it (the next statement
of the same block runs under `cur` again) -/
theorem gate_restored (cs : GClauses) (n : Nat) (cur : Range) (tmp : GTmp)
    (h : (pathsClauses cs).2 = .none) :
    (n, cur) ∈ (runBlock (.cons (.ifs cs) (.cons (.probe n) .nil)) cur tmp).log := by
  rw [(gate_log_eq_spec _ cur tmp).1]
  simp [pathsBlock, pathsStmt, h, narrow]

/-- … and after a `foreach` whose body left a gated block with `break` or `continue` as well: the statement
following the loop runs under `cur` -/
theorem gate_restored_after_loop (body : GBlock) (n : Nat) (cur : Range) (tmp : GTmp)
    (h : (pathsBlock body).2 ≠ .done) :
    (n, cur) ∈ (runBlock (.cons (.loop1 body) (.cons (.probe n) .nil)) cur tmp).log := by
  rw [(gate_log_eq_spec _ cur tmp).1]
  have : (pathsBlock body).2.afterIteration.2 = .none := by
    cases hb : (pathsBlock body).2 <;> simp_all [GSig.afterIteration]
  simp [pathsBlock, pathsStmt, this, narrow]

/-- resetting `tmp_meson_version` once per `if` statement instead of once per clause is NOT equivalent:
`if meson.version().version_compare('>=9') … elif true  probe` -/
theorem gate_hoisted_reset_counterexample :
    let ge9 : Range := Range.new (some (tokenize "9".toList)) true none false
    let prog : GBlock := .cons (.ifs (.cons ⟨some ge9, false⟩ .nil
                                      (.cons ⟨none, true⟩ (.cons (.probe 0) .nil) (.els .nil)))) .nil
    (runBlockH prog {} none).1 ≠ (runBlock prog {} none).log := by
  decide

/-- restoring the range only when the block ends normally or with an error (`except Exception` instead of
`finally`) is NOT equivalent: `foreach … if meson.version().version_compare('>=9') continue endif endforeach probe` -/
theorem gate_restore_on_signal_counterexample :
    let ge9 : Range := Range.new (some (tokenize "9".toList)) true none false
    let prog : GBlock :=
      .cons (.loop1 (.cons (.ifs (.cons ⟨some ge9, true⟩ (.cons (.exit .cont) .nil) (.els .nil))) .nil))
        (.cons (.probe 0) .nil)
    (runBlockL prog {} none).1.log ≠ (runBlock prog {} none).log := by
  decide


/-! ### The entry points through which a build file reaches version comparison

`str.version_compare`, `meson.version().version_compare`, `dependency(version:)`, `subproject(version:)`,
`find_program(version:)`, an external dependency's own check and `project(meson_version:)` each wrap
`version_compare_many`/`version_compare` in logic of their own (`Version/Entry.lean`). -/

/-- `'v'.version_compare(cs…)` holds iff each constraint holds -/
theorem strCompare_iff_all (v : List Char) (cs : List (List Char)) :
    strCompare v cs = true ↔ ∀ c ∈ cs, versionCompare v c = true := compareMany_iff_all v cs

/-- `meson.version().version_compare(cs…)` holds iff each constraint holds — wherever a `!=` constraint
stands in the list and whatever `tmp_meson_version` held -/
theorem mvCompare_iff_all (v : List Char) (cs : List (List Char)) (tmp : GTmp) :
    (mvCompare v cs tmp).1 = true ↔ ∀ c ∈ cs, versionCompare v c = true := compareMany_iff_all v cs

/-- … hence it is the plain string method on the same arguments -/
theorem mvCompare_eq_strCompare (v : List Char) (cs : List (List Char)) (tmp : GTmp) :
    (mvCompare v cs tmp).1 = strCompare v cs := rfl

/-- what the call records for `evaluate_if`: nothing new when some constraint is a `!=` one (the loop with `break`
is an `any`), else the range of the whole list -/
theorem mvCompare_recorded (v : List Char) (cs : List (List Char)) (tmp : GTmp) :
    (mvCompare v cs tmp).2 = if cs.any isUnsupported then tmp else some (versionCheckToRange cs) := by
  simp [mvCompare, scanUnsupported_eq_any]

/-- the recorded range is sound for the version that is running: when the call answered true, the running
version lies in the range it recorded -/
theorem mvCompare_recorded_sound (v : List Char) (cs : List (List Char)) (tmp : GTmp)
    (ht : SoundTmp (tokenize v) tmp) (h : (mvCompare v cs tmp).1 = true) :
    SoundTmp (tokenize v) (mvCompare v cs tmp).2 := by
  intro r hr
  simp only [mvCompare] at hr
  by_cases hu : scanUnsupported cs = true
  · simp only [hu, if_true] at hr; exact ht r hr
  · simp only [hu] at hr
    have : r = versionCheckToRange cs := by simpa using hr.symm
    rw [this]
    exact checkToRange_complete cs {} v (by simp [Range.contains]) ((mvCompare_iff_all v cs tmp).mp h)

/-- fusing the scan for `!=` with the evaluation (one loop, `break` at the first `!=`) is NOT equivalent:
`meson.version().version_compare('!=0', '>=9')` for the running version `1` -/
theorem mvCompare_fused_scan_counterexample :
    mvCompareFused "1".toList ["!=0".toList, ">=9".toList] = true ∧
    (mvCompare "1".toList ["!=0".toList, ">=9".toList] none).1 = false := by decide

/-- `dependency(…, version: wanted)` on a cached / overridden / fallback dependency: accepted iff the found
version is not the placeholder `undefined` and each constraint holds -/
theorem depCheck_iff (found : List Char) (wanted : List (List Char)) (hw : wanted ≠ []) :
    depCheck found wanted = true ↔
      (found ≠ undefinedWord ∧ ∀ c ∈ wanted, versionCompare found c = true) := by
  have hw' : wanted.isEmpty = false := by cases wanted <;> simp_all
  simp only [depCheck, hw', Bool.false_eq_true, if_false]
  rw [← compareMany_iff_all]
  by_cases h1 : found = undefinedWord <;> cases h2 : (versionCompareMany found wanted).1 <;> simp [h1]

theorem subprojectCheck_iff (pv : List Char) (wanted : List (List Char)) (hw : wanted ≠ []) :
    subprojectCheck pv wanted = true ↔
      (pv ≠ undefinedWord ∧ ∀ c ∈ wanted, versionCompare pv c = true) := depCheck_iff pv wanted hw

/-- without a `version:` both accept -/
theorem depCheck_nil (found : List Char) : depCheck found [] = true ∧ subprojectCheck found [] = true := ⟨rfl, rfl⟩

/-- `find_program(…, version: wanted)`: accepted iff each constraint holds for the program's version -/
theorem programCheck_iff_all (version : List Char) (wanted : List (List Char)) :
    programCheck version wanted = true ↔ ∀ c ∈ wanted, versionCompare version c = true := by
  cases wanted with
  | nil => simp [programCheck]
  | cons c cs => simp only [programCheck, List.isEmpty_cons, Bool.false_eq_true, if_false]; exact compareMany_iff_all _ _

/-- an external dependency's own check: an unknown version satisfies no requirement, a known one iff each
constraint holds -/
theorem extDepCheck_iff (version : List Char) (reqs : List (List Char)) (hr : reqs ≠ []) :
    extDepCheck version reqs = true ↔ (version ≠ [] ∧ ∀ c ∈ reqs, versionCompare version c = true) := by
  have hr' : reqs.isEmpty = false := by cases reqs <;> simp_all
  simp only [extDepCheck, hr', Bool.false_eq_true, if_false]
  rw [← compareMany_iff_all]
  cases version <;> simp

/-- `project(meson_version: pv)`: accepted iff the single constraint holds for the running (stable) version; the
range recorded for feature checks is the range of that constraint and contains the running version -/
theorem handleMesonVersion_spec (stable pv : List Char) :
    ((handleMesonVersion stable pv).isSome = versionCompare stable pv) ∧
    ∀ r, handleMesonVersion stable pv = some r →
      r = versionCheckToRange [pv] ∧ r.contains (tokenize stable) = true := by
  unfold handleMesonVersion
  cases h : versionCompare stable pv
  · simp
  · simp only [if_true, Option.isSome_some, true_and]
    intro r hr
    have : r = versionCheckToRange [pv] := by simpa using hr.symm
    refine ⟨this, ?_⟩
    rw [this]
    exact checkToRange_complete [pv] {} stable (by simp [Range.contains]) (by simpa using h)

/-! ### Conditions built from version checks with `not`, `and`, `or`, `== / != <bool>` -/

/-- the value of a condition is its reference truth value: every check is the conjunction of its constraints and
short-circuit evaluation is invisible -/
theorem evalExpr_truth (v : List Char) (e : GExpr) (tmp : GTmp) : (evalExpr v e tmp).1 = e.truth v := by
  induction e generalizing tmp with
  | check cs => simp [evalExpr, mvCompare, GExpr.truth, compareMany_fst]
  | plain b => rfl
  | not e ih => simp [evalExpr, GExpr.truth, ih]
  | and a b iha ihb =>
    simp only [evalExpr, GExpr.truth]
    rw [iha tmp]
    cases a.truth v <;> simp [ihb]
  | or a b iha ihb =>
    simp only [evalExpr, GExpr.truth]
    rw [iha tmp]
    cases a.truth v <;> simp [ihb]
  | cmpb e lit ne ih => simp [evalExpr, GExpr.truth, ih]

/-- soundness of what a condition leaves in `tmp_meson_version`: if the condition evaluated TRUE, the range
recorded (if any) contains the running version — a check under `not`, in the false left operand of `or`, or
inside a comparison records nothing -/
theorem evalExpr_sound (v : List Char) (e : GExpr) (tmp : GTmp)
    (ht : SoundTmp (tokenize v) tmp) (h : (evalExpr v e tmp).1 = true) :
    SoundTmp (tokenize v) (evalExpr v e tmp).2 := by
  induction e generalizing tmp with
  | check cs => exact mvCompare_recorded_sound v cs tmp ht h
  | plain b => exact ht
  | not e _ => exact ht
  | and a b iha ihb =>
    simp only [evalExpr] at h ⊢
    cases hl : (evalExpr v a tmp).1 with
    | true =>
      simp only [hl, if_true] at h ⊢
      exact ihb _ (iha tmp ht hl) h
    | false => simp [hl] at h
  | or a b iha ihb =>
    simp only [evalExpr] at h ⊢
    cases hl : (evalExpr v a tmp).1 with
    | true => simp only [hl, if_true]; exact iha tmp ht hl
    | false =>
      simp only [hl, Bool.false_eq_true, if_false] at h ⊢
      exact ihb tmp ht h
  | cmpb e lit ne _ => exact ht

/-- the recorded range never over-narrows: whatever the running version is and however the condition evaluates,
every version `x` that satisfies each constraint of each positively counted check lies in the range the
condition leaves in `tmp_meson_version` (if it leaves one that was not there before) -/
theorem evalExpr_recorded_complete (v : List Char) (e : GExpr) (tmp : GTmp) (x : List Char)
    (ht : ∀ r, tmp = some r → r.contains (tokenize x) = true)
    (hx : ∀ cs ∈ e.posChecks, ∀ c ∈ cs, versionCompare x c = true) :
    ∀ r, (evalExpr v e tmp).2 = some r → r.contains (tokenize x) = true := by
  induction e generalizing tmp with
  | check cs =>
    intro r hr
    simp only [evalExpr, mvCompare] at hr
    by_cases hu : scanUnsupported cs = true
    · simp only [hu, if_true] at hr; exact ht r hr
    · simp only [hu] at hr
      have : r = versionCheckToRange cs := by simpa using hr.symm
      rw [this]
      exact checkToRange_complete cs {} x (by simp [Range.contains]) (hx cs (by simp [GExpr.posChecks]))
  | plain b => exact ht
  | not e _ => exact ht
  | and a b iha ihb =>
    have ha := iha tmp ht (fun cs h => hx cs (by simp [GExpr.posChecks, h]))
    simp only [evalExpr]
    split
    · exact ihb _ ha (fun cs h => hx cs (by simp [GExpr.posChecks, h]))
    · exact ha
  | or a b iha ihb =>
    simp only [evalExpr]
    split
    · exact iha tmp ht (fun cs h => hx cs (by simp [GExpr.posChecks, h]))
    · exact ihb tmp ht (fun cs h => hx cs (by simp [GExpr.posChecks, h]))
  | cmpb e lit ne _ => exact ht

/-- the clause condition `evaluate_if` sees is sound for the running version -/
theorem toCond_sound (v : List Char) (e : GExpr) : CondSound (tokenize v) (e.toCond v) := by
  intro hv r hr
  exact evalExpr_sound v e none (by intro r h; cases h) hv r hr

/-- the range in force is implied by the conditions having evaluated the way they did: when every clause
condition is sound for the running version `x` and `x` lies in the range in force outside, then `x` lies in the
range in force at EVERY executed statement — in the block of a true clause (narrowed), in a later clause and
in the else block (not narrowed), however blocks are left -/
theorem gate_running_version_in_force (x : Ver) (b : GBlock) (cur : Range) (tmp : GTmp)
    (hb : b.AllConds (CondSound x)) (hx : cur.contains x = true) (n : Nat) (r : Range)
    (h : (n, r) ∈ (runBlock b cur tmp).log) : r.contains x = true := by
  obtain ⟨path, hp, hiff⟩ := gate_sound b cur tmp n r h
  exact (hiff x).mpr ⟨hx, pathsBlock_ok x b hb (n, path) hp⟩

/-- … in particular for every block whose conditions are built from `meson.version().version_compare()` calls,
opaque booleans, `not`, `and`, `or` and comparisons with a boolean, evaluated by the running version `v` -/
theorem gate_exprs_running_version_in_force (v : List Char) (b : GBlock) (cur : Range) (tmp : GTmp)
    (hb : b.AllConds (fun c => ∃ e : GExpr, c = e.toCond v)) (hx : cur.contains (tokenize v) = true)
    (n : Nat) (r : Range) (h : (n, r) ∈ (runBlock b cur tmp).log) : r.contains (tokenize v) = true :=
  gate_running_version_in_force (tokenize v) b cur tmp
    (GBlock.AllConds.mono (fun c ⟨e, he⟩ => he ▸ toCond_sound v e) b hb) hx n r h

/-- keeping what a check under `not` recorded is unsound: `if not meson.version().version_compare('>=9')` runs
its block for the running version `1` under the range `>=9` -/
theorem not_without_restore_counterexample :
    ¬ CondSound (tokenize "1".toList) ((GExpr.not (.check [">=9".toList])).toCondNoRestore "1".toList) := by
  intro h
  have := h (by decide) _ rfl
  revert this; decide

/-- … and so is keeping what the false left operand of `or` recorded: `if version_compare('>=9') or true` -/
theorem or_without_restore_counterexample :
    ¬ CondSound (tokenize "1".toList)
      ((GExpr.or (.check [">=9".toList]) (.plain true)).toCondNoRestore "1".toList) := by
  intro h
  have := h (by decide) _ rfl
  revert this; decide

/-- … and what an operand of a comparison recorded: `if version_compare('>=9') == false` -/
theorem cmp_without_restore_counterexample :
    ¬ CondSound (tokenize "1".toList)
      ((GExpr.cmpb (.check [">=9".toList]) false false).toCondNoRestore "1".toList) := by
  intro h
  have := h (by decide) _ rfl
  revert this; decide

/-! ### Non-vacuity: concrete instances meeting the hypotheses -/

example : vlt (tokenize "1.2".toList) (tokenize "1.10".toList) = true := by decide
example : vlt (tokenize "1.2rc1".toList) (tokenize "1.2.0".toList) = true := by decide
example : versionCompare "1.2.3".toList ">= 1.2".toList = true := by decide
example : (versionCheckToRange [">=1.0".toList, "<2.0".toList, "!=1.0".toList]).contains
    (tokenize "1.5".toList) = true := by decide
example : (Range.new (some (tokenize "1".toList)) true (some (tokenize "3".toList)) false).always
    (Range.new (some (tokenize "0".toList)) true none false) = some true := by decide
example : (Range.new (some (tokenize "1".toList)) true (some (tokenize "3".toList)) false).always
    (Range.new (some (tokenize "4".toList)) true none false) = some false := by decide
example :
    let ge1 : Range := Range.new (some (tokenize "1".toList)) true none false
    let lt3 : Range := Range.new none false (some (tokenize "3".toList)) false
    let prog : GBlock := .cons (.ifs (.cons ⟨some ge1, true⟩
        (.cons (.ifs (.cons ⟨some lt3, true⟩ (.cons (.probe 7) .nil) (.els .nil))) (.cons (.probe 8) .nil))
        (.els .nil))) (.cons (.probe 9) .nil)
    (pathsBlock prog) = ([(7, [ge1, lt3]), (8, [ge1]), (9, [])], .none) := by decide
example : (mvCompare "1.5".toList [">=1.0".toList, "<2".toList] none) =
    (true, some (versionCheckToRange [">=1.0".toList, "<2".toList])) := by decide
example : depCheck "1.2".toList [">=1.0".toList] = true ∧ depCheck "undefined".toList [">=0".toList] = false := by decide
example :
    let e : GExpr := .and (.check [">=1.0".toList]) (.not (.check [">=9".toList]))
    (e.toCond "1.5".toList).own = some (versionCheckToRange [">=1.0".toList]) ∧
    (e.toCond "1.5".toList).val = true := by decide
example :
    let v := "1.5".toList
    let prog : GBlock := .cons (.ifs (.cons ((GExpr.not (.check [">=9".toList])).toCond v)
        (.cons (.probe 1) .nil) (.els .nil))) .nil
    prog.AllConds (fun c => ∃ e : GExpr, c = e.toCond v) := by
  simp only [GBlock.AllConds, GStmt.AllConds, GClauses.AllConds]
  exact ⟨⟨⟨_, rfl⟩, ⟨trivial, trivial⟩, trivial⟩, trivial⟩

end MesonModel.Props.C19
