/-
C03 — Commands receive exactly the arguments the build definition specifies.
Property theorems only; helper lemmas live in `MesonModel/Quote/*Lemmas.lean`.

The quoting functions are the model of /repo's code (`MesonModel/Quote/Model.lean`); the consumers
`ninjaEval`, `shSplit`/`shCommands`, `buildargv` are written specifications of Ninja, POSIX sh
(restricted to the quoters' output language) and libiberty.  Every theorem quantifies over all
strings / all argument lists.
-/
import MesonModel.Quote.RuleLemmas
import MesonModel.Quote.DigestLemmas
import MesonModel.Quote.EnvLemmas
import MesonModel.Quote.GenLemmas
import MesonModel.Quote.AddArgs

namespace MesonModel.Props.C03
open MesonModel.Quote MesonModel.Py

/-! ### Layer round trips -/

/-- sh layer: whatever the strings contain (including newlines, quotes, `$`, globs, non-ASCII), the
shell splits the joined `shlex.quote`d words back into exactly the given list. -/
theorem sh_roundtrip (args : List Str) : shSplit (joinSp (args.map shQuote)) = .ok args := by
  unfold shSplit
  rw [shLex_join_end]
  exact wordsOnly_words args

example : shSplit (joinSp (["a b".toList, [], "it's $x;*\n".toList, "é".toList].map shQuote)) =
    .ok ["a b".toList, [], "it's $x;*\n".toList, "é".toList] := sh_roundtrip _

/-- Ninja layer: a string without newline (and, on a build line, without `|`, which Ninja cannot
escape and `ninja_quote` rejects) is accepted by `ninja_quote` (both variants) and Ninja's evaluation
of the escaped text gives the string back, in every environment. -/
theorem ninja_roundtrip (build : Bool) (env : Str → Str) (s : Str) (h : NoNl s) (hp : build = true → '|' ∉ s) :
    ∃ q, ninjaQuote build s = .ok q ∧ ninjaEval env q = .ok s := by
  refine ⟨ninjaEsc build s, ninjaQuote_eq' build s h hp, ?_⟩
  unfold ninjaEval
  have := nLex_esc build s h []
  simp only [List.append_nil] at this
  rw [this]
  have e := nExpand_lits env s []
  simp only [List.append_nil, nExpand] at e
  simp [nLex, e]

example : NoNl "$a b:c$$".toList := by decide

/-- a newline is never written into the manifest: `ninja_quote` raises -/
theorem ninja_rejects_newline (build : Bool) (s : Str) (h : ¬ NoNl s) :
    ninjaQuote build s = .error .newline := ninjaQuote_newline build s h

/-- response-file layer: `gcc @file` reads back exactly the list that was written with
`gcc_rsp_quote`, whatever the strings contain (backslashes, quotes, whitespace, newlines). -/
theorem rsp_roundtrip (args : List Str) : buildargv (joinSp (args.map gccRspQuote)) = args :=
  bav_join_end args

example : buildargv (joinSp (["-DX=\"a\\b\"".toList, "it's".toList, []].map gccRspQuote)) =
    ["-DX=\"a\\b\"".toList, "it's".toList, []] := rsp_roundtrip _

/-! ### Variable lines of a build statement -/

/-- a shell-quoted variable (`ARGS`, `LINK_ARGS`, `COMMAND`, … — any name outside `raw_names`):
the line is written, and Ninja evaluates its value to the space-joined shell-quoted elements -/
theorem var_line_roundtrip (env : Str → Str) (name : Str) (hn : Generated.rawNames.contains name = false)
    (elems : List Str) (h : ∀ e ∈ elems, NoNl e) :
    ∃ v, varValue shQuote name elems = .ok v ∧
      ninjaEval env v = .ok (joinSp (elems.map (elemQuote shQuote))) := by
  refine ⟨_, varValue_quoted shQuote shQuote_noNl name hn elems h, ?_⟩
  apply ninjaEval_join
  intro x hx
  rw [List.mem_map] at hx
  obtain ⟨e, he, rfl⟩ := hx
  exact elemQuote_noNl shQuote shQuote_noNl e (h e he)

/-- the names the rule shapes below rely on are shell-quoted ones (re-checked against the
regenerated `raw_names` table on every run) -/
theorem quoted_names :
    Generated.rawNames.contains "ARGS".toList = false ∧
    Generated.rawNames.contains "LINK_ARGS".toList = false ∧
    Generated.rawNames.contains "COMMAND".toList = false := by decide

/-- compile/link statements through a response file: `ARGS` written with `gcc_rsp_quote`, evaluated
by Ninja into `rspfile_content`, tokenised by `gcc @file`, is the given list -/
theorem rsp_var_roundtrip (env : Str → Str) (name : Str) (hn : Generated.rawNames.contains name = false)
    (args : List Str) (h : ∀ a ∈ args, NoNl a ∧ a ≠ andand) :
    ∃ v, varValue gccRspQuote name args = .ok v ∧
      (buildargv <$> ninjaEval env v) = .ok args := by
  refine ⟨_, varValue_quoted gccRspQuote gccRspQuote_noNl name hn args (fun a ha => (h a ha).1), ?_⟩
  rw [ninjaEval_join]
  · have : args.map (elemQuote gccRspQuote) = args.map gccRspQuote := by
      apply List.map_congr_left
      intro a ha; simp [elemQuote, (h a ha).2]
    rw [this]; simp [rsp_roundtrip]
  · intro x hx
    rw [List.mem_map] at hx
    obtain ⟨e, he, rfl⟩ := hx
    exact elemQuote_noNl gccRspQuote gccRspQuote_noNl e (h e he).1

/-- an element containing a newline cannot be written into a build statement at all -/
theorem var_line_rejects_newline (name : Str) (pre post : List Str) (bad : Str)
    (hpre : ∀ e ∈ pre, NoNl e) (hbad : ¬ NoNl bad) :
    varValue shQuote name (pre ++ bad :: post) = .error .newline := by
  apply varValue_newline shQuote _ name pre post bad hpre hbad
  intro s
  constructor
  · exact shQuote_noNl s
  · intro hq hs
    apply hq
    unfold shQuote
    split
    · next h => subst h; simp at hs
    · split
      · exact hs
      · unfold replaceChar
        simp only [List.mem_cons, List.mem_append, List.mem_flatMap]
        refine .inr (.inl ⟨'\n', hs, by simp⟩)

/-! ### The `CUSTOM_COMMAND` rule shape end to end (custom_target, run_target, generator) -/

inductive PErr where
  | q (e : QErr) | n (e : NErr) | sh (e : ShErr)
  deriving DecidableEq, Repr

def liftQ {α} : Except QErr α → Except PErr α
  | .ok a => .ok a | .error e => .error (.q e)
def liftN {α} : Except NErr α → Except PErr α
  | .ok a => .ok a | .error e => .error (.n e)
def liftSh {α} : Except ShErr α → Except PErr α
  | .ok a => .ok a | .error e => .error (.sh e)

def sCOMMAND : Str := "COMMAND".toList

/-- `NinjaRule('CUSTOM_COMMAND', ['$COMMAND'], [], …)` -/
def customRule : Rule := { command := [strToCommandArg ('$' :: sCOMMAND)], args := [] }

/-- what a POSIX host executes for a `CUSTOM_COMMAND` build statement whose `COMMAND` is `elems`:
rule text as written by `NinjaRule`, variable line as written by `NinjaBuildElement.write`, both read
back and expanded by Ninja, the resulting string split by `/bin/sh`.  One argv per simple command. -/
def runCustom (elems : List Str) : Except PErr (List (List Str)) := do
  let cmdStr ← liftQ customRule.commandStr
  let v ← liftQ (varValue shQuote sCOMMAND elems)
  let value ← liftN (ninjaEval (fun _ => []) v)
  let e : Edge := { ruleBindings := [(scommand, cmdStr)], vars := [(sCOMMAND, value)], ins := [], outs := [] }
  let c ← liftN (edgeBinding e scommand)
  liftSh (shCommands c)

theorem customRule_commandStr : customRule.commandStr = .ok ('$' :: sCOMMAND) := by decide

theorem edge_command (value : Str) :
    edgeBinding { ruleBindings := [(scommand, '$' :: sCOMMAND)], vars := [(sCOMMAND, value)], ins := [], outs := [] }
      scommand = .ok value := by
  have h : edgeBinding { ruleBindings := [(scommand, '$' :: sCOMMAND)], vars := [(sCOMMAND, value)], ins := [], outs := [] }
      scommand = .ok ([value].flatten) := by rfl
  simpa using h

/-- **command_argv / andand_separates** for the `CUSTOM_COMMAND` shape: a command list made of the
simple commands `cmds` separated by the element `&&` is executed as exactly those argvs — every
argument unchanged, in order, whatever it contains except a newline (newlines are routed through the
pickled wrapper, `newline_forces_serialisation`). -/
theorem custom_command_argv (cmds : List (List Str)) (hne : cmds ≠ [])
    (h : ∀ c ∈ cmds, c ≠ [] ∧ ∀ a ∈ c, NoNl a ∧ a ≠ andand) :
    runCustom (andJoin cmds) = .ok cmds := by
  have hnl : ∀ e ∈ andJoin cmds, NoNl e := by
    clear hne
    induction cmds with
    | nil => simp [andJoin]
    | cons c rest ih =>
      cases rest with
      | nil => intro e he; exact ((h c (by simp)).2 e (by simpa [andJoin] using he)).1
      | cons d rest =>
        intro e he
        simp only [andJoin, List.mem_append, List.mem_cons] at he
        rcases he with he | he | he
        · exact ((h c (by simp)).2 e he).1
        · subst he; exact andand_noNl
        · exact ih (fun x hx => h x (by simp [hx])) e he
  obtain ⟨v, hv, hev⟩ := var_line_roundtrip (fun _ => []) sCOMMAND quoted_names.2.2 (andJoin cmds) hnl
  unfold runCustom
  rw [customRule_commandStr, hv]
  simp only [liftQ, liftN, hev, bind, Except.bind, edge_command]
  unfold shCommands
  rw [shLex_andJoin cmds hne (fun c hc => ⟨(h c hc).1, fun a ha => ((h c hc).2 a ha).2⟩)]
  simp only [bind, Except.bind]
  rw [splitAndAnd_cmdToks cmds hne (fun c hc => (h c hc).1)]
  rfl

/-- the single-command instance: the dumper sees exactly `argv` -/
theorem command_argv (argv : List Str) (hne : argv ≠ []) (h : ∀ a ∈ argv, NoNl a ∧ a ≠ andand) :
    runCustom argv = .ok [argv] := by
  have := custom_command_argv [argv] (by simp) (by simpa using ⟨hne, h⟩)
  simpa [andJoin] using this

/-- `&&` separates two commands and nothing else does -/
theorem andand_separates (c1 c2 : List Str) (h1 : c1 ≠ []) (h2 : c2 ≠ [])
    (h : ∀ a ∈ c1 ++ c2, NoNl a ∧ a ≠ andand) :
    runCustom (c1 ++ andand :: c2) = .ok [c1, c2] := by
  have := custom_command_argv [c1, c2] (by simp)
    (by
      intro c hc
      simp only [List.mem_cons, List.not_mem_nil, or_false] at hc
      rcases hc with rfl | rfl
      · exact ⟨h1, fun a ha => h a (by simp [ha])⟩
      · exact ⟨h2, fun a ha => h a (by simp [ha])⟩)
  simpa [andJoin] using this

example : runCustom ["prog".toList, "a b".toList, "$x;'\"".toList, andand, "p2".toList, [], "*".toList] =
    .ok [["prog".toList, "a b".toList, "$x;'\"".toList], ["p2".toList, [], "*".toList]] :=
  andand_separates ["prog".toList, "a b".toList, "$x;'\"".toList] ["p2".toList, [], "*".toList]
    (by simp) (by simp) (by decide)

/-! ### The compile and link rule shapes end to end (`c_COMPILER`, `c_LINKER`) -/

theorem quoted_arg_names :
    Generated.rawNames.contains sARGS = false ∧ Generated.rawNames.contains sLINK_ARGS = false := by decide

/-- what a POSIX host executes for a compile statement: rule
`NinjaRule(c_COMPILER, exe, ['$ARGS', '-o' '$out' (unquoted words), '-c', '$in'])` as written by
`NinjaRule`, `ARGS` as written by `NinjaBuildElement.write`, both expanded by Ninja for this
statement (`$in`/`$out` shell-escaped by Ninja), the string split by `/bin/sh` -/
def runCompile (exe args : List Str) (out inp : Str) : Except PErr (List Str) := do
  let cmdStr ← liftQ (compileRule exe).commandStr
  let v ← liftQ (varValue shQuote sARGS args)
  let value ← liftN (ninjaEval (fun _ => []) v)
  let e : Edge := { ruleBindings := [(scommand, cmdStr)], vars := [(sARGS, value)], ins := [inp], outs := [out] }
  let c ← liftN (edgeBinding e scommand)
  liftSh (shSplit c)

/-- **command_argv**, compile shape: the compiler is started with exactly its own words, then the
statement's `ARGS` — every element unchanged, same count, same order, whatever it contains except a
newline — then `-o out -c in`.  (`exe` words: no newline, not `&&`, not starting with `$`;
`out`/`in`: non-empty paths over Ninja's shell-safe characters, so that Ninja's own escaping of
`$in`/`$out` is the identity.) -/
theorem compile_command_argv (exe args : List Str) (out inp : Str) (hne : exe ≠ [])
    (hexe : ∀ e ∈ exe, GoodExe e) (hargs : ∀ a ∈ args, NoNl a ∧ a ≠ andand)
    (hout : PlainWord out) (hinp : PlainWord inp) :
    runCompile exe args out inp = .ok (exe ++ args ++ [wO, out, wC, inp]) := by
  obtain ⟨v, hv, hev⟩ := var_line_roundtrip (fun _ => []) sARGS quoted_arg_names.1 args (fun a ha => (hargs a ha).1)
  rw [map_elemQuote_plain args (fun a ha => (hargs a ha).2)] at hev
  unfold runCompile
  rw [compileRule_commandStr exe hne hexe, hv]
  simp only [liftQ, liftN, hev, bind, Except.bind]
  have := compile_edge exe args out inp hexe hout hinp
  unfold compileEdge at this
  rw [this]
  simp only [liftSh, shSplit_pieces]
  simp

example : runCompile ["cc".toList] ["-DX=\"a b\"".toList, "-I$dir".toList, "it's;*".toList] "o/m.c.o".toList "../m.c".toList =
    .ok ["cc".toList, "-DX=\"a b\"".toList, "-I$dir".toList, "it's;*".toList, wO, "o/m.c.o".toList, wC, "../m.c".toList] :=
  compile_command_argv _ _ _ _ (by simp) (by decide) (by decide) (by decide) (by decide)

/-- the same for a link statement: rule `NinjaRule(c_LINKER, exe, ['$ARGS', '-o' '$out', '$in', '$LINK_ARGS'])` -/
def runLink (exe args largs : List Str) (out inp : Str) : Except PErr (List Str) := do
  let cmdStr ← liftQ (linkRule exe).commandStr
  let v ← liftQ (varValue shQuote sARGS args)
  let value ← liftN (ninjaEval (fun _ => []) v)
  let lv ← liftQ (varValue shQuote sLINK_ARGS largs)
  let lvalue ← liftN (ninjaEval (fun _ => []) lv)
  let e : Edge := { ruleBindings := [(scommand, cmdStr)], vars := [(sARGS, value), (sLINK_ARGS, lvalue)],
                    ins := [inp], outs := [out] }
  let c ← liftN (edgeBinding e scommand)
  liftSh (shSplit c)

/-- **command_argv**, link shape: linker words, `ARGS`, `-o out in`, then `LINK_ARGS` — all unchanged -/
theorem link_command_argv (exe args largs : List Str) (out inp : Str) (hne : exe ≠ [])
    (hexe : ∀ e ∈ exe, GoodExe e) (hargs : ∀ a ∈ args, NoNl a ∧ a ≠ andand)
    (hlargs : ∀ a ∈ largs, NoNl a ∧ a ≠ andand) (hout : PlainWord out) (hinp : PlainWord inp) :
    runLink exe args largs out inp = .ok (exe ++ args ++ [wO, out, inp] ++ largs) := by
  obtain ⟨v, hv, hev⟩ := var_line_roundtrip (fun _ => []) sARGS quoted_arg_names.1 args (fun a ha => (hargs a ha).1)
  obtain ⟨lv, hlv, helv⟩ :=
    var_line_roundtrip (fun _ => []) sLINK_ARGS quoted_arg_names.2 largs (fun a ha => (hlargs a ha).1)
  rw [map_elemQuote_plain args (fun a ha => (hargs a ha).2)] at hev
  rw [map_elemQuote_plain largs (fun a ha => (hlargs a ha).2)] at helv
  unfold runLink
  rw [linkRule_commandStr exe hne hexe, hv, hlv]
  simp only [liftQ, liftN, hev, helv, bind, Except.bind]
  have := link_edge exe args largs out inp hexe hout hinp
  unfold linkEdge at this
  rw [this]
  simp only [liftSh, shSplit_pieces]
  simp

/-- a statement that goes through a response file (`c_COMPILER_RSP`): what the shell starts, and what
`gcc` reads from the file Ninja wrote from `rspfile_content` -/
def runCompileRsp (exe args : List Str) (out inp : Str) : Except PErr (List Str × List Str) := do
  let cmdStr ← liftQ (compileRule exe).rspCommandStr
  let content ← liftQ (compileRule exe).rspContentStr
  let v ← liftQ (varValue gccRspQuote sARGS args)
  let value ← liftN (ninjaEval (fun _ => []) v)
  let e : Edge := { ruleBindings := [(scommand, cmdStr), (srspfile_content, content)], vars := [(sARGS, value)],
                    ins := [inp], outs := [out] }
  let c ← liftN (edgeBinding e scommand)
  let file ← liftN (edgeBinding e srspfile_content)
  let argv ← liftSh (shSplit c)
  pure (argv, buildargv file)

/-- **command_argv**, compile shape through a response file: the shell starts `exe… @out.rsp`, and the
file holds exactly `ARGS` (unchanged, any content but a newline) followed by `-o out -c in` -/
theorem compile_rsp_argv (exe args : List Str) (out inp : Str)
    (hexe : ∀ e ∈ exe, GoodExe e) (hargs : ∀ a ∈ args, NoNl a ∧ a ≠ andand)
    (hout : PlainWord out) (hinp : PlainWord inp) :
    runCompileRsp exe args out inp = .ok (exe ++ [atFile out], args ++ [wO, out, wC, inp]) := by
  have hv := varValue_quoted gccRspQuote gccRspQuote_noNl sARGS quoted_arg_names.1 args (fun a ha => (hargs a ha).1)
  have hmap : args.map (elemQuote gccRspQuote) = args.map gccRspQuote := by
    apply List.map_congr_left; intro a ha; simp [elemQuote, (hargs a ha).2]
  rw [hmap] at hv
  have hev := ninjaEval_join (fun _ => []) (args.map gccRspQuote)
    (by intro x hx; rw [List.mem_map] at hx; obtain ⟨a, ha, rfl⟩ := hx; exact gccRspQuote_noNl a (hargs a ha).1)
  unfold runCompileRsp
  rw [show compileRule exe = { command := exe.map strToCommandArg, args := compileArgs } from rfl,
    rspCommandStr_exe exe compileArgs hexe]
  rw [show ({ command := exe.map strToCommandArg, args := compileArgs } : Rule) = compileRule exe from rfl,
    compileRule_rspContentStr, hv]
  simp only [liftQ, liftN, hev, bind, Except.bind]
  have hc := rsp_command_edge (compileRspEdge exe args out inp) exe out hexe hout rfl rfl rfl
  have hf := compile_rsp_content exe args out inp hout hinp
  unfold compileRspEdge at hc hf
  rw [hc, hf]
  simp only [liftSh, shSplit_pieces, bav_pieces, pure, Except.pure]
  simp

def runLinkRsp (exe args largs : List Str) (out inp : Str) : Except PErr (List Str × List Str) := do
  let cmdStr ← liftQ (linkRule exe).rspCommandStr
  let content ← liftQ (linkRule exe).rspContentStr
  let v ← liftQ (varValue gccRspQuote sARGS args)
  let value ← liftN (ninjaEval (fun _ => []) v)
  let lv ← liftQ (varValue gccRspQuote sLINK_ARGS largs)
  let lvalue ← liftN (ninjaEval (fun _ => []) lv)
  let e : Edge := { ruleBindings := [(scommand, cmdStr), (srspfile_content, content)],
                    vars := [(sARGS, value), (sLINK_ARGS, lvalue)], ins := [inp], outs := [out] }
  let c ← liftN (edgeBinding e scommand)
  let file ← liftN (edgeBinding e srspfile_content)
  let argv ← liftSh (shSplit c)
  pure (argv, buildargv file)

/-- **command_argv**, link shape through a response file -/
theorem link_rsp_argv (exe args largs : List Str) (out inp : Str)
    (hexe : ∀ e ∈ exe, GoodExe e) (hargs : ∀ a ∈ args, NoNl a ∧ a ≠ andand)
    (hlargs : ∀ a ∈ largs, NoNl a ∧ a ≠ andand) (hout : PlainWord out) (hinp : PlainWord inp) :
    runLinkRsp exe args largs out inp = .ok (exe ++ [atFile out], args ++ [wO, out, inp] ++ largs) := by
  have hv := varValue_quoted gccRspQuote gccRspQuote_noNl sARGS quoted_arg_names.1 args (fun a ha => (hargs a ha).1)
  have hlv := varValue_quoted gccRspQuote gccRspQuote_noNl sLINK_ARGS quoted_arg_names.2 largs (fun a ha => (hlargs a ha).1)
  have hmap : args.map (elemQuote gccRspQuote) = args.map gccRspQuote := by
    apply List.map_congr_left; intro a ha; simp [elemQuote, (hargs a ha).2]
  have hlmap : largs.map (elemQuote gccRspQuote) = largs.map gccRspQuote := by
    apply List.map_congr_left; intro a ha; simp [elemQuote, (hlargs a ha).2]
  rw [hmap] at hv
  rw [hlmap] at hlv
  have hev := ninjaEval_join (fun _ => []) (args.map gccRspQuote)
    (by intro x hx; rw [List.mem_map] at hx; obtain ⟨a, ha, rfl⟩ := hx; exact gccRspQuote_noNl a (hargs a ha).1)
  have helv := ninjaEval_join (fun _ => []) (largs.map gccRspQuote)
    (by intro x hx; rw [List.mem_map] at hx; obtain ⟨a, ha, rfl⟩ := hx; exact gccRspQuote_noNl a (hlargs a ha).1)
  unfold runLinkRsp
  rw [show linkRule exe = { command := exe.map strToCommandArg, args := linkArgs } from rfl,
    rspCommandStr_exe exe linkArgs hexe]
  rw [show ({ command := exe.map strToCommandArg, args := linkArgs } : Rule) = linkRule exe from rfl,
    linkRule_rspContentStr, hv, hlv]
  simp only [liftQ, liftN, hev, helv, bind, Except.bind]
  have hc := rsp_command_edge (linkRspEdge exe args largs out inp) exe out hexe hout rfl rfl rfl
  have hf := link_rsp_content exe args largs out inp hout hinp
  unfold linkRspEdge at hc hf
  rw [hc, hf]
  simp only [liftSh, shSplit_pieces, bav_pieces, pure, Except.pure]
  simp

example : runCompileRsp ["cc".toList] ["-DX=\"a\\b\"".toList, "it's".toList] "o/m.c.o".toList "../m.c".toList =
    .ok (["cc".toList, "@o/m.c.o.rsp".toList],
         ["-DX=\"a\\b\"".toList, "it's".toList, wO, "o/m.c.o".toList, wC, "../m.c".toList]) :=
  compile_rsp_argv _ _ _ _ (by decide) (by decide) (by decide) (by decide)

/-! ### `escape_extra_args`: backslashes doubled only for per-target `-D` / `/D` -/

def isDefine (a : Str) : Bool := startsWith a ['-', 'D'] || startsWith a ['/', 'D']

/-- what a C string literal (or the preprocessor's view of `\\`) makes of doubled backslashes -/
def unescapePairs : Str → Str
  | '\\' :: '\\' :: r => '\\' :: unescapePairs r
  | c :: r => c :: unescapePairs r
  | [] => []

theorem unescapePairs_dbl (s : Str) : unescapePairs (dbl s) = s := by
  induction s with
  | nil => rfl
  | cons c s ih =>
    have hc : dbl (c :: s) = (if c = '\\' then ['\\', '\\'] else [c]) ++ dbl s := by
      simp [dbl, replaceChar, List.flatMap_cons]
    rw [hc]
    by_cases h : c = '\\'
    · subst h; simp [unescapePairs, ih]
    · simp only [if_neg h, List.cons_append, List.nil_append]
      rw [unescapePairs.eq_def]
      split
      · next heq => simp at heq; exact absurd heq.1 h
      · next heq => simp at heq; rw [← heq.1, ← heq.2, ih]
      · next heq => simp at heq

/-- **define_backslashes_doubled_only_for_D**: count and order are kept; an argument that is not a
`-D`/`/D` define is unchanged; a define has each backslash doubled (and nothing else changed), so
that one level of C unescaping gives the original text back. -/
theorem define_backslashes_doubled_only_for_D (args : List Str) :
    (escapeExtraArgs args).length = args.length ∧
    ∀ i (hi : i < args.length),
      (isDefine args[i] = false → (escapeExtraArgs args)[i]? = some args[i]) ∧
      (isDefine args[i] = true → (escapeExtraArgs args)[i]? = some (dbl args[i]) ∧
                                  unescapePairs (dbl args[i]) = args[i]) := by
  refine ⟨by simp [escapeExtraArgs], ?_⟩
  intro i hi
  constructor
  · intro hd
    simp only [escapeExtraArgs, List.getElem?_map, List.getElem?_eq_getElem hi, Option.map_some]
    unfold isDefine at hd; rw [hd]; rfl
  · intro hd
    refine ⟨?_, unescapePairs_dbl _⟩
    simp only [escapeExtraArgs, List.getElem?_map, List.getElem?_eq_getElem hi, Option.map_some]
    unfold isDefine at hd; rw [hd]; rfl

theorem escape_no_backslash_id (args : List Str) (h : ∀ a ∈ args, '\\' ∉ a) : escapeExtraArgs args = args := by
  unfold escapeExtraArgs
  conv => rhs; rw [← List.map_id args]
  apply List.map_congr_left
  intro a ha
  split
  · exact replaceChar_id _ _ _ (h a ha)
  · rfl

example : escapeExtraArgs ["-DX=\"a\\b\"".toList, "-I\\x".toList, "/DY\\".toList] =
    ["-DX=\"a\\\\b\"".toList, "-I\\x".toList, "/DY\\\\".toList] := by decide

/-! ### Only the documented rewrites in `eval_custom_target_command` -/

/-- **only_documented_rewrites** (word level): a command word without `@` is left alone by the
template substitution whatever the template table is (all template names start with `@`), and a
word without backslash is left alone by the `\\` → `/` normalisation; the normalisation never
changes anything but backslashes (length kept, every other character kept in place). -/
theorem only_documented_rewrites (vs : Values) (hk : ∀ p ∈ vs, p.1.head? = some '@') (w : Str) :
    ('@' ∉ w → subAll vs w.length w = .ok w) ∧
    ('\\' ∉ w → backslashNorm [w] = [w]) ∧
    (backslashNorm [w] = [w.map (fun c => if c = '\\' then '/' else c)]) := by
  refine ⟨fun h => subAll_no_at vs hk w h _ (Nat.le_refl _), fun h => ?_, ?_⟩
  · simp [backslashNorm, replaceChar_id _ _ _ h]
  · simp only [backslashNorm, List.map_cons, List.map_nil, replaceChar]
    congr 1
    induction w with
    | nil => rfl
    | cons c w ih =>
      simp only [List.flatMap_cons, List.map_cons, ih]
      split <;> rfl

/-! ### `as_meson_exe_cmdline`: when the pickled wrapper is used -/

/-- **newline_forces_serialisation**: if any word of the command contains a newline the command is
run through the pickled wrapper (argv is unpickled and passed to `Popen` without a shell). -/
theorem newline_forces_serialisation (r : ExeReq) (h : ∃ a ∈ r.cmdArgs, ¬ NoNl a) :
    asMesonExeCmdline r = .pickled := by
  obtain ⟨a, ha, hnl⟩ := h
  have hmemnl : '\n' ∈ a := Classical.not_not.1 hnl
  have hany : r.cmdArgs.any (·.contains '\n') = true :=
    List.any_eq_true.2 ⟨a, ha, by simpa using hmemnl⟩
  have hmem : Reason.newlines ∈ reasons r := by
    unfold reasons; rw [hany]; simp
  have hne : reasons r ≠ [] := fun e => by rw [e] at hmem; simp at hmem
  have hne2 : reasons r ≠ [.env] := fun e => by rw [e] at hmem; simp at hmem
  unfold asMesonExeCmdline
  simp [hne, hne2]

/-- conversely, whatever is written directly into the build statement is the unchanged command and
has no newline in it, so `command_argv` applies to it -/
theorem direct_is_unchanged (r : ExeReq) (argv : List Str) (h : asMesonExeCmdline r = .direct argv) :
    argv = r.cmdArgs ∧ ∀ a ∈ argv, NoNl a := by
  by_cases hnl : ∃ a ∈ r.cmdArgs, ¬ NoNl a
  · rw [newline_forces_serialisation r hnl] at h; cases h
  · unfold asMesonExeCmdline at h
    simp only at h
    split at h
    · cases h
    · split at h
      · split at h
        · injection h with h; subst h
          refine ⟨rfl, fun a ha => ?_⟩
          exact Classical.not_not.1 (fun hn => hnl ⟨a, ha, hn⟩)
        · cases h
      · cases h

/-- the same for env values (repaired in /repo: `fix: serialise a command whose env value contains a
newline`): a newline in any command word **or any env value** forces the pickled wrapper, so the
`env K=V prog…` shortcut never has to write a newline into the manifest. -/
theorem newline_anywhere_forces_serialisation (r : ExeReq)
    (h : (∃ a ∈ r.cmdArgs, ¬ NoNl a) ∨ (∃ kv ∈ r.envVars, ¬ NoNl kv.2)) :
    asMesonExeCmdline r = .pickled := by
  rcases h with h | ⟨kv, hkv, hnl⟩
  · exact newline_forces_serialisation r h
  · have hne0 : r.envVars ≠ [] := fun e => by rw [e] at hkv; simp at hkv
    have hmemnl : '\n' ∈ kv.2 := Classical.not_not.1 hnl
    have hany : r.envVars.any (·.2.contains '\n') = true :=
      List.any_eq_true.2 ⟨kv, hkv, by simpa using hmemnl⟩
    have hmem : Reason.envNewlines ∈ reasons r := by
      unfold reasons; rw [if_pos (Or.inl hne0), hany]; simp
    have hne : reasons r ≠ [] := fun e => by rw [e] at hmem; simp at hmem
    have hne2 : reasons r ≠ [.env] := fun e => by rw [e] at hmem; simp at hmem
    unfold asMesonExeCmdline
    simp [hne, hne2]

example : asMesonExeCmdline { cmdArgs := ["prog".toList, "x".toList],
                              envVars := [("K".toList, "l1\nl2".toList)] } = .pickled :=
  newline_anywhere_forces_serialisation _ (.inr ⟨("K".toList, "l1\nl2".toList), by decide, by decide⟩)

/-- whenever the `env` shortcut is taken, no env value and no command word contains a newline -/
theorem env_prefix_has_no_newline (r : ExeReq) (argv : List Str) (h : asMesonExeCmdline r = .envPrefix argv) :
    (∀ a ∈ r.cmdArgs, NoNl a) ∧ (∀ kv ∈ r.envVars, NoNl kv.2) := by
  constructor
  · intro a ha
    exact Classical.not_not.1 (fun hn => by
      rw [newline_anywhere_forces_serialisation r (.inl ⟨a, ha, hn⟩)] at h; cases h)
  · intro kv hkv
    exact Classical.not_not.1 (fun hn => by
      rw [newline_anywhere_forces_serialisation r (.inr ⟨kv, hkv, hn⟩)] at h; cases h)

/-- with the words free of newlines nothing is lost
by the `env` shortcut — the words reach `env(1)` unchanged -/
theorem env_prefix_argv (r : ExeReq) (argv : List Str) (h : asMesonExeCmdline r = .envPrefix argv)
    (hnl : ∀ a ∈ argv, NoNl a ∧ a ≠ andand) : runCustom argv = .ok [argv] := by
  apply command_argv argv _ hnl
  unfold asMesonExeCmdline at h
  simp only at h
  split at h
  · injection h with h; subst h; simp
  · split at h
    · split at h <;> cases h
    · cases h

/-! ### The environment a command or test receives

`environment()` objects record operations (`set`/`append`/`prepend` with several values and a
separator, `unset`); `get_env` folds them over a base environment.  The specification is per
variable (`envMeaning`): what a process sees for `n` is determined by what it inherits for `n` and the
operations on `n` alone, in the order they were made. -/

/-- **env_delivered_meaning**: for every operation list, every unset set, every base environment and
every variable, `get_env` yields exactly the documented meaning -/
theorem env_delivered_meaning (e : EnvVars) (dflt : Str → Option Str) (base : Dict) (n : Str) :
    dictGet (getEnv e dflt base) n = envMeaning e dflt base n := getEnv_meaning e dflt base n

/-- values are joined with the operation's own separator, which plays no role for a single value;
`append`/`prepend` put the joined values after / before the current value -/
theorem values_joined_by_own_separator (n v v1 v2 c sep : Str) (cur : Option Str) :
    opValue cur ⟨.set, n, [v], sep⟩ = v ∧
    opValue cur ⟨.set, n, [v1, v2], sep⟩ = v1 ++ sep ++ v2 ∧
    opValue (some c) ⟨.append, n, [v1, v2], sep⟩ = c ++ sep ++ (v1 ++ sep ++ v2) ∧
    opValue (some c) ⟨.prepend, n, [v1, v2], sep⟩ = v1 ++ sep ++ (v2 ++ sep ++ c) ∧
    opValue none ⟨.append, n, [v], sep⟩ = v ∧ opValue none ⟨.prepend, n, [v], sep⟩ = v := by
  simp [opValue, joinSep]

example : dictGet (getEnv { ops := [⟨.set, "V".toList, ["a".toList, "b".toList], ";".toList⟩,
                                    ⟨.append, "P".toList, ["x".toList], ":".toList⟩], unset := ["U".toList] }
                    noDflt [("P".toList, "base".toList), ("U".toList, "u".toList)]) "V".toList = some "a;b".toList := by
  decide

/-- the pickled wrapper (`run_exe`): the wrapped process sees the meaning of the operation list over the
wrapper's own environment -/
theorem pickled_env_meaning (e : EnvVars) (osEnviron : Dict) (n : Str) :
    dictGet (deliverPickled (some e) osEnviron) n = envMeaning e noDflt osEnviron n :=
  getEnv_meaning e noDflt osEnviron n

/-- `meson test`: the selected setup's operations over `os.environ`, then the test's own — an unset of
the test's env is an absent variable -/
theorem test_env_meaning (setup : Option EnvVars) (t : EnvVars) (osEnviron : Dict) (n : Str) :
    dictGet (deliverTest setup t osEnviron) n =
      if t.unset.contains n then none
      else evalVar n none (match setup with
                           | some s => envMeaning s noDflt osEnviron n
                           | none => dictGet osEnviron n) t.ops := by
  unfold deliverTest
  rw [getEnv_meaning]
  unfold envMeaning
  cases setup with
  | none => rfl
  | some s => simp only [getEnv_meaning, noDflt]; rfl

/-- **can_use_env_sound**: after any sequence of API calls on a fresh object (merging only objects that
are themselves sound), `can_use_env` being still set means: nothing but `set` operations, nothing unset -/
theorem can_use_env_sound (cs : List EnvCall) (h : ∀ c ∈ cs, CallOk c) : FlagSound (({} : EnvVars).run cs) :=
  flagSound_run {} cs (fun _ => ⟨by simp, rfl⟩) h

example : (({} : EnvVars).run [.set "A".toList ["x".toList] ":".toList,
                               .merge (({} : EnvVars).run [.append "P".toList ["y".toList] ":".toList])]).canUseEnv = false := by
  decide

/-- **inline_env_agrees_with_pickled**: whenever the inline `env K=V … cmd` form may be taken (only
`set` operations, nothing unset), env(1) started with the words `as_meson_exe_cmdline` writes runs
exactly `cmd`, in an environment that agrees on every variable with the one the pickled wrapper would
have built from the same operation list over the same base -/
theorem inline_env_agrees_with_pickled (e : EnvVars) (hs : OnlySet e) (hn : ∀ op ∈ e.ops, GoodName op.name)
    (c0 : Str) (rest : List Str) (hc : GoodUtility c0) (base : Dict) :
    ∃ D, envUtility base (envAssignments e ++ c0 :: rest) = .ok (D, c0 :: rest) ∧
      ∀ n, dictGet D n = dictGet (deliverPickled (some e) base) n := by
  have hget : getEnv e noDflt [] = e.ops.foldl (applyOp noDflt) [] := by
    unfold getEnv; rw [hs.2]; rfl
  have hkeys : ∀ kv ∈ getEnv e noDflt [], GoodName kv.1 := by
    intro kv hkv
    have hk : kv.1 ∈ keys (e.ops.foldl (applyOp noDflt) []) := by
      rw [← hget]; exact List.mem_map.2 ⟨kv, hkv, rfl⟩
    rcases keys_foldl_ops noDflt e.ops [] kv.1 hk with h0 | ⟨op, hop, hname⟩
    · simp [keys] at h0
    · rw [← hname]; exact hn op hop
  refine ⟨_, envUtility_assignments (getEnv e noDflt []) base c0 rest hkeys hc, ?_⟩
  intro n
  have hnd : (keys (getEnv e noDflt [])).Nodup := by
    rw [hget]; exact nodup_foldl_ops noDflt e.ops [] (by simp [keys])
  rw [dictGet_foldl_assign _ _ _ hnd]
  exact (getEnv_onlySet e hs base n).symm

inductive DErr where
  | p (e : PErr) | u (e : EnvUtilErr) | shape
  deriving DecidableEq, Repr

/-- the inline form end to end: build statement → Ninja → /bin/sh → env(1) → (environment, command) -/
def runInlineEnv (e : EnvVars) (cmd : List Str) (base : Dict) : Except DErr (Dict × List Str) :=
  match runCustom (inlineEnvCmd e cmd) with
  | .error x => .error (.p x)
  | .ok cmds =>
    match cmds with
    | [argv] =>
      (match envUtility base (argv.drop 1) with
       | .ok r => .ok r
       | .error x => .error (.u x))
    | _ => .error .shape

theorem inline_env_end_to_end (e : EnvVars) (hs : OnlySet e) (hn : ∀ op ∈ e.ops, GoodName op.name)
    (c0 : Str) (rest : List Str) (hc : GoodUtility c0) (base : Dict)
    (hw : ∀ w ∈ inlineEnvCmd e (c0 :: rest), NoNl w ∧ w ≠ andand) :
    ∃ D, runInlineEnv e (c0 :: rest) base = .ok (D, c0 :: rest) ∧
      ∀ n, dictGet D n = envMeaning e noDflt base n := by
  obtain ⟨D, hD, hDn⟩ := inline_env_agrees_with_pickled e hs hn c0 rest hc base
  refine ⟨D, ?_, fun n => by rw [hDn n]; exact pickled_env_meaning e base n⟩
  unfold runInlineEnv
  rw [command_argv (inlineEnvCmd e (c0 :: rest)) (by simp [inlineEnvCmd]) hw]
  simp only [inlineEnvCmd]
  have hdrop : List.drop 1 (sEnv :: envAssignments e ++ c0 :: rest) = envAssignments e ++ c0 :: rest := rfl
  rw [hdrop, hD]

/-! ### `generator()`: placeholder expansion touches only the documented placeholders -/

/-- a word of `arguments:` without `@` reaches the command unchanged apart from the established
`\` → `/` rewrite, whatever the input/output/depfile/directory names are -/
theorem generator_word_without_placeholder (c : GenCtx) (w : Str) (h : '@' ∉ w) :
    genArgStages c w = .ok (replaceChar '\\' ['/'] w) := genArgStages_no_at c w h

/-- **extra_args_verbatim**: the strings of `process(extra_args: …)` are spliced in at the element that
is exactly `@EXTRA_ARGS@` — same bytes (placeholder look-alikes and backslashes included), same count,
same order — and the words around it keep their places -/
theorem generator_extra_args_verbatim (c : GenCtx) (pre post extra : List Str)
    (hpre : ∀ w ∈ pre, '@' ∉ w) (hpost : ∀ w ∈ post, '@' ∉ w) :
    genCommandArgs c (pre ++ tEXTRA_ARGS :: post) extra =
      .ok (pre.map (replaceChar '\\' ['/']) ++ extra ++ post.map (replaceChar '\\' ['/'])) := by
  unfold genCommandArgs
  let g : Str → Str := fun w => if w = tEXTRA_ARGS then w else replaceChar '\\' ['/'] w
  have hg : ∀ a ∈ pre ++ tEXTRA_ARGS :: post, genArgStages c a = .ok (g a) := by
    intro a ha
    simp only [List.mem_append, List.mem_cons] at ha
    have plain : '@' ∉ a → genArgStages c a = .ok (g a) := by
      intro h
      have hne : a ≠ tEXTRA_ARGS := by intro e; apply h; rw [e]; decide
      simp only [g, hne, if_false]; exact genArgStages_no_at c a h
    rcases ha with ha | rfl | ha
    · exact plain (hpre a ha)
    · simp only [g, if_true]; exact genArgStages_extra c
    · exact plain (hpost a ha)
  rw [mapM_ok _ g _ hg]
  simp only [bind, Except.bind, pure, Except.pure, List.map_append, List.map_cons]
  have hm : ∀ l : List Str, (∀ w ∈ l, '@' ∉ w) → l.map g = l.map (replaceChar '\\' ['/']) := by
    intro l hl
    apply List.map_congr_left
    intro a ha
    have hne : a ≠ tEXTRA_ARGS := by intro e; apply hl a ha; rw [e]; decide
    simp [g, hne]
  rw [hm pre hpre, hm post hpost]
  have hgE : g tEXTRA_ARGS = tEXTRA_ARGS := by simp [g]
  rw [hgE, replaceExtraArgs_append, show tEXTRA_ARGS :: List.map (replaceChar '\\' ['/']) post =
      [tEXTRA_ARGS] ++ List.map (replaceChar '\\' ['/']) post from rfl, replaceExtraArgs_append]
  rw [replaceExtraArgs_none _ extra (by
        intro x hx; rw [List.mem_map] at hx; obtain ⟨w, hw, rfl⟩ := hx
        exact replaceChar_ne_extra w (hpre w hw)),
      replaceExtraArgs_none (List.map (replaceChar '\\' ['/']) post) extra (by
        intro x hx; rw [List.mem_map] at hx; obtain ⟨w, hw, rfl⟩ := hx
        exact replaceChar_ne_extra w (hpost w hw))]
  simp [replaceExtraArgs]

/-- `@EXTRA_ARGS@` is a placeholder only as a whole element: embedded in a longer word it stays -/
theorem extra_args_only_as_whole_word (w : Str) (extra : List Str) (h : w ≠ tEXTRA_ARGS) :
    replaceExtraArgs [w] extra = [w] := by
  simp [replaceExtraArgs, h]

example : genCommandArgs { infile := "../src/a.in".toList, soleOutput := "x.p/a.h".toList, privDir := "x.p".toList,
                           outfiles := ["a.h".toList], depfile := none, buildToSrc := "../src".toList,
                           sourceTargetDir := "../src".toList }
    ["--in=@INPUT@".toList, "@BASENAME@|@PLAINNAME@".toList, "x@EXTRA_ARGS@".toList, tEXTRA_ARGS, "@OUTPUT0@".toList]
    ["@INPUT@".toList, "a\\b".toList] =
    .ok ["--in=../src/a.in".toList, "a|a.in".toList, "x@EXTRA_ARGS@".toList, "@INPUT@".toList, "a\\b".toList,
         "x.p/a.h".toList] := by decide

/-! ### The global / project argument API: several calls, repeated tokens -/

/-- **add_arguments_concat**: after any history of `add_project_arguments` / `add_global_arguments` /
link-variant / `add_project_dependencies` calls, the list stored for a language is the concatenation, in
call order, of the batches given for that language — nothing dropped, nothing reordered, whether or not a
string already occurs in an earlier batch -/
theorem add_arguments_concat (h : List (List Str × List Str)) (l : Str) :
    argsGet (addHistory [] h) l = h.flatMap (contribution l) := by
  rw [argsGet_addHistory]; rfl

/-- **add_arguments_keeps_multiplicity**: every argument string occurs in the stored list exactly as
often as the calls for that language gave it (a paired option such as `-include` / `-Xlinker` repeated in
a later call is not lost) -/
theorem add_arguments_keeps_multiplicity (h : List (List Str × List Str)) (l t : Str) :
    (argsGet (addHistory [] h) l).count t = (h.map (fun c => (contribution l c).count t)).sum := by
  rw [add_arguments_concat]
  induction h with
  | nil => rfl
  | cons c r ih => simp [List.flatMap_cons, List.count_append, ih]

example : argsGet (addHistory [] [(["c".toList], ["-include".toList, "a.h".toList]),
                                  (["c".toList, "cpp".toList], ["-include".toList, "b.h".toList])]) "c".toList =
    ["-include".toList, "a.h".toList, "-include".toList, "b.h".toList] := by decide

/-! ### `meson --internal exe`: the wrapper's own options never swallow the command -/

def sDashDash : Str := ['-', '-']
def sCapture : Str := ['-', '-', 'c', 'a', 'p', 't', 'u', 'r', 'e']
def sFeed : Str := ['-', '-', 'f', 'e', 'e', 'd']

/-- the option words `as_meson_exe_cmdline` puts in front of `--` -/
def wrapperOpts (cap feed : Option Str) : List Str :=
  (match cap with | some c => [sCapture, c] | none => []) ++
  (match feed with | some f => [sFeed, f] | none => [])

/-- a file name that argparse takes as a value: it does not start with `-` -/
def ValueWord (c : Str) : Prop := c.head? ≠ some '-'

instance (c : Str) : Decidable (ValueWord c) := by unfold ValueWord; infer_instance

theorem classify_value (c : Str) (h : ValueWord c) : classifyArg c = .positional := by
  cases c with
  | nil => rfl
  | cons x r =>
    have hx : x ≠ '-' := by simpa [ValueWord] using h
    simp [classifyArg, hx]

theorem value_ne_dashdash (c : Str) (h : ValueWord c) : c ≠ ['-', '-'] := by
  intro e; subst e; exact h rfl

theorem classify_capture : classifyArg sCapture = .opt .capture none := by decide
theorem classify_feed : classifyArg sFeed = .opt .feed none := by decide

theorem exeScan_sep (n : Nat) (st : ExeArgs) (rest : List Str) :
    exeScan (n + 1) st (sDashDash :: rest) = .ok { st with extras := st.extras ++ sDashDash :: rest } := by
  simp [exeScan, sDashDash]

theorem exeScan_capture (n : Nat) (st : ExeArgs) (c : Str) (rest : List Str) (h : ValueWord c) :
    exeScan (n + 1) st (sCapture :: c :: rest) = exeScan n (st.set .capture c) rest := by
  rw [exeScan, if_neg (by decide), classify_capture]
  simp [value_ne_dashdash c h, classify_value c h]

theorem exeScan_feed (n : Nat) (st : ExeArgs) (c : Str) (rest : List Str) (h : ValueWord c) :
    exeScan (n + 1) st (sFeed :: c :: rest) = exeScan n (st.set .feed c) rest := by
  rw [exeScan, if_neg (by decide), classify_feed]
  simp [value_ne_dashdash c h, classify_value c h]

/-- the classification pass over the option words finds nothing ambiguous -/
theorem opts_not_ambiguous (cap feed : Option Str) (argv : List Str)
    (hc : ∀ c, cap = some c → ValueWord c) (hf : ∀ f, feed = some f → ValueWord f) :
    ((wrapperOpts cap feed ++ sDashDash :: argv).takeWhile (· ≠ ['-', '-'])).any
      (fun a => classifyArg a = .ambiguous) = false := by
  have e1 : sCapture ≠ ['-', '-'] := by decide
  have e2 : sFeed ≠ ['-', '-'] := by decide
  cases cap with
  | none =>
    cases feed with
    | none => simp [wrapperOpts, sDashDash, List.takeWhile]
    | some f =>
      have vf := hf f rfl
      simp [wrapperOpts, sDashDash, List.takeWhile, e2, value_ne_dashdash f vf, classify_feed, classify_value f vf]
  | some c =>
    have vc := hc c rfl
    cases feed with
    | none =>
      simp [wrapperOpts, sDashDash, List.takeWhile, e1, value_ne_dashdash c vc, classify_capture, classify_value c vc]
    | some f =>
      have vf := hf f rfl
      simp [wrapperOpts, sDashDash, List.takeWhile, e1, e2, value_ne_dashdash c vc, value_ne_dashdash f vf,
        classify_capture, classify_feed, classify_value c vc, classify_value f vf]

/-- **exe_wrapper_passes_command**: whatever words the wrapped command consists of — including ones
that look like the wrapper's own options (`--capture`, `--feed=x`, `--unpickle`, abbreviations, `-h`,
a second `--`) — `meson --internal exe [--capture OUT] [--feed IN] -- argv…` runs exactly `argv`
with exactly that capture and feed. -/
theorem exe_wrapper_passes_command (cap feed : Option Str) (argv : List Str) (hne : argv ≠ [])
    (hc : ∀ c, cap = some c → ValueWord c) (hf : ∀ f, feed = some f → ValueWord f) :
    mesonExeParse (wrapperOpts cap feed ++ sDashDash :: argv) = .run cap feed argv := by
  unfold mesonExeParse
  rw [if_neg (by rw [opts_not_ambiguous cap feed argv hc hf]; exact Bool.false_ne_true)]
  cases cap with
  | none =>
    cases feed with
    | none =>
      simp only [wrapperOpts, List.append_nil, List.nil_append, List.length_cons]
      rw [exeScan_sep]
      simp [sDashDash, nonEmpty?, hne]
    | some f =>
      simp only [wrapperOpts, List.nil_append, List.cons_append, List.length_cons]
      rw [exeScan_feed _ _ _ _ (hf f rfl), exeScan_sep]
      simp [sDashDash, ExeArgs.set, nonEmpty?, hne]
  | some c =>
    cases feed with
    | none =>
      simp only [wrapperOpts, List.append_nil, List.cons_append, List.nil_append, List.length_cons]
      rw [exeScan_capture _ _ _ _ (hc c rfl), exeScan_sep]
      simp [sDashDash, ExeArgs.set, nonEmpty?, hne]
    | some f =>
      simp only [wrapperOpts, List.cons_append, List.nil_append, List.length_cons]
      rw [exeScan_capture _ _ _ _ (hc c rfl), exeScan_feed _ _ _ _ (hf f rfl), exeScan_sep]
      simp [sDashDash, ExeArgs.set, nonEmpty?, hne]

example : mesonExeParse (sCapture :: "o.txt".toList :: sDashDash ::
      ["prog".toList, "--capture".toList, "--feed=x".toList, "-h".toList, sDashDash, "--unp".toList]) =
    .run (some "o.txt".toList) none
      ["prog".toList, "--capture".toList, "--feed=x".toList, "-h".toList, sDashDash, "--unp".toList] :=
  exe_wrapper_passes_command (some "o.txt".toList) none _ (by simp) (by intro c h; cases h; decide) (by intro f h; cases h)

/-- …and this is the command line `as_meson_exe_cmdline` writes: its option words are exactly
`wrapperOpts capture feed`, followed (after the `--` that `internalExe` stands for) by the unchanged command -/
theorem internal_exe_shape (r : ExeReq) (opts argv : List Str) (h : asMesonExeCmdline r = .internalExe opts argv) :
    opts = wrapperOpts r.capture r.feed ∧ argv = r.cmdArgs := by
  unfold asMesonExeCmdline at h
  simp only at h
  split at h
  · cases h
  · split at h
    · split at h
      · cases h
      · injection h with h1 h2
        subst h1; subst h2
        exact ⟨rfl, rfl⟩
    · cases h

/-- without the separator the statement is false: the wrapper would take the command's own
`--feed=x` (this is why the `--` must be written) -/
example : mesonExeParse ["--capture".toList, "o.txt".toList, "prog".toList, "--feed=x".toList] =
    .run (some "o.txt".toList) (some "x".toList) ["prog".toList] := by decide

/-- a path with `|` cannot be written on a build line (no escape exists in Ninja): rejected -/
theorem ninja_rejects_pipe (s : Str) (h : NoNl s) (hp : '|' ∈ s) : ninjaQuote true s = .error .pipe := by
  unfold ninjaQuote
  have hn : s.contains '\n' = false := (contains_false_iff _ _).2 h
  have hpc : s.contains '|' = true := by simpa [List.contains_iff_mem] using hp
  rw [if_neg (by rw [hn]; exact Bool.false_ne_true), if_pos (by rw [hpc]; rfl)]

/-! ### `meson test`: the last hop before the test process -/

/-- **test_cmd_independent**: the command of runner `i` is a function of the invocation's wrapper and
`--test-args` and of test `i` alone — it does not depend on which other tests run, how many, or in which
order they were constructed (the implementation must match this for every `i`: a wrapper list shared
and extended in place would not) -/
theorem test_cmd_independent (wrapper extra : List Str) (tests : List (List Str × List Str)) (i : Nat)
    (hi : i < tests.length) :
    (runnerCmds wrapper extra tests)[i]? = some (testCmd wrapper tests[i].1 tests[i].2 extra) := by
  simp [runnerCmds, List.getElem?_map, List.getElem?_eq_getElem hi]

/-- the test's own arguments arrive unchanged — same count, same order — right after the wrapper and
the program, followed only by `--test-args` -/
theorem test_args_arrive (wrapper prog args extra : List Str) :
    (testCmd wrapper prog args extra).drop (wrapper.length + prog.length) = args ++ extra ∧
    (testCmd wrapper prog args extra).take (wrapper.length + prog.length) = wrapper ++ prog ∧
    (testCmd wrapper prog args extra).length = wrapper.length + prog.length + args.length + extra.length := by
  have e : testCmd wrapper prog args extra = (wrapper ++ prog) ++ (args ++ extra) := by
    simp [testCmd, List.append_assoc]
  have l : wrapper.length + prog.length = (wrapper ++ prog).length := by simp
  refine ⟨?_, ?_, ?_⟩
  · rw [e, l, List.drop_left]
  · rw [e, l, List.take_left]
  · simp [testCmd]; omega

/-! ### The pickled wrapper file: different commands, different files -/

/-- with an injective digest, the file name separates two argument lists of one program exactly when
the text fed to the digest does -/
theorem dat_name_injective_iff (H : Str → Str) (hH : ∀ x y, H x = H y → x = y) (enc : List Str → Str) :
    (∀ prog a b, datName H enc prog a = datName H enc prog b → a = b) ↔ (∀ a b, enc a = enc b → a = b) := by
  constructor
  · intro h a b e
    exact h [] a b (by simp only [datName, e])
  · intro h prog a b e
    apply h
    apply hH
    unfold datName at e
    exact List.append_cancel_right (List.append_cancel_left e)

/-- `str(es.cmd_args)` (its quote/escape/separator structure) separates every two argument lists -/
theorem repr_encoding_injective (a b : List Str) (h : reprList a = reprList b) : a = b :=
  reprList_injective a b h

/-- so with it the wrapper file of a command is never shared with a command of the same program that
has other arguments -/
theorem dat_name_separates (H : Str → Str) (hH : ∀ x y, H x = H y → x = y) (prog : Str) (a b : List Str)
    (h : datName H reprList prog a = datName H reprList prog b) : a = b :=
  (dat_name_injective_iff H hH reprList).2 reprList_injective prog a b h

/-- feeding the arguments to the digest one after the other does not: the boundary can move -/
theorem concat_encoding_not_injective :
    ¬ (∀ a b : List Str, concatEnc a = concatEnc b → a = b) := by
  intro h
  have := h [['a', 'b'], ['c']] [['a'], ['b', 'c']] (by decide)
  revert this
  decide

theorem concat_names_collide (H : Str → Str) (prog : Str) :
    datName H concatEnc prog [['a', 'b'], ['c']] = datName H concatEnc prog [['a'], ['b', 'c']] ∧
    datName H concatEnc prog [['a', 'b', 'c']] = datName H concatEnc prog [['a', 'b', 'c'], []] := by
  constructor <;> rfl

end MesonModel.Props.C03
