/-
C04 — the generated Ninja manifest is well-formed and closed.

What is proved here, for *all* inputs:
  (b) the executable checker `wellFormed` that the harness runs (through the driver) on every real `build.ninja` is sound
      and complete for the declarative `WellFormed` (rules defined, no path produced twice, no dependency cycle,
      every input exists or is produced, required targets reachable) — so a verdict `wf=1` of the driver *is* the property
      of that manifest (translation validation: the project quantifier is sampled by the harness, the checker is verified);
  (c) the emission discipline of `NinjaBuild`/`NinjaBuildElement` (model `Emit.lean`, tied to the real classes by the
      harness): whenever `write` succeeds, explicit outputs are pairwise distinct and every build line names `phony`
      or a rule block that is emitted — for every sequence of `add_rule`/`add_build`.
Where the code does not give the full statement (backslash rewriting on build lines, implicit outputs never checked)
the full statement is kept as a `def … : Prop`, refuted on a witness, and the provable part carries the hypothesis.
-/
import MesonModel.Ninja.GraphLemmas
import MesonModel.Ninja.EmitLemmas
import MesonModel.Ninja.Manifest
import MesonModel.Ninja.ManifestLemmas
import MesonModel.Ninja.EndingLemmas

namespace MesonModel.Props.C04
open MesonModel.Ninja

/-! ## (b) the checker -/

section checker
variable {α : Type} [DecidableEq α]

/-- The checker accepts exactly the well-formed graphs. -/
theorem wellFormed_sound_complete (g : Graph α) (fs : List α) (reqs : List (α × α)) :
    wellFormed g fs reqs = true ↔ WellFormed g fs reqs :=
  wellFormed_iff g fs reqs

/-- … in particular for the graph extracted from a parsed manifest (nodes = canonicalised paths). -/
theorem checker_decides_manifest (m : Manifest) (fs : List String) (reqs : List (String × String)) :
    wellFormed m.graph fs reqs = true ↔ WellFormed m.graph fs reqs :=
  wellFormed_iff m.graph fs reqs

/-- The checker with the install clause accepts exactly the graphs that are well-formed and in which every file the
install step copies unconditionally is brought up to date by the `install` target (or, when no statement produces it,
exists). -/
theorem wellFormedInst_sound_complete (g : Graph α) (fs : List α) (reqs : List (α × α)) (iroot : α) (inst : List α) :
    wellFormedInst g fs reqs iroot inst = true ↔ WellFormedInst g fs reqs iroot inst :=
  wellFormedInst_iff g fs reqs iroot inst

/-- clause 8 alone -/
theorem install_clause (fs : List α) (es : List (Edge α)) (iroot : α) (inst : List α) :
    installB fs es iroot inst = true ↔
      (∀ f ∈ inst, (∃ e ∈ es, f ∈ e.outs) → Star (Need es) iroot f) ∧
      (∀ f ∈ inst, (¬ ∃ e ∈ es, f ∈ e.outs) → f ∈ fs) :=
  installB_iff fs es iroot inst

/-- clause 1: every statement's rule is `phony` or defined -/
theorem rules_clause (g : Graph α) :
    rulesDefined g = true ↔ ∀ e ∈ g.edges, e.rule = phony ∨ e.rule ∈ g.rules :=
  rulesDefined_iff g

/-- clause 2: no path is produced twice — neither inside one statement nor by two statements
(implicit outputs are part of `outs`) -/
theorem unique_clause (es : List (Edge α)) :
    outputsDisjoint es = true ↔
      (∀ e ∈ es, e.outs.Nodup) ∧ es.Pairwise (fun e e' => ∀ p, p ∈ e.outs → p ∈ e'.outs → False) :=
  outputsDisjoint_iff es

/-- clause 3: Kahn's rounds succeed iff there is no non-empty dependency path `v →⁺ v` -/
theorem acyclic_clause (es : List (Edge α)) :
    acyclicB es = true ↔ ∀ v, ¬ Plus (Dep es) v v :=
  acyclicB_iff es

/-- clause 4: every explicit / implicit / order-only / validation input exists or is an output -/
theorem closed_clause (fs : List α) (es : List (Edge α)) :
    closedB fs es = true ↔ ∀ e ∈ es, ∀ i, i ∈ e.ins ++ e.vals → i ∈ fs ∨ ∃ e' ∈ es, i ∈ e'.outs :=
  closedB_iff fs es

/-- clause 5: the computed set is exactly what building `root` touches -/
theorem reach_clause (es : List (Edge α)) (root t : α) :
    t ∈ reachSet es root ↔ Star (Need es) root t :=
  mem_reachSet_iff es root t

/-- clause 6: every pool a statement is bound to (by its own `pool =` or its rule's) is declared or is `console`;
no pool is declared twice -/
theorem pools_clause (g : Graph α) :
    poolsB g = true ↔ (∀ e ∈ g.edges, e.pool = [] ∨ e.pool = console ∨ e.pool ∈ g.pools) ∧
      (g.pools.Nodup ∧ console ∉ g.pools) :=
  poolsB_iff g

/-- clause 7: every `default` target is produced by a statement -/
theorem defaults_clause (g : Graph α) :
    defaultsB g = true ↔ ∀ d ∈ g.defaults, ∃ e ∈ g.edges, d ∈ e.outs :=
  defaultsB_iff g

/-- consequence in the property's words: in an accepted graph two different statements never share an output -/
theorem accepted_no_double_producer (g : Graph α) (fs : List α) (reqs : List (α × α))
    (h : wellFormed g fs reqs = true) (i j : Nat) (hij : i < j) (hj : j < g.edges.length) (p : α) :
    ¬ (p ∈ (g.edges[i]'(by omega)).outs ∧ p ∈ (g.edges[j]'hj).outs) := by
  have wf := (wellFormed_iff g fs reqs).1 h
  intro ⟨hi, hj'⟩
  exact (List.pairwise_iff_getElem.1 wf.uniqueAcross) i j (by omega) hj hij p hi hj'

/-- a dependency cycle is always rejected -/
theorem cycle_rejected (g : Graph α) (fs : List α) (reqs : List (α × α)) (v : α) (c : Plus (Dep g.edges) v v) :
    wellFormed g fs reqs = false := by
  cases h : wellFormed g fs reqs with
  | false => rfl
  | true => exact absurd c (((wellFormed_iff g fs reqs).1 h).acyclic v)

end checker

/-! non-vacuity: an accepted graph with a shared header, an implicit output and a test prerequisite;
the same graph with a back edge, a double producer, a missing input, an undefined rule is rejected -/

def exGraph : Graph Nat :=
  { rules := ["CC".toList, "LINK".toList, "GEN".toList],
    edges := [ { rule := "GEN".toList, outs := [10, 11], ins := [1] },          -- g.h g.c from gen.py
               { rule := "CC".toList, outs := [20], ins := [11, 10] },          -- g.c.o (order-only on g.h)
               { rule := "CC".toList, outs := [21], ins := [2, 10] },           -- main.c.o
               { rule := "LINK".toList, outs := [30, 31], ins := [20, 21] },    -- exe (+ implicit output)
               { rule := phony, outs := [100], ins := [30] },                   -- all
               { rule := phony, outs := [101], ins := [30, 10] } ] }            -- meson-test-prereq

example : wellFormed exGraph [1, 2] [(100, 30), (100, 31), (101, 10), (100, 1)] = true := by decide
example : WellFormed exGraph [1, 2] [(100, 30), (101, 10)] := (wellFormed_sound_complete _ _ _).1 (by decide)
-- back edge g.h <- exe
example : wellFormed { exGraph with edges := exGraph.edges ++ [{ rule := phony, outs := [1], ins := [30] }] }
    [1, 2] [] = false := by decide
-- double producer
example : wellFormed { exGraph with edges := exGraph.edges ++ [{ rule := phony, outs := [31], ins := [] }] }
    [1, 2] [] = false := by decide
-- missing source
example : wellFormed exGraph [1] [] = false := by decide
-- undefined rule
example : wellFormed { exGraph with rules := ["CC".toList] } [1, 2] [] = false := by decide
-- test dependency not hanging below the prerequisite target
example : wellFormed exGraph [1, 2] [(101, 21)] = true := by decide
example : wellFormed exGraph [1, 2] [(101, 2), (100, 101)] = false := by decide

-- a statement bound to a pool that is not declared / declared / the built-in one; a default target nobody produces
example : wellFormed { exGraph with edges := exGraph.edges ++ [{ rule := phony, outs := [7], ins := [], pool := "link_pool".toList }] }
    [1, 2] [] = false := by decide
example : wellFormed { exGraph with pools := ["link_pool".toList], defaults := [100],
                                    edges := exGraph.edges ++ [{ rule := phony, outs := [7], ins := [], pool := "link_pool".toList },
                                                               { rule := phony, outs := [8], ins := [], pool := console }] }
    [1, 2] [] = true := by decide
example : wellFormed { exGraph with pools := ["p".toList, "p".toList] } [1, 2] [] = false := by decide
example : wellFormed { exGraph with defaults := [999] } [1, 2] [] = false := by decide

-- the loader gives a statement the pool of its rule when it has none of its own (`Edge::GetBinding`)
set_option maxRecDepth 8000 in
example :
    (match parse "pool link_pool\n depth = 1\nrule L\n command = ld\n pool = link_pool\nbuild a: L b\nbuild c: L d\n pool = console\ndefault a\n".toList with
     | .ok ss => (match load ss with
        | .ok m => (m.graph.pools, m.graph.edges.map (·.pool), m.graph.defaults)
        | .error _ => ([], [], []))
     | .error _ => ([], [], []))
    = (["link_pool".toList], ["link_pool".toList, "console".toList], ["a"]) := by
  decide

/-- the manifest reader on a small text: escapes, implicit output, order-only input, canonicalisation -/
example :
    (match parse "rule R\n command = x\nbuild a$ b | i: R ./s/../t.c | u || v\n d = 1\nbuild all: phony a$ b\ndefault all\n".toList with
     | .ok ss => (match load ss with
        | .ok m => m.graph.edges.map (fun e => (e.outs, e.ins))
        | .error _ => [])
     | .error _ => [])
    = [(["a b", "i"], ["t.c", "u", "v"]), (["all"], ["a b"])] := by
  decide

/-! ## (a) what the backend writes for a path is what Ninja reads -/

/-- `ninja_quote(name, True)` accepts exactly the names without newline and without `|` -/
theorem quote_accepts_iff (name : Str) :
    (∃ q, Emit.ninjaQuoteBuild name = some q) ↔ ('\n' ∉ name ∧ '|' ∉ name) := by
  unfold Emit.ninjaQuoteBuild
  by_cases h : '\n' ∈ name ∨ '|' ∈ name
  · simp only [if_pos h]
    constructor
    · rintro ⟨q, hq⟩
      cases hq
    · intro ⟨h1, h2⟩
      rcases h with h | h
      · exact absurd h h1
      · exact absurd h h2
  · simp only [if_neg h]
    refine ⟨fun _ => ⟨fun h1 => h (.inl h1), fun h2 => h (.inr h2)⟩, fun _ => ⟨_, rfl⟩⟩

/-- For every name that `ninja_quote(name, True)` accepts (it raises for newline and, since the repair, for `|`) and
that holds no carriage return: the quoted text, followed by anything that ends a path on a build line (blank, `:`, `|`,
end of line), is read by the manifest lexer as exactly `name` (literal pieces only, no variable reference),
whatever the variable environment. -/
theorem quote_read_roundtrip (name q : Str) (hq : Emit.ninjaQuoteBuild name = some q) (hcr : '\r' ∉ name)
    (c0 : Char) (h0 : isTerm c0) (tail : Str) (env : List (Str × Str)) :
    ∃ e, readEval true (name.length + 1) false (q ++ c0 :: tail) [] = .ok (e, c0 :: tail) ∧ evalStr env e = name := by
  unfold Emit.ninjaQuoteBuild at hq
  split at hq
  · cases hq
  · next hbad =>
    cases hq
    have hplain : ∀ c ∈ name, PlainChar c := by
      intro c hc
      refine ⟨?_, ?_, ?_⟩
      · intro h; subst h; exact hbad (.inl hc)
      · intro h; subst h; exact hcr hc
      · intro h; subst h; exact hbad (.inr hc)
    refine ⟨name.map Piece.lit, ?_, evalStr_lits env name⟩
    simpa using readEval_quote name hplain c0 h0 tail [] (name.length + 1) (Nat.le_refl _)

/-- the statement for *every* accepted name (no carriage-return exclusion) -/
def quote_read_roundtrip_full : Prop :=
  ∀ (name q : Str), Emit.ninjaQuoteBuild name = some q → ∀ (tail : Str),
    ∃ e, readEval true (name.length + 1) false (q ++ ':' :: tail) [] = .ok (e, ':' :: tail) ∧ evalStr [] e = name

/-- … still fails on a lone carriage return, which `ninja_quote` lets through and Ninja's lexer refuses
(residual corner: not reachable from the project generator, `\r` in a target name) -/
theorem quote_read_roundtrip_cr_counterexample : ¬ quote_read_roundtrip_full := by
  intro h
  obtain ⟨e, h1, _⟩ := h "a\rb".toList _ rfl []
  revert h1
  simp [Emit.quoteChars, readEval]

/-- non-vacuity: a name with blank, colon, dollar and non-ASCII letters is accepted -/
example : Emit.ninjaQuoteBuild "a b:c$é".toList = some "a$ b$:c$$é".toList := by decide
example : Emit.ninjaQuoteBuild "a|b".toList = none := by decide
example : isTerm ':' := .inr (.inl rfl)

/-- the names the round trip covers: non-empty, accepted by `ninja_quote(…, True)`, no carriage return -/
theorem goodName_iff (p : Str) :
    GoodName p ↔ p ≠ [] ∧ (∃ q, Emit.ninjaQuoteBuild p = some q) ∧ '\r' ∉ p := by
  rw [quote_accepts_iff]
  unfold GoodName PlainChar
  constructor
  · intro ⟨hne, h⟩
    exact ⟨hne, ⟨fun hc => (h _ hc).1 rfl, fun hc => (h _ hc).2.2 rfl⟩, fun hc => (h _ hc).2.1 rfl⟩
  · intro ⟨hne, ⟨h1, h2⟩, h3⟩
    refine ⟨hne, fun c hc => ⟨?_, ?_, ?_⟩⟩
    · intro h; subst h; exact h1 hc
    · intro h; subst h; exact h3 hc
    · intro h; subst h; exact h2 hc

/-- **parse ∘ print** for the build statements: the text that `NinjaBuildElement.write` lays out for a list of build
lines (`Emit.printBuilds`: `build outs[ | implicit outs]: rule ins[ | deps][ || order-only deps]`, a blank line after
each) is read back by the manifest parser as exactly those statements — every name as a string of literal pieces, in
the same group, in the same order — for all lines whose names are good (`goodName_iff`), with at least one explicit
output and a rule name of identifier characters. No size side condition: the fuel `parse` derives from the text
length always suffices. -/
theorem parse_print_manifest (bs : List Emit.OutBuild) (hg : ∀ b ∈ bs, GoodLine0 b) :
    parse (Emit.printBuilds bs) = .ok (bs.map (fun b => Stmt.build (synOf b))) :=
  parse_printBuilds bs hg

/-- non-vacuity: a line with every group present and names holding blank, `$`, `:` -/
def exLine : Emit.OutBuild :=
  { outs := ["a b".toList, "c$".toList], implOuts := ["i:1".toList], rule := "c_COMPILER".toList,
    ins := ["x.c".toList], deps := ["d".toList], orderdeps := ["g.h".toList, "é".toList] }

example : Emit.printBuilds [exLine]
    = "build a$ b c$$ | i$:1: c_COMPILER x.c | d || g.h é\n\n".toList := by decide

example : GoodLine0 exLine := by
  refine ⟨?_, by decide, ?_, ⟨by decide, by decide⟩, ?_, ?_, ?_⟩ <;>
    (unfold GoodName PlainChar exLine; decide)

/-! ## (c) the emission discipline -/

open MesonModel.Ninja.Emit

/-- If `NinjaBuild.write` succeeds, the explicit output names handed to `add_build` over the whole run were
pairwise distinct (duplicates inside one element included) — for every operation sequence. -/
theorem emission_unique_outputs (ops : List Op) (out : Out) (h : emit ops = .ok out) :
    (ops.flatMap opOuts).Nodup :=
  write_ok_names_nodup h

/-- full statement about the *written text*: explicit outputs of the emitted build lines are pairwise distinct -/
def emission_unique_outputs_text : Prop :=
  ∀ (ops : List Op) (out : Out), emit ops = .ok out → (out.builds.flatMap (·.outs)).Nodup

/-- it holds when no output name contains a backslash … -/
theorem emission_unique_outputs_text_partial (ops : List Op) (out : Out) (h : emit ops = .ok out)
    (hbs : ∀ o ∈ ops.flatMap opOuts, NoBs o) :
    (out.builds.flatMap (·.outs)).Nodup := by
  rw [write_ok_builds h, map_slash_of_noBs hbs]
  exact write_ok_names_nodup h

/-- … and fails otherwise: `write` turns every backslash of a build line into `/` *after* `check_outputs` compared
the raw names (on POSIX hosts meson's own target names cannot contain either separator) -/
theorem emission_unique_outputs_text_counterexample : ¬ emission_unique_outputs_text := by
  intro h
  have := h [.addBuild ["a\\b".toList] [] phony [] [] [] false, .addBuild ["a/b".toList] [] phony [] [] [] false]
    _ rfl
  revert this
  decide

/-- full statement: every emitted build line names `phony` or an emitted rule block -/
def emission_rules_defined_text : Prop :=
  ∀ (ops : List Op) (out : Out), emit ops = .ok out → ∀ b ∈ out.builds, b.rule = phony ∨ b.rule ∈ out.rules

/-- If `write` succeeds then every build line names `phony` or a rule block that `write` emits (`X` or `X_RSP`
according to the element's own response-file decision) — for every operation sequence whose rule names are free
of backslashes. -/
theorem emission_rules_defined (ops : List Op) (out : Out) (h : emit ops = .ok out)
    (hbs : ∀ rn ∈ ops.flatMap opRuleNames, NoBs rn) :
    ∀ b ∈ out.builds, b.rule = phony ∨ b.rule ∈ out.rules := by
  intro b hb
  obtain ⟨rn, hrn, hcase⟩ := write_ok_rules h b hb
  have hn := hbs rn hrn
  rcases hcase with ⟨_, h2⟩ | ⟨h1, h2⟩ | ⟨h1, h2⟩
  · exact .inl h2
  · right
    rw [h1, slash_of_noBs hn]
    exact h2
  · right
    have hn' : NoBs (rn ++ rspSuffix) := by
      intro c hc
      rcases List.mem_append.1 hc with hc | hc
      · exact hn c hc
      · have hsuf : ∀ c ∈ rspSuffix, c ≠ '\\' := by decide
        exact hsuf c hc
    rw [h1, slash_of_noBs hn']
    exact h2

theorem emission_rules_defined_text_counterexample : ¬ emission_rules_defined_text := by
  intro h
  have := h [.addRule "R\\1".toList false, .addBuild ["o".toList] [] "R\\1".toList [] [] [] false] _ rfl
  revert this
  decide

/-- implicit outputs are never looked at by `check_outputs`: the emitted text can produce one path twice
(this is why the per-project checker includes implicit outputs in clause 2) -/
theorem emission_implicit_outputs_unchecked :
    ∃ (ops : List Op) (out : Out), emit ops = .ok out ∧
      ¬ (out.builds.flatMap (fun b => b.outs ++ b.implOuts)).Nodup :=
  ⟨[.addBuild ["a".toList] ["x".toList] phony [] [] [] false, .addBuild ["b".toList] ["x".toList] phony [] [] [] false],
   _, rfl, by decide⟩

/-- `add_build` attaches the rule at the moment the element is added: a rule registered afterwards does not help,
`write` fails (AttributeError in the code) -/
example : emit [.addBuild ["o".toList] [] "R".toList [] [] [] false, .addRule "R".toList false] = .error .unmappedRule := by
  rfl

/-- the collision is only *recorded* by `add_build`; it is `write` that refuses -/
example : emit [.addBuild ["o".toList] [] phony [] [] [] false, .addBuild ["p".toList, "o".toList] [] phony [] [] [] false]
    = .error .multipleProducers := by rfl

/-- non-vacuity of the hypotheses of the two emission theorems: a run with a plain and a response-file use of one rule -/
example :
    (match emit [.addRule "CC".toList true,
                 .addBuild ["a.o".toList] [] "CC".toList ["a.c".toList] [] ["g.h".toList] false,
                 .addBuild ["b.o".toList] [] "CC".toList ["b.c".toList] ["z".toList, "y".toList, "z".toList] [] true,
                 .addBuild ["all".toList] [] phony ["a.o".toList, "b.o".toList] [] [] false] with
     | .ok out => (out.rules, out.builds.map (fun b => (b.outs, b.rule, b.deps)))
     | .error _ => ([], []))
    = (["CC".toList, "CC_RSP".toList],
       [(["a.o".toList], "CC".toList, []), (["b.o".toList], "CC_RSP".toList, ["y".toList, "z".toList]),
        (["all".toList], phony, [])]) := by
  decide

/-! ## (d) the aggregate targets `all`, `meson-test-prereq`, `meson-benchmark-prereq`, `install` — for every target table

`Ending.lean` models how `build_by_default` is computed by the target constructors, `get_build_by_default_targets`,
`get_testlike_targets`, the phony statements of `generate_ending` and the `install` statement of `generate_install`.
`es` below is any statement list that contains what those emitters write; `Produces es t` says that the statement
written for the target itself has all of the target's outputs among its outputs (that emitter is not modelled: the
hypothesis is checked per project by the verified checker, clause 5). -/

section ending
open MesonModel.Ninja.Ending

/-- the attribute the backend reads is the documented rule: build targets default to built-by-default and an installed
build target is built by default whatever `build_by_default:` says; for `custom_target()` an explicit keyword decides,
otherwise `install:`, otherwise the deprecated `build_always:`, otherwise false -/
theorem built_by_default_is_documented_rule (t : Target) : t.buildByDefault = true ↔ DocBuiltByDefault t :=
  buildByDefault_iff_doc t

/-- `get_testlike_targets` yields exactly the targets a test runs or depends on (program, arguments — also through a
`find_program` override or as an output index — and `depends:`) -/
theorem testlike_sound_complete (tests : List Test) (t : Target) : t ∈ testlike tests ↔ ∃ x ∈ tests, Uses x t :=
  mem_testlike_iff tests t

/-- every output of every target that is built by default (documented rule) is reachable from `all` -/
theorem all_reaches_default_targets (tbl : List Target) (tests benches : List Test) (es : List (Edge Str))
    (h : ∀ e ∈ endingEdges tbl tests benches, e ∈ es) (t : Target) (ht : t ∈ tbl) (hd : DocBuiltByDefault t)
    (hp : Produces es t) (p : Str) (hpp : p ∈ t.paths) : Star (Need es) allName p :=
  aggregate_reaches (ts := buildByDefaultTargets tbl) (h _ (allEdge_mem tbl tests benches))
    (List.mem_filter.2 ⟨ht, (buildByDefault_iff_doc t).2 hd⟩) hp hpp

/-- every output of every target a test runs or depends on is reachable from `meson-test-prereq` -/
theorem test_prereq_reaches_used_targets (tbl : List Target) (tests benches : List Test) (es : List (Edge Str))
    (h : ∀ e ∈ endingEdges tbl tests benches, e ∈ es) (x : Test) (hx : x ∈ tests) (t : Target) (hu : Uses x t)
    (hp : Produces es t) (p : Str) (hpp : p ∈ t.paths) : Star (Need es) testPrereqName p :=
  aggregate_reaches (h _ (testEdge_mem tbl tests benches)) ((mem_testlike_iff tests t).2 ⟨x, hx, hu⟩) hp hpp

/-- … and the same for benchmarks and `meson-benchmark-prereq` -/
theorem benchmark_prereq_reaches_used_targets (tbl : List Target) (tests benches : List Test) (es : List (Edge Str))
    (h : ∀ e ∈ endingEdges tbl tests benches, e ∈ es) (x : Test) (hx : x ∈ benches) (t : Target) (hu : Uses x t)
    (hp : Produces es t) (p : Str) (hpp : p ∈ t.paths) : Star (Need es) benchPrereqName p :=
  aggregate_reaches (h _ (benchEdge_mem tbl tests benches)) ((mem_testlike_iff benches t).2 ⟨x, hx, hu⟩) hp hpp

/-- every file the install step copies unconditionally for a target is reachable from `install`
(`install` → `meson-internal__install` → `all` → first output → sibling outputs) -/
theorem install_reaches_mandatory_files (tbl : List Target) (tests benches : List Test) (es : List (Edge Str))
    (h : ∀ e ∈ endingEdges tbl tests benches, e ∈ es) (hi : ∀ e ∈ installEdges, e ∈ es)
    (t : Target) (ht : t ∈ tbl) (hp : Produces es t) (p : Str) (hpp : p ∈ mandatoryInstall t) :
    Star (Need es) installName p :=
  star_trans (install_reaches_all hi)
    (aggregate_reaches (ts := buildByDefaultTargets tbl) (h _ (allEdge_mem tbl tests benches))
      (List.mem_filter.2 ⟨ht, mandatoryInstall_builtByDefault t p hpp⟩) hp (mandatoryInstall_subset t p hpp))

/-- the requirements the harness hands to the checker, as a function of the table -/
def endingReqs (tbl : List Target) (tests benches : List Test) : List (Str × Str) :=
  (buildByDefaultTargets tbl).flatMap (fun t => t.paths.map (fun p => (allName, p))) ++
  (testlike tests).flatMap (fun t => t.paths.map (fun p => (testPrereqName, p))) ++
  (testlike benches).flatMap (fun t => t.paths.map (fun p => (benchPrereqName, p)))

/-- In the checker's terms: for every target table, clause 5 accepts the requirements of the table on any statement
list holding the aggregate statements and one producing statement per target. -/
theorem ending_satisfies_reach_clause (tbl : List Target) (tests benches : List Test) (es : List (Edge Str))
    (h : ∀ e ∈ endingEdges tbl tests benches, e ∈ es)
    (hp : ∀ t, t ∈ tbl ∨ t ∈ testlike tests ∨ t ∈ testlike benches → Produces es t) :
    reqsOk es (endingReqs tbl tests benches) = true := by
  rw [reqsOk_iff]
  intro rt hrt
  simp only [endingReqs, List.mem_append, List.mem_flatMap, List.mem_map] at hrt
  rcases hrt with (⟨t, ht, p, hpp, rfl⟩ | ⟨t, ht, p, hpp, rfl⟩) | ⟨t, ht, p, hpp, rfl⟩
  · exact aggregate_reaches (h _ (allEdge_mem tbl tests benches)) ht (hp t (.inl (List.mem_filter.1 ht).1)) hpp
  · exact aggregate_reaches (h _ (testEdge_mem tbl tests benches)) ht (hp t (.inr (.inl ht))) hpp
  · exact aggregate_reaches (h _ (benchEdge_mem tbl tests benches)) ht (hp t (.inr (.inr ht))) hpp

/-- … and clause 8 accepts what `generate_target_install` lists as non-optional. -/
theorem ending_satisfies_install_clause (tbl : List Target) (tests benches : List Test) (es : List (Edge Str))
    (fs : List Str) (h : ∀ e ∈ endingEdges tbl tests benches, e ∈ es) (hi : ∀ e ∈ installEdges, e ∈ es)
    (hp : ∀ t ∈ tbl, Produces es t) :
    installB fs es installName (tbl.flatMap mandatoryInstall) = true := by
  rw [installB_iff]
  refine ⟨fun f hf _ => ?_, fun f hf hnp => ?_⟩
  · obtain ⟨t, ht, hft⟩ := List.mem_flatMap.1 hf
    exact install_reaches_mandatory_files tbl tests benches es h hi t ht (hp t ht) f hft
  · obtain ⟨t, ht, hft⟩ := List.mem_flatMap.1 hf
    obtain ⟨e, he, hall⟩ := hp t ht
    exact absurd ⟨e, he, hall f (mandatoryInstall_subset t f hft)⟩ hnp

/-- non-vacuity: the combination `install: true` + `build_by_default: false` on a build target is built by default and
listed in `all`; on a custom target it is not, and its install entry is optional -/
def exTool : Target := { kind := .build, dir := [], out0 := "tool".toList, bbdKw := some false, install := true }
def exGen : Target := { kind := .custom, dir := "sub".toList, out0 := "g.h".toList, outRest := ["g.c".toList],
                        bbdKw := some false, install := true, instMask := [true, false] }
def exDoc : Target := { exGen with bbdKw := none }

example : exTool.buildByDefault = true ∧ exGen.buildByDefault = false ∧ exDoc.buildByDefault = true := by decide
example : (endingEdges [exTool, exGen, exDoc] [{ exe := .localTarget exGen, args := [.index exDoc, .other] }] []).map (·.ins)
    = [["tool".toList, "sub/g.h".toList], ["sub/g.h".toList, "sub/g.h".toList], []] := by decide
example : mandatoryInstall exTool = ["tool".toList] ∧ mandatoryInstall exGen = [] ∧ optionalInstall exGen = ["sub/g.h".toList]
    ∧ mandatoryInstall exDoc = ["sub/g.h".toList] := by decide
example : Produces [{ rule := customCommand, outs := exGen.paths, ins := [] }] exGen := ⟨_, List.mem_singleton.2 rfl, fun _ h => h⟩

end ending

end MesonModel.Props.C04
