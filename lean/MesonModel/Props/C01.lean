/-
C01 — build definitions evaluate exactly as the language reference prescribes.

Property theorems over the evaluator model (`MesonModel/Eval/Model.lean`), for ALL trees / values /
states; helper lemmas live in `MesonModel/Eval/Lemmas.lean`.  The operator and method tables the
statements depend on are the regenerated ones (`Generated/EvalTables.lean`).
-/
import MesonModel.Eval.Lemmas
import MesonModel.Eval.Frame
import MesonModel.Eval.StrLemmas

namespace MesonModel.Props.C01
open MesonModel.Eval MesonModel.Generated MesonModel.Py

/-- evaluation of `n` entered with `current_node` set to line `ln` -/
abbrev at_ (s : St) (ln : Nat) : St := { s with line := ln }

/- the entry points for `subdir()` / `subproject()` (`hooksFor files` for a source tree `files`);
everything below holds for all of them -/
variable (hk : Hooks)

/-! ### short-circuit `and` / `or` -/

/-- if the left operand of `and` is false, the result is `false` in the state the left operand left
behind, whatever the right operand is: it is not evaluated (not even when it would fail) -/
theorem and_short_circuit (ln : Nat) (l r : Node) (s s1 : St) (v : Val)
    (hl : eval hk l (at_ s ln) = .ok (some v) s1)
    (hv : operatorCall v .bool none = .ok (.bool false)) :
    eval hk (.and_ ln l r) s =
      .ok (some (.bool false))
        { s1 with cov := .note cs!"and:short-circuit" :: .unary .bool v.ty none :: s1.cov } := by
  simp [eval, bind, EvalM.bind, setLine, hl, truth, liftE, hv, tag, pure, EvalM.pure]

/-- hence replacing the right operand by any other expression changes nothing -/
theorem and_right_operand_irrelevant (ln : Nat) (l r r' : Node) (s s1 : St) (v : Val)
    (hl : eval hk l (at_ s ln) = .ok (some v) s1)
    (hv : operatorCall v .bool none = .ok (.bool false)) :
    eval hk (.and_ ln l r) s = eval hk (.and_ ln l r') s := by
  rw [and_short_circuit hk ln l r s s1 v hl hv, and_short_circuit hk ln l r' s s1 v hl hv]

theorem or_short_circuit (ln : Nat) (l r : Node) (s s1 : St) (v : Val)
    (hl : eval hk l (at_ s ln) = .ok (some v) s1)
    (hv : operatorCall v .bool none = .ok (.bool true)) :
    eval hk (.or_ ln l r) s =
      .ok (some (.bool true))
        { s1 with cov := .note cs!"or:short-circuit" :: .unary .bool v.ty none :: s1.cov } := by
  simp [eval, bind, EvalM.bind, setLine, hl, truth, liftE, hv, tag, pure, EvalM.pure]

theorem or_right_operand_irrelevant (ln : Nat) (l r r' : Node) (s s1 : St) (v : Val)
    (hl : eval hk l (at_ s ln) = .ok (some v) s1)
    (hv : operatorCall v .bool none = .ok (.bool true)) :
    eval hk (.or_ ln l r) s = eval hk (.or_ ln l r') s := by
  rw [or_short_circuit hk ln l r s s1 v hl hv, or_short_circuit hk ln l r' s s1 v hl hv]

/-- a failing left operand decides the whole expression too -/
theorem and_left_error (ln : Nat) (l r r' : Node) (s s1 : St) (e : ErrK)
    (hl : eval hk l (at_ s ln) = .err e s1) :
    eval hk (.and_ ln l r) s = .err e s1 ∧ eval hk (.or_ ln l r') s = .err e s1 := by
  constructor <;> simp [eval, bind, EvalM.bind, setLine, hl]

/-- only `bool` has a truth value: `and`/`or`/`if`/ternary on anything else is an error -/
theorem truth_only_bool (v : Val) (b : Bool) (h : operatorCall v .bool none = .ok (.bool b)) :
    v = .bool b := by
  cases v <;> simp [operatorCall, opEntry, opEntryIn, EvalTables.opTable, Val.ty, opBody] at h
  exact congrArg Val.bool h

example : ∃ s1, eval (hooksFor []) (.and_ 1 (.bool 1 false) (.id 1 cs!"undefined")) {} = .ok (some (.bool false)) s1 :=
  ⟨_, and_short_circuit (hooksFor []) 1 (.bool 1 false) _ {} _ (.bool false) rfl rfl⟩

/-! ### integer division and modulo -/

/-- `a / b` is the floor of the quotient -/
theorem div_floor (a b : Int) (hb : b ≠ 0) :
    operatorCall (.int a) .div (some (.int b)) = .ok (.int (pyFloorDiv a b)) ∧
    (b > 0 → b * pyFloorDiv a b ≤ a ∧ a < b * pyFloorDiv a b + b) ∧
    (b < 0 → a ≤ b * pyFloorDiv a b ∧ b * pyFloorDiv a b + b < a) := by
  refine ⟨?_, pyFloorDiv_pos a b, pyFloorDiv_neg a b⟩
  simp [operatorCall, opEntry, opEntryIn, EvalTables.opTable, isInstance, Val.ty, opBody, asInt, intOp, hb]

/-- `a % b` has the sign of the divisor and is smaller in magnitude -/
theorem mod_sign_of_divisor (a b : Int) (hb : b ≠ 0) :
    operatorCall (.int a) .mod (some (.int b)) = .ok (.int (pyMod a b)) ∧
    (b > 0 → 0 ≤ pyMod a b ∧ pyMod a b < b) ∧ (b < 0 → b < pyMod a b ∧ pyMod a b ≤ 0) := by
  refine ⟨?_, ?_, ?_⟩
  · simp [operatorCall, opEntry, opEntryIn, EvalTables.opTable, isInstance, Val.ty, opBody, asInt, intOp, hb]
  · intro h; have := pyFloorDiv_pos a b h; unfold pyMod; omega
  · intro h; have := pyFloorDiv_neg a b h; unfold pyMod; omega

theorem div_mod_identity (a b : Int) : b * pyFloorDiv a b + pyMod a b = a := by
  unfold pyMod; omega

theorem div_by_zero_is_error (a : Int) :
    operatorCall (.int a) .div (some (.int 0)) = .error .invalidArguments ∧
    operatorCall (.int a) .mod (some (.int 0)) = .error .invalidArguments := by
  constructor <;>
    simp [operatorCall, opEntry, opEntryIn, EvalTables.opTable, isInstance, Val.ty, opBody, asInt, intOp]

/-- the evaluator computes exactly this for every pair of operand expressions -/
theorem eval_div (ln : Nat) (l r : Node) (s s1 s2 : St) (a b : Int) (hb : b ≠ 0)
    (hl : eval hk l (at_ s ln) = .ok (some (.int a)) s1) (hr : eval hk r s1 = .ok (some (.int b)) s2) :
    eval hk (.arith ln .div l r) s =
      .ok (some (.int (pyFloorDiv a b))) { s2 with cov := .bin .int .div .int false none :: s2.cov } := by
  simp [eval, bind, EvalM.bind, setLine, hl, hr, liftE, arithOp, (div_floor a b hb).1, Val.ty, pure, EvalM.pure]

example : pyFloorDiv 7 (-2) = -4 ∧ pyMod 7 (-2) = -1 ∧ pyFloorDiv (-7) 2 = -4 ∧ pyMod (-7) 2 = 1 := by decide

/-! ### strict typing -/

/-- what the reference promises: operands of different types are never combined -/
def no_implicit_conversion_full : Prop :=
  ∀ (op : Op) (l r : Val), strictOp op = true → l.ty ≠ r.ty → ¬ (l.ty = .arr ∧ op = .plus) →
    ∃ e, operatorCall l op (some r) = .error e ∧ e ≠ .unsupported

/-- what the code does: the statement holds except for `int <op> bool` (`isinstance(True, int)`).
The proof is reflective: `strictTableOk` is a decidable fact about the REGENERATED operator table
(re-checked by `decide` whenever the table changes), `rejects_sound` relates it to `operatorCall`. -/
theorem no_implicit_conversion_partial (op : Op) (l r : Val) (hop : strictOp op = true)
    (hty : l.ty ≠ r.ty) (happend : ¬ (l.ty = .arr ∧ op = .plus))
    (hquirk : ¬ (l.ty = .int ∧ r.ty = .bool)) :
    ∃ e, operatorCall l op (some r) = .error e ∧ e ≠ .unsupported := by
  apply rejects_sound
  have h := strictTable_spec strictTableOk_holds l.ty op r.ty
  simp only [strictCase, hop, Bool.true_and] at h
  by_cases c1 : l.ty = r.ty
  · exact absurd c1 hty
  · by_cases c2 : (l.ty = .arr ∧ op = .plus)
    · exact absurd c2 happend
    · by_cases c3 : (l.ty = .int ∧ r.ty = .bool)
      · exact absurd c3 hquirk
      · simpa [c1, c2, c3] using h

/-- the retained quirk: every `int` operator accepts a `bool` right operand as 0/1 -/
theorem no_implicit_conversion_counterexample : ¬ no_implicit_conversion_full := by
  intro h
  obtain ⟨e, he, _⟩ := h .plus (.int 1) (.bool true) rfl (by decide) (by decide)
  have : operatorCall (.int 1) .plus (some (.bool true)) = .ok (.int 2) := by rfl
  rw [this] at he
  cases he

theorem bool_is_int_quirk (a : Int) (b : Bool) :
    operatorCall (.int a) .plus (some (.bool b)) = .ok (.int (a + if b then 1 else 0)) ∧
    operatorCall (.bool b) .plus (some (.int a)) = .error .invalidCode ∧
    operatorCall (.bool b) .equals (some (.int a)) = .error .invalidArguments := by
  refine ⟨?_, rfl, rfl⟩
  simp [operatorCall, opEntry, opEntryIn, EvalTables.opTable, isInstance, Val.ty, opBody, asInt, intOp]

/-- inside containers equality is Python's `==`: `[1] == [true]` -/
theorem container_equality_quirk : pyEq (.arr [.int 1]) (.arr [.bool true]) = true := by decide

example : ∃ e, operatorCall (.str cs!"a") .plus (some (.int 1)) = .error e ∧ e ≠ .unsupported :=
  no_implicit_conversion_partial .plus _ _ rfl (by decide) (by decide) (by decide)

/-! ### strict typing of the remaining operand positions (all from the regenerated tables) -/

/-- ANY binary operator whose table entry rejects the operand type fails with a type error
(`rejects` reads only the regenerated `opTable`) -/
theorem typed_operator_rejects (l r : Val) (op : Op) (h : rejects l.ty op r.ty = true) :
    ∃ e, operatorCall l op (some r) = .error e ∧ e ≠ .unsupported := rejects_sound l r op h

/-- which operand types each container accepts for `in` / `not in` and `[]`, as a table fact:
* `x in str`, `x in dict`, `dict[x]` need a `str`; `str[i]`, `array[i]` need an `int`
  (and, the quirk again, accept a `bool`);
* `int`, `bool`, subproject objects support none of them; `range` supports only `[]`;
* NOT strict by design: `x in array` accepts every type (an element of another type is just absent). -/
theorem container_operand_types :
    (∀ t, t ≠ .str → rejects .str .in_ t = true ∧ rejects .str .notIn t = true ∧
                     rejects .dict .in_ t = true ∧ rejects .dict .notIn t = true ∧
                     rejects .dict .index t = true) ∧
    (∀ t, t ≠ .int → t ≠ .bool → rejects .str .index t = true ∧ rejects .arr .index t = true) ∧
    (∀ t op, (op = .in_ ∨ op = .notIn ∨ op = .index) →
        rejects .int op t = true ∧ rejects .bool op t = true ∧ rejects .subproj op t = true) ∧
    (∀ t, rejects .range .in_ t = true ∧ rejects .range .notIn t = true) ∧
    (∀ t, rejects .arr .in_ t = false ∧ rejects .arr .notIn t = false) := by
  refine ⟨?_, ?_, ?_, ?_, ?_⟩
  · intro t; cases t <;> decide
  · intro t; cases t <;> decide
  · intro t op h; rcases h with rfl | rfl | rfl <;> cases t <;> decide
  · intro t; cases t <;> decide
  · intro t; cases t <;> decide

/-- `range(..)[x]` has no operand check at all: a non-integer index escapes as a Python `TypeError`
(an error, but not Meson's own type error) -/
theorem range_index_unchecked (a b c : Int) (k : Str) :
    operatorCall (.range a b c) .index (some (.str k)) = .error .pyTypeError := rfl

/-- unary operators and truth values: `-x` only for `int`, `not x` and the truth value used by
`and` / `or` / `if` / `?:` only for `bool` — every other operand type is an error -/
theorem unary_operand_types (v : Val) :
    (v.ty ≠ .int → operatorCall v .uminus none = .error .invalidCode) ∧
    (v.ty ≠ .bool → operatorCall v .not_ none = .error .invalidCode) ∧
    (v.ty ≠ .bool → operatorCall v .bool none = .error .invalidCode) := by
  refine ⟨?_, ?_, ?_⟩ <;> intro h <;> cases v <;> first | exact absurd rfl h | rfl

/-- `and` / `or` with a non-`bool` left operand fail (no truthiness of `''`, `0`, `[]`, …) -/
theorem logic_operands_must_be_bool (ln : Nat) (l r : Node) (s s1 : St) (v : Val)
    (hl : eval hk l (at_ s ln) = .ok (some v) s1) (hv : v.ty ≠ .bool) :
    eval hk (.and_ ln l r) s = .err .invalidCode { s1 with cov := .unary .bool v.ty (some .invalidCode) :: s1.cov } ∧
    eval hk (.or_ ln l r) s = .err .invalidCode { s1 with cov := .unary .bool v.ty (some .invalidCode) :: s1.cov } := by
  have hb := (unary_operand_types v).2.2 hv
  constructor <;> simp [eval, bind, EvalM.bind, setLine, hl, truth, liftE, hb]

/-- method arguments: a positional argument that is not an instance of the type the method's
decorator declares (signature read from the live decorator into `methodSigs`) is a type error, and so
is a wrong argument count -/
theorem method_args_strict (t : Ty) (name : Str) (req opt : List PyTy) (args : List Val)
    (hs : sigOf t name = some (.pos req opt)) :
    (allInst args (req ++ opt) = false → argCheck t name args = .error .invalidArguments) ∧
    (args.length < req.length ∨ args.length > req.length + opt.length →
      argCheck t name args = .error .invalidArguments) := by
  constructor
  · intro h
    simp only [argCheck, hs, typedPos]
    split
    · rfl
    · split
      · rfl
      · simp [h]
  · intro h
    simp only [argCheck, hs, typedPos]
    rcases h with h | h
    · simp [h]
    · split
      · rfl
      · simp [h]

theorem method_varargs_strict (t : Ty) (name : Str) (ty : PyTy) (min : Nat) (args : List Val)
    (hs : sigOf t name = some (.var ty min)) (h : args.all (fun v => isInstance v ty) = false) :
    argCheck t name args = .error .invalidArguments := by
  simp only [argCheck, hs, typedVar]
  split
  · rfl
  · simp [h]

theorem method_nopos_strict (t : Ty) (name : Str) (args : List Val)
    (hs : sigOf t name = some .noPos) (h : args ≠ []) : argCheck t name args = .error .invalidArguments := by
  simp only [argCheck, hs, noPos]
  cases args with
  | nil => exact absurd rfl h
  | cons a r => rfl

/-- the declared parameter types, as a fact about the regenerated signature table: every parameter is
`str`, `int` or `object`; the `object` (deliberately untyped) ones are exactly the searched element
of `array.contains`, the fallbacks of `array.get` / `dict.get` / `subproject.get_variable` and the
arguments of `str.format` -/
def sigTypes : MSig → List PyTy
  | .noPos => []
  | .pos r o => r ++ o
  | .var t _ => [t]

def untypedParams : List (Ty × Str) :=
  (EvalTables.methodSigs.filter (fun e => (sigTypes e.2.2).contains .object)).map (fun e => (e.1, e.2.1))

theorem method_parameter_types :
    (EvalTables.methodSigs.all fun e => (sigTypes e.2.2).all fun t => t == .str || t == .int || t == .object) = true ∧
    untypedParams = [(.subproj, cs!"get_variable"), (.str, cs!"format"), (.arr, cs!"contains"), (.arr, cs!"get"),
                     (.dict, cs!"get")] := by
  constructor <;> decide

example : methodCall (.str cs!"abc") cs!"contains" [.int 1] [] = .error .invalidArguments := by rfl
example : methodCall (.dict []) cs!"has_key" [.str cs!"a", .str cs!"b"] [] = .error .invalidArguments := by rfl

/-! ### stringification (`stringifyUserArguments`: `message()`, `.format()`, f-strings) -/

/-- the texts of the scalars: a bool is `true`/`false`, an int its decimal digits, a string itself at
top level and single-quoted inside a container -/
theorem stringify_scalars (q : Bool) (b : Bool) (i : Int) (s : Str) :
    stringify q (.bool b) = some (if b then cs!"true" else cs!"false") ∧
    stringify q (.int i) = some (intStr i) ∧
    stringify false (.str s) = some s ∧
    stringify true (.str s) = some (['\''] ++ s ++ ['\'']) := ⟨rfl, rfl, rfl, rfl⟩

/-- a bool never prints like an int (in particular `true`/`1` and `false`/`0` differ), whatever the
quoting level of either -/
theorem stringify_bool_ne_int (q q' : Bool) (b : Bool) (i : Int) :
    stringify q (.bool b) ≠ stringify q' (.int i) := by
  intro h
  have h' : (if b then cs!"true" else cs!"false") = intStr i := by
    simpa [stringify] using h
  have hc := intStr_chars i
  rw [← h'] at hc
  cases b
  · have := hc 'f' (by simp)
    simp [isDigit] at this
  · have := hc 't' (by simp)
    simp [isDigit] at this

/-- different integers print differently, and so do the two booleans -/
theorem stringify_int_injective (q q' : Bool) (i j : Int) (h : stringify q (.int i) = stringify q' (.int j)) :
    i = j := intStr_injective i j (by simpa [stringify] using h)

theorem stringify_bool_injective (q q' : Bool) (a b : Bool) (h : stringify q (.bool a) = stringify q' (.bool b)) :
    a = b := by
  cases a <;> cases b <;> first | rfl | (simp [stringify] at h)

/-- inside a container a string is quoted, so it cannot be taken for an int or a bool either -/
theorem stringify_quoted_str_ne_scalar (q : Bool) (s : Str) (b : Bool) (i : Int) :
    stringify true (.str s) ≠ stringify q (.bool b) ∧ stringify true (.str s) ≠ stringify q (.int i) := by
  constructor
  · cases b <;> simp [stringify]
  · intro h
    have h' : '\'' :: (s ++ ['\'']) = intStr i := by simpa [stringify] using h
    have := intStr_chars i '\'' (by rw [← h']; simp)
    simp [isDigit] at this

/-- the one collision there is, by design: at top level a string prints verbatim, so `'1'` and `1`
(or `'true'` and `true`) give the same text -/
theorem stringify_toplevel_str_verbatim :
    stringify false (.str cs!"1") = stringify false (.int 1) ∧
    stringify false (.str cs!"true") = stringify false (.bool true) := by decide

/-- arrays, at any nesting depth and whatever the outer quoting level: `[`, the elements printed in
QUOTED mode separated by `, `, `]`; the array is printable iff every element is -/
theorem stringify_array (q : Bool) (l : List Val) :
    (∀ xs, printedAs l xs →
      stringify q (.arr l) = some (['['] ++ joinStr [',', ' '] xs ++ [']'])) ∧
    (stringify q (.arr l) = none ↔ stringifyL l = none) := by
  constructor
  · intro xs h
    simp [stringify, (stringifyL_spec l xs).mpr h]
  · simp [stringify]

/-- dictionaries: `{`, then `'key' : value` (value in quoted mode) in insertion order, `}` -/
theorem stringify_dict_entry (q : Bool) (k : Str) (v : Val) (x : Str) (h : stringify true v = some x) :
    stringify q (.dict [(k, v)]) = some (['{'] ++ (['\''] ++ k ++ ['\'', ' ', ':', ' '] ++ x) ++ ['}']) := by
  simp [stringify, stringifyD, h, joinStr]

example : stringify false (.arr [.int 1, .bool true, .str cs!"1", .arr [.bool false, .int 0]]) =
    some cs!"[1, true, '1', [false, 0]]" := by decide

/-! ### `.format()`: every `@N@` replaced exactly once, left to right, inserted text never rescanned -/

theorem methods_str_has (name : Str) (h : (methodsOf .str).contains name = true) (s : Str) :
    (methodsOf (Val.str s).ty).contains name = true := h

/-- `.format()` is: stringify the arguments, split the TEMPLATE into pieces, one pass over the pieces -/
theorem format_method (s : Str) (raw : List Val) (strs : List Str) (h : stringifyArgs raw = some strs) :
    methodCall (.str s) cs!"format" raw [] =
      (match substPieces strs (fmtPieces s 0) with
       | some r => .ok (.str r)
       | none => .error .invalidArguments) := by
  unfold methodCall
  rw [methods_str_has cs!"format" (by decide) s]
  simp only [Bool.not_true, Bool.false_eq_true, ↓reduceIte, strMethod]
  have e1 : ¬ (cs!"format" = cs!"contains") := by decide
  have e2 : ¬ (cs!"format" = cs!"startswith") := by decide
  have e3 : ¬ (cs!"format" = cs!"endswith") := by decide
  simp only [e1, e2, e3, ↓reduceIte, noKw, List.isEmpty_nil, bind, Except.bind, h, formatGo_eq_pieces]
  cases substPieces strs (fmtPieces s 0) <;> rfl

/-- THE statement about `.format()`, for every template and every argument list:
* the pieces are a partition of the template (rendering them gives the template back) and every
  placeholder piece is a non-empty run of digits between two `@`;
* if every placeholder number has an argument, the result is the concatenation, in template order,
  of the literal characters and of each placeholder's argument text — each placeholder replaced
  exactly once, and the inserted text is not scanned again (the pieces depend on the template only);
* if some placeholder number has no argument the call is an error — also when other placeholders
  are fine. -/
theorem format_replaces_each_placeholder_once (s : Str) (raw : List Val) (strs : List Str)
    (h : stringifyArgs raw = some strs) :
    renderPieces (fmtPieces s 0) = s ∧
    (∀ ds, .var ds ∈ fmtPieces s 0 → ds ≠ [] ∧ ∀ c ∈ ds, isDigit c = true) ∧
    ((∀ ds, .var ds ∈ fmtPieces s 0 → natOfDigits ds < strs.length) →
      methodCall (.str s) cs!"format" raw [] = .ok (.str ((fmtPieces s 0).map (pieceText strs)).flatten)) ∧
    ((∃ ds, .var ds ∈ fmtPieces s 0 ∧ strs.length ≤ natOfDigits ds) →
      methodCall (.str s) cs!"format" raw [] = .error .invalidArguments) := by
  refine ⟨by simpa using renderPieces_fmtPieces s 0, fmtPieces_vars s 0, ?_, ?_⟩
  · intro hall
    rw [format_method s raw strs h]
    cases hs : substPieces strs (fmtPieces s 0) with
    | none =>
      obtain ⟨ds, hm, hle⟩ := (substPieces_none_iff strs _).mp hs
      have := hall ds hm
      omega
    | some out => simp only [substPieces_some strs _ out hs]
  · intro hex
    rw [format_method s raw strs h, (substPieces_none_iff strs _).mpr hex]

/-- in particular, whatever text an argument has — even another placeholder — it comes out verbatim -/
theorem format_inserted_text_inert (a b : Str) :
    methodCall (.str cs!"@0@") cs!"format" [.str a] [] = .ok (.str a) ∧
    methodCall (.str cs!"<@1@|@0@>") cs!"format" [.str a, .str b] [] =
      .ok (.str (['<'] ++ b ++ ['|'] ++ a ++ ['>'])) := by
  constructor
  · rw [format_method _ _ [a] rfl]
    have : fmtPieces cs!"@0@" 0 = [.var cs!"0"] := by rfl
    simp [this, substPieces, natOfDigits, digitVal]
  · rw [format_method _ _ [a, b] rfl]
    have : fmtPieces cs!"<@1@|@0@>" 0 = [.lit '<', .var cs!"1", .lit '|', .var cs!"0", .lit '>'] := by rfl
    simp [this, substPieces, natOfDigits, digitVal]

example : methodCall (.str cs!"@0@@1@") cs!"format" [.str cs!"@1@", .str cs!"x"] [] = .ok (.str cs!"@1@x") := by
  rfl
example : methodCall (.str cs!"@0@ @2@") cs!"format" [.int 1, .bool true] [] = .error .invalidArguments := by
  rfl
example : methodCall (.str cs!"@0@|@0@|@1@") cs!"format" [.int 1, .bool true] [] = .ok (.str cs!"1|1|true") := by
  rfl

/-! ### f-strings: `@name@` likewise, values from the variable table -/

/-- an f-string is: split the template at `@identifier@`, look every name up in the variable table,
stringify (top level: unquoted), concatenate — one pass, the state untouched -/
theorem fstring_substitution (ln : Nat) (tpl : Str) (st : St) :
    eval hk (.fstr ln tpl) st =
      (match fstrSubst st.vars (fstringPieces tpl 0) with
       | .ok t => .ok (some (.str t)) (at_ st ln)
       | .error e => .err e (at_ st ln)) ∧
    renderPieces (fstringPieces tpl 0) = tpl := by
  refine ⟨?_, by simpa using renderPieces_fstringPieces tpl 0⟩
  simp only [eval, bind, EvalM.bind, setLine, fstring, fstringGo_eq]
  cases fstrSubst st.vars (fstringPieces tpl 0) <;> rfl

/-- a placeholder naming an undefined variable makes the f-string an error -/
theorem fstring_undefined_is_error (vars : List (Str × Val)) : ∀ (ps : List FPiece) (nm : Str),
    .var nm ∈ ps → lookup nm vars = none → ∃ e, fstrSubst vars ps = .error e
  | [], nm, h, _ => by simp at h
  | .lit c :: r, nm, h, hn => by
    have h' : .var nm ∈ r := by
      rcases List.mem_cons.mp h with h | h
      · cases h
      · exact h
    obtain ⟨e, he⟩ := fstring_undefined_is_error vars r nm h' hn
    exact ⟨e, by simp [fstrSubst, he, Except.map]⟩
  | .var m :: r, nm, h, hn => by
    simp only [fstrSubst]
    cases hl : lookup m vars with
    | none => exact ⟨_, rfl⟩
    | some v =>
      simp only []
      cases stringify false v with
      | none => exact ⟨_, rfl⟩
      | some txt =>
        have h' : .var nm ∈ r := by
          rcases List.mem_cons.mp h with h | h
          · cases h; rw [hn] at hl; cases hl
          · exact h
        obtain ⟨e, he⟩ := fstring_undefined_is_error vars r nm h' hn
        exact ⟨e, by simp [he, Except.map]⟩

/-- with one placeholder: the variable's text between the literal parts, verbatim -/
theorem fstring_inserted_text_inert (v : Str) :
    fstrSubst [(cs!"x", .str v)] (fstringPieces cs!"<@x@>" 0) = .ok (['<'] ++ v ++ ['>']) := by
  have : fstringPieces cs!"<@x@>" 0 = [.lit '<', .var cs!"x", .lit '>'] := by rfl
  simp [this, fstrSubst, lookup, stringify, Except.map]

/-! ### laws of the string methods -/

/-- `sep.join(s.split(sep)) == s` -/
theorem join_split (s sep : Str) (h : sep ≠ []) : joinStr sep (splitOn s sep) = s := by
  unfold splitOn
  rw [join_splitGo sep sep s 0 [], replaceGo_self sep h]
  simp

/-- `new.join(s.split(old)) == s.replace(old, new)` -/
theorem join_split_is_replace (s old new : Str) (h : old ≠ []) :
    joinStr new (splitOn s old) = replaceStr s old new := by
  unfold splitOn replaceStr
  have : old.isEmpty = false := by cases old <;> simp_all
  rw [join_splitGo old new s 0 [], this]
  simp

/-- `s.replace(x, x) == s` for every `x`, the empty string included -/
theorem replace_self (s x : Str) : replaceStr s x x = s := by
  unfold replaceStr
  cases x with
  | nil =>
    simp only [List.isEmpty_nil, ↓reduceIte, List.nil_append]
    induction s with
    | nil => rfl
    | cons c r ih => simp [ih]
  | cons a t =>
    simp only [List.isEmpty_cons, Bool.false_eq_true, ↓reduceIte]
    rw [replaceGo_self _ (by simp)]
    simp

/-- `strip()` is idempotent and leaves no blank at either end; the same with an explicit character set -/
theorem strip_idempotent (s chars : Str) :
    strip (strip s) = strip s ∧ stripChars (stripChars s chars) chars = stripChars s chars := by
  simp only [strip_eq_trimBoth, stripChars_eq_trimBoth]
  exact ⟨trimBoth_idem _ s, trimBoth_idem _ s⟩

theorem strip_ends (s : Str) :
    (∀ a r, strip s = a :: r → isSpace a = false) ∧ (∀ a r, (strip s).reverse = a :: r → isSpace a = false) := by
  rw [strip_eq_trimBoth]
  exact trimBoth_ends isSpace s

/-- `s.contains(p)` holds exactly when `p` occurs in `s`; a prefix occurs; the empty string always does -/
theorem contains_iff_occurs (s p : Str) :
    (hasSub p s = true ↔ ∃ a b, s = a ++ p ++ b) ∧
    (p.isPrefixOf s = true → hasSub p s = true) ∧ hasSub [] s = true := by
  refine ⟨hasSub_iff p s, ?_, ?_⟩
  · intro h
    obtain ⟨t, ht⟩ := List.isPrefixOf_iff_prefix.mp h
    exact (hasSub_iff p s).mpr ⟨[], t, by simp [ht]⟩
  · exact (hasSub_iff [] s).mpr ⟨[], s, by simp⟩

/-- `substring(a, b)` inside the bounds is characters `a` … `b-1`; a negative start counts from the
end; a start at or beyond the end gives the empty string (never an error) -/
theorem substring_bounds (s : Str) :
    (∀ a b : Nat, a ≤ b → b ≤ s.length →
      sliceList s (some (a : Int)) (some (b : Int)) 1 = (s.drop a).take (b - a)) ∧
    (∀ (k : Nat) (e : Option Int), 1 ≤ k → k ≤ s.length →
      sliceList s (some (-(k : Int))) e 1 = sliceList s (some ((s.length - k : Nat) : Int)) e 1) ∧
    (∀ (a : Int) (e : Option Int), a ≥ s.length → sliceList s (some a) e 1 = []) := by
  refine ⟨?_, ?_, ?_⟩
  · intro a b hab hb
    unfold sliceList
    rw [sliceIndices_one]
    simp only [adjustIdx_nat a s.length (by omega), adjustIdx_nat b s.length hb]
    exact sliceIdxGo_one_filterMap s b hb s.length a (by omega)
  · intro k e h1 h2
    unfold sliceList
    rw [sliceIndices_one, sliceIndices_one]
    simp only [adjustIdx_neg k s.length h1 h2, adjustIdx_nat (s.length - k) s.length (by omega)]
  · intro a e ha
    unfold sliceList
    rw [sliceIndices_one]
    simp only [adjustIdx_ge a s.length ha]
    rw [sliceIdxGo_empty]
    · rfl
    · cases e with
      | none => simp
      | some x => exact adjustIdx_le x s.length

/-- `to_upper()` / `to_lower()` are idempotent and keep the length; `underscorify()` is idempotent,
keeps the length and leaves only `[A-Za-z0-9_]` -/
theorem case_and_underscorify_laws (s : Str) :
    (s.map upperC).map upperC = s.map upperC ∧ (s.map lowerC).map lowerC = s.map lowerC ∧
    (s.map upperC).length = s.length ∧
    underscorify (underscorify s) = underscorify s ∧ (underscorify s).length = s.length ∧
    (∀ c ∈ underscorify s, isAlnum c = true ∨ c = '_') := by
  refine ⟨?_, ?_, by simp, ?_, by simp [underscorify], ?_⟩
  · simp [List.map_map, Function.comp_def, upperC_idem]
  · simp [List.map_map, Function.comp_def, lowerC_idem]
  · unfold underscorify
    rw [List.map_map]
    apply List.map_congr_left
    intro c _
    simp only [Function.comp]
    by_cases h : isAlnum c
    · simp [h]
    · have : isAlnum '_' = false := by decide
      simp [h, this]
  · intro c hc
    unfold underscorify at hc
    obtain ⟨d, _, rfl⟩ := List.mem_map.mp hc
    by_cases h : isAlnum d
    · left; simp [h]
    · right; simp [h]

/-- what the evaluator's method dispatch computes for well-typed calls of the string methods: exactly
the functions the laws above are about (signatures read from the regenerated table) -/
theorem str_methods_compute (s p a b : Str) (parts : List Str) (i j : Int) :
    methodCall (.str s) cs!"contains" [.str p] [] = .ok (.bool (hasSub p s)) ∧
    methodCall (.str s) cs!"startswith" [.str p] [] = .ok (.bool (p.isPrefixOf s)) ∧
    methodCall (.str s) cs!"split" [.str p] [] =
      (if p.isEmpty then .error .invalidArguments else .ok (.arr ((splitOn s p).map .str))) ∧
    methodCall (.str s) cs!"join" [.arr (parts.map .str)] [] = .ok (.str (joinStr s parts)) ∧
    methodCall (.str s) cs!"replace" [.str a, .str b] [] = .ok (.str (replaceStr s a b)) ∧
    methodCall (.str s) cs!"strip" [] [] = .ok (.str (strip s)) ∧
    methodCall (.str s) cs!"strip" [.str p] [] = .ok (.str (stripChars s p)) ∧
    methodCall (.str s) cs!"substring" [.int i, .int j] [] = .ok (.str (sliceList s (some i) (some j) 1)) ∧
    methodCall (.str s) cs!"to_upper" [] [] = .ok (.str (s.map upperC)) ∧
    methodCall (.str s) cs!"to_lower" [] [] = .ok (.str (s.map lowerC)) ∧
    methodCall (.str s) cs!"underscorify" [] [] = .ok (.str (underscorify s)) := by
  have hm : ∀ name, (methodsOf .str).contains name = true → (methodsOf (Val.str s).ty).contains name = true :=
    fun _ h => h
  refine ⟨?_, ?_, ?_, ?_, ?_, ?_, ?_, ?_, ?_, ?_, ?_⟩
  · unfold methodCall; rw [hm _ (by decide)]
    have hs : sigOf .str cs!"contains" = some (.pos [.str] []) := by decide
    simp [strMethod, flattenL, flattenV, noKw, argCheck, hs, typedPos, allInst, isInstance, Val.ty, bind, Except.bind, pure, Except.pure]
  · unfold methodCall; rw [hm _ (by decide)]
    have hs : sigOf .str cs!"startswith" = some (.pos [.str] []) := by decide
    simp [strMethod, flattenL, flattenV, noKw, argCheck, hs, typedPos, allInst, isInstance, Val.ty, bind, Except.bind, pure, Except.pure]
  · unfold methodCall; rw [hm _ (by decide)]
    have hs : sigOf .str cs!"split" = some (.pos [] [.str]) := by decide
    simp [strMethod, flattenL, flattenV, noKw, argCheck, hs, typedPos, allInst, isInstance, Val.ty, bind, Except.bind, pure, Except.pure]
    cases p <;> rfl
  · unfold methodCall; rw [hm _ (by decide)]
    have hs : sigOf .str cs!"join" = some (.var .str 0) := by decide
    have hf : flattenL [Val.arr (parts.map Val.str)] = parts.map Val.str := by
      simp [flattenL, flattenV, flattenL_strs]
    simp [strMethod, hf, noKw, argCheck, hs, typedVar, strArgs_strs, bind, Except.bind, pure, Except.pure, isInstance, Val.ty]
  · unfold methodCall; rw [hm _ (by decide)]
    have hs : sigOf .str cs!"replace" = some (.pos [.str, .str] []) := by decide
    simp [strMethod, flattenL, flattenV, noKw, argCheck, hs, typedPos, allInst, isInstance, Val.ty, bind, Except.bind, pure, Except.pure]
  · unfold methodCall; rw [hm _ (by decide)]
    have hs : sigOf .str cs!"strip" = some (.pos [] [.str]) := by decide
    simp [strMethod, flattenL, noKw, argCheck, hs, typedPos, allInst, bind, Except.bind, pure, Except.pure]
  · unfold methodCall; rw [hm _ (by decide)]
    have hs : sigOf .str cs!"strip" = some (.pos [] [.str]) := by decide
    simp [strMethod, flattenL, flattenV, noKw, argCheck, hs, typedPos, allInst, isInstance, Val.ty, bind, Except.bind, pure, Except.pure]
  · unfold methodCall; rw [hm _ (by decide)]
    have hs : sigOf .str cs!"substring" = some (.pos [] [.int, .int]) := by decide
    simp [strMethod, flattenL, flattenV, noKw, argCheck, hs, typedPos, allInst, isInstance, Val.ty, asInt, bind, Except.bind, pure, Except.pure]
  · unfold methodCall; rw [hm _ (by decide)]
    have hs : sigOf .str cs!"to_upper" = some .noPos := by decide
    simp [strMethod, flattenL, noKw, argCheck, hs, noPos, bind, Except.bind, pure, Except.pure]
  · unfold methodCall; rw [hm _ (by decide)]
    have hs : sigOf .str cs!"to_lower" = some .noPos := by decide
    simp [strMethod, flattenL, noKw, argCheck, hs, noPos, bind, Except.bind, pure, Except.pure]
  · unfold methodCall; rw [hm _ (by decide)]
    have hs : sigOf .str cs!"underscorify" = some .noPos := by decide
    simp [strMethod, flattenL, noKw, argCheck, hs, noPos, bind, Except.bind, pure, Except.pure]

/-- at the level of the language: `sep.join(s.split(sep)) == s` for every `s` and non-empty `sep` -/
theorem join_split_roundtrip (s sep : Str) (h : sep ≠ []) :
    methodCall (.str s) cs!"split" [.str sep] [] = .ok (.arr ((splitOn s sep).map .str)) ∧
    methodCall (.str sep) cs!"join" [.arr ((splitOn s sep).map .str)] [] = .ok (.str s) := by
  constructor
  · rw [(str_methods_compute s sep [] [] [] 0 0).2.2.1]
    cases sep with
    | nil => exact absurd rfl h
    | cons c r => rfl
  · rw [(str_methods_compute sep [] [] [] (splitOn s sep) 0 0).2.2.2.1, join_split s sep h]

/-- `i.to_string().to_int() == i` for every integer: the decimal text (an optional `-`, then digits,
never empty) is read back as the same number -/
theorem to_string_to_int_roundtrip (i : Int) :
    methodCall (.int i) cs!"to_string" [] [] = .ok (.str (intStr i)) ∧
    methodCall (.str (intStr i)) cs!"to_int" [] [] = .ok (.int i) := by
  constructor
  · unfold methodCall
    have hm : (methodsOf (Val.int i).ty).contains cs!"to_string" = true := by
      show (methodsOf .int).contains cs!"to_string" = true
      decide
    rw [hm]
    have hs : sigOf .int cs!"to_string" = some .noPos := by decide
    have hf : intFormat i 0 cs!"dec" = intStr i := by
      unfold intFormat intStr
      simp
    simp [intMethod, flattenL, lookup, argCheck, hs, noPos, bind, Except.bind, pure, Except.pure, hf]
  · unfold methodCall
    rw [methods_str_has cs!"to_int" (by decide)]
    have hs : sigOf .str cs!"to_int" = some .noPos := by decide
    simp [strMethod, flattenL, noKw, argCheck, hs, noPos, bind, Except.bind, pure, Except.pure, parseInt_intStr]

/-! concrete instances (the hypotheses above are satisfiable, the functions compute what is expected) -/

example : stringifyArgs [.int 1, .bool true, .str cs!"@0@"] = some [cs!"1", cs!"true", cs!"@0@"] := by rfl
example : renderPieces (fmtPieces cs!"a@0@@@12@b@" 0) = cs!"a@0@@@12@b@" ∧
    (fmtPieces cs!"a@0@@@12@b@" 0).length = 6 := by constructor <;> rfl
example : joinStr cs!"," (splitOn cs!"a,,b," cs!",") = cs!"a,,b," := join_split _ _ (by simp)
example : splitOn cs!"a,,b," cs!"," = [cs!"a", [], cs!"b", []] := by rfl
example : splitOn cs!"aaa" cs!"aa" = [[], cs!"a"] ∧ replaceStr cs!"aaa" cs!"aa" cs!"b" = cs!"ba" := by constructor <;> rfl
example : strip cs!"  a b \n" = cs!"a b" := by rfl
example : sliceList cs!"abcd" (some (-3)) (some 3) 1 = cs!"bc" ∧ sliceList cs!"abcd" (some 7) none 1 = [] := by
  constructor <;> rfl
example : hasSub cs!"b," cs!"ab,c" = true ∧ hasSub cs!"ba" cs!"ab,c" = false := by constructor <;> rfl
example : intStr (-120) = cs!"-120" ∧ parseInt cs!"-120" = some (-120) := by constructor <;> rfl
example : fstrSubst [(cs!"x", .str cs!"@y@"), (cs!"y", .int 3)] (fstringPieces cs!"@x@|@y@|@1@" 0) = .ok cs!"@y@|3|@1@" := by rfl
example : ∃ e, fstrSubst [(cs!"x", .int 1)] (fstringPieces cs!"@x@@nope@" 0) = .error e :=
  fstring_undefined_is_error _ _ cs!"nope"
    (by have : fstringPieces cs!"@x@@nope@" 0 = [.var cs!"x", .var cs!"nope"] := by rfl
        rw [this]; simp) rfl

/-! ### indexing -/

/-- `a[-k]` is the k-th element from the end -/
theorem index_negative (l : List Val) (k : Nat) (h1 : 1 ≤ k) (h2 : k ≤ l.length) :
    operatorCall (.arr l) .index (some (.int (-(k : Int)))) =
      operatorCall (.arr l) .index (some (.int ((l.length - k : Nat) : Int))) ∧
    operatorCall (.arr l) .index (some (.int (-(k : Int)))) = .ok (l[l.length - k]'(by omega)) := by
  have hlt : l.length - k < l.length := by omega
  have e1 := pyIndex_neg l k h1 h2
  have e2 := pyIndex_nonneg l (l.length - k) hlt
  constructor <;>
    simp [operatorCall, opEntry, opEntryIn, EvalTables.opTable, isInstance, Val.ty, opBody, arrOp, asInt, e1, e2]

/-- an index outside `[-len, len)` is an error, for arrays and strings alike -/
theorem index_bounds_error (l : List Val) (s : Str) (i : Int) :
    ((i < -(l.length : Int) ∨ i ≥ l.length) →
      operatorCall (.arr l) .index (some (.int i)) = .error .invalidArguments) ∧
    ((i < -(s.length : Int) ∨ i ≥ s.length) →
      operatorCall (.str s) .index (some (.int i)) = .error .invalidArguments) := by
  constructor <;> intro h <;>
    simp [operatorCall, opEntry, opEntryIn, EvalTables.opTable, isInstance, Val.ty, opBody, arrOp, strOp, asInt,
      pyIndex_oob _ i h]

/-- a non-integer index is an error (no conversion of `'0'` to `0`) -/
theorem index_type_error (l : List Val) (k : Str) :
    operatorCall (.arr l) .index (some (.str k)) = .error .invalidArguments := rfl

/-! ### `dict.keys()` -/

/-- `keys()` is the sorted list (code-point order) of exactly the dictionary's keys -/
theorem keys_sorted (d : List (Str × Val)) :
    methodCall (.dict d) cs!"keys" [] [] = .ok (.arr ((dictKeysSorted d).map .str)) ∧
    Sorted (dictKeysSorted d) ∧ (dictKeysSorted d).Perm (d.map (·.1)) := by
  refine ⟨?_, sortStrs_sorted _, sortStrs_perm _⟩
  unfold methodCall
  have hm : (methodsOf (Val.dict d).ty).contains cs!"keys" = true := by
    show (methodsOf .dict).contains cs!"keys" = true
    decide
  rw [hm]
  have ha : argCheck .dict cs!"keys" [] = .ok () := by rfl
  simp [dictMethod, noKw, flattenL, ha, bind, Except.bind, pure, Except.pure]

example : dictKeysSorted [(cs!"b", .int 1), (cs!"a", .int 2), (cs!"B", .int 3)] = [cs!"B", cs!"a", cs!"b"] := by
  decide

/-! ### `foreach` with `break` / `continue` -/

/-- `break` in the body ends the loop at once: the remaining items are never bound or visited -/
theorem foreach_break (body : EvalM Unit) (vars : List Str) (vals : List Val) (rest : List (List Val))
    (s s1 s2 : St) (hb : bindVars vars vals s = .ok () s1) (hbody : body s1 = .sig true s2) :
    forLoop body vars (vals :: rest) s = .ok () { s2 with cov := .note cs!"foreach:break" :: s2.cov } := by
  simp [forLoop, hb, hbody]

/-- `continue` skips the rest of the body and goes on with the next item, exactly like a body that
ran to its end -/
theorem foreach_continue (body : EvalM Unit) (vars : List Str) (vals : List Val) (rest : List (List Val))
    (s s1 s2 : St) (hb : bindVars vars vals s = .ok () s1) (hbody : body s1 = .sig false s2) :
    forLoop body vars (vals :: rest) s =
      forLoop body vars rest { s2 with cov := .note cs!"foreach:continue" :: s2.cov } := by
  simp [forLoop, hb, hbody]

theorem foreach_next (body : EvalM Unit) (vars : List Str) (vals : List Val) (rest : List (List Val))
    (s s1 s2 : St) (hb : bindVars vars vals s = .ok () s1) (hbody : body s1 = .ok () s2) :
    forLoop body vars (vals :: rest) s = forLoop body vars rest s2 := by
  simp [forLoop, hb, hbody]

theorem bindVars_no_signal : ∀ (vars : List Str) (vals : List Val) (s s' : St) (b : Bool),
    bindVars vars vals s ≠ .sig b s'
  | [], _, s, s', b => by simp [bindVars, pure, EvalM.pure]
  | _ :: _, [], s, s', b => by simp [bindVars, pure, EvalM.pure]
  | n :: ns, v :: vs, s, s', b => by
    simp only [bindVars, bind, EvalM.bind, setVar]
    cases h : isBuiltin n
    · simp only [Bool.false_eq_true, ↓reduceIte]
      exact bindVars_no_signal ns vs _ s' b
    · simp

/-- a `break`/`continue` request never leaves the loop that encloses it, whatever the body does -/
theorem foreach_absorbs_signals (body : EvalM Unit) (vars : List Str) :
    ∀ (items : List (List Val)) (s s' : St) (b : Bool), forLoop body vars items s ≠ .sig b s'
  | [], s, s', b => by simp [forLoop, pure, EvalM.pure]
  | vals :: rest, s, s', b => by
    simp only [forLoop]
    cases h1 : bindVars vars vals s with
    | ok u s1 =>
      simp only []
      cases h2 : body s1 with
      | ok u2 s2 => exact foreach_absorbs_signals body vars rest _ s' b
      | err e s2 => simp
      | sig b2 s2 =>
        cases b2
        · exact foreach_absorbs_signals body vars rest _ s' b
        · simp
      | done s2 => simp
    | err e s1 => simp
    | sig b1 s1 => exact absurd h1 (bindVars_no_signal vars vals s _ _)
    | done s1 => simp

/-- so a whole `foreach` statement never propagates one (provided the iterated expression does not) -/
theorem foreach_statement_absorbs (ln : Nat) (vars : List Str) (items : Node) (block : List Node)
    (s s' : St) (b : Bool) (hi : ∀ t, eval hk items (at_ s ln) ≠ .sig b t) :
    eval hk (.foreach ln vars items block) s ≠ .sig b s' := by
  simp only [eval, bind, EvalM.bind, setLine]
  cases h1 : eval hk items { s with line := ln } with
  | ok a s1 =>
    simp only [liftE]
    cases h2 : iterItems a vars.length with
    | ok tuples =>
      simp only []
      cases h3 : forLoop (execBlock hk block) vars tuples
          { s1 with cov := Tag.foreach (Option.map Val.ty a) none :: s1.cov } with
      | ok u s2 => simp [pure, EvalM.pure]
      | err e s2 => simp
      | sig b2 s2 => exact absurd h3 (foreach_absorbs_signals _ _ _ _ _ _)
      | done s2 => simp
    | error e => simp
  | err e s1 => simp
  | sig b1 s1 =>
    intro hc
    cases hc
    exact hi _ h1
  | done s1 => simp

/-- iteration order: arrays in index order, dictionaries in insertion order, `range(a, b, s)`
as a, a+s, … -/
theorem foreach_iteration_order (l : List Val) (d : List (Str × Val)) :
    iterItems (some (.arr l)) 1 = .ok (l.map ([·])) ∧
    iterItems (some (.dict d)) 2 = .ok (d.map (fun e => [.str e.1, e.2])) ∧
    iterItems (some (.range 1 7 2)) 1 = .ok [[.int 1], [.int 3], [.int 5]] := by
  refine ⟨rfl, rfl, by rfl⟩

/-! ### assignment and `+=` touch only the assigned name -/

/-- `name = v`: the new table is the old one with `name` bound to the value; nothing else moves -/
theorem assignment_no_alias (ln : Nat) (name : Str) (v : Node) (s s1 : St) (x : Val)
    (hd : s.depth = 0) (hb : isBuiltin name = false)
    (hv : eval hk v (at_ s ln) = .ok (some x) s1) :
    eval hk (.assign ln name v) s = .ok none { s1 with vars := insert name x s1.vars } ∧
    lookup name (insert name x s1.vars) = some x ∧
    ∀ y, y ≠ name → lookup y (insert name x s1.vars) = lookup y s1.vars := by
  refine ⟨?_, lookup_insert_self _ _ _, fun y hy => lookup_insert_ne _ hy _⟩
  have h0 : ¬ (({ s with line := ln } : St).depth ≠ 0) := by simpa using hd
  simp only [eval, bind, EvalM.bind, setLine, getSt]
  rw [if_neg h0]
  simp only [at_] at hv
  simp only [EvalM.bind, hv, setVar, hb]
  simp [pure, EvalM.pure]

/-- `name += e` builds a NEW value from the old value of `name` and binds it to `name`; every other
name (in particular one that was assigned from `name` before) keeps the value it had -/
theorem plus_assign_fresh (ln : Nat) (name : Str) (e : Node) (s s1 : St) (add old new : Val)
    (hb : isBuiltin name = false)
    (he : eval hk e (at_ s ln) = .ok (some add) s1)
    (hold : lookup name s1.vars = some old)
    (hplus : operatorCall old .plus (some add) = .ok new) :
    eval hk (.plusassign ln name e) s =
      .ok none { s1 with vars := insert name new s1.vars,
                         cov := .bin old.ty .plus add.ty true none :: s1.cov } ∧
    ∀ y, y ≠ name → lookup y (insert name new s1.vars) = lookup y s1.vars := by
  refine ⟨?_, fun y hy => lookup_insert_ne _ hy _⟩
  simp only [at_] at he
  simp only [eval, bind, EvalM.bind, setLine, he, getVar, hb, hold, liftE, setVar, Bool.false_eq_true,
    ↓reduceIte, hplus]
  simp [pure, EvalM.pure]

/-- THE immutability statement, for every tree, every state and every source tree: whatever
evaluating `n` does — finishing, failing, or leaving through `break`/`continue`/`subdir_done()` — a
name that `n` does not syntactically (re)bind (`mayWrite x n = false`: no `x = …`, `x += …`,
`foreach x`, no `set_variable` / `unset_variable` call, whose target is computed, and no `subdir()`,
whose file shares the table) is bound to exactly the value it had before.  In particular `b += …`,
a method call, an operator on a value obtained from `a`, or a whole `subproject()` never changes `a`. -/
theorem no_operation_changes_another_name (files : Files) (fuel : Nat) (x : Str) (n : Node)
    (h : mayWrite x n = false) (s : St) :
    lookup x (eval (hooksAt files fuel) n s).st.vars = lookup x s.vars := by
  have := frame_eval x (hooksAt files fuel) (hooksAt_subproject_frame files fuel) n h
  unfold FrameM at this
  exact this s

/-- the same for a whole block of statements (a build file, a loop body, an `if` arm) -/
theorem block_changes_only_assigned_names (files : Files) (fuel : Nat) (x : Str) (b : List Node)
    (h : mayWriteL x b = false) (s : St) :
    lookup x (execBlock (hooksAt files fuel) b s).st.vars = lookup x s.vars := by
  have := frame_execBlock x (hooksAt files fuel) (hooksAt_subproject_frame files fuel) b h
  unfold FrameM at this
  exact this s

/-! ### `subdir()` and `subproject()` -/

theorem leave_keeps (prev : Str) (r : Res Unit) :
    ((match leaveSubdir prev r () with
        | .ok _ s2 => .ok none s2
        | .err e s2 => .err e s2
        | .sig b s2 => .sig b s2
        | .done s2 => .done s2 : Res (Option Val))).st.vars = r.st.vars ∧
    ((match leaveSubdir prev r () with
        | .ok _ s2 => .ok none s2
        | .err e s2 => .err e s2
        | .sig b s2 => .sig b s2
        | .done s2 => .done s2 : Res (Option Val))).st.out = r.st.out := by
  cases r <;> exact ⟨rfl, rfl⟩

/-- `subdir('d')` IS the execution of d's block in place: the block is run by the same evaluator on
the caller's own state — same variable table, same log — with only the directory bookkeeping
switched (and restored afterwards); `subdir_done()` inside ends the file, not the caller.  For every
file table, every fuel level and every state meeting `func_subdir`'s preconditions. -/
theorem subdir_shares_env (files : Files) (fuel : Nat) (d : Str) (block : List Node) (s : St)
    (h : SubdirOk files s d block) :
    let dir := joinPath s.subdir d
    let inPlace := execBlock (hooksAt files fuel) block { s with visited := dir :: s.visited, subdir := dir }
    ({ s with visited := dir :: s.visited, subdir := dir } : St).vars = s.vars ∧
    (hooksAt files (fuel + 1)).subdir d s =
      (match leaveSubdir s.subdir inPlace () with
        | .ok _ s2 => .ok none s2
        | .err e s2 => .err e s2
        | .sig b s2 => .sig b s2
        | .done s2 => .done s2) ∧
    ((hooksAt files (fuel + 1)).subdir d s).st.vars = inPlace.st.vars ∧
    ((hooksAt files (fuel + 1)).subdir d s).st.out = inPlace.st.out := by
  intro dir inPlace
  have e : (hooksAt files (fuel + 1)).subdir d s = _ := enterSubdir_eq _ files d block s h
  refine ⟨rfl, e, ?_, ?_⟩ <;> rw [e]
  · exact (leave_keeps s.subdir inPlace).1
  · exact (leave_keeps s.subdir inPlace).2

/-- entering the same directory twice is an error, and so is a directory without a build file -/
theorem subdir_twice_is_error (files : Files) (fuel : Nat) (d : Str) (s : St)
    (h1 : hasSub ['.', '.'] d = false) (h2 : (s.subdir.isEmpty && d = cs!"subprojects") = false)
    (h3 : (s.subdir.isEmpty && cs!"meson-".isPrefixOf d) = false) (h4 : d.isEmpty = false)
    (h5 : d.head? ≠ some '/') (h6 : plainPath d = true) :
    (s.visited.contains (joinPath s.subdir d) = true →
      (hooksAt files (fuel + 1)).subdir d s = .err .invalidArguments s) ∧
    (s.visited.contains (joinPath s.subdir d) = false → fileOf files (joinPath s.subdir d) = none →
      (hooksAt files (fuel + 1)).subdir d s =
        .err .interpreterException { s with visited := joinPath s.subdir d :: s.visited }) := by
  constructor
  · intro hv
    show enterSubdir _ files d s = _
    unfold enterSubdir
    simp only [h1, h2, h3, h4, h5, h6, hv, Bool.false_eq_true, ↓reduceIte, Bool.not_true]
  · intro hv hf
    show enterSubdir _ files d s = _
    unfold enterSubdir
    simp only [h1, h2, h3, h4, h5, h6, hv, hf, Bool.false_eq_true, ↓reduceIte, Bool.not_true]

/-- `subproject()` is isolated in both directions:
* the callee sees nothing of the caller's variables — the whole outcome (returned object, log, error)
  is the same whatever the caller's variable table holds;
* the caller's variable table is exactly what it was — no name of the subproject becomes visible. -/
theorem subproject_isolated (files : Files) (fuel : Nat) (name : Str) (s : St) (v' : List (Str × Val)) :
    ((hooksAt files (fuel + 1)).subproject name s).forgetVars =
      ((hooksAt files (fuel + 1)).subproject name { s with vars := v' }).forgetVars ∧
    ((hooksAt files (fuel + 1)).subproject name s).st.vars = s.vars :=
  ⟨enterSubproject_blind _ files name s v', enterSubproject_vars _ files name s⟩

/-- the sub-interpreter starts from an empty variable table -/
theorem subproject_starts_empty (s : St) (name : Str) : (childState s name).vars = [] := rfl

/-- the only way in is `get_variable` on the returned object, which reads the subproject's final table -/
theorem subproject_get_variable (name : Str) (vars : List (Str × Val)) (k : Str) (dflt : Val) :
    methodCall (.subproj name vars) cs!"get_variable" [.str k] [] =
      (match lookup k vars with | some v => .ok v | none => .error .invalidArguments) ∧
    methodCall (.subproj name vars) cs!"get_variable" [.str k, dflt] [] =
      .ok ((lookup k vars).getD dflt) := by
  have hm : (methodsOf (Val.subproj name vars).ty).contains cs!"get_variable" = true := by
    show (methodsOf .subproj).contains cs!"get_variable" = true
    decide
  have hs : sigOf .subproj cs!"get_variable" = some (.pos [.str] [.object]) := by decide
  constructor <;> unfold methodCall <;> rw [hm] <;>
    simp [subprojMethod, noKw, argCheck, hs, typedPos, allInst, isInstance, Val.ty, bind, Except.bind, pure,
      Except.pure] <;>
    cases lookup k vars <;> rfl

example : mayWrite cs!"a" (.plusassign 3 cs!"b" (.arr 3 [.id 3 cs!"a"] [] false)) = false := by decide

/-- the documented example: `b = a; b += [2]` leaves `a` alone -/
def aliasProgram : List Node :=
  [.assign 1 cs!"a" (.arr 1 [.num 1 1] [] false), .assign 2 cs!"b" (.id 2 cs!"a"),
   .plusassign 3 cs!"b" (.arr 3 [.num 3 2] [] false)]

def varIs (r : Res Unit) (x : Str) (v : Val) : Bool :=
  match r with
  | .ok _ s => (match lookup x s.vars with | some w => pyEq w v && pyEq v w | none => false)
  | _ => false

example : varIs (runProgram aliasProgram) cs!"a" (.arr [.int 1]) = true ∧
          varIs (runProgram aliasProgram) cs!"b" (.arr [.int 1, .int 2]) = true := by decide +kernel

end MesonModel.Props.C01
