/-
C01 — build definitions evaluate exactly as the language reference prescribes.

Property theorems over the evaluator model (`MesonModel/Eval/Model.lean`), for ALL trees / values /
states; helper lemmas live in `MesonModel/Eval/Lemmas.lean`.  The operator and method tables the
statements depend on are the regenerated ones (`Generated/EvalTables.lean`).
-/
import MesonModel.Eval.Lemmas

namespace MesonModel.Props.C01
open MesonModel.Eval MesonModel.Generated

/-- evaluation of `n` entered with `current_node` set to line `ln` -/
abbrev at_ (s : St) (ln : Nat) : St := { s with line := ln }

/-! ### short-circuit `and` / `or` -/

/-- if the left operand of `and` is false, the result is `false` in the state the left operand left
behind, whatever the right operand is: it is not evaluated (not even when it would fail) -/
theorem and_short_circuit (ln : Nat) (l r : Node) (s s1 : St) (v : Val)
    (hl : eval l (at_ s ln) = .ok (some v) s1)
    (hv : operatorCall v .bool none = .ok (.bool false)) :
    eval (.and_ ln l r) s =
      .ok (some (.bool false))
        { s1 with cov := .note cs!"and:short-circuit" :: .unary .bool v.ty none :: s1.cov } := by
  simp [eval, bind, EvalM.bind, setLine, hl, truth, liftE, hv, tag, pure, EvalM.pure]

/-- hence replacing the right operand by any other expression changes nothing -/
theorem and_right_operand_irrelevant (ln : Nat) (l r r' : Node) (s s1 : St) (v : Val)
    (hl : eval l (at_ s ln) = .ok (some v) s1)
    (hv : operatorCall v .bool none = .ok (.bool false)) :
    eval (.and_ ln l r) s = eval (.and_ ln l r') s := by
  rw [and_short_circuit ln l r s s1 v hl hv, and_short_circuit ln l r' s s1 v hl hv]

theorem or_short_circuit (ln : Nat) (l r : Node) (s s1 : St) (v : Val)
    (hl : eval l (at_ s ln) = .ok (some v) s1)
    (hv : operatorCall v .bool none = .ok (.bool true)) :
    eval (.or_ ln l r) s =
      .ok (some (.bool true))
        { s1 with cov := .note cs!"or:short-circuit" :: .unary .bool v.ty none :: s1.cov } := by
  simp [eval, bind, EvalM.bind, setLine, hl, truth, liftE, hv, tag, pure, EvalM.pure]

theorem or_right_operand_irrelevant (ln : Nat) (l r r' : Node) (s s1 : St) (v : Val)
    (hl : eval l (at_ s ln) = .ok (some v) s1)
    (hv : operatorCall v .bool none = .ok (.bool true)) :
    eval (.or_ ln l r) s = eval (.or_ ln l r') s := by
  rw [or_short_circuit ln l r s s1 v hl hv, or_short_circuit ln l r' s s1 v hl hv]

/-- a failing left operand decides the whole expression too -/
theorem and_left_error (ln : Nat) (l r r' : Node) (s s1 : St) (e : ErrK)
    (hl : eval l (at_ s ln) = .err e s1) :
    eval (.and_ ln l r) s = .err e s1 ∧ eval (.or_ ln l r') s = .err e s1 := by
  constructor <;> simp [eval, bind, EvalM.bind, setLine, hl]

/-- only `bool` has a truth value: `and`/`or`/`if`/ternary on anything else is an error -/
theorem truth_only_bool (v : Val) (b : Bool) (h : operatorCall v .bool none = .ok (.bool b)) :
    v = .bool b := by
  cases v <;> simp [operatorCall, opEntry, opEntryIn, EvalTables.opTable, Val.ty, opBody] at h
  exact congrArg Val.bool h

example : ∃ s1, eval (.and_ 1 (.bool 1 false) (.id 1 cs!"undefined")) {} = .ok (some (.bool false)) s1 :=
  ⟨_, and_short_circuit 1 (.bool 1 false) _ {} _ (.bool false) rfl rfl⟩

/-! ### integer division and modulo -/

/-- `a / b` is the floor of the quotient -/
theorem div_floor (a b : Int) (hb : b ≠ 0) :
    operatorCall (.int a) .div (some (.int b)) = .ok (.int (pyFloorDiv a b)) ∧
    (b > 0 → b * pyFloorDiv a b ≤ a ∧ a < b * pyFloorDiv a b + b) ∧
    (b < 0 → a ≤ b * pyFloorDiv a b ∧ b * pyFloorDiv a b + b < a) := by
  refine ⟨?_, pyFloorDiv_pos a b, pyFloorDiv_neg a b⟩
  simp [operatorCall, opEntry, opEntryIn, EvalTables.opTable, isInstance, Val.ty, opBody, asInt, intOp, hb]

/-- `a % b` has the sign of the divisor and is smaller in magnitude -/
theorem mod_sign_of_divisor (a b : Int) (hb : b ≠ 0) :
    operatorCall (.int a) .mod (some (.int b)) = .ok (.int (pyMod a b)) ∧
    (b > 0 → 0 ≤ pyMod a b ∧ pyMod a b < b) ∧ (b < 0 → b < pyMod a b ∧ pyMod a b ≤ 0) := by
  refine ⟨?_, ?_, ?_⟩
  · simp [operatorCall, opEntry, opEntryIn, EvalTables.opTable, isInstance, Val.ty, opBody, asInt, intOp, hb]
  · intro h; have := pyFloorDiv_pos a b h; unfold pyMod; omega
  · intro h; have := pyFloorDiv_neg a b h; unfold pyMod; omega

theorem div_mod_identity (a b : Int) : b * pyFloorDiv a b + pyMod a b = a := by
  unfold pyMod; omega

theorem div_by_zero_is_error (a : Int) :
    operatorCall (.int a) .div (some (.int 0)) = .error .invalidArguments ∧
    operatorCall (.int a) .mod (some (.int 0)) = .error .invalidArguments := by
  constructor <;>
    simp [operatorCall, opEntry, opEntryIn, EvalTables.opTable, isInstance, Val.ty, opBody, asInt, intOp]

/-- the evaluator computes exactly this for every pair of operand expressions -/
theorem eval_div (ln : Nat) (l r : Node) (s s1 s2 : St) (a b : Int) (hb : b ≠ 0)
    (hl : eval l (at_ s ln) = .ok (some (.int a)) s1) (hr : eval r s1 = .ok (some (.int b)) s2) :
    eval (.arith ln .div l r) s =
      .ok (some (.int (pyFloorDiv a b))) { s2 with cov := .bin .int .div .int false none :: s2.cov } := by
  simp [eval, bind, EvalM.bind, setLine, hl, hr, liftE, arithOp, (div_floor a b hb).1, Val.ty, pure, EvalM.pure]

example : pyFloorDiv 7 (-2) = -4 ∧ pyMod 7 (-2) = -1 ∧ pyFloorDiv (-7) 2 = -4 ∧ pyMod (-7) 2 = 1 := by decide

/-! ### strict typing -/

/-- arithmetic and ordering/equality operators (the ones the reference types strictly) -/
def strictOp : Op → Bool
  | .plus | .minus | .times | .div | .mod | .equals | .notEquals | .greater | .less | .greaterEquals
  | .lessEquals => true
  | _ => false

/-- what the reference promises: operands of different types are never combined -/
def no_implicit_conversion_full : Prop :=
  ∀ (op : Op) (l r : Val), strictOp op = true → l.ty ≠ r.ty → ¬ (l.ty = .arr ∧ op = .plus) →
    ∃ e, operatorCall l op (some r) = .error e ∧ e ≠ .unsupported

/-- what the code does: the statement holds except for `int <op> bool` (`isinstance(True, int)`) -/
theorem no_implicit_conversion_partial (op : Op) (l r : Val) (hop : strictOp op = true)
    (hty : l.ty ≠ r.ty) (happend : ¬ (l.ty = .arr ∧ op = .plus))
    (hquirk : ¬ (l.ty = .int ∧ r.ty = .bool)) :
    ∃ e, operatorCall l op (some r) = .error e ∧ e ≠ .unsupported := by
  cases l <;> cases r <;> simp [Val.ty] at hty happend hquirk <;> cases op <;>
    simp [strictOp] at hop happend <;>
    first
      | exact ⟨.invalidArguments, rfl, by decide⟩
      | exact ⟨.invalidCode, rfl, by decide⟩

/-- the retained quirk: every `int` operator accepts a `bool` right operand as 0/1 -/
theorem no_implicit_conversion_counterexample : ¬ no_implicit_conversion_full := by
  intro h
  obtain ⟨e, he, _⟩ := h .plus (.int 1) (.bool true) rfl (by decide) (by decide)
  have : operatorCall (.int 1) .plus (some (.bool true)) = .ok (.int 2) := by decide
  rw [this] at he
  cases he

theorem bool_is_int_quirk (a : Int) (b : Bool) :
    operatorCall (.int a) .plus (some (.bool b)) = .ok (.int (a + if b then 1 else 0)) ∧
    operatorCall (.bool b) .plus (some (.int a)) = .error .invalidCode ∧
    operatorCall (.bool b) .equals (some (.int a)) = .error .invalidArguments := by
  refine ⟨?_, rfl, rfl⟩
  simp [operatorCall, opEntry, opEntryIn, EvalTables.opTable, isInstance, Val.ty, opBody, asInt, intOp]

/-- inside containers equality is Python's `==`: `[1] == [true]` -/
theorem container_equality_quirk : pyEq (.arr [.int 1]) (.arr [.bool true]) = true := by decide

example : ∃ e, operatorCall (.str cs!"a") .plus (some (.int 1)) = .error e ∧ e ≠ .unsupported :=
  no_implicit_conversion_partial .plus _ _ rfl (by decide) (by decide) (by decide)

/-! ### indexing -/

/-- `a[-k]` is the k-th element from the end -/
theorem index_negative (l : List Val) (k : Nat) (h1 : 1 ≤ k) (h2 : k ≤ l.length) :
    operatorCall (.arr l) .index (some (.int (-(k : Int)))) =
      operatorCall (.arr l) .index (some (.int ((l.length - k : Nat) : Int))) ∧
    operatorCall (.arr l) .index (some (.int (-(k : Int)))) = .ok (l[l.length - k]'(by omega)) := by
  have hlt : l.length - k < l.length := by omega
  have e1 := pyIndex_neg l k h1 h2
  have e2 := pyIndex_nonneg l (l.length - k) hlt
  constructor <;>
    simp [operatorCall, opEntry, opEntryIn, EvalTables.opTable, isInstance, Val.ty, opBody, arrOp, asInt, e1, e2]

/-- an index outside `[-len, len)` is an error, for arrays and strings alike -/
theorem index_bounds_error (l : List Val) (s : Str) (i : Int) :
    ((i < -(l.length : Int) ∨ i ≥ l.length) →
      operatorCall (.arr l) .index (some (.int i)) = .error .invalidArguments) ∧
    ((i < -(s.length : Int) ∨ i ≥ s.length) →
      operatorCall (.str s) .index (some (.int i)) = .error .invalidArguments) := by
  constructor <;> intro h <;>
    simp [operatorCall, opEntry, opEntryIn, EvalTables.opTable, isInstance, Val.ty, opBody, arrOp, strOp, asInt,
      pyIndex_oob _ i h]

/-- a non-integer index is an error (no conversion of `'0'` to `0`) -/
theorem index_type_error (l : List Val) (k : Str) :
    operatorCall (.arr l) .index (some (.str k)) = .error .invalidArguments := rfl

/-! ### `dict.keys()` -/

/-- `keys()` is the sorted list (code-point order) of exactly the dictionary's keys -/
theorem keys_sorted (d : List (Str × Val)) :
    methodCall (.dict d) cs!"keys" [] [] = .ok (.arr ((dictKeysSorted d).map .str)) ∧
    Sorted (dictKeysSorted d) ∧ (dictKeysSorted d).Perm (d.map (·.1)) := by
  refine ⟨?_, sortStrs_sorted _, sortStrs_perm _⟩
  have hm : (methodsOf .dict).contains cs!"keys" = true := by decide
  simp [methodCall, hm, Val.ty, dictMethod, noKw, noPos, flattenL, bind, Except.bind, pure, Except.pure]

example : dictKeysSorted [(cs!"b", .int 1), (cs!"a", .int 2), (cs!"B", .int 3)] = [cs!"B", cs!"a", cs!"b"] := by
  decide

end MesonModel.Props.C01
