/-
C01 — build definitions evaluate exactly as the language reference prescribes.

Property theorems over the evaluator model (`MesonModel/Eval/Model.lean`), for ALL trees / values /
states; helper lemmas live in `MesonModel/Eval/Lemmas.lean`.  The operator and method tables the
statements depend on are the regenerated ones (`Generated/EvalTables.lean`).
-/
import MesonModel.Eval.Lemmas
import MesonModel.Eval.Frame

namespace MesonModel.Props.C01
open MesonModel.Eval MesonModel.Generated

/-- evaluation of `n` entered with `current_node` set to line `ln` -/
abbrev at_ (s : St) (ln : Nat) : St := { s with line := ln }

/- the entry points for `subdir()` / `subproject()` (`hooksFor files` for a source tree `files`);
everything below holds for all of them -/
variable (hk : Hooks)

/-! ### short-circuit `and` / `or` -/

/-- if the left operand of `and` is false, the result is `false` in the state the left operand left
behind, whatever the right operand is: it is not evaluated (not even when it would fail) -/
theorem and_short_circuit (ln : Nat) (l r : Node) (s s1 : St) (v : Val)
    (hl : eval hk l (at_ s ln) = .ok (some v) s1)
    (hv : operatorCall v .bool none = .ok (.bool false)) :
    eval hk (.and_ ln l r) s =
      .ok (some (.bool false))
        { s1 with cov := .note cs!"and:short-circuit" :: .unary .bool v.ty none :: s1.cov } := by
  simp [eval, bind, EvalM.bind, setLine, hl, truth, liftE, hv, tag, pure, EvalM.pure]

/-- hence replacing the right operand by any other expression changes nothing -/
theorem and_right_operand_irrelevant (ln : Nat) (l r r' : Node) (s s1 : St) (v : Val)
    (hl : eval hk l (at_ s ln) = .ok (some v) s1)
    (hv : operatorCall v .bool none = .ok (.bool false)) :
    eval hk (.and_ ln l r) s = eval hk (.and_ ln l r') s := by
  rw [and_short_circuit hk ln l r s s1 v hl hv, and_short_circuit hk ln l r' s s1 v hl hv]

theorem or_short_circuit (ln : Nat) (l r : Node) (s s1 : St) (v : Val)
    (hl : eval hk l (at_ s ln) = .ok (some v) s1)
    (hv : operatorCall v .bool none = .ok (.bool true)) :
    eval hk (.or_ ln l r) s =
      .ok (some (.bool true))
        { s1 with cov := .note cs!"or:short-circuit" :: .unary .bool v.ty none :: s1.cov } := by
  simp [eval, bind, EvalM.bind, setLine, hl, truth, liftE, hv, tag, pure, EvalM.pure]

theorem or_right_operand_irrelevant (ln : Nat) (l r r' : Node) (s s1 : St) (v : Val)
    (hl : eval hk l (at_ s ln) = .ok (some v) s1)
    (hv : operatorCall v .bool none = .ok (.bool true)) :
    eval hk (.or_ ln l r) s = eval hk (.or_ ln l r') s := by
  rw [or_short_circuit hk ln l r s s1 v hl hv, or_short_circuit hk ln l r' s s1 v hl hv]

/-- a failing left operand decides the whole expression too -/
theorem and_left_error (ln : Nat) (l r r' : Node) (s s1 : St) (e : ErrK)
    (hl : eval hk l (at_ s ln) = .err e s1) :
    eval hk (.and_ ln l r) s = .err e s1 ∧ eval hk (.or_ ln l r') s = .err e s1 := by
  constructor <;> simp [eval, bind, EvalM.bind, setLine, hl]

/-- only `bool` has a truth value: `and`/`or`/`if`/ternary on anything else is an error -/
theorem truth_only_bool (v : Val) (b : Bool) (h : operatorCall v .bool none = .ok (.bool b)) :
    v = .bool b := by
  cases v <;> simp [operatorCall, opEntry, opEntryIn, EvalTables.opTable, Val.ty, opBody] at h
  exact congrArg Val.bool h

example : ∃ s1, eval (hooksFor []) (.and_ 1 (.bool 1 false) (.id 1 cs!"undefined")) {} = .ok (some (.bool false)) s1 :=
  ⟨_, and_short_circuit (hooksFor []) 1 (.bool 1 false) _ {} _ (.bool false) rfl rfl⟩

/-! ### integer division and modulo -/

/-- `a / b` is the floor of the quotient -/
theorem div_floor (a b : Int) (hb : b ≠ 0) :
    operatorCall (.int a) .div (some (.int b)) = .ok (.int (pyFloorDiv a b)) ∧
    (b > 0 → b * pyFloorDiv a b ≤ a ∧ a < b * pyFloorDiv a b + b) ∧
    (b < 0 → a ≤ b * pyFloorDiv a b ∧ b * pyFloorDiv a b + b < a) := by
  refine ⟨?_, pyFloorDiv_pos a b, pyFloorDiv_neg a b⟩
  simp [operatorCall, opEntry, opEntryIn, EvalTables.opTable, isInstance, Val.ty, opBody, asInt, intOp, hb]

/-- `a % b` has the sign of the divisor and is smaller in magnitude -/
theorem mod_sign_of_divisor (a b : Int) (hb : b ≠ 0) :
    operatorCall (.int a) .mod (some (.int b)) = .ok (.int (pyMod a b)) ∧
    (b > 0 → 0 ≤ pyMod a b ∧ pyMod a b < b) ∧ (b < 0 → b < pyMod a b ∧ pyMod a b ≤ 0) := by
  refine ⟨?_, ?_, ?_⟩
  · simp [operatorCall, opEntry, opEntryIn, EvalTables.opTable, isInstance, Val.ty, opBody, asInt, intOp, hb]
  · intro h; have := pyFloorDiv_pos a b h; unfold pyMod; omega
  · intro h; have := pyFloorDiv_neg a b h; unfold pyMod; omega

theorem div_mod_identity (a b : Int) : b * pyFloorDiv a b + pyMod a b = a := by
  unfold pyMod; omega

theorem div_by_zero_is_error (a : Int) :
    operatorCall (.int a) .div (some (.int 0)) = .error .invalidArguments ∧
    operatorCall (.int a) .mod (some (.int 0)) = .error .invalidArguments := by
  constructor <;>
    simp [operatorCall, opEntry, opEntryIn, EvalTables.opTable, isInstance, Val.ty, opBody, asInt, intOp]

/-- the evaluator computes exactly this for every pair of operand expressions -/
theorem eval_div (ln : Nat) (l r : Node) (s s1 s2 : St) (a b : Int) (hb : b ≠ 0)
    (hl : eval hk l (at_ s ln) = .ok (some (.int a)) s1) (hr : eval hk r s1 = .ok (some (.int b)) s2) :
    eval hk (.arith ln .div l r) s =
      .ok (some (.int (pyFloorDiv a b))) { s2 with cov := .bin .int .div .int false none :: s2.cov } := by
  simp [eval, bind, EvalM.bind, setLine, hl, hr, liftE, arithOp, (div_floor a b hb).1, Val.ty, pure, EvalM.pure]

example : pyFloorDiv 7 (-2) = -4 ∧ pyMod 7 (-2) = -1 ∧ pyFloorDiv (-7) 2 = -4 ∧ pyMod (-7) 2 = 1 := by decide

/-! ### strict typing -/

/-- what the reference promises: operands of different types are never combined -/
def no_implicit_conversion_full : Prop :=
  ∀ (op : Op) (l r : Val), strictOp op = true → l.ty ≠ r.ty → ¬ (l.ty = .arr ∧ op = .plus) →
    ∃ e, operatorCall l op (some r) = .error e ∧ e ≠ .unsupported

/-- what the code does: the statement holds except for `int <op> bool` (`isinstance(True, int)`).
The proof is reflective: `strictTableOk` is a decidable fact about the REGENERATED operator table
(re-checked by `decide` whenever the table changes), `rejects_sound` relates it to `operatorCall`. -/
theorem no_implicit_conversion_partial (op : Op) (l r : Val) (hop : strictOp op = true)
    (hty : l.ty ≠ r.ty) (happend : ¬ (l.ty = .arr ∧ op = .plus))
    (hquirk : ¬ (l.ty = .int ∧ r.ty = .bool)) :
    ∃ e, operatorCall l op (some r) = .error e ∧ e ≠ .unsupported := by
  apply rejects_sound
  have h := strictTable_spec strictTableOk_holds l.ty op r.ty
  simp only [strictCase, hop, Bool.true_and] at h
  by_cases c1 : l.ty = r.ty
  · exact absurd c1 hty
  · by_cases c2 : (l.ty = .arr ∧ op = .plus)
    · exact absurd c2 happend
    · by_cases c3 : (l.ty = .int ∧ r.ty = .bool)
      · exact absurd c3 hquirk
      · simpa [c1, c2, c3] using h

/-- the retained quirk: every `int` operator accepts a `bool` right operand as 0/1 -/
theorem no_implicit_conversion_counterexample : ¬ no_implicit_conversion_full := by
  intro h
  obtain ⟨e, he, _⟩ := h .plus (.int 1) (.bool true) rfl (by decide) (by decide)
  have : operatorCall (.int 1) .plus (some (.bool true)) = .ok (.int 2) := by rfl
  rw [this] at he
  cases he

theorem bool_is_int_quirk (a : Int) (b : Bool) :
    operatorCall (.int a) .plus (some (.bool b)) = .ok (.int (a + if b then 1 else 0)) ∧
    operatorCall (.bool b) .plus (some (.int a)) = .error .invalidCode ∧
    operatorCall (.bool b) .equals (some (.int a)) = .error .invalidArguments := by
  refine ⟨?_, rfl, rfl⟩
  simp [operatorCall, opEntry, opEntryIn, EvalTables.opTable, isInstance, Val.ty, opBody, asInt, intOp]

/-- inside containers equality is Python's `==`: `[1] == [true]` -/
theorem container_equality_quirk : pyEq (.arr [.int 1]) (.arr [.bool true]) = true := by decide

example : ∃ e, operatorCall (.str cs!"a") .plus (some (.int 1)) = .error e ∧ e ≠ .unsupported :=
  no_implicit_conversion_partial .plus _ _ rfl (by decide) (by decide) (by decide)

/-! ### strict typing of the remaining operand positions (all from the regenerated tables) -/

/-- ANY binary operator whose table entry rejects the operand type fails with a type error
(`rejects` reads only the regenerated `opTable`) -/
theorem typed_operator_rejects (l r : Val) (op : Op) (h : rejects l.ty op r.ty = true) :
    ∃ e, operatorCall l op (some r) = .error e ∧ e ≠ .unsupported := rejects_sound l r op h

/-- which operand types each container accepts for `in` / `not in` and `[]`, as a table fact:
* `x in str`, `x in dict`, `dict[x]` need a `str`; `str[i]`, `array[i]` need an `int`
  (and, the quirk again, accept a `bool`);
* `int`, `bool`, subproject objects support none of them; `range` supports only `[]`;
* NOT strict by design: `x in array` accepts every type (an element of another type is just absent). -/
theorem container_operand_types :
    (∀ t, t ≠ .str → rejects .str .in_ t = true ∧ rejects .str .notIn t = true ∧
                     rejects .dict .in_ t = true ∧ rejects .dict .notIn t = true ∧
                     rejects .dict .index t = true) ∧
    (∀ t, t ≠ .int → t ≠ .bool → rejects .str .index t = true ∧ rejects .arr .index t = true) ∧
    (∀ t op, (op = .in_ ∨ op = .notIn ∨ op = .index) →
        rejects .int op t = true ∧ rejects .bool op t = true ∧ rejects .subproj op t = true) ∧
    (∀ t, rejects .range .in_ t = true ∧ rejects .range .notIn t = true) ∧
    (∀ t, rejects .arr .in_ t = false ∧ rejects .arr .notIn t = false) := by
  refine ⟨?_, ?_, ?_, ?_, ?_⟩
  · intro t; cases t <;> decide
  · intro t; cases t <;> decide
  · intro t op h; rcases h with rfl | rfl | rfl <;> cases t <;> decide
  · intro t; cases t <;> decide
  · intro t; cases t <;> decide

/-- `range(..)[x]` has no operand check at all: a non-integer index escapes as a Python `TypeError`
(an error, but not Meson's own type error) -/
theorem range_index_unchecked (a b c : Int) (k : Str) :
    operatorCall (.range a b c) .index (some (.str k)) = .error .pyTypeError := rfl

/-- unary operators and truth values: `-x` only for `int`, `not x` and the truth value used by
`and` / `or` / `if` / `?:` only for `bool` — every other operand type is an error -/
theorem unary_operand_types (v : Val) :
    (v.ty ≠ .int → operatorCall v .uminus none = .error .invalidCode) ∧
    (v.ty ≠ .bool → operatorCall v .not_ none = .error .invalidCode) ∧
    (v.ty ≠ .bool → operatorCall v .bool none = .error .invalidCode) := by
  refine ⟨?_, ?_, ?_⟩ <;> intro h <;> cases v <;> first | exact absurd rfl h | rfl

/-- `and` / `or` with a non-`bool` left operand fail (no truthiness of `''`, `0`, `[]`, …) -/
theorem logic_operands_must_be_bool (ln : Nat) (l r : Node) (s s1 : St) (v : Val)
    (hl : eval hk l (at_ s ln) = .ok (some v) s1) (hv : v.ty ≠ .bool) :
    eval hk (.and_ ln l r) s = .err .invalidCode { s1 with cov := .unary .bool v.ty (some .invalidCode) :: s1.cov } ∧
    eval hk (.or_ ln l r) s = .err .invalidCode { s1 with cov := .unary .bool v.ty (some .invalidCode) :: s1.cov } := by
  have hb := (unary_operand_types v).2.2 hv
  constructor <;> simp [eval, bind, EvalM.bind, setLine, hl, truth, liftE, hb]

/-- method arguments: a positional argument that is not an instance of the type the method's
decorator declares (signature read from the live decorator into `methodSigs`) is a type error, and so
is a wrong argument count -/
theorem method_args_strict (t : Ty) (name : Str) (req opt : List PyTy) (args : List Val)
    (hs : sigOf t name = some (.pos req opt)) :
    (allInst args (req ++ opt) = false → argCheck t name args = .error .invalidArguments) ∧
    (args.length < req.length ∨ args.length > req.length + opt.length →
      argCheck t name args = .error .invalidArguments) := by
  constructor
  · intro h
    simp only [argCheck, hs, typedPos]
    split
    · rfl
    · split
      · rfl
      · simp [h]
  · intro h
    simp only [argCheck, hs, typedPos]
    rcases h with h | h
    · simp [h]
    · split
      · rfl
      · simp [h]

theorem method_varargs_strict (t : Ty) (name : Str) (ty : PyTy) (min : Nat) (args : List Val)
    (hs : sigOf t name = some (.var ty min)) (h : args.all (fun v => isInstance v ty) = false) :
    argCheck t name args = .error .invalidArguments := by
  simp only [argCheck, hs, typedVar]
  split
  · rfl
  · simp [h]

theorem method_nopos_strict (t : Ty) (name : Str) (args : List Val)
    (hs : sigOf t name = some .noPos) (h : args ≠ []) : argCheck t name args = .error .invalidArguments := by
  simp only [argCheck, hs, noPos]
  cases args with
  | nil => exact absurd rfl h
  | cons a r => rfl

/-- the declared parameter types, as a fact about the regenerated signature table: every parameter is
`str`, `int` or `object`; the `object` (deliberately untyped) ones are exactly the searched element
of `array.contains`, the fallbacks of `array.get` / `dict.get` / `subproject.get_variable` and the
arguments of `str.format` -/
def sigTypes : MSig → List PyTy
  | .noPos => []
  | .pos r o => r ++ o
  | .var t _ => [t]

def untypedParams : List (Ty × Str) :=
  (EvalTables.methodSigs.filter (fun e => (sigTypes e.2.2).contains .object)).map (fun e => (e.1, e.2.1))

theorem method_parameter_types :
    (EvalTables.methodSigs.all fun e => (sigTypes e.2.2).all fun t => t == .str || t == .int || t == .object) = true ∧
    untypedParams = [(.subproj, cs!"get_variable"), (.str, cs!"format"), (.arr, cs!"contains"), (.arr, cs!"get"),
                     (.dict, cs!"get")] := by
  constructor <;> decide

example : methodCall (.str cs!"abc") cs!"contains" [.int 1] [] = .error .invalidArguments := by rfl
example : methodCall (.dict []) cs!"has_key" [.str cs!"a", .str cs!"b"] [] = .error .invalidArguments := by rfl

/-! ### indexing -/

/-- `a[-k]` is the k-th element from the end -/
theorem index_negative (l : List Val) (k : Nat) (h1 : 1 ≤ k) (h2 : k ≤ l.length) :
    operatorCall (.arr l) .index (some (.int (-(k : Int)))) =
      operatorCall (.arr l) .index (some (.int ((l.length - k : Nat) : Int))) ∧
    operatorCall (.arr l) .index (some (.int (-(k : Int)))) = .ok (l[l.length - k]'(by omega)) := by
  have hlt : l.length - k < l.length := by omega
  have e1 := pyIndex_neg l k h1 h2
  have e2 := pyIndex_nonneg l (l.length - k) hlt
  constructor <;>
    simp [operatorCall, opEntry, opEntryIn, EvalTables.opTable, isInstance, Val.ty, opBody, arrOp, asInt, e1, e2]

/-- an index outside `[-len, len)` is an error, for arrays and strings alike -/
theorem index_bounds_error (l : List Val) (s : Str) (i : Int) :
    ((i < -(l.length : Int) ∨ i ≥ l.length) →
      operatorCall (.arr l) .index (some (.int i)) = .error .invalidArguments) ∧
    ((i < -(s.length : Int) ∨ i ≥ s.length) →
      operatorCall (.str s) .index (some (.int i)) = .error .invalidArguments) := by
  constructor <;> intro h <;>
    simp [operatorCall, opEntry, opEntryIn, EvalTables.opTable, isInstance, Val.ty, opBody, arrOp, strOp, asInt,
      pyIndex_oob _ i h]

/-- a non-integer index is an error (no conversion of `'0'` to `0`) -/
theorem index_type_error (l : List Val) (k : Str) :
    operatorCall (.arr l) .index (some (.str k)) = .error .invalidArguments := rfl

/-! ### `dict.keys()` -/

/-- `keys()` is the sorted list (code-point order) of exactly the dictionary's keys -/
theorem keys_sorted (d : List (Str × Val)) :
    methodCall (.dict d) cs!"keys" [] [] = .ok (.arr ((dictKeysSorted d).map .str)) ∧
    Sorted (dictKeysSorted d) ∧ (dictKeysSorted d).Perm (d.map (·.1)) := by
  refine ⟨?_, sortStrs_sorted _, sortStrs_perm _⟩
  unfold methodCall
  have hm : (methodsOf (Val.dict d).ty).contains cs!"keys" = true := by
    show (methodsOf .dict).contains cs!"keys" = true
    decide
  rw [hm]
  have ha : argCheck .dict cs!"keys" [] = .ok () := by rfl
  simp [dictMethod, noKw, flattenL, ha, bind, Except.bind, pure, Except.pure]

example : dictKeysSorted [(cs!"b", .int 1), (cs!"a", .int 2), (cs!"B", .int 3)] = [cs!"B", cs!"a", cs!"b"] := by
  decide

/-! ### `foreach` with `break` / `continue` -/

/-- `break` in the body ends the loop at once: the remaining items are never bound or visited -/
theorem foreach_break (body : EvalM Unit) (vars : List Str) (vals : List Val) (rest : List (List Val))
    (s s1 s2 : St) (hb : bindVars vars vals s = .ok () s1) (hbody : body s1 = .sig true s2) :
    forLoop body vars (vals :: rest) s = .ok () { s2 with cov := .note cs!"foreach:break" :: s2.cov } := by
  simp [forLoop, hb, hbody]

/-- `continue` skips the rest of the body and goes on with the next item, exactly like a body that
ran to its end -/
theorem foreach_continue (body : EvalM Unit) (vars : List Str) (vals : List Val) (rest : List (List Val))
    (s s1 s2 : St) (hb : bindVars vars vals s = .ok () s1) (hbody : body s1 = .sig false s2) :
    forLoop body vars (vals :: rest) s =
      forLoop body vars rest { s2 with cov := .note cs!"foreach:continue" :: s2.cov } := by
  simp [forLoop, hb, hbody]

theorem foreach_next (body : EvalM Unit) (vars : List Str) (vals : List Val) (rest : List (List Val))
    (s s1 s2 : St) (hb : bindVars vars vals s = .ok () s1) (hbody : body s1 = .ok () s2) :
    forLoop body vars (vals :: rest) s = forLoop body vars rest s2 := by
  simp [forLoop, hb, hbody]

theorem bindVars_no_signal : ∀ (vars : List Str) (vals : List Val) (s s' : St) (b : Bool),
    bindVars vars vals s ≠ .sig b s'
  | [], _, s, s', b => by simp [bindVars, pure, EvalM.pure]
  | _ :: _, [], s, s', b => by simp [bindVars, pure, EvalM.pure]
  | n :: ns, v :: vs, s, s', b => by
    simp only [bindVars, bind, EvalM.bind, setVar]
    cases h : isBuiltin n
    · simp only [Bool.false_eq_true, ↓reduceIte]
      exact bindVars_no_signal ns vs _ s' b
    · simp

/-- a `break`/`continue` request never leaves the loop that encloses it, whatever the body does -/
theorem foreach_absorbs_signals (body : EvalM Unit) (vars : List Str) :
    ∀ (items : List (List Val)) (s s' : St) (b : Bool), forLoop body vars items s ≠ .sig b s'
  | [], s, s', b => by simp [forLoop, pure, EvalM.pure]
  | vals :: rest, s, s', b => by
    simp only [forLoop]
    cases h1 : bindVars vars vals s with
    | ok u s1 =>
      simp only []
      cases h2 : body s1 with
      | ok u2 s2 => exact foreach_absorbs_signals body vars rest _ s' b
      | err e s2 => simp
      | sig b2 s2 =>
        cases b2
        · exact foreach_absorbs_signals body vars rest _ s' b
        · simp
      | done s2 => simp
    | err e s1 => simp
    | sig b1 s1 => exact absurd h1 (bindVars_no_signal vars vals s _ _)
    | done s1 => simp

/-- so a whole `foreach` statement never propagates one (provided the iterated expression does not) -/
theorem foreach_statement_absorbs (ln : Nat) (vars : List Str) (items : Node) (block : List Node)
    (s s' : St) (b : Bool) (hi : ∀ t, eval hk items (at_ s ln) ≠ .sig b t) :
    eval hk (.foreach ln vars items block) s ≠ .sig b s' := by
  simp only [eval, bind, EvalM.bind, setLine]
  cases h1 : eval hk items { s with line := ln } with
  | ok a s1 =>
    simp only [liftE]
    cases h2 : iterItems a vars.length with
    | ok tuples =>
      simp only []
      cases h3 : forLoop (execBlock hk block) vars tuples
          { s1 with cov := Tag.foreach (Option.map Val.ty a) none :: s1.cov } with
      | ok u s2 => simp [pure, EvalM.pure]
      | err e s2 => simp
      | sig b2 s2 => exact absurd h3 (foreach_absorbs_signals _ _ _ _ _ _)
      | done s2 => simp
    | error e => simp
  | err e s1 => simp
  | sig b1 s1 =>
    intro hc
    cases hc
    exact hi _ h1
  | done s1 => simp

/-- iteration order: arrays in index order, dictionaries in insertion order, `range(a, b, s)`
as a, a+s, … -/
theorem foreach_iteration_order (l : List Val) (d : List (Str × Val)) :
    iterItems (some (.arr l)) 1 = .ok (l.map ([·])) ∧
    iterItems (some (.dict d)) 2 = .ok (d.map (fun e => [.str e.1, e.2])) ∧
    iterItems (some (.range 1 7 2)) 1 = .ok [[.int 1], [.int 3], [.int 5]] := by
  refine ⟨rfl, rfl, by rfl⟩

/-! ### assignment and `+=` touch only the assigned name -/

/-- `name = v`: the new table is the old one with `name` bound to the value; nothing else moves -/
theorem assignment_no_alias (ln : Nat) (name : Str) (v : Node) (s s1 : St) (x : Val)
    (hd : s.depth = 0) (hb : isBuiltin name = false)
    (hv : eval hk v (at_ s ln) = .ok (some x) s1) :
    eval hk (.assign ln name v) s = .ok none { s1 with vars := insert name x s1.vars } ∧
    lookup name (insert name x s1.vars) = some x ∧
    ∀ y, y ≠ name → lookup y (insert name x s1.vars) = lookup y s1.vars := by
  refine ⟨?_, lookup_insert_self _ _ _, fun y hy => lookup_insert_ne _ hy _⟩
  have h0 : ¬ (({ s with line := ln } : St).depth ≠ 0) := by simpa using hd
  simp only [eval, bind, EvalM.bind, setLine, getSt]
  rw [if_neg h0]
  simp only [at_] at hv
  simp only [EvalM.bind, hv, setVar, hb]
  simp [pure, EvalM.pure]

/-- `name += e` builds a NEW value from the old value of `name` and binds it to `name`; every other
name (in particular one that was assigned from `name` before) keeps the value it had -/
theorem plus_assign_fresh (ln : Nat) (name : Str) (e : Node) (s s1 : St) (add old new : Val)
    (hb : isBuiltin name = false)
    (he : eval hk e (at_ s ln) = .ok (some add) s1)
    (hold : lookup name s1.vars = some old)
    (hplus : operatorCall old .plus (some add) = .ok new) :
    eval hk (.plusassign ln name e) s =
      .ok none { s1 with vars := insert name new s1.vars,
                         cov := .bin old.ty .plus add.ty true none :: s1.cov } ∧
    ∀ y, y ≠ name → lookup y (insert name new s1.vars) = lookup y s1.vars := by
  refine ⟨?_, fun y hy => lookup_insert_ne _ hy _⟩
  simp only [at_] at he
  simp only [eval, bind, EvalM.bind, setLine, he, getVar, hb, hold, liftE, setVar, Bool.false_eq_true,
    ↓reduceIte, hplus]
  simp [pure, EvalM.pure]

/-- THE immutability statement, for every tree, every state and every source tree: whatever
evaluating `n` does — finishing, failing, or leaving through `break`/`continue`/`subdir_done()` — a
name that `n` does not syntactically (re)bind (`mayWrite x n = false`: no `x = …`, `x += …`,
`foreach x`, no `set_variable` / `unset_variable` call, whose target is computed, and no `subdir()`,
whose file shares the table) is bound to exactly the value it had before.  In particular `b += …`,
a method call, an operator on a value obtained from `a`, or a whole `subproject()` never changes `a`. -/
theorem no_operation_changes_another_name (files : Files) (fuel : Nat) (x : Str) (n : Node)
    (h : mayWrite x n = false) (s : St) :
    lookup x (eval (hooksAt files fuel) n s).st.vars = lookup x s.vars := by
  have := frame_eval x (hooksAt files fuel) (hooksAt_subproject_frame files fuel) n h
  unfold FrameM at this
  exact this s

/-- the same for a whole block of statements (a build file, a loop body, an `if` arm) -/
theorem block_changes_only_assigned_names (files : Files) (fuel : Nat) (x : Str) (b : List Node)
    (h : mayWriteL x b = false) (s : St) :
    lookup x (execBlock (hooksAt files fuel) b s).st.vars = lookup x s.vars := by
  have := frame_execBlock x (hooksAt files fuel) (hooksAt_subproject_frame files fuel) b h
  unfold FrameM at this
  exact this s

/-! ### `subdir()` and `subproject()` -/

theorem leave_keeps (prev : Str) (r : Res Unit) :
    ((match leaveSubdir prev r () with
        | .ok _ s2 => .ok none s2
        | .err e s2 => .err e s2
        | .sig b s2 => .sig b s2
        | .done s2 => .done s2 : Res (Option Val))).st.vars = r.st.vars ∧
    ((match leaveSubdir prev r () with
        | .ok _ s2 => .ok none s2
        | .err e s2 => .err e s2
        | .sig b s2 => .sig b s2
        | .done s2 => .done s2 : Res (Option Val))).st.out = r.st.out := by
  cases r <;> exact ⟨rfl, rfl⟩

/-- `subdir('d')` IS the execution of d's block in place: the block is run by the same evaluator on
the caller's own state — same variable table, same log — with only the directory bookkeeping
switched (and restored afterwards); `subdir_done()` inside ends the file, not the caller.  For every
file table, every fuel level and every state meeting `func_subdir`'s preconditions. -/
theorem subdir_shares_env (files : Files) (fuel : Nat) (d : Str) (block : List Node) (s : St)
    (h : SubdirOk files s d block) :
    let dir := joinPath s.subdir d
    let inPlace := execBlock (hooksAt files fuel) block { s with visited := dir :: s.visited, subdir := dir }
    ({ s with visited := dir :: s.visited, subdir := dir } : St).vars = s.vars ∧
    (hooksAt files (fuel + 1)).subdir d s =
      (match leaveSubdir s.subdir inPlace () with
        | .ok _ s2 => .ok none s2
        | .err e s2 => .err e s2
        | .sig b s2 => .sig b s2
        | .done s2 => .done s2) ∧
    ((hooksAt files (fuel + 1)).subdir d s).st.vars = inPlace.st.vars ∧
    ((hooksAt files (fuel + 1)).subdir d s).st.out = inPlace.st.out := by
  intro dir inPlace
  have e : (hooksAt files (fuel + 1)).subdir d s = _ := enterSubdir_eq _ files d block s h
  refine ⟨rfl, e, ?_, ?_⟩ <;> rw [e]
  · exact (leave_keeps s.subdir inPlace).1
  · exact (leave_keeps s.subdir inPlace).2

/-- entering the same directory twice is an error, and so is a directory without a build file -/
theorem subdir_twice_is_error (files : Files) (fuel : Nat) (d : Str) (s : St)
    (h1 : hasSub ['.', '.'] d = false) (h2 : (s.subdir.isEmpty && d = cs!"subprojects") = false)
    (h3 : (s.subdir.isEmpty && cs!"meson-".isPrefixOf d) = false) (h4 : d.isEmpty = false)
    (h5 : d.head? ≠ some '/') (h6 : plainPath d = true) :
    (s.visited.contains (joinPath s.subdir d) = true →
      (hooksAt files (fuel + 1)).subdir d s = .err .invalidArguments s) ∧
    (s.visited.contains (joinPath s.subdir d) = false → fileOf files (joinPath s.subdir d) = none →
      (hooksAt files (fuel + 1)).subdir d s =
        .err .interpreterException { s with visited := joinPath s.subdir d :: s.visited }) := by
  constructor
  · intro hv
    show enterSubdir _ files d s = _
    unfold enterSubdir
    simp only [h1, h2, h3, h4, h5, h6, hv, Bool.false_eq_true, ↓reduceIte, Bool.not_true]
  · intro hv hf
    show enterSubdir _ files d s = _
    unfold enterSubdir
    simp only [h1, h2, h3, h4, h5, h6, hv, hf, Bool.false_eq_true, ↓reduceIte, Bool.not_true]

/-- `subproject()` is isolated in both directions:
* the callee sees nothing of the caller's variables — the whole outcome (returned object, log, error)
  is the same whatever the caller's variable table holds;
* the caller's variable table is exactly what it was — no name of the subproject becomes visible. -/
theorem subproject_isolated (files : Files) (fuel : Nat) (name : Str) (s : St) (v' : List (Str × Val)) :
    ((hooksAt files (fuel + 1)).subproject name s).forgetVars =
      ((hooksAt files (fuel + 1)).subproject name { s with vars := v' }).forgetVars ∧
    ((hooksAt files (fuel + 1)).subproject name s).st.vars = s.vars :=
  ⟨enterSubproject_blind _ files name s v', enterSubproject_vars _ files name s⟩

/-- the sub-interpreter starts from an empty variable table -/
theorem subproject_starts_empty (s : St) (name : Str) : (childState s name).vars = [] := rfl

/-- the only way in is `get_variable` on the returned object, which reads the subproject's final table -/
theorem subproject_get_variable (name : Str) (vars : List (Str × Val)) (k : Str) (dflt : Val) :
    methodCall (.subproj name vars) cs!"get_variable" [.str k] [] =
      (match lookup k vars with | some v => .ok v | none => .error .invalidArguments) ∧
    methodCall (.subproj name vars) cs!"get_variable" [.str k, dflt] [] =
      .ok ((lookup k vars).getD dflt) := by
  have hm : (methodsOf (Val.subproj name vars).ty).contains cs!"get_variable" = true := by
    show (methodsOf .subproj).contains cs!"get_variable" = true
    decide
  have hs : sigOf .subproj cs!"get_variable" = some (.pos [.str] [.object]) := by decide
  constructor <;> unfold methodCall <;> rw [hm] <;>
    simp [subprojMethod, noKw, argCheck, hs, typedPos, allInst, isInstance, Val.ty, bind, Except.bind, pure,
      Except.pure] <;>
    cases lookup k vars <;> rfl

example : mayWrite cs!"a" (.plusassign 3 cs!"b" (.arr 3 [.id 3 cs!"a"] [] false)) = false := by decide

/-- the documented example: `b = a; b += [2]` leaves `a` alone -/
def aliasProgram : List Node :=
  [.assign 1 cs!"a" (.arr 1 [.num 1 1] [] false), .assign 2 cs!"b" (.id 2 cs!"a"),
   .plusassign 3 cs!"b" (.arr 3 [.num 3 2] [] false)]

def varIs (r : Res Unit) (x : Str) (v : Val) : Bool :=
  match r with
  | .ok _ s => (match lookup x s.vars with | some w => pyEq w v && pyEq v w | none => false)
  | _ => false

example : varIs (runProgram aliasProgram) cs!"a" (.arr [.int 1]) = true ∧
          varIs (runProgram aliasProgram) cs!"b" (.arr [.int 1, .int 2]) = true := by decide +kernel

end MesonModel.Props.C01
