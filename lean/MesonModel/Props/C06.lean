/-
C06 — Configuration is deterministic and does not disturb unchanged outputs.

Every modelled emitter takes the iteration order of each unordered Python collection as a `List`;
"independent of hash randomisation" is invariance under `List.Perm` (written `~`).  Minted identifiers
are the parameter `fresh`.  Where the real emitter still does not satisfy the statement (minted dependency names,
unconditional writers), the full statement is kept as a `def … : Prop`, refuted on a concrete witness
(`…_counterexample`) and the provable part is `…_partial`.  The emitters repaired in /repo by 8af551c,
41e7e99 and 880fde3 are modelled as repaired and their theorems are at full strength.
Helper lemmas: `MesonModel/Det/Lemmas.lean`, `MesonModel/Det/FsLemmas.lean`.
-/
import MesonModel.Det.FsLemmas
import MesonModel.Det.EnvLemmas

namespace MesonModel.Props.C06
open MesonModel.Det List

/-! ### `sorted(set)` forgets the iteration order -/

/-- `sorted(s)` of a set of strings does not depend on the order the set is iterated in -/
theorem sorted_perm_invariant {l₁ l₂ : List Str} (p : l₁ ~ l₂) : sortedStrs l₁ = sortedStrs l₂ :=
  sortedStrs_perm p

/-- … and it is a rearrangement of the set (nothing lost, nothing invented) -/
theorem sorted_is_perm (l : List Str) : sortedStrs l ~ l := sortedStrs_perm_self l

/-! ### `NinjaBuildElement.write`, `NinjaBuild.write` -/

/-- two build elements that differ at most in the iteration order of their `deps`/`orderdeps` sets -/
structure SameUpToSetOrder (e₁ e₂ : BuildElem) : Prop where
  outs : e₁.outs = e₂.outs
  implicitOuts : e₁.implicitOuts = e₂.implicitOuts
  rule : e₁.rule = e₂.rule
  useRsp : e₁.useRsp = e₂.useRsp
  ins : e₁.ins = e₂.ins
  deps : e₁.deps ~ e₂.deps
  orderdeps : e₁.orderdeps ~ e₂.orderdeps

/-- lists of build elements that agree element by element up to set order -/
inductive AllSameUpToSetOrder : List BuildElem → List BuildElem → Prop where
  | nil : AllSameUpToSetOrder [] []
  | cons {a b l₁ l₂} : SameUpToSetOrder a b → AllSameUpToSetOrder l₁ l₂ → AllSameUpToSetOrder (a :: l₁) (b :: l₂)

theorem buildLine_perm_invariant {e₁ e₂ : BuildElem} (h : SameUpToSetOrder e₁ e₂) :
    buildLine e₁ = buildLine e₂ := by
  obtain ⟨o₁, i₁, r₁, u₁, n₁, d₁, od₁⟩ := e₁
  obtain ⟨o₂, i₂, r₂, u₂, n₂, d₂, od₂⟩ := e₂
  obtain ⟨h1, h2, h3, h4, h5, h6, h7⟩ := h
  simp only at h1 h2 h3 h4 h5 h6 h7
  subst h1 h2 h3 h4 h5
  unfold buildLine
  simp only [sortedStrs_perm h6, sortedStrs_perm h7, h6.length_eq, h7.length_eq]

/-- the whole `build.ninja` body: independent of the iteration order of every deps/orderdeps set -/
theorem ninjaWrite_perm_invariant (rules : List Str) {bs₁ bs₂ : List BuildElem}
    (h : AllSameUpToSetOrder bs₁ bs₂) : ninjaWrite rules bs₁ = ninjaWrite rules bs₂ := by
  have : bs₁.mapM buildLine = bs₂.mapM buildLine := by
    induction h with
    | nil => rfl
    | cons hab _ ih => simp only [mapM_cons, buildLine_perm_invariant hab, ih]
  unfold ninjaWrite
  rw [this]

/-- non-vacuity: two different iteration orders, one line -/
def exElem (deps : List Str) : BuildElem := ⟨[['o']], [], ['r'], false, [['i']], deps, []⟩

example : buildLine (exElem [['b'], ['a']]) = buildLine (exElem [['a'], ['b']]) :=
  buildLine_perm_invariant (e₁ := exElem [['b'], ['a']]) (e₂ := exElem [['a'], ['b']])
    ⟨rfl, rfl, rfl, rfl, rfl, Perm.swap _ _ _, Perm.refl _⟩

/-! ### exe-wrapper scratch-file name -/

/-- the hashed text does not depend on the iteration order of the `unset_vars` set (the operations
themselves are an ordered list: program order) -/
theorem envHashInput_perm_invariant (R : List EnvOp × List Str → Str) (ops : List EnvOp)
    {u₁ u₂ : List Str} (p : u₁ ~ u₂) : envHashInput R ops u₁ = envHashInput R ops u₂ := by
  unfold envHashInput
  rw [sortedStrs_perm p]

/-- the pickle name does not depend on the order in which the unset set is iterated -/
theorem wrapperName_perm_invariant (H : Str → Str) (R : List EnvOp × List Str → Str) (ctx : GenCtx)
    (b c w cap f : Str) (ops : List EnvOp) {u₁ u₂ : List Str} (p : u₁ ~ u₂) :
    wrapperName H R ctx b (some (ops, u₁)) c w cap f = wrapperName H R ctx b (some (ops, u₂)) c w cap f := by
  unfold wrapperName
  simp only []
  rw [envHashInput_perm_invariant R ops p]

/-- the name is a function of the serialised content alone: not of identifiers minted during the
run, nor of how many wrappers were generated before (so command lines are stable over
regenerations) -/
theorem wrapper_name_function_of_content (H : Str → Str) (R : List EnvOp × List Str → Str) (ctx₁ ctx₂ : GenCtx)
    (b : Str) (env : Option (List EnvOp × List Str)) (c w cap f : Str) :
    wrapperName H R ctx₁ b env c w cap f = wrapperName H R ctx₂ b env c w cap f := rfl

theorem wrapperName_fresh_invariant (H : Str → Str) (R : List EnvOp × List Str → Str) (n : Nat)
    (fresh₁ fresh₂ : Nat → Str) (b : Str) (env : Option (List EnvOp × List Str)) (c w cap f : Str) :
    wrapperName H R ⟨n, fresh₁⟩ b env c w cap f = wrapperName H R ⟨n, fresh₂⟩ b env c w cap f := rfl

/-! ### `_dump_c_header` -/

/-- the generated header is a function of the key ↦ (value, description) mapping -/
theorem dumpCHeader_perm_invariant (nasm : Bool) (macroName : Str)
    {l₁ l₂ : List (Str × ConfVal × Str)} (nd : (l₁.map Prod.fst).Nodup) (p : l₁ ~ l₂) :
    dumpCHeader nasm macroName l₁ = dumpCHeader nasm macroName l₂ := by
  unfold dumpCHeader
  have hk : sortedStrs (l₁.map Prod.fst) = sortedStrs (l₂.map Prod.fst) := sortedStrs_perm (p.map _)
  have hl : ∀ k, l₁.lookup k = l₂.lookup k := lookup_perm nd p
  simp only [hk, hl]

/-! ### `intro-buildoptions.json`: `sorted(opts.items())` with `OptionKey.__lt__` (after 8af551c) -/

/-- `OptionKey.__lt__` is the strict part of a total order on option keys (`None` subproject first, then
subproject, machine, name): `not (b < a)` is `a ≤ b` -/
theorem optKeyLt_is_strict_total_order : (∀ a b : OptKey, (!optKeyLt b a) = keyLe a b) ∧ TotalLe keyLe :=
  ⟨optKeyLt_eq, keyLe_totalLe⟩

def kLto : OptKey := ⟨none, 1, "b_lto".toList⟩
def kPie : OptKey := ⟨none, 1, "b_pie".toList⟩

/-- a section of the listing does not depend on the order in which its keys arrive -/
theorem addKeys_perm_invariant {l₁ l₂ : List OptKey} (s : Str) (p : l₁ ~ l₂) :
    addKeys l₁ s = addKeys l₂ s := by
  unfold addKeys
  rw [pySortedBy_optKeyLt_perm p]

/-- regression witness of the defect repaired by 8af551c: two iteration orders of the base options,
one output (before the repair `sorted()` was the identity on keys without subproject) -/
example : addKeys [kLto, kPie] [] = addKeys [kPie, kLto] [] := addKeys_perm_invariant _ (Perm.swap _ _ _)

theorem keysOf_perm {s₁ s₂ : List (OptKey × OptKind)} (p : s₁ ~ s₂) (k : OptKind) :
    keysOf s₁ k ~ keysOf s₂ k := (p.filter _).map _

/-- the listing depends only on the *set* of (key, kind) entries of the option store -/
theorem listBuildoptions_perm_invariant {s₁ s₂ : List (OptKey × OptKind)} (p : s₁ ~ s₂) :
    listBuildoptions s₁ = listBuildoptions s₂ := by
  unfold listBuildoptions
  have a := fun k => pySortedBy_optKeyLt_perm (keysOf_perm p k)
  have c : (keysOf s₁ .compiler).mergeSort (fun a b => decide (a.machine ≤ b.machine)) ~
           (keysOf s₂ .compiler).mergeSort (fun a b => decide (a.machine ≤ b.machine)) :=
    (mergeSort_perm _ _).trans ((keysOf_perm p _).trans (mergeSort_perm _ _).symm)
  have u := pySortedBy_optKeyLt_perm ((keysOf_perm p .project).map
    fun k => if k.sub = some [] then { k with sub := none } else k)
  simp only [addKeys, a, pySortedBy_optKeyLt_perm c, u]

/-- end to end: configure (base options arrive by iterating the *set* `Compiler.base_options`, in any
order), then introspect — one output -/
theorem introBuildoptions_perm_invariant (store : List (OptKey × OptKind)) {b₁ b₂ : List OptKey}
    (p : b₁ ~ b₂) : introBuildoptions store b₁ = introBuildoptions store b₂ :=
  listBuildoptions_perm_invariant (addBaseOptions_perm (Perm.refl _) p)

/-! ### `intro-tests.json`: `depends`, `LD_LIBRARY_PATH` (after 41e7e99) -/

theorem testDepends_perm_invariant {l₁ l₂ : List Str} (p : l₁ ~ l₂) :
    testDepends l₁ = testDepends l₂ := sortedStrs_perm p

/-- nothing lost, nothing invented -/
theorem testDepends_is_perm (l : List Str) : testDepends l ~ l := sortedStrs_perm_self l

theorem ldLibraryPath_perm_invariant {l₁ l₂ : List Str} (p : l₁ ~ l₂) :
    ldLibraryPath l₁ = ldLibraryPath l₂ := by
  unfold ldLibraryPath; rw [sortedStrs_perm p]

/-! ### `intro-targets.json`: `dependencies` -/

def targetDependencies_fresh_invariant_full : Prop :=
  ∀ (fresh₁ fresh₂ : Nat → Str) (deps : List DepRef),
    targetDependencies fresh₁ deps = targetDependencies fresh₂ deps

/-- false of the code: an anonymous `declare_dependency()` is listed under its minted name -/
theorem targetDependencies_fresh_invariant_counterexample : ¬ targetDependencies_fresh_invariant_full := by
  intro h
  have := h (fun _ => "1".toList) (fun _ => "2".toList) [.anon 0]
  revert this
  decide

/-- holds for targets all of whose external dependencies were found by name -/
theorem targetDependencies_fresh_invariant_partial (fresh₁ fresh₂ : Nat → Str) (deps : List DepRef)
    (h : ∀ d ∈ deps, ∃ n, d = .named n) :
    targetDependencies fresh₁ deps = targetDependencies fresh₂ deps := by
  unfold targetDependencies
  apply map_congr_left
  intro d hd
  obtain ⟨n, rfl⟩ := h d hd
  rfl

example : targetDependencies (fun _ => "1".toList) [.named "zlib".toList] =
    targetDependencies (fun _ => "2".toList) [.named "zlib".toList] :=
  targetDependencies_fresh_invariant_partial _ _ _ (by simp)

/-! ### `intro-install_plan.json`: `exclude_files`, `exclude_dirs` (after 41e7e99) -/

theorem installPlanExcludes_perm_invariant {f₁ f₂ d₁ d₂ : List Str} (pf : f₁ ~ f₂) (pd : d₁ ~ d₂) :
    installPlanExcludes f₁ d₁ = installPlanExcludes f₂ d₂ := by
  unfold installPlanExcludes; rw [sortedStrs_perm pf, sortedStrs_perm pd]

theorem installPlanExcludes_is_perm (f d : List Str) :
    (installPlanExcludes f d).1 ~ d ∧ (installPlanExcludes f d).2 ~ f :=
  ⟨sortedStrs_perm_self d, sortedStrs_perm_self f⟩

/-! ### `DepFile.get_all_dependencies` → `build_def_files` → REGENERATE_BUILD inputs -/

/-- the result depends only on the *relation* "target has dependency": not on the order of the rules,
not on the iteration order of any `Target.deps` set, not on repetitions -/
theorem getAllDependencies_perm_invariant {df₁ df₂ : List (Str × List Str)} (name : Str)
    (hl : df₁.length = df₂.length)
    (h : ∀ t x, x ∈ depsAt df₁ t ↔ x ∈ depsAt df₂ t) :
    getAllDependencies df₁ name = getAllDependencies df₂ name := by
  unfold getAllDependencies
  apply sortedSet_ext
  intro x
  simp only [mem_flatMap]
  have r := reachN_ext h df₁.length (S₁ := [name]) (S₂ := [name]) (fun _ => Iff.rfl)
  rw [← hl]
  constructor
  · rintro ⟨t, ht, hx⟩; exact ⟨t, (r t).mp ht, (h t x).mp hx⟩
  · rintro ⟨t, ht, hx⟩; exact ⟨t, (r t).mpr ht, (h t x).mpr hx⟩

/-- in particular: the dict of rules iterated in any order -/
theorem getAllDependencies_rule_order_invariant {df₁ df₂ : List (Str × List Str)} (name : Str)
    (nd : (df₁.map Prod.fst).Nodup) (p : df₁ ~ df₂) :
    getAllDependencies df₁ name = getAllDependencies df₂ name :=
  getAllDependencies_perm_invariant name p.length_eq (fun t x => by rw [depsAt_perm nd p t])

/-- … and every dependency set iterated in any order -/
theorem getAllDependencies_dep_order_invariant (df : List (Str × List Str)) (f : List Str → List Str)
    (hf : ∀ l, f l ~ l) (name : Str) :
    getAllDependencies (df.map fun e => (e.1, f e.2)) name = getAllDependencies df name := by
  apply getAllDependencies_perm_invariant name (by simp)
  intro t x
  have : depsAt (df.map fun e => (e.1, f e.2)) t = (df.lookup t).elim [] f := by
    unfold depsAt
    induction df with
    | nil => rfl
    | cons e es ih =>
      obtain ⟨k, v⟩ := e
      by_cases hk : t = k
      · subst hk; simp
      · have : (t == k) = false := by simp [hk]
        simp only [map_cons, lookup_cons, this]
        exact ih
  rw [this]
  unfold depsAt
  cases df.lookup t with
  | none => simp
  | some v => simpa using (hf v).mem_iff

/-- the result is exactly the reachable dependency set: nothing lost, nothing invented -/
theorem getAllDependencies_mem (df : List (Str × List Str)) (name x : Str) :
    x ∈ getAllDependencies df name ↔ ∃ t, t ∈ reachN df df.length [name] ∧ x ∈ depsAt df t := by
  unfold getAllDependencies
  rw [mem_sortedSet, mem_flatMap]

/-! ### pkg-config `Requires:` lines -/

/-- `format_reqs` does not depend on the iteration order of any `version_reqs[name]` set -/
theorem formatReqs_perm_invariant (reqs : List Str) {v₁ v₂ : Str → List Str} (h : ∀ n, v₁ n ~ v₂ n) :
    formatReqs reqs v₁ = formatReqs reqs v₂ := by
  unfold formatReqs
  congr 2
  funext name
  have e : (v₁ name).isEmpty = (v₂ name).isEmpty := by
    have := (h name).length_eq
    cases h₁ : v₁ name <;> cases h₂ : v₂ name <;> simp_all
  rw [e, sortedStrs_perm (h name)]

def formatReqsUnsorted_perm_invariant_full : Prop :=
  ∀ (reqs : List Str) (v₁ v₂ : Str → List Str), (∀ n, v₁ n ~ v₂ n) →
    formatReqsUnsorted reqs v₁ = formatReqsUnsorted reqs v₂

/-- without `sorted()`: one package, two constraints, two iteration orders, two `Requires:` lines -/
theorem formatReqsUnsorted_perm_invariant_counterexample : ¬ formatReqsUnsorted_perm_invariant_full := by
  intro h
  have := h [['f']] (fun _ => [">=1".toList, "<2".toList]) (fun _ => ["<2".toList, ">=1".toList])
    (fun _ => Perm.swap _ _ _)
  revert this
  decide

/-! ### dependency cache key; `GeneratedList.depends` -/

/-- the cache-key component depends only on the *set* of strings given (order and repetitions of the
keyword's list do not matter, and no process-specific iteration order enters) -/
theorem depIdentifierListValue_perm_invariant {l₁ l₂ : List Str} (h : ∀ x, x ∈ l₁ ↔ x ∈ l₂) :
    depIdentifierListValue l₁ = depIdentifierListValue l₂ := sortedSet_ext h

theorem depIdentifierListValue_mem (l : List Str) (x : Str) : x ∈ depIdentifierListValue l ↔ x ∈ l :=
  mem_sortedSet l x

def depIdentifierListValueUnsorted_perm_invariant_full : Prop :=
  ∀ l₁ l₂ : List Str, l₁ ~ l₂ → depIdentifierListValueUnsorted l₁ = depIdentifierListValueUnsorted l₂

/-- the defect repaired by 0cba8d8, on record: two processes, two iteration orders, two cache keys -/
theorem depIdentifierListValueUnsorted_perm_invariant_counterexample :
    ¬ depIdentifierListValueUnsorted_perm_invariant_full := by
  intro h
  have := h [['a'], ['b']] [['b'], ['a']] (Perm.swap _ _ _)
  revert this
  decide

theorem genlistDepends_aux (acc l : List Str) (h : (acc ++ l).Nodup) :
    l.foldl (fun acc a => if a ∈ acc then acc else acc ++ [a]) acc = acc ++ l := by
  induction l generalizing acc with
  | nil => simp
  | cons x xs ih =>
    have hx : x ∉ acc := by
      intro hm
      have := (nodup_append.mp h).2.2 x hm x mem_cons_self
      exact this rfl
    simp only [foldl_cons, hx, if_false]
    rw [ih (acc ++ [x]) (by simpa using h)]
    simp

/-- `GeneratedList.depends` as an ordered set (089f6af): for distinct targets it is exactly the order in
which `process()` received them — no iteration-order parameter is left in the emitter -/
theorem genlistDepends_keeps_argument_order (added : List Str) (h : added.Nodup) :
    genlistDepends added = added := by
  unfold genlistDepends
  simpa using genlistDepends_aux [] added (by simpa using h)

example : genlistDepends [['c'], ['a'], ['c'], ['b']] = [['c'], ['a'], ['b']] := by decide

/-! ### cached compiler checks: a reconfigure gives the verdict a fresh configuration gives -/

/-- the invariant a pickling function must preserve: if the verdict only reads the projection `π` of a
result and pickling keeps `π`, then the cached answer on reconfigure is the fresh answer -/
theorem pickle_roundtrip_preserves_verdict {K P} [DecidableEq K] (π : CheckResult → P)
    (v : CheckResult → Bool) (hv : ∀ r r', π r = π r' → v r = v r')
    (pickle : CheckResult → CheckResult) (hp : ∀ r, π (pickle r) = π r) (run : K → CheckResult) (k : K) :
    reconfigureVerdict v pickle run k = freshVerdict v run k := by
  simp only [reconfigureVerdict, freshVerdict, cachedCompile, saveLoad, lookup_nil, map_cons, map_nil,
    lookup_cons_self]
  exact hv _ _ (hp _)

/-- the code: results are pickled whole (no `__getstate__`), so every verdict function is preserved -/
theorem cached_verdict_eq_fresh {K} [DecidableEq K] (v : CheckResult → Bool) (run : K → CheckResult) (k : K) :
    reconfigureVerdict v id run k = freshVerdict v run k :=
  pickle_roundtrip_preserves_verdict id v (fun _ _ h => congrArg v h) id (fun _ => rfl) run k

/-- dropping stderr is fine for verdicts that read the exit status only … -/
theorem dropStderr_preserves_returncode_verdicts {K} [DecidableEq K] (f : Int → Bool)
    (run : K → CheckResult) (k : K) :
    reconfigureVerdict (fun r => f r.returncode) dropStderr run k = freshVerdict (fun r => f r.returncode) run k :=
  pickle_roundtrip_preserves_verdict (fun r => r.returncode) _ (fun _ _ h => by simp only [h]) dropStderr
    (fun _ => rfl) run k

/-- … but not for `has_arguments` of GNU-like compilers: -/
def dropStderr_preserves_gnuHasArguments_full : Prop :=
  ∀ (langIsC : Bool) (run : Unit → CheckResult),
    reconfigureVerdict (gnuHasArguments langIsC) dropStderr run () = freshVerdict (gnuHasArguments langIsC) run ()

/-- gcc, language C, `-Wnon-virtual-dtor`: exit status 0 and a note on stderr.  Fresh: unsupported.
Reconfigured with the stderr-less cached result: supported — build.ninja gains the flag -/
theorem dropStderr_preserves_gnuHasArguments_counterexample : ¬ dropStderr_preserves_gnuHasArguments_full := by
  intro h
  have := h true (fun _ => ⟨0, [], "cc1: warning: command-line option '-Wnon-virtual-dtor' is valid for C++/ObjC++ but not for C".toList⟩)
  revert this
  decide

/-! ### unchanged outputs are not disturbed -/

/-- `replace_if_different(dst, tmp)` with equal contents: `dst` keeps content, mode **and mtime**, the
temporary is gone, every other file is as before — the file system is the old one minus `tmp` -/
theorem replace_if_different_keeps_mtime (fs : FS) (dst tmp : Str) (d t : FileSt)
    (hd : fs.get dst = some d) (ht : fs.get tmp = some t) (hne : tmp ≠ dst)
    (same : d.content = t.content) :
    (replaceIfDifferent fs dst tmp).get dst = some d ∧
    (replaceIfDifferent fs dst tmp).get tmp = none ∧
    (∀ q, q ≠ tmp → (replaceIfDifferent fs dst tmp).get q = fs.get q) ∧
    (replaceIfDifferent fs dst tmp).clock = fs.clock := by
  refine ⟨?_, ?_, ?_, ?_⟩
  · rw [get_replaceIfDifferent fs dst tmp dst d t hd ht hne]
    have : ¬ dst = tmp := fun e => hne e.symm
    simp [this, same]
  · rw [get_replaceIfDifferent fs dst tmp tmp d t hd ht hne]; simp
  · intro q hq
    rw [get_replaceIfDifferent fs dst tmp q d t hd ht hne]
    by_cases h : q = dst
    · subst h; simp [hq, same, hd]
    · simp [hq, h]
  · simp [replaceIfDifferent, hd, ht, same]

/-- … and with different contents the new file (new mtime) is in place -/
theorem replace_if_different_updates (fs : FS) (dst tmp : Str) (d t : FileSt)
    (hd : fs.get dst = some d) (ht : fs.get tmp = some t) (hne : tmp ≠ dst)
    (diff : d.content ≠ t.content) :
    (replaceIfDifferent fs dst tmp).get dst = some t := by
  rw [get_replaceIfDifferent fs dst tmp dst d t hd ht hne]
  have : ¬ dst = tmp := fun e => hne e.symm
  simp [this, diff]

/-! ### `do_conf_file`: content, mode and mtime of an unchanged templated output -/

/-- `do_conf_file` (write `dst~`, `copymode(src, dst~)`, `replace_if_different(dst, dst~)`) with unchanged
content: **every** file is in the state it was — `dst` keeps content, mode and mtime whatever the
template's mode is — and the temporary is gone -/
theorem doConfFile_unchanged_keeps_state (fs : FS) (src dst : Str) (s old : FileSt)
    (hs : fs.get src = some s) (hd : fs.get dst = some old) (hsrc : src ≠ tmpOf dst) :
    (∀ q, q ≠ tmpOf dst → (doConfFile fs src dst old.content).get q = fs.get q) ∧
    (doConfFile fs src dst old.content).get (tmpOf dst) = none := by
  have hne : tmpOf dst ≠ dst := tmpOf_ne dst
  have hne' : ¬ dst = tmpOf dst := fun e => hne e.symm
  have h1 : (fs.write (tmpOf dst) old.content).get (tmpOf dst)
      = some ⟨old.content, fs.clock + 1, fs.writeMode (tmpOf dst)⟩ := by rw [get_write]; simp
  have h2 : (fs.write (tmpOf dst) old.content).get src = some s := by rw [get_write]; simp [hsrc, hs]
  have g := fun q => get_copymode (fs.write (tmpOf dst) old.content) src (tmpOf dst) q s _ h2 h1
  have h3 : ((fs.write (tmpOf dst) old.content).copymode src (tmpOf dst)).get dst = some old := by
    rw [g]; simp [hne', get_write, hd]
  have h4 := g (tmpOf dst)
  simp only [if_true] at h4
  have r := fun q => get_replaceIfDifferent _ dst (tmpOf dst) q old _ h3 h4 hne
  constructor
  · intro q hq
    unfold doConfFile
    rw [r q]
    by_cases e : q = dst
    · subst e; simp [hq, hd]
    · simp [hq, e, g, get_write]
  · unfold doConfFile
    rw [r (tmpOf dst)]; simp

/-- … and when the content did change the new text is installed with the template's mode -/
theorem doConfFile_changed_installs (fs : FS) (src dst c : Str) (s old : FileSt)
    (hs : fs.get src = some s) (hd : fs.get dst = some old) (hsrc : src ≠ tmpOf dst) (hc : old.content ≠ c) :
    (doConfFile fs src dst c).get dst = some ⟨c, fs.clock + 1, s.mode⟩ := by
  have hne : tmpOf dst ≠ dst := tmpOf_ne dst
  have hne' : ¬ dst = tmpOf dst := fun e => hne e.symm
  have h1 : (fs.write (tmpOf dst) c).get (tmpOf dst) = some ⟨c, fs.clock + 1, fs.writeMode (tmpOf dst)⟩ := by
    rw [get_write]; simp
  have h2 : (fs.write (tmpOf dst) c).get src = some s := by rw [get_write]; simp [hsrc, hs]
  have g := fun q => get_copymode (fs.write (tmpOf dst) c) src (tmpOf dst) q s _ h2 h1
  have h3 : ((fs.write (tmpOf dst) c).copymode src (tmpOf dst)).get dst = some old := by
    rw [g]; simp [hne', get_write, hd]
  have h4 := g (tmpOf dst)
  simp only [if_true] at h4
  unfold doConfFile
  rw [get_replaceIfDifferent _ dst (tmpOf dst) dst old _ h3 h4 hne]
  simp [hne', hc]

/-- the reason the order and the comparison matter (a seeded defect of exactly this shape was once missed):
with the replace done *before* `copymode` and a comparison that also looks at the mode, the statement
"unchanged content ⇒ unchanged state" … -/
def doConfFileSwapped_unchanged_keeps_state_full : Prop :=
  ∀ (fs : FS) (src dst : Str) (s old : FileSt), fs.get src = some s → fs.get dst = some old →
    old.mode = s.mode → src ≠ tmpOf dst →
    (doConfFileSwapped fs src dst old.content).get dst = some old

/-- … is false as soon as the template's mode is not the default one: script template 0755 (= 493),
output already in place with that mode and the right text, one more run: new mtime -/
theorem doConfFileSwapped_unchanged_keeps_state_counterexample :
    ¬ doConfFileSwapped_unchanged_keeps_state_full := by
  intro h
  have := h ⟨[("s.in".toList, ⟨"x".toList, 1, 493⟩), ("s".toList, ⟨"x".toList, 2, 493⟩)], 10⟩
    "s.in".toList "s".toList ⟨"x".toList, 1, 493⟩ ⟨"x".toList, 2, 493⟩ rfl rfl rfl (by decide)
  revert this
  decide

/-- bytes and mode come out right in that variant — only the mtime moves, which is why nothing but an
mtime comparison on a non-default-mode template can see it -/
example :
    (doConfFileSwapped ⟨[("s.in".toList, ⟨"x".toList, 1, 493⟩), ("s".toList, ⟨"x".toList, 2, 493⟩)], 10⟩
      "s.in".toList "s".toList "x".toList).get "s".toList = some ⟨"x".toList, 11, 493⟩ := by decide

example :
    (doConfFile ⟨[("s.in".toList, ⟨"x".toList, 1, 493⟩), ("s".toList, ⟨"x".toList, 2, 493⟩)], 10⟩
      "s.in".toList "s".toList "x".toList).get "s".toList = some ⟨"x".toList, 2, 493⟩ := by decide

/-- every writer leaves exactly the requested content at the path -/
theorem writeOut_content (fs : FS) (w : Writer) (p c : Str) (old : FileSt) (hp : fs.get p = some old) :
    ((writeOut fs w p c).get p).map FileSt.content = some c := by
  rw [get_writeOut fs w p c p old hp]
  have : ¬ p = tmpOf p := fun e => tmpOf_ne p e.symm
  cases w <;> simp [this]
  by_cases h : old.content = c <;> simp [h]

/-- a write of unchanged content through `replace_if_different` is invisible (mtime kept) -/
theorem writeOut_rid_unchanged_keeps_mtime (fs : FS) (p : Str) (old : FileSt) (hp : fs.get p = some old)
    (ht : fs.get (tmpOf p) = none) (q : Str) :
    (writeOut fs .viaReplaceIfDifferent p old.content).get q = fs.get q := by
  rw [get_writeOut fs _ p _ q old hp]
  have hne : ¬ p = tmpOf p := fun e => tmpOf_ne p e.symm
  by_cases a : q = tmpOf p
  · simp [a, ht]
  · by_cases b : q = p
    · simp [b, hp, hne]
    · simp [a, b]

/-- the writers that remain unconditional are *not* of that kind: unchanged content, new mtime.
`inPlace` = compile_commands.json (`open(…, 'wb')`); full statement and its refutation: -/
def inPlace_unchanged_keeps_mtime_full : Prop :=
  ∀ (fs : FS) (p : Str) (old : FileSt), fs.get p = some old →
    (writeOut fs .inPlace p old.content).get p = some old

theorem inPlace_unchanged_keeps_mtime_counterexample : ¬ inPlace_unchanged_keeps_mtime_full := by
  intro h
  have := h ⟨[("compile_commands.json".toList, ⟨"[]".toList, 0, 420⟩)], 5⟩ "compile_commands.json".toList ⟨"[]".toList, 0, 420⟩ rfl
  revert this
  decide

/-- `viaReplace` = `write_intro_info` (tmp_dump.json + `os.replace`) and build.ninja: every reconfigure
installs a new file; full statement and its refutation: -/
def viaReplace_unchanged_keeps_mtime_full : Prop :=
  ∀ (fs : FS) (p : Str) (old : FileSt), fs.get p = some old →
    (writeOut fs .viaReplace p old.content).get p = some old

theorem viaReplace_unchanged_keeps_mtime_counterexample : ¬ viaReplace_unchanged_keeps_mtime_full := by
  intro h
  have := h ⟨[("intro-tests.json".toList, ⟨"[]".toList, 0, 420⟩)], 5⟩ "intro-tests.json".toList ⟨"[]".toList, 0, 420⟩ rfl
  revert this
  decide

/-- what does hold for them (`…_partial`): the content is kept -/
theorem unconditional_writers_keep_content_partial (fs : FS) (w : Writer) (p : Str) (old : FileSt)
    (hp : fs.get p = some old) :
    ((writeOut fs w p old.content).get p).map FileSt.content = some old.content :=
  writeOut_content fs w p old.content old hp

/-- what a reconfigure promises about the outputs `outs` it rewrites -/
structure NoChange (fs : FS) (outs : List (Writer × Str × Str)) : Prop where
  /-- every output exists already with exactly the content that will be written -/
  same : ∀ o ∈ outs, ∃ st, fs.get o.2.1 = some st ∧ st.content = o.2.2
  /-- no stale temporaries, and no output is another output's temporary -/
  noTmp : ∀ o ∈ outs, fs.get (tmpOf o.2.1) = none
  tmpFresh : ∀ o ∈ outs, ∀ o' ∈ outs, tmpOf o.2.1 ≠ o'.2.1

theorem NoChange.tail {fs : FS} {o : Writer × Str × Str} {outs : List (Writer × Str × Str)}
    (h : NoChange fs (o :: outs)) (fs' : FS)
    (hc : ∀ q, (fs'.get q).map FileSt.content = (fs.get q).map FileSt.content) :
    NoChange fs' outs := by
  refine ⟨?_, ?_, ?_⟩
  · intro o' ho'
    obtain ⟨st, h1, h2⟩ := h.same o' (mem_cons_of_mem _ ho')
    have := hc o'.2.1
    rw [h1] at this
    cases g : fs'.get o'.2.1 with
    | none => simp [g] at this
    | some st' =>
      refine ⟨st', rfl, ?_⟩
      simp [g] at this
      rw [this, h2]
  · intro o' ho'
    have := hc (tmpOf o'.2.1)
    rw [h.noTmp o' (mem_cons_of_mem _ ho')] at this
    cases g : fs'.get (tmpOf o'.2.1) with
    | none => rfl
    | some st' => simp [g] at this
  · intro a ha b hb
    exact h.tmpFresh a (mem_cons_of_mem _ ha) b (mem_cons_of_mem _ hb)

/-- one no-change write: contents as before everywhere; state (mtime) as before everywhere except
at the written path when the writer is not `replace_if_different` -/
theorem writeOut_nochange (fs : FS) (w : Writer) (p : Str) (old : FileSt)
    (hp : fs.get p = some old) (ht : fs.get (tmpOf p) = none) (q : Str) :
    ((writeOut fs w p old.content).get q).map FileSt.content = (fs.get q).map FileSt.content ∧
    ((w = .viaReplaceIfDifferent ∨ q ≠ p) → (writeOut fs w p old.content).get q = fs.get q) := by
  rw [get_writeOut fs w p _ q old hp]
  have hne : ¬ p = tmpOf p := fun e => tmpOf_ne p e.symm
  have hne' : ¬ tmpOf p = p := tmpOf_ne p
  cases w
  · by_cases a : q = tmpOf p
    · simp [a, ht]
    · by_cases b : q = p
      · simp [b, hp, hne]
      · simp [a, b]
  · by_cases b : q = p
    · subst b; simp [hp]
    · by_cases a : q = tmpOf p
      · simp [a, ht, hne']
      · simp [a, b]
  · by_cases b : q = p
    · subst b; simp [hp]
    · simp [b]

/-- **Re-running configuration when nothing changed**: over any sequence of modelled writers,
(1) every file's *content* is what it was (in particular `build.ninja`, written through
`build.ninja~` + `os.replace`), and (2) every file that is only ever written through
`replace_if_different` (configure_file outputs, generated headers, cmake package files, and after
880fde3 pkg-config files and depmf.json) keeps its complete state, mtime included.  -/
theorem reconfigure_noop_identity (fs : FS) (outs : List (Writer × Str × Str)) (h : NoChange fs outs) :
    (∀ q, ((configure fs outs).get q).map FileSt.content = (fs.get q).map FileSt.content) ∧
    (∀ q, (∀ o ∈ outs, o.2.1 = q → o.1 = .viaReplaceIfDifferent) → (configure fs outs).get q = fs.get q) := by
  induction outs generalizing fs with
  | nil => exact ⟨fun _ => rfl, fun _ _ => rfl⟩
  | cons o outs ih =>
    obtain ⟨w, p, c⟩ := o
    obtain ⟨old, hp, hc⟩ := h.same (w, p, c) mem_cons_self
    simp only at hp hc
    subst hc
    have ht := h.noTmp (w, p, old.content) mem_cons_self
    simp only at ht
    have step := writeOut_nochange fs w p old hp ht
    have h' := h.tail (writeOut fs w p old.content) (fun q => (step q).1)
    obtain ⟨ih1, ih2⟩ := ih (writeOut fs w p old.content) h'
    simp only [configure, foldl_cons] at ih1 ih2 ⊢
    refine ⟨fun q => (ih1 q).trans (step q).1, ?_⟩
    intro q hq
    rw [ih2 q (fun o ho => hq o (mem_cons_of_mem _ ho))]
    apply (step q).2
    by_cases e : q = p
    · exact Or.inl (hq (w, p, old.content) mem_cons_self e.symm)
    · exact Or.inr e

/-- non-vacuity: a build directory with a config header, build.ninja, a .pc file and
compile_commands.json; reconfigure rewrites all four with the same text: contents identical,
`config.h` and `a.pc` keep their mtimes -/
example :
    let fs : FS := ⟨[("config.h".toList, ⟨"#define A\n".toList, 1, 420⟩),
                     ("build.ninja".toList, ⟨"rule x\n".toList, 2, 420⟩),
                     ("a.pc".toList, ⟨"Name: a\n".toList, 3, 420⟩),
                     ("cc.json".toList, ⟨"[]".toList, 4, 420⟩)], 10⟩
    let outs := [(Writer.viaReplaceIfDifferent, "config.h".toList, "#define A\n".toList),
                 (Writer.viaReplaceIfDifferent, "a.pc".toList, "Name: a\n".toList),
                 (Writer.inPlace, "cc.json".toList, "[]".toList),
                 (Writer.viaReplace, "build.ninja".toList, "rule x\n".toList)]
    (configure fs outs).get "config.h".toList = some ⟨"#define A\n".toList, 1, 420⟩ ∧
    (configure fs outs).get "build.ninja".toList = some ⟨"rule x\n".toList, 14, 420⟩ ∧
    (configure fs outs).get "a.pc".toList = some ⟨"Name: a\n".toList, 3, 420⟩ ∧
    (configure fs outs).get "cc.json".toList = some ⟨"[]".toList, 13, 420⟩ := by
  decide

/-! ### environment variables → option values (`Environment._set_default_options_from_env`) -/

/-- **independent of the order of environment variables**: the process environment enumerated in any order
(any permutation of the association list, names unique) gives the same `self.options` and the same
`self.env_opts`, entry for entry and in the same dict order — for every table, every configuration, every
pre-existing option dict -/
theorem setDefaultOptionsFromEnv_env_order_invariant (c : EnvCfg) {env₁ env₂ : EnvMap}
    (nd : (env₁.map Prod.fst).Nodup) (p : env₁ ~ env₂) (options : OptDict) :
    setDefaultOptionsFromEnv c env₁ options = setDefaultOptionsFromEnv c env₂ options := by
  unfold setDefaultOptionsFromEnv
  congr 1
  funext k
  exact lookup_perm nd p k

/-- the function reads the environment through `os.environ.get` only: two environments that answer every
lookup alike are indistinguishable (extra variables, shadowed duplicates, order) -/
theorem setDefaultOptionsFromEnv_function_of_map (c : EnvCfg) {env₁ env₂ : EnvMap}
    (h : ∀ k, env₁.lookup k = env₂.lookup k) (options : OptDict) :
    setDefaultOptionsFromEnv c env₁ options = setDefaultOptionsFromEnv c env₂ options := by
  unfold setDefaultOptionsFromEnv
  congr 1
  funext k
  exact h k

/-- **independent of hash randomisation**: `LANGUAGES_USING_LDFLAGS` / `LANGUAGES_USING_CPPFLAGS` are sets; iterated
in any order they give the same `self.options` (dict order included) and an `env_opts` that answers every
`.get(key)` alike (only its dict order follows the set order, and nothing iterates it) -/
theorem setDefaultOptionsFromEnv_set_order_invariant (c : EnvCfg) {ld cpp : List Str}
    (pl : c.ldLangs ~ ld) (pc : c.cppLangs ~ cpp) (look : Str → Option Str) (options : OptDict) :
    (setDefaultOptionsFromEnvL c look options).1 = (setDefaultOptionsFromEnvL (c.reorder ld cpp) look options).1 ∧
    ∀ k, (setDefaultOptionsFromEnvL c look options).2.lookup k
       = (setDefaultOptionsFromEnvL (c.reorder ld cpp) look options).2.lookup k := by
  unfold setDefaultOptionsFromEnvL
  have h := foldl_envStep_congr c pl pc look (withMachines (envOptsTable c)) (DictEq.rfl' [])
  exact foldl_moveStep_congr (withMachines c.nonLang) options h

/-- on record: the single walk over `os.environ` (variables handled in the order they are met) … -/
def setDefaultOptionsFromEnvWalk_env_order_invariant_full : Prop :=
  ∀ (c : EnvCfg) (env₁ env₂ : EnvMap), (env₁.map Prod.fst).Nodup → env₁ ~ env₂ → ∀ options,
    setDefaultOptionsFromEnvWalk c env₁ options = setDefaultOptionsFromEnvWalk c env₂ options

def envCC : EnvMap := [("CFLAGS".toList, "-DA".toList), ("CPPFLAGS".toList, "-DB".toList)]

/-- … is not a function of the environment map: CFLAGS met before CPPFLAGS gives `c_args = [-DA, -DB]`, met
after it `[-DB, -DA]` -/
theorem setDefaultOptionsFromEnvWalk_env_order_invariant_counterexample :
    ¬ setDefaultOptionsFromEnvWalk_env_order_invariant_full := by
  intro h
  have := h liveCfg envCC envCC.reverse (by decide) (Perm.swap _ _ _) []
  revert this
  decide +kernel

/-! ### environment → compile / link arguments (`Environment.add_lang_args`) -/

/-- `add_lang_args` reads `env_opts` through `.get` only -/
theorem addLangArgs_function_of_mapping (pa pl : Option (List Str)) {e₁ e₂ : OptDict}
    (h : ∀ k, e₁.lookup k = e₂.lookup k) (lang : Str) (m : Nat) (ld : Bool) :
    addLangArgs pa pl e₁ lang m ld = addLangArgs pa pl e₂ lang m ld := by
  unfold addLangArgs
  rw [h, h]

/-- **end to end**: the `<lang>_args` / `<lang>_link_args` taken from CFLAGS-like variables, CPPFLAGS and LDFLAGS are a
function of the environment *map* and of the language *sets*: neither the order in which the environment
enumerates its variables nor the iteration order of the two sets reaches them -/
theorem langArgsFromEnv_order_invariant (c : EnvCfg) {env₁ env₂ : EnvMap} {ld cpp : List Str}
    (nd : (env₁.map Prod.fst).Nodup) (p : env₁ ~ env₂) (pl : c.ldLangs ~ ld) (pc : c.cppLangs ~ cpp)
    (lang : Str) (m : Nat) (drv : Bool) :
    langArgsFromEnv c env₁ lang m drv = langArgsFromEnv (c.reorder ld cpp) env₂ lang m drv := by
  unfold langArgsFromEnv
  rw [setDefaultOptionsFromEnv_env_order_invariant c nd p []]
  exact addLangArgs_function_of_mapping none none
    (setDefaultOptionsFromEnv_set_order_invariant c pl pc (fun k => env₂.lookup k) []).2 lang m drv

/-- precedence: a pending value (command line, machine file) replaces the environment's, and then the compile
arguments are *not* added to the link arguments -/
theorem addLangArgs_pending_overrides_env (v : List Str) (pl : Option (List Str)) (e : OptDict) (lang : Str)
    (m : Nat) (drv : Bool) :
    (addLangArgs (some v) pl e lang m drv).1 = v ∧
    (addLangArgs (some v) pl e lang m drv).2 = (addLangArgs (some v) pl e lang m false).2 := by
  simp [addLangArgs]

/-- precedence: with nothing pending, a linker driver links with `<lang>_link_args` from the environment followed by
the compile arguments from the environment -/
theorem addLangArgs_env_link_gets_compile_args (e : OptDict) (lang : Str) (m : Nat) :
    (addLangArgs none none e lang m true).2 =
      (addLangArgs none none e lang m false).2 ++ (addLangArgs none none e lang m true).1 := by
  simp [addLangArgs]

def envAll : EnvMap :=
  [("CPPFLAGS".toList, "-DP".toList), ("LDFLAGS".toList, "-L/x".toList), ("CFLAGS".toList, "-O2 -g".toList),
   ("CXXFLAGS".toList, "-DX".toList), ("PKG_CONFIG_PATH".toList, "/a::/b:/a".toList)]

/-- the live tables: `c_args` = CFLAGS then CPPFLAGS, `c_link_args` = LDFLAGS then CFLAGS then CPPFLAGS — with
CPPFLAGS and LDFLAGS listed *before* CFLAGS in the environment -/
example : langArgsFromEnv liveCfg envAll "c".toList 1 true =
    (["-O2", "-g", "-DP"].map String.toList, ["-L/x", "-O2", "-g", "-DP"].map String.toList) := by decide +kernel

example : langArgsFromEnv liveCfg envAll.reverse "c".toList 1 true = langArgsFromEnv liveCfg envAll "c".toList 1 true :=
  (langArgsFromEnv_order_invariant liveCfg (ld := liveLdLangs) (cpp := liveCppLangs) (by decide)
    (reverse_perm envAll).symm (Perm.refl _) (Perm.refl _) _ _ _).symm

/-- PKG_CONFIG_PATH goes to `self.options` (duplicates and empty elements removed) -/
example : (setDefaultOptionsFromEnv liveCfg envAll []).1 =
    [(envKey 0 "pkg_config_path".toList, ["/a", "/b"].map String.toList),
     (envKey 1 "pkg_config_path".toList, ["/a", "/b"].map String.toList)] := by decide +kernel

/-! ### two more emitters that print a set: `build_rpaths` of the install plan, the `depaccumulate` statement -/

theorem installPlanBuildRpaths_perm_invariant {l₁ l₂ : List Str} (p : l₁ ~ l₂) :
    installPlanBuildRpaths l₁ = installPlanBuildRpaths l₂ := sortedStrs_perm p

/-- the output is a function of the *set*, not of its enumeration -/
theorem installPlanBuildRpaths_function_of_set {l₁ l₂ : List Str} (n₁ : l₁.Nodup) (n₂ : l₂.Nodup)
    (h : ∀ x, x ∈ l₁ ↔ x ∈ l₂) : installPlanBuildRpaths l₁ = installPlanBuildRpaths l₂ :=
  sortedStrs_set_ext n₁ n₂ h

theorem installPlanBuildRpaths_is_perm (l : List Str) : installPlanBuildRpaths l ~ l := sortedStrs_perm_self l

/-- the inputs of the `depaccumulate` statement depend only on the *set* of scan files: not on the order in which
linked targets are visited, not on the iteration order of the set comprehension, not on repetitions, not on which
of the two sources contributed a file -/
theorem depaccumulateInputs_function_of_set (json : Str) {l₁ o₁ l₂ o₂ : List Str}
    (h : ∀ x, x ∈ l₁ ++ o₁ ↔ x ∈ l₂ ++ o₂) :
    depaccumulateInputs json l₁ o₁ = depaccumulateInputs json l₂ o₂ := by
  unfold depaccumulateInputs
  rw [sortedSet_ext h]

theorem depaccumulateInputs_mem (json : Str) (l o : List Str) (x : Str) :
    x ∈ depaccumulateInputs json l o ↔ x = json ∨ x ∈ l ∨ x ∈ o := by
  unfold depaccumulateInputs
  rw [mem_cons, mem_sortedSet, mem_append]

/-- … and so does the text of the statement in build.ninja -/
theorem depaccumulateLine_function_of_set (scan json : Str) {l₁ o₁ l₂ o₂ : List Str}
    (h : ∀ x, x ∈ l₁ ++ o₁ ↔ x ∈ l₂ ++ o₂) :
    depaccumulateLine scan json l₁ o₁ = depaccumulateLine scan json l₂ o₂ := by
  unfold depaccumulateLine
  rw [depaccumulateInputs_function_of_set json h]

example : depaccumulateLine ['s'] ['j'] [['b'], ['a'], ['b']] [['c']] =
    depaccumulateLine ['s'] ['j'] [['c'], ['a']] [['b'], ['a']] :=
  depaccumulateLine_function_of_set _ _ (by intro x; simp only [mem_append, mem_cons, not_mem_nil, or_false]; grind)

end MesonModel.Props.C06
