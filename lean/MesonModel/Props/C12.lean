/-
C12 — `meson test` runs each test once, isolates serial tests and reports truthfully.
Property theorems only; helper lemmas live in `MesonModel/Sched/*Lemmas.lean`.

The scheduler theorems quantify over every configuration and every finite schedule, i.e. every label
sequence `tr` with `Exec c tr s` (each label enabled in the state it is taken from; the environment chooses
which task moves next and with which result — this is where durations and interleavings live).
-/
import MesonModel.Sched.CutLemmas
import MesonModel.Sched.ConfigLemmas
import MesonModel.Sched.ClassifyLemmas
import MesonModel.Sched.SelectLemmas
import MesonModel.Sched.ReplayLemmas
import MesonModel.Sched.RepeatLemmas
import MesonModel.Sched.Timeout
import MesonModel.Sched.ArgsLemmas

namespace MesonModel.Props.C12
open MesonModel.Sched MesonModel.Sched.TestResult

/-! ### Scheduler: every schedule -/

/-- while a non-parallel test runs, no other test runs -/
theorem serial_exclusive {c : Config} {tr : List Label} {s : State} (h : Exec c tr s) {i j : Nat}
    (hp : c.isPar i = false) (hi : (s.st i).isRunning = true) (hj : (s.st j).isRunning = true) : i = j :=
  h.inv.serial_alone hp (St.running_active hi) (St.running_active hj)

/-- stronger: while the task of a non-parallel test exists and is not done, no other task is even waiting for
the semaphore (all earlier ones are done, no later one has been created) -/
theorem serial_alone {c : Config} {tr : List Label} {s : State} (h : Exec c tr s) {i j : Nat}
    (hp : c.isPar i = false) (hi : (s.st i).isActive = true) (hj : (s.st j).isActive = true) : i = j :=
  h.inv.serial_alone hp hi hj

/-- the same for the configuration `doit` builds from the declared `is_parallel` flags: runner `i` of the
repeated list is test `i % len`; a test declared non-parallel never runs together with anything -/
theorem declared_serial_exclusive (jobs reps maxfail : Nat) (declared : List Bool) {tr : List Label} {s : State}
    (h : Exec (mkConfig jobs reps maxfail declared) tr s) {i j : Nat} (hi : i < reps * declared.length)
    (hd : declared[i % declared.length]? = some false)
    (ri : (s.st i).isRunning = true) (rj : (s.st j).isRunning = true) : i = j :=
  serial_exclusive h (mkConfig_isPar_false _ _ _ _ _ (by rw [mkConfig_n]; exact hi) hd) ri rj

/-- with `--num-processes 1` (or a clamp to 1) nothing ever overlaps -/
theorem one_job_exclusive (jobs reps maxfail : Nat) (declared : List Bool) {tr : List Label} {s : State}
    (h : Exec (mkConfig jobs reps maxfail declared) tr s) (h1 : (mkConfig jobs reps maxfail declared).jobs ≤ 1)
    {i j : Nat} (ri : (s.st i).isRunning = true) (rj : (s.st j).isRunning = true) : i = j := by
  have li : i < (mkConfig jobs reps maxfail declared).n := by
    apply Nat.lt_of_not_le
    intro hle
    have := h.inv.notLaunched i (Nat.le_trans h.inv.next_le hle)
    rw [this] at ri; cases ri
  exact serial_exclusive h (mkConfig_isPar_jobs1 _ _ _ _ _ li h1) ri rj

/-- only tasks of the runner list ever run, so `countRunning` counts every running test -/
theorem running_is_counted {c : Config} {tr : List Label} {s : State} (h : Exec c tr s) {i : Nat}
    (ri : (s.st i).isRunning = true) : i < c.n := by
  apply Nat.lt_of_not_le
  intro hle
  have := h.inv.notLaunched i (Nat.le_trans h.inv.next_le hle)
  rw [this] at ri; cases ri

/-- semaphore accounting -/
theorem running_plus_free_slots {c : Config} {tr : List Label} {s : State} (h : Exec c tr s) :
    countRunning c s + s.sem = c.jobs := h.jobInv

/-- never more tests running than jobs -/
theorem job_bound {c : Config} {tr : List Label} {s : State} (h : Exec c tr s) : countRunning c s ≤ c.jobs := by
  have := h.jobInv
  unfold JobInv at this
  unfold countRunning
  omega

/-- … than the *requested* number of jobs (`doit` only ever lowers it) -/
theorem job_bound_requested (jobs reps maxfail : Nat) (declared : List Bool) {tr : List Label} {s : State}
    (h : Exec (mkConfig jobs reps maxfail declared) tr s) :
    countRunning (mkConfig jobs reps maxfail declared) s ≤ jobs :=
  Nat.le_trans (job_bound h) (mkConfig_jobs_le _ _ _ _)

/-- no test is started twice -/
theorem started_at_most_once {c : Config} {tr : List Label} {s : State} (h : Exec c tr s) (i : Nat) :
    startCount i tr ≤ 1 := by
  rw [h.startCount_eq]; split <;> omega

/-- a complete run without `--maxfail` and without a failure under `--repeat` started every runner exactly
once and has a processed result for each -/
theorem all_started_exactly_once_when_complete {c : Config} {tr : List Label} {s : State} (h : Exec c tr s)
    (hm : c.maxfail = 0) (hr : repeatFailed c s = false) (hf : s.main = .finished) :
    ∀ i, i < c.n → startCount i tr = 1 ∧ ∃ r, s.st i = .done r ∧ r.isFinished = true ∧ r ∈ resultsOf tr := by
  intro i hi
  have ci := h.cutInv
  have hn : s.next = c.n := by
    rcases ci.finalNext (Or.inr hf) with h1 | h1
    · exact h1
    · rw [hr] at h1; cases h1
  have ht := ci.finishedTerminal hf i (by omega)
  obtain ⟨hint, hno⟩ := ci.noMaxfail hm
  have hdone : ∃ r, s.st i = .done r := by
    cases hx : s.st i with
    | done r => exact ⟨r, rfl⟩
    | skipped =>
      rcases ci.skipped i hx with h1 | h1
      · rw [hint] at h1; cases h1
      · rw [hr] at h1; cases h1
    | cancelled => exact absurd hx (hno i).1
    | notLaunched => rw [hx] at ht; cases ht
    | waiting => rw [hx] at ht; cases ht
    | running b => rw [hx] at ht; cases ht
  obtain ⟨r, hr'⟩ := hdone
  exact ⟨by rw [h.startCount_eq, hr']; rfl, r, hr', h.done_processed i r hr'⟩

/-- reports are truthful also when the run is cut short: in a complete run every test that was started has
exactly one processed, finished result (since the repair of `TestSubprocess.wait` / `_run_cmd` a cancellation
can no longer drop a started test; the model has no transition that ends a started test without a result) -/
theorem started_is_reported {c : Config} {tr : List Label} {s : State} (h : Exec c tr s)
    (hf : s.main = .finished) (i : Nat) (h1 : startCount i tr = 1) :
    ∃ r, s.st i = .done r ∧ r.isFinished = true ∧ r ∈ resultsOf tr := by
  rw [h.startCount_eq] at h1
  have hst : (s.st i).started = true := by
    cases hq : (s.st i).started with
    | true => rfl
    | false => rw [hq] at h1; simp at h1
  have hl : i < s.next := by
    apply Nat.lt_of_not_le
    intro hle
    have := h.inv.notLaunched i hle
    rw [this] at hst; cases hst
  have ht := h.cutInv.finishedTerminal hf i hl
  cases hx : s.st i with
  | done r => exact ⟨r, rfl, h.done_processed i r hx⟩
  | running b => rw [hx] at ht; cases ht
  | notLaunched => rw [hx] at hst; cases hst
  | waiting => rw [hx] at hst; cases hst
  | skipped => rw [hx] at hst; cases hst
  | cancelled => rw [hx] at hst; cases hst

/-- conversely: a runner that was never started in a complete run is excused only by an interruption
(which only `--maxfail` causes, after that many failures) or by a failure under `--repeat` -/
theorem unstarted_only_when_cut {c : Config} {tr : List Label} {s : State} (h : Exec c tr s)
    (hf : s.main = .finished) {i : Nat} (hi : i < c.n) (h0 : startCount i tr = 0) :
    (s.interrupted = true ∧ 0 < c.maxfail ∧ c.maxfail ≤ s.failCount) ∨
    (c.repeatGt1 = true ∧ 0 < s.failCount) := by
  have ci := h.cutInv
  have rf : repeatFailed c s = true → c.repeatGt1 = true ∧ 0 < s.failCount := by
    intro hrf; simpa [repeatFailed] using hrf
  have int : s.interrupted = true → s.interrupted = true ∧ 0 < c.maxfail ∧ c.maxfail ≤ s.failCount :=
    fun hq => ⟨hq, ci.interruptedWhy hq⟩
  rw [h.startCount_eq] at h0
  by_cases hl : i < s.next
  · have ht := ci.finishedTerminal hf i hl
    cases hx : s.st i with
    | done r => rw [hx] at h0; simp [St.started] at h0
    | running b => rw [hx] at ht; cases ht
    | waiting => rw [hx] at ht; cases ht
    | notLaunched => rw [hx] at ht; cases ht
    | skipped =>
      rcases ci.skipped i hx with h1 | h1
      · exact Or.inl (int h1)
      · exact Or.inr (rf h1)
    | cancelled => exact Or.inl (int (ci.cancelledWhy i (Or.inl hx)))
  · rcases ci.finalNext (Or.inr hf) with h1 | h1
    · omega
    · exact Or.inr (rf h1)

/-- from every reachable state in which `_run_tests` has not returned, some transition is enabled
(the scheduler cannot deadlock; needs at least one job slot, which `doit` guarantees for `-j ≥ 1`) -/
theorem progress {c : Config} {tr : List Label} {s : State} (h : Exec c tr s) (hj : 1 ≤ c.jobs)
    (hn : s.main ≠ .finished) : ∃ l s', step c s l = some s' := by
  have hi := h.inv
  have hjob := h.jobInv
  -- either every created task is done, or an active one exists
  have dich : ∀ k, (∀ j, j < k → (s.st j).isTerminal = true) ∨ ∃ j, j < k ∧ (s.st j).isTerminal = false := by
    intro k
    induction k with
    | zero => left; intro j hj; omega
    | succ k ih =>
      rcases ih with h1 | ⟨j, hj, hq⟩
      · cases hq : (s.st k).isTerminal with
        | true =>
          left; intro j hj
          by_cases e : j = k
          · subst e; exact hq
          · exact h1 j (by omega)
        | false => exact Or.inr ⟨k, by omega, hq⟩
      · exact Or.inr ⟨j, by omega, hq⟩
  have active_of : ∀ j, j < s.next → (s.st j).isTerminal = false → (s.st j).isActive = true := by
    intro j hj hq
    rcases St.not_terminal_cases _ hq with h1 | h1
    · exact absurd h1 (hi.launched j hj)
    · exact h1
  cases hm : s.main with
  | finished => exact absurd hm hn
  | top =>
    by_cases hlt : s.next < c.n
    · by_cases hp : c.isPar s.next = true
      · refine ⟨.launch, ?_⟩
        simp only [step]
        rw [if_pos ⟨hm, hlt⟩, if_pos hp]
        exact ⟨_, rfl⟩
      · rcases dich s.next with h1 | ⟨j, hjl, hq⟩
        · refine ⟨.launch, ?_⟩
          simp only [step]
          rw [if_pos ⟨hm, hlt⟩, if_neg hp, if_pos ((allTerminalBelow_iff _ _).mpr h1)]
          exact ⟨_, rfl⟩
        · exact active_progress hi hjob hj (active_of j hjl hq)
    · refine ⟨.loopEnd, ?_⟩
      simp only [step]
      rw [if_pos ⟨hm, by have := hi.next_le; omega⟩]
      exact ⟨_, rfl⟩
  | waitSerial =>
    obtain ⟨h1, _, _⟩ := hi.waitSerial hm
    cases hq : (s.st (s.next - 1)).isTerminal with
    | true =>
      refine ⟨.serialDone, ?_⟩
      simp only [step]
      rw [if_pos ⟨hm, hq⟩]
      exact ⟨_, rfl⟩
    | false => exact active_progress hi hjob hj (active_of _ (by omega) hq)
  | final =>
    rcases dich s.next with h1 | ⟨j, hjl, hq⟩
    · refine ⟨.allDone, ?_⟩
      simp only [step]
      rw [if_pos ⟨hm, (allTerminalBelow_iff _ _).mpr h1⟩]
      exact ⟨_, rfl⟩
    · exact active_progress hi hjob hj (active_of j hjl hq)

/-! ### The trace checker used to tie the model to the implementation -/

/-- an event log (test starts and reported results) accepted by the driver's `replay` is exactly what an
observer sees of some complete execution of the transition system; so every theorem above applies to every
run of the real scheduler whose log is accepted -/
theorem trace_checker_sound {c : Config} {evs : List Event} {s : State} (h : replay c evs = .ok s) :
    ∃ tr, Exec c tr s ∧ observe tr = evs ∧ s.main = .finished :=
  replay_sound h

/-! ### Classification -/

/-- the documented exit-status rule (no `expected_exitcode`): 0 OK, 77 SKIP, 99 ERROR, anything else FAIL,
and `should_fail` inverts exactly OK and FAIL -/
theorem classification_table (rc : Int) (shouldFail : Bool) :
    classifyRun .exited rc none shouldFail =
      if rc = 0 then (if shouldFail then UNEXPECTEDPASS else OK)
      else if rc = 77 then SKIP
      else if rc = 99 then ERROR
      else (if shouldFail then EXPECTEDFAIL else FAIL) := by
  simp only [classifyRun, completeExitCode, afterWait, completeBase, Generated.gnuSkipReturncode,
    Generated.gnuErrorReturncode, Option.getD]
  by_cases h0 : rc = 0
  · subst h0; cases shouldFail <;> simp
  · by_cases h77 : rc = 77
    · subst h77; cases shouldFail <;> simp
    · by_cases h99 : rc = 99
      · subst h99; cases shouldFail <;> simp
      · cases shouldFail <;> simp [h0, h77, h99]

/-- with `expected_exitcode: e` the status `e` passes; other statuses follow the same rule -/
theorem expected_exitcode_table (rc e : Int) (shouldFail : Bool) :
    classifyRun .exited rc (some e) shouldFail =
      if rc = e then (if shouldFail then UNEXPECTEDPASS else OK)
      else if rc = 77 then SKIP
      else if rc = 99 then ERROR
      else (if shouldFail then EXPECTEDFAIL else FAIL) := by
  simp only [classifyRun, completeExitCode, afterWait, completeBase, Generated.gnuSkipReturncode,
    Generated.gnuErrorReturncode, Option.getD]
  by_cases h0 : rc = e
  · subst h0; cases shouldFail <;> simp
  · by_cases h77 : rc = 77
    · subst h77; cases shouldFail <;> simp [h0]
    · by_cases h99 : rc = 99
      · subst h99; cases shouldFail <;> simp [h0]
      · cases shouldFail <;> simp [h0, h77, h99]

/-- a test whose time limit passed is TIMEOUT whatever its status and flags -/
theorem timeout_classification (rc : Int) (e : Option Int) (shouldFail : Bool) :
    classifyRun .timedOut rc e shouldFail = TIMEOUT := by
  cases shouldFail <;> simp [classifyRun, completeExitCode, afterWait, completeBase]

/-- a cancelled test is INTERRUPT -/
theorem interrupt_classification (rc : Int) (e : Option Int) (shouldFail : Bool) :
    classifyRun .cancelled rc e shouldFail = INTERRUPT := by
  cases shouldFail <;> simp [classifyRun, completeExitCode, afterWait, completeBase]

/-- classification always yields a finished result (so `process_test_result` never hits its exit branch) -/
theorem classification_finished (w : WaitOutcome) (rc : Int) (e : Option Int) (shouldFail : Bool) :
    (classifyRun w rc e shouldFail).isFinished = true := by
  cases w
  · cases e with
    | none => rw [classification_table]; (repeat' split) <;> rfl
    | some e => rw [expected_exitcode_table]; (repeat' split) <;> rfl
  · rw [timeout_classification]; rfl
  · rw [interrupt_classification]; rfl

/-! ### Tallies and exit status -/

/-- each counter equals the number of results of its class (FAIL, ERROR and INTERRUPT share `Fail`) -/
theorem tally_matches_classification (rs : List TestResult) :
    tallyOf rs =
      { ok := rs.countP (· == OK),
        expectedFail := rs.countP (· == EXPECTEDFAIL),
        fail := rs.countP (fun r => r == FAIL || r == ERROR || r == INTERRUPT),
        unexpectedPass := rs.countP (· == UNEXPECTEDPASS),
        skip := rs.countP (· == SKIP),
        ignored := rs.countP (· == IGNORED),
        timeout := rs.countP (· == TIMEOUT) } := by
  rw [tallyOf, foldl_add!]
  have : TestResult.countsAsFail = (fun r => r == FAIL || r == ERROR || r == INTERRUPT) := by
    funext r; cases r <;> rfl
  simp [this]

/-- the counters of the scheduler's final state are the tally of exactly the results it processed -/
theorem scheduler_tally {c : Config} {tr : List Label} {s : State} (h : Exec c tr s) :
    s.tally = tallyOf (resultsOf tr) ∧ ∀ r ∈ resultsOf tr, r.isFinished = true :=
  ⟨h.tally_eq, h.results_finished⟩

/-- non-zero exit status iff some processed result is bad (FAIL, ERROR, TIMEOUT, INTERRUPT, UNEXPECTEDPASS) -/
theorem exit_nonzero_iff_bad (rs : List TestResult) :
    (tallyOf rs).exitStatus ≠ 0 ↔ ∃ r, r ∈ rs ∧ r.isBad = true := by
  rw [← List.countP_pos_iff, ← totalFailures_tallyOf]
  unfold Tally.exitStatus
  split <;> simp_all

theorem exit_status_zero_or_one (t : Tally) : t.exitStatus = 0 ∨ t.exitStatus = 1 := by
  unfold Tally.exitStatus; split <;> simp

/-- the printed summary always has the `Ok` and `Fail` rows and never a zero row otherwise -/
theorem summary_rows (t : Tally) :
    (0, t.ok) ∈ t.summaryRows ∧ (2, t.fail) ∈ t.summaryRows ∧
    ∀ p ∈ t.summaryRows, p.1 = 0 ∨ p.1 = 2 ∨ p.2 > 0 := by
  refine ⟨by simp [Tally.summaryRows], by simp [Tally.summaryRows], ?_⟩
  intro p hp
  simp only [Tally.summaryRows, List.mem_filter] at hp
  have := hp.2
  simp at this
  omega

/-! ### Totals against what was run, when the run is cut short (`--maxfail`, INTERRUPT results)

`Report` is the reporting state of `TestHarness` (`process_test_result`, `is_bad_result`, `maxfail_reached`,
`collected_failures`, `summary`, `total_failure_count`).  An operation list is any sequence of processed results
with `maxfail_reached` coming on at *any* points (`ROp.reach`) in addition to the points the rule of `run_test`
chooses; `m` is `--maxfail`. -/

/-- finished results never reach the `sys.exit('Unknown test result')` branch: the run of the reporting state
is defined for every result sequence and every placement of the flag -/
theorem report_defined (m : Nat) (ops : List ROp) (hf : ∀ r ∈ ropResults ops, r.isFinished = true) :
    ∃ h, Report.run m {} ops = some h :=
  Report.run_total m ops {} hf

/-- **printed totals = tally of the classifications, log = what was processed**: for every result sequence and
every point at which `maxfail_reached` comes on, the seven counters are the tally of exactly the processed
results (INTERRUPTs of tests killed by the cut included), the loggers (testlog.json) were handed exactly those
results in order, and the numbers `summary()` prints add up to the number of results processed -/
theorem report_totals (m : Nat) (ops : List ROp) (h : Report) (hr : Report.run m {} ops = some h) :
    h.tally = tallyOf (ropResults ops) ∧
    h.logged = ropResults ops ∧
    h.tally.printedTotal = (ropResults ops).length := by
  obtain ⟨hf, ht, hl⟩ := Report.run_tally hr
  have ht' : h.tally = tallyOf (ropResults ops) := ht
  refine ⟨ht', by simpa using hl, ?_⟩
  rw [Tally.printedTotal_eq_total, ht', total_tallyOf _ hf]

/-- each printed row is the count of its class among the processed results, cut or not -/
theorem report_rows (m : Nat) (ops : List ROp) (h : Report) (hr : Report.run m {} ops = some h) :
    h.tally.summaryRows = (tallyOf (ropResults ops)).summaryRows ∧
    h.tally.fail = (ropResults ops).countP (fun r => r == FAIL || r == ERROR || r == INTERRUPT) ∧
    h.tally.timeout = (ropResults ops).countP (· == TIMEOUT) := by
  obtain ⟨ht, _, _⟩ := report_totals m ops h hr
  rw [ht, tally_matches_classification]
  exact ⟨rfl, rfl, rfl⟩

/-- **exit status**: non-zero iff a bad result (FAIL, ERROR, TIMEOUT, INTERRUPT, UNEXPECTEDPASS) was processed —
wherever the flag came on -/
theorem report_exit_nonzero_iff_bad (m : Nat) (ops : List ROp) (h : Report) (hr : Report.run m {} ops = some h) :
    h.exitStatus ≠ 0 ↔ ∃ r, r ∈ ropResults ops ∧ r.isBad = true := by
  obtain ⟨ht, _, _⟩ := report_totals m ops h hr
  unfold Report.exitStatus
  rw [ht]
  exact exit_nonzero_iff_bad _

/-- `collected_failures` ("Summary of Failures") holds only processed bad results, holds every processed bad
result other than INTERRUPT, and never more entries than the failure total; so the totals cannot be derived
from it (the interrupted tests of a `--maxfail` cut are run, printed, logged and counted, but not listed) -/
theorem collected_failures_rule (m : Nat) (ops : List ROp) (h : Report) (hr : Report.run m {} ops = some h) :
    (∀ r ∈ h.collected, r ∈ ropResults ops ∧ r.isBad = true) ∧
    (∀ r ∈ ropResults ops, r.isBad = true → r ≠ INTERRUPT → r ∈ h.collected) := by
  refine ⟨?_, (Report.run_collected_sup hr).2⟩
  intro r hx
  rcases Report.run_collected_sub hr r hx with h1 | h1
  · simp at h1
  · exact h1

/-- under the rule of `run_test` alone (no outside switch of the flag): the list of failures is empty iff the
exit status is zero -/
theorem collected_empty_iff_exit_zero (m : Nat) (rs : List TestResult) (h : Report)
    (hr : Report.run m {} (rs.map .result) = some h) : h.collected = [] ↔ h.exitStatus = 0 := by
  have hex := report_exit_nonzero_iff_bad m _ h hr
  rw [ropResults_map] at hex
  have hc := (Report.run_results_collected (h := {}) (by simp) hr).2
  have hsub := (collected_failures_rule m _ h hr).1
  rw [ropResults_map] at hsub
  constructor
  · intro hnil
    apply Classical.byContradiction
    intro hne
    exact hc (hex.mp hne) hnil
  · intro h0
    cases hq : h.collected with
    | nil => rfl
    | cons x xs =>
      have := hsub x (by rw [hq]; simp)
      exact absurd h0 (hex.mpr ⟨x, this.1, this.2⟩)

/-- the interrupted tests of a `--maxfail 1` cut: processed, logged, counted under `Fail`, exit status 1, and
left out of the list of failures -/
example : Report.run 1 {} [.result OK, .result FAIL, .result INTERRUPT, .result INTERRUPT, .result SKIP] =
    some { tally := { ok := 1, fail := 3, skip := 1 }, collected := [FAIL], maxfailReached := true,
           logged := [OK, FAIL, INTERRUPT, INTERRUPT, SKIP] } := by decide

/-- **every schedule**: the counters and `maxfail_reached` of the scheduler model are this reporting state fed
with the results in the order they were processed -/
theorem scheduler_report {c : Config} {tr : List Label} {s : State} (h : Exec c tr s) :
    ∃ rp, Report.run c.maxfail {} ((resultsOf tr).map .result) = some rp ∧
      rp.tally = s.tally ∧ rp.maxfailReached = s.maxfailReached ∧ rp.logged = resultsOf tr :=
  h.report

/-- **every schedule, cut or not**: the printed totals add up to the number of results processed, and the exit
status is non-zero iff one of them is bad -/
theorem scheduler_totals_add_up {c : Config} {tr : List Label} {s : State} (h : Exec c tr s) :
    s.tally.printedTotal = (resultsOf tr).length ∧
    (s.tally.exitStatus ≠ 0 ↔ ∃ r, r ∈ resultsOf tr ∧ r.isBad = true) := by
  obtain ⟨ht, hf⟩ := scheduler_tally h
  refine ⟨by rw [Tally.printedTotal_eq_total, ht, total_tallyOf _ hf], ?_⟩
  rw [ht]; exact exit_nonzero_iff_bad _

/-- **what was reported is what was run**: in every schedule a runner has at most one processed result, and only
if its test was started; when `_run_tests` has returned — run to the end or cut short by `--maxfail` / a failure
under `--repeat` — the runners with a processed result are exactly the runners whose test was started.  With
`scheduler_totals_add_up` (the printed totals add up to the number of processed results) the totals therefore add
up to the number of tests that were run -/
theorem reported_iff_started {c : Config} {tr : List Label} {s : State} (h : Exec c tr s) (i : Nat) :
    finishCount i tr ≤ startCount i tr ∧ startCount i tr ≤ 1 ∧
    (s.main = .finished → finishCount i tr = startCount i tr) := by
  rw [h.finishCount_eq, h.startCount_eq]
  refine ⟨?_, by split <;> omega, ?_⟩
  · cases hd : (s.st i).isDone with
    | false => simp
    | true => simp [St.done_started hd]
  · intro hf
    cases hst : (s.st i).started with
    | false =>
      cases hd : (s.st i).isDone with
      | false => rfl
      | true => rw [St.done_started hd] at hst; cases hst
    | true =>
      have hl : i < s.next := by
        apply Nat.lt_of_not_le
        intro hle
        have := h.inv.notLaunched i hle
        rw [this] at hst; cases hst
      have ht := h.cutInv.finishedTerminal hf i hl
      simp [St.started_terminal_done hst ht]

/-! ### The two cuts stop further tests: `--maxfail` and a failure under `--repeat` -/

/-- once `--maxfail` failures (FAIL / ERROR / INTERRUPT) have been processed, no further test is started, in any
schedule -/
theorem no_start_after_maxfail {c : Config} {tr : List Label} {l : Label} {s' : State}
    (h : Exec c (tr ++ [l]) s') (hm : c.maxfail > 0)
    (hf : (resultsOf tr).countP TestResult.countsAsFail ≥ c.maxfail) (i : Nat) : l ≠ .acquireStart i := by
  intro e
  subst e
  obtain ⟨s, hp, hs⟩ := h.snoc_inv
  have h1 := (step_acquireStart_guard hs).1
  have h2 := hp.maxfail_interrupts hm (by rw [hp.tally_eq, fail_tallyOf]; exact hf)
  rw [h1] at h2; cases h2

/-- under `--repeat N` (N > 1) a processed FAIL / ERROR / INTERRUPT result stops the run: no further test is
started afterwards, in any schedule -/
theorem no_start_after_repeat_failure {c : Config} {tr : List Label} {l : Label} {s' : State}
    (h : Exec c (tr ++ [l]) s') (hr : c.repeatGt1 = true)
    (hf : ∃ r, r ∈ resultsOf tr ∧ r.countsAsFail = true) (i : Nat) : l ≠ .acquireStart i := by
  intro e
  subst e
  obtain ⟨s, hp, hs⟩ := h.snoc_inv
  have h1 := (step_acquireStart_guard hs).2
  have hpos : 0 < (resultsOf tr).countP TestResult.countsAsFail := List.countP_pos_iff.mpr hf
  have hfc : s.failCount > 0 := by
    unfold State.failCount
    rw [hp.tally_eq, fail_tallyOf]; exact hpos
  have : repeatFailed c s = true := by
    simp [repeatFailed, hr, hfc]
  rw [h1] at this; cases this

/-- `--repeat`: runner `it * len + i` is repetition `it` of selected test `i`; in a complete run that was not
cut every selected test is started exactly once in every repetition -/
theorem once_per_repetition (jobs reps : Nat) (declared : List Bool) {tr : List Label} {s : State}
    (h : Exec (mkConfig jobs reps 0 declared) tr s)
    (hr : repeatFailed (mkConfig jobs reps 0 declared) s = false) (hf : s.main = .finished)
    (it i : Nat) (hit : it < reps) (hi : i < declared.length) :
    startCount (it * declared.length + i) tr = 1 := by
  have hn := mkConfig_n jobs reps 0 declared
  have hlt : it * declared.length + i < (mkConfig jobs reps 0 declared).n := by
    rw [hn]
    calc it * declared.length + i < it * declared.length + declared.length := by omega
      _ = (it + 1) * declared.length := by rw [Nat.succ_mul]
      _ ≤ reps * declared.length := Nat.mul_le_mul_right _ hit
  exact (all_started_exactly_once_when_complete h rfl hr hf _ hlt).1

/-! ### Time limit: `timeout <= 0` means none, `--timeout-multiplier` -/

/-- the limit is disabled exactly by `--interactive`, a missing / zero / negative `timeout:` or a zero / negative
`--timeout-multiplier` -/
theorem timeout_disabled_iff (interactive : Bool) (t : Option Int) (m : Option Frac) :
    runnerTimeout interactive t m = none ↔
      (interactive = true ∨ t = none ∨ (∃ x, t = some x ∧ x ≤ 0) ∨ (∃ f, m = some f ∧ f.num ≤ 0)) := by
  unfold runnerTimeout
  cases interactive
  · cases t with
    | none => simp
    | some x =>
      by_cases hx : x ≤ 0
      · simp [hx]
      · cases m with
        | none => simp [hx]
        | some f =>
          by_cases hf : f.num ≤ 0
          · simp [hx, hf]
          · simp [hx, hf]
  · simp

/-- otherwise it is `timeout * multiplier` (just `timeout` without a multiplier), a positive number -/
theorem timeout_value (x : Int) (hx : 0 < x) :
    runnerTimeout false (some x) none = some ⟨x, 1⟩ ∧
    ∀ f : Frac, 0 < f.num → runnerTimeout false (some x) (some f) = some ⟨x * f.num, f.den⟩ := by
  have hx' : ¬ x ≤ 0 := by omega
  refine ⟨by simp [runnerTimeout, hx'], ?_⟩
  intro f hf
  have hf' : ¬ f.num ≤ 0 := by omega
  simp [runnerTimeout, hx', hf']

theorem timeout_positive (interactive : Bool) (t : Option Int) (m : Option Frac) (f : Frac)
    (h : runnerTimeout interactive t m = some f) : 0 < f.num := by
  unfold runnerTimeout at h
  cases interactive
  · cases t with
    | none => simp at h
    | some x =>
      by_cases hx : x ≤ 0
      · simp [hx] at h
      · cases m with
        | none => simp [hx] at h; subst h; simp; omega
        | some g =>
          by_cases hg : g.num ≤ 0
          · simp [hx, hg] at h
          · simp [hx, hg] at h; subst h; simp
            exact Int.mul_pos (by omega) (by omega)
  · simp at h

/-- a test declared with `timeout: 0` or a negative timeout is never reported TIMEOUT by the time limit, however
long it runs and whatever the multiplier: it is classified by its exit status -/
theorem nonpositive_timeout_never_times_out (x : Int) (hx : x ≤ 0) (m : Option Frac) (dur : Nat)
    (rc : Int) (e : Option Int) (sf : Bool) :
    (waitOutcome (runnerTimeout false (some x) m) dur).map (fun w => classifyRun w rc e sf) =
      some (classifyRun .exited rc e sf) := by
  have : runnerTimeout false (some x) m = none :=
    (timeout_disabled_iff false (some x) m).mpr (Or.inr (Or.inr (Or.inl ⟨x, rfl, hx⟩)))
  rw [this]; rfl

/-- a test that outlives its (positive) limit is TIMEOUT whatever its exit status and flags; one that ends
before the limit is classified by its exit status -/
theorem limit_decides (f : Frac) (dur : Nat) (rc : Int) (e : Option Int) (sf : Bool) :
    (f.ltNat dur = true →
      (waitOutcome (some f) dur).map (fun w => classifyRun w rc e sf) = some TIMEOUT) ∧
    (f.gtNat dur = true →
      (waitOutcome (some f) dur).map (fun w => classifyRun w rc e sf) = some (classifyRun .exited rc e sf)) := by
  constructor
  · intro h
    simp [waitOutcome, h, timeout_classification]
  · intro h
    have h' : f.ltNat dur = false := by
      simp only [Frac.ltNat, Frac.gtNat, decide_eq_true_eq, decide_eq_false_iff_not] at h ⊢
      omega
    simp [waitOutcome, h, h']

example : runnerTimeout false (some 30) (some ⟨5, 2⟩) = some ⟨150, 2⟩ ∧
    runnerTimeout false (some (-1)) (some ⟨5, 2⟩) = none ∧ runnerTimeout false (some 30) (some ⟨0, 1⟩) = none ∧
    waitOutcome (some ⟨150, 2⟩) 76 = some .timedOut ∧ waitOutcome (some ⟨150, 2⟩) 75 = none := by decide

/-! ### `--slice` -/

/-- `--slice i/n` over `i = 1..n` partitions the selected tests: concatenating the slices gives a permutation
of the list (for every list — duplicates included — and every `n ≥ 1`) -/
theorem slices_partition {α} (l : List α) (n : Nat) (hn : 1 ≤ n) :
    ((List.range n).flatMap (fun i => pySlice l (i + 1) n)).Perm l := by
  obtain ⟨m, rfl⟩ : ∃ m, n = m + 1 := ⟨n - 1, by omega⟩
  simpa [pySlice] using strides_perm m l

/-- … and distinct slices share no test -/
theorem slices_disjoint {α} (l : List α) (hl : l.Nodup) (n : Nat) (hn : 1 ≤ n) {i j : Nat} (hi : i < n) (hj : j < n)
    (hne : i ≠ j) (x : α) : x ∈ pySlice l (i + 1) n → x ∉ pySlice l (j + 1) n := by
  have hnd := ((slices_partition l n hn).nodup_iff).mpr hl
  exact nodup_flatMap_disjoint _ _ hnd i (List.mem_range.mpr hi) j (List.mem_range.mpr hj) hne x

/-- a slice keeps the order of the selected tests -/
theorem slice_sublist {α} (l : List α) (i n : Nat) : (pySlice l i n).Sublist l :=
  strideFrom_sublist _ _ _

/-- slices are taken by position: the slice of an image is the image of the slice -/
theorem slice_map {α β} (f : α → β) (l : List α) (i n : Nat) : pySlice (l.map f) i n = (pySlice l i n).map f :=
  strideFrom_map _ _ _ _

/-- `get_tests` with a slice: refused iff there are more slices than selected tests -/
theorem getTests_slice {α} (suitable : α → Bool) (tests : List α) (i n : Nat) :
    getTests suitable (some (i, n)) tests =
      if n > (tests.filter suitable).length then .error .tooManySlices
      else .ok (pySlice (tests.filter suitable) i n) := rfl

/-! ### Selection by positional test names (`meson test NAME…`, `tests_from_args`) -/

/-- a test is selected iff it is in the (suitable) test list and SOME argument matches it — for every argument
list (overlapping, duplicate, disjoint), every test list and every matching relation -/
theorem args_select_iff {α β} (m : α → β → Bool) (pats : List β) (tests out : List α)
    (h : testsFromArgs m pats tests = .ok out) (t : α) :
    t ∈ out ↔ t ∈ tests ∧ ∃ p, p ∈ pats ∧ m t p = true := by
  rw [testsFromArgs_ok h]
  simp [List.mem_filter, List.any_eq_true]

/-- each selected test once, in test-list order: the selection is a sublist of the test list (a test matched by
several arguments is not repeated), so it has no duplicates when the test list has none -/
theorem args_no_duplicates {α β} (m : α → β → Bool) (pats : List β) (tests out : List α)
    (h : testsFromArgs m pats tests = .ok out) :
    out.Sublist tests ∧ (tests.Nodup → out.Nodup) ∧
    out = tests.filter (fun t => pats.any (fun p => m t p)) := by
  have e := testsFromArgs_ok h
  refine ⟨by rw [e]; exact List.filter_sublist, fun hn => ?_, e⟩
  rw [e]; exact hn.filter _

/-- the run is refused iff some argument matches no test at all -/
theorem args_refused_iff {α β} (m : α → β → Bool) (pats : List β) (tests : List α) :
    testsFromArgs m pats tests = .error .noMatch ↔ ∃ p, p ∈ pats ∧ ∀ t ∈ tests, m t p = false := by
  rw [testsFromArgs_error_iff]

/-- the documented argument forms: `name`, `:name` (any project), `project:` (all its tests), `project:name` -/
theorem arg_pattern_forms (prj nm : Str) (h1 : ':' ∉ prj) (hp : prj ≠ []) (hn : nm ≠ []) :
    (':' ∉ nm → argPattern nm = (['*'], nm)) ∧
    argPattern (':' :: nm) = (['*'], nm) ∧
    argPattern (prj ++ [':']) = (prj, ['*']) ∧
    argPattern (prj ++ ':' :: nm) = (prj, nm) := by
  refine ⟨?_, ?_, ?_, ?_⟩
  · intro h; simp [argPattern, h]
  · have := splitSuite_colon [] nm (by simp)
    simp only [List.nil_append] at this
    simp [argPattern, this, hn]
  · have := splitSuite_colon prj [] h1
    simp [argPattern, this, hp]
  · have := splitSuite_colon prj nm h1
    simp [argPattern, this, hp, hn]

/-- `*` matches every name (so `project:` takes every test of the project), a pattern without wildcards matches
exactly itself -/
theorem glob_rules (s p : Str) (hp : ∀ c ∈ p, c ≠ '*' ∧ c ≠ '?') :
    globMatch ['*'] s = true ∧ (globMatch p s = true ↔ p = s) :=
  ⟨globMatch_star s, globMatch_literal p hp s⟩

/-- `get_tests` with positional arguments and a slice: still each test of the list at most once, in order -/
theorem getTestsArgs_no_duplicates {α β} (suitable : α → Bool) (m : α → β → Bool) (pats : List β)
    (slice : Option (Nat × Nat)) (tests out : List α)
    (h : getTestsArgs suitable m pats slice tests = .ok out) :
    out.Sublist tests ∧ (tests.Nodup → out.Nodup) := by
  have key : out.Sublist tests := by
    simp only [getTestsArgs] at h
    generalize hq : (if pats.isEmpty = true then Except.ok (tests.filter suitable)
      else testsFromArgs m pats (tests.filter suitable)) = q at h
    cases q with
    | error e => simp at h
    | ok ts1 =>
      have s1 : ts1.Sublist tests := by
        split at hq
        · simp only [Except.ok.injEq] at hq; rw [← hq]; exact List.filter_sublist
        · exact ((args_no_duplicates m pats _ ts1 hq).1).trans List.filter_sublist
      cases slice with
      | none => simp only [Except.ok.injEq] at h; rw [← h]; exact s1
      | some sl =>
        obtain ⟨i, n⟩ := sl
        simp only at h
        split at h
        · cases h
        · simp only [Except.ok.injEq] at h; rw [← h]; exact (slice_sublist _ _ _).trans s1
  exact ⟨key, fun hn => hn.sublist key⟩

/-- overlapping arguments `t1 t*` on tests t0 t1 t2: every test once -/
example : (testsFromArgs patMatches (["t1".toList, "t*".toList].map argPattern)
      ([("t0"), ("t1"), ("t2")].map (fun n => ({ name := n.toList, project := "p".toList, suites := [] } : TestDesc)))).toOption.map
        (·.map (·.name)) = some ["t0".toList, "t1".toList, "t2".toList] := by
  simp [testsFromArgs, patMatches, argPattern, globMatch, Except.toOption]

/-! ### Suite selection -/

/-- `test_in_suites`: some requested suite matches some suite entry of the test -/
theorem suite_selection_rule (testSuites suites : List Str) :
    testInSuites testSuites suites = true ↔
      ∃ sel, sel ∈ suites ∧ ∃ ps, ps ∈ testSuites ∧ suiteMatches sel ps = true := by
  simp [testInSuites, List.any_eq_true]

/-- `--suite name` selects tests of (sub)project `name` or of suite `name` -/
theorem suite_rule_name (name prj st : Str) (h1 : ':' ∉ name) (h2 : ':' ∉ prj) :
    suiteMatches name (prj ++ ':' :: st) = true ↔ (name = prj ∨ name = st) := by
  simp [suiteMatches, splitSuite_no_colon name h1, splitSuite_colon prj st h2]

/-- `--suite :suite` selects that suite in any (sub)project -/
theorem suite_rule_any_project (sname prj st : Str) (h0 : sname ≠ []) (h2 : ':' ∉ prj) :
    suiteMatches (':' :: sname) (prj ++ ':' :: st) = true ↔ st = sname := by
  have := splitSuite_colon [] sname (by simp)
  simp only [List.nil_append] at this
  simp [suiteMatches, this, splitSuite_colon prj st h2, h0]

/-- `--suite project:suite` selects that suite of that (sub)project only -/
theorem suite_rule_qualified (pm sname prj st : Str) (hp : pm ≠ []) (h0 : sname ≠ []) (h1 : ':' ∉ pm)
    (h2 : ':' ∉ prj) :
    suiteMatches (pm ++ ':' :: sname) (prj ++ ':' :: st) = true ↔ (prj = pm ∧ st = sname) := by
  simp [suiteMatches, splitSuite_colon pm sname h1, splitSuite_colon prj st h2, h0, hp]

/-- a test without a suite carries just its project name -/
theorem suite_rule_bare_project (name prj : Str) (h1 : ':' ∉ name) (h2 : ':' ∉ prj) (hn : prj ≠ []) :
    suiteMatches name prj = true ↔ (name = prj ∨ name = []) := by
  simp [suiteMatches, splitSuite_no_colon name h1, splitSuite_no_colon prj h2]

/-- `test_suitable`: `--no-suite` and `--exclude` drop, `--suite` (when given) keeps only members -/
theorem test_suitable_rule (mainProject : Str) (incl excl names : List Str) (t : TestDesc) :
    testSuitable mainProject incl excl names t = true ↔
      (testInSuites t.suites excl = false ∧
       ¬ (mainProject = t.project ∧ t.name ∈ names) ∧
       (t.project ++ [':'] ++ t.name) ∉ names ∧
       (incl ≠ [] → testInSuites t.suites incl = true)) := by
  have e : t.project ++ [':'] ++ t.name = t.project ++ ':' :: t.name := by simp
  unfold testSuitable
  rw [e]
  by_cases a : testInSuites t.suites excl = true
  · simp [a]
  · by_cases b : (mainProject = t.project ∧ t.name ∈ names)
    · simp [a, b]
    · have b' : ¬ ((mainProject == t.project && names.contains t.name) = true) := by simpa using b
      by_cases d : (t.project ++ ':' :: t.name) ∈ names
      · simp [a, b', d]
      · have d' : ¬ (names.contains (t.project ++ ':' :: t.name) = true) := by simpa using d
        have b2 : mainProject = t.project → t.name ∉ names := fun h1 h2 => b ⟨h1, h2⟩
        cases incl with
        | nil => simp only [a, b', d', if_false]; simp [a, d]; exact b2
        | cons x xs => simp only [a, b', d', if_false]; simp [a, d]; intro _; exact b2

/-! ### Facts read off the live module on every run (`MesonModel/Generated/SchedTables.lean`) -/

/-- the model's `TestResult` has exactly the members of the enum -/
theorem table_members : TestResult.all.map TestResult.name = Generated.testResultMembers := by decide

theorem table_is_bad : ∀ r ∈ TestResult.all, r.isBad = Generated.isBadMembers.contains r.name := by decide

theorem table_is_ok : ∀ r ∈ TestResult.all, r.isOk = Generated.isOkMembers.contains r.name := by decide

theorem table_is_finished :
    ∀ r ∈ TestResult.all, r.isFinished = Generated.isFinishedMembers.contains r.name := by decide

/-- which counter `process_test_result` bumps -/
def bumped (r : TestResult) : String :=
  match ({} : Tally).add r with
  | none => "exit"
  | some t =>
    if t.ok = 1 then "success_count" else if t.expectedFail = 1 then "expectedfail_count"
    else if t.fail = 1 then "fail_count" else if t.unexpectedPass = 1 then "unexpectedpass_count"
    else if t.skip = 1 then "skip_count" else if t.ignored = 1 then "ignored_count"
    else if t.timeout = 1 then "timeout_count" else "none"

theorem table_tally : TestResult.all.map (fun r => (r.name, bumped r)) = Generated.tallyTable := by decide

theorem table_total_failures :
    Generated.totalFailureCounters = ["fail_count", "timeout_count", "unexpectedpass_count"] := by decide

theorem table_gnu_codes : Generated.gnuSkipReturncode = 77 ∧ Generated.gnuErrorReturncode = 99 := by decide

/-! ### Non-vacuity: concrete schedules exist and reach the end -/

/-- run a label list from a state -/
def runLabels (c : Config) : List Label → State → Option State
  | [], s => some s
  | l :: ls, s => (step c s l).bind (runLabels c ls)

theorem exec_of_run {c : Config} {tr0 : List Label} {s0 : State} (h : Exec c tr0 s0) :
    ∀ {ls : List Label} {s : State}, runLabels c ls s0 = some s → Exec c (tr0 ++ ls) s := by
  intro ls
  induction ls generalizing tr0 s0 with
  | nil => intro s hr; simp [runLabels] at hr; subst hr; simpa using h
  | cons l ls ih =>
    intro s hr
    simp only [runLabels] at hr
    cases hs : step c s0 l with
    | none => rw [hs] at hr; cases hr
    | some s1 =>
      rw [hs] at hr
      have := ih (h.snoc hs) hr
      simpa using this

/-- two parallel tests, then a serial one, then a parallel one, two jobs -/
def exConfig : Config := mkConfig 2 1 0 [true, true, false, true]

def exTrace : List Label :=
  [.launch, .launch, .acquireStart 0, .acquireStart 1, .finish 1 FAIL, .finish 0 OK, .launch, .acquireStart 2,
   .finish 2 SKIP, .serialDone, .launch, .loopEnd, .acquireStart 3, .finish 3 OK, .allDone]

example : ∃ s, Exec exConfig exTrace s ∧ s.main = .finished ∧ s.tally.exitStatus = 1 ∧
    startCount 2 exTrace = 1 ∧ exConfig.isPar 2 = false := by
  have h : (runLabels exConfig exTrace (init exConfig)).isSome = true := by decide
  obtain ⟨s, hs⟩ := Option.isSome_iff_exists.mp h
  refine ⟨s, by simpa using exec_of_run (Exec.nil (c := exConfig)) hs, ?_, ?_, by decide, by decide⟩
  · have : (runLabels exConfig exTrace (init exConfig)).map (·.main) = some .finished := by decide
    rw [hs] at this; simpa using this
  · have : (runLabels exConfig exTrace (init exConfig)).map (·.tally.exitStatus) = some 1 := by decide
    rw [hs] at this; simpa using this

/-- the hypotheses of `all_started_exactly_once_when_complete` are satisfiable (and those of `progress`) -/
example : exConfig.maxfail = 0 ∧ 1 ≤ exConfig.jobs ∧ exConfig.n = 4 := by decide

/-- a `--maxfail 1` schedule in which a running test is interrupted and a waiting one never starts -/
def exCut : Config := mkConfig 2 1 1 [true, true, true]

def exCutTrace : List Label :=
  [.launch, .launch, .launch, .loopEnd, .acquireStart 0, .acquireStart 1, .finish 0 FAIL, .finish 1 INTERRUPT, .allDone]

example : ∃ s, Exec exCut exCutTrace s ∧ s.main = .finished ∧ startCount 2 exCutTrace = 0 ∧
    s.interrupted = true := by
  have h : (runLabels exCut exCutTrace (init exCut)).isSome = true := by decide
  obtain ⟨s, hs⟩ := Option.isSome_iff_exists.mp h
  refine ⟨s, by simpa using exec_of_run (Exec.nil (c := exCut)) hs, ?_, by decide, ?_⟩
  · have : (runLabels exCut exCutTrace (init exCut)).map (·.main) = some .finished := by decide
    rw [hs] at this; simpa using this
  · have : (runLabels exCut exCutTrace (init exCut)).map (·.interrupted) = some true := by decide
    rw [hs] at this; simpa using this

/-- slices of a concrete list -/
example : pySlice [10, 11, 12, 13, 14, 15, 16] 2 3 = [11, 14] := by decide

example : suiteMatches "p:a".toList "p:a".toList = true ∧ suiteMatches ":a".toList "q:a".toList = true ∧
    suiteMatches "a".toList "p:b".toList = false := by decide

/-- the hypotheses of `no_start_after_maxfail` are satisfiable: the `--maxfail 1` schedule above, cut after the
first failure, continues with the INTERRUPT of the test in flight — and by the theorem never with a start -/
example : ∃ s', Exec exCut (exCutTrace.take 7 ++ [.finish 1 INTERRUPT]) s' ∧ exCut.maxfail > 0 ∧
    (resultsOf (exCutTrace.take 7)).countP TestResult.countsAsFail ≥ exCut.maxfail := by
  have h : (runLabels exCut (exCutTrace.take 7 ++ [.finish 1 INTERRUPT]) (init exCut)).isSome = true := by decide
  obtain ⟨s, hs⟩ := Option.isSome_iff_exists.mp h
  exact ⟨s, by simpa using exec_of_run (Exec.nil (c := exCut)) hs, by decide, by decide⟩

/-- `--repeat 2`, two tests, the first fails in the first repetition: hypotheses of `no_start_after_repeat_failure` -/
def exRep : Config := mkConfig 2 2 0 [true, true]

example : ∃ s', Exec exRep ([.launch, .launch, .acquireStart 0, .acquireStart 1, .finish 0 FAIL] ++ [.finish 1 OK]) s' ∧
    exRep.repeatGt1 = true ∧
    ∃ r, r ∈ resultsOf [.launch, .launch, .acquireStart 0, .acquireStart 1, .finish 0 FAIL] ∧ r.countsAsFail = true := by
  have h : (runLabels exRep ([.launch, .launch, .acquireStart 0, .acquireStart 1, .finish 0 FAIL] ++ [.finish 1 OK])
      (init exRep)).isSome = true := by decide
  obtain ⟨s, hs⟩ := Option.isSome_iff_exists.mp h
  exact ⟨s, by simpa using exec_of_run (Exec.nil (c := exRep)) hs, by decide, FAIL, by decide, by decide⟩

/-- in that cut `--maxfail 1` run: two tests started, two results processed, one runner never started -/
example : finishCount 0 exCutTrace = 1 ∧ finishCount 1 exCutTrace = 1 ∧ finishCount 2 exCutTrace = 0 ∧
    startCount 2 exCutTrace = 0 ∧ (resultsOf exCutTrace).length = 2 := by decide

end MesonModel.Props.C12
