/-
C02 — Parsing is total, lossless and position-accurate.

Property theorems over the model `MesonModel.Lang` (`Lexer.lean`, `Parser.lean`, `Ast.lean`): the lexer, the
recursive-descent parser with its pending-whitespace list, and `RawPrinter` as `emit`. Helper lemmas live in
`MesonModel/Lang/*Lemmas.lean`, `RoundTrip.lean`, `StreamInv.lean`, `LexPrinted.lean`, `TopLemmas.lean`,
`LexSpan.lean`, `SpanDefs.lean`, `SpanInv.lean`, `SpanProd.lean` (span exactness).
All statements quantify over every input string (`Str = List Char`).
-/
import MesonModel.Lang.TopLemmas
import MesonModel.Lang.ShapeLemmas
import MesonModel.Lang.LexAdj
import MesonModel.Lang.ErrPos
import MesonModel.Lang.TernaryFlag
import MesonModel.Lang.Sexp
import MesonModel.Lang.SpanProd

namespace MesonModel.Props.C02
open MesonModel.Lang

/-! ### tables regenerated from the live module -/

/-- every name in the tables regenerated from the live `mparser` module is a token id of the model -/
theorem generated_tables_known : tablesKnown = true := by decide

/-- a keyword token prints as the keyword text and is never `eof` (obligation over the generated keyword table) -/
theorem generated_keywords_print : keywordTable.all kwEntryOk = true := keywordTable_ok

/-- no single-character token id collides with a string/boolean/`eof` id (obligation over the generated table) -/
theorem generated_single_chars_plain : singleCharTable.all singleEntryOk = true := singleCharTable_ok

/-! ### lexer: total and a partition of the input -/

/-- `lex_partition`: the texts of the tokens, followed by the part the lexer did not reach (non-empty only when
it raised), are the input — byte for byte, for every input -/
theorem lex_partition (s : Str) : (lex s).texts ++ (lex s).rem = s := MesonModel.Lang.lex_partition s

/-- the lexer's progress argument: every step consumes at least one character, so the fuel `len + 1` suffices -/
theorem lex_total (s : Str) : (lex s).fuelOut = false := lex_fuel s

/-- without a lexer error the token texts concatenate to exactly the input -/
theorem lex_complete (s : Str) (h : (lex s).err = none) : (lex s).texts = s := MesonModel.Lang.lex_complete s h

/-- every token prints back as its own text (quotes/prefix of the four string kinds restored around `value`),
and the lexer never yields `eof` -/
theorem lex_tokens_print (s : Str) : ∀ t ∈ (lex s).toks, t.tid ≠ .eof ∧ printed t = t.text := lex_printed s

example : (lex "x = 'a'\n".toList).toks.length = 6 := by decide +kernel

/-- `error_located` (lexer part): a `ParseException` raised by the lexer carries either the BOM position `0:0`
(input starts with U+FEFF) or a line number ≥ 1 and a column that is an offset inside the text -/
theorem lex_error_located (s : Str) (l c : Nat) (h : (lex s).err = some (l, c)) :
    (l = 0 ∧ c = 0 ∧ s.head? = some bom) ∨ (1 ≤ l ∧ c ≤ s.length) := by
  unfold lex at h
  split at h
  · rename_i a as
    split at h
    · rename_i hb
      simp at h
      exact Or.inl ⟨h.1.symm, h.2.symm, by simpa using hb⟩
    · have := lexGo_err_pos _ _ _ h
      exact Or.inr ⟨this.1, by simpa using this.2⟩
  · have := lexGo_err_pos _ _ _ h
    exact Or.inr ⟨this.1, by simpa using this.2⟩

example : (lex "a = \"".toList).err = some (1, 4) := by decide +kernel

/-! ### parser: the raw print of an accepted input is the input -/

/-- the full statement of losslessness (still false of the code: keyword-before-positional, see below) -/
def raw_roundtrip_full : Prop := ∀ (s : Str) (r : ParseOk), parse s = .ok r → emit r.tree = s

/-- `raw_roundtrip_partial`: for **every** input the parser accepts, unless a positional argument was appended
after a keyword argument (`ArgumentNode.order_error`, counted by the ghost field `lossy`), `RawPrinter`
reproduces the input exactly — no token of an accepted file is dropped. Proved production by production with
the ghost-output-stream invariant (`RoundTrip.lean`): `e10`, `e9`, `e8`, method calls, indexing, `e7 … e1`
(incl. `not in` and the ternary), `args`, `key_values`, `foreach`, `if/elif/else`, `line`, `codeblock`,
`parse` — no production is left uncovered, no `inFragment` hypothesis remains. (Since /repo 34437f4 a `not`
that no `in` follows is a located error, so that event no longer exists.) -/
theorem raw_roundtrip_partial (s : Str) (names : List (Str × Nat)) (r : ParseOk)
    (h : parseWith names s = .ok r) (hl : r.lossy = 0) : emit r.tree = s :=
  parse_roundtrip h hl

/-- the same, at the level of an arbitrary token list (no `eof` token inside): the print of the tree is the
printed form of every token, trivia included — nothing is dropped, nothing reordered -/
theorem tokens_roundtrip (names : List (Str × Nat)) (lr : LexResult) (fuel : Nat) (r : ParseOk)
    (h : parseToks names lr fuel = .ok r) (hl : r.lossy = 0) (hne : NoEofTok lr.toks) :
    emit r.tree = restText lr.toks :=
  parseToks_roundtrip h hl hne

/-- an accepted input was tokenised completely: a lexer error is never swallowed -/
theorem accepted_implies_lexed (names : List (Str × Nat)) (lr : LexResult) (fuel : Nat) (r : ParseOk)
    (h : parseToks names lr fuel = .ok r) (hne : NoEofTok lr.toks) : lr.err = none :=
  parseToks_lexErr h hne

/-- the hypotheses of `raw_roundtrip_partial` are satisfiable on a program using most productions -/
example : (match parse "if a not in [1, 2]\n  x = f(b, k : {'q' : -c.d()[0]}) ? 1 : 2 # c\nendif\n".toList with
    | .ok r => r.lossy == 0 && emit r.tree == "if a not in [1, 2]\n  x = f(b, k : {'q' : -c.d()[0]}) ? 1 : 2 # c\nendif\n".toList
    | .error _ => false) = true := by decide +kernel

def outOf (s : String) : Option Str :=
  match parse s.toList with
  | .ok r => some (emit r.tree)
  | .error _ => none

def errOf (s : String) : Option Err :=
  match parse s.toList with
  | .ok _ => none
  | .error e => some e

/-- a `not` that no `in` follows is rejected at the token after it (repaired in /repo 34437f4; it used to be
accepted with the `not` in no node) -/
theorem dangling_not_rejected : errOf "a = b not\n" = some (.parse 1 9) := by decide +kernel

/-- F-PARSE-KWORDER (recorded, not repaired): a keyword argument before a positional one is printed back
reordered -/
theorem kwarg_before_positional_reordered : outOf "f(a: 1, b)\n" = some "f(b, a: 1)\n".toList := by decide +kernel

/-- the full statement is false of the code as it is -/
theorem raw_roundtrip_counterexample : ¬ raw_roundtrip_full := by
  intro h
  have h1 : outOf "f(a: 1, b)\n" = some "f(b, a: 1)\n".toList := kwarg_before_positional_reordered
  unfold outOf at h1
  split at h1
  · rename_i r hr
    have := h _ r hr
    simp at h1
    rw [this] at h1
    exact absurd h1 (by decide)
  · cases h1

/-! ### totality: which exceptions can leave the parser -/

/-- `no_internal_error_full`: **for every string the model outcome is accept or a located error**
(`ParseException` / `BlockParseException` carrying line and column). In particular the recursion fuel
`token count + 3` never runs out (`fuel_suffices`) and the `AttributeError` path of `e4` is unreachable.
Together with the correspondence (model = implementation on every explored input, exception class included)
this is the property's "no internal Python error ever escapes". Proved compositionally over the parser monad
(`Safe.lean`: every recursion happens after a token was consumed) and from the lexer adjacency lemma. -/
theorem no_internal_error_full (s : Str) (names : List (Str × Nat)) (e : Err)
    (h : parseWith names s = .error e) : e.isLocated = true :=
  parse_error_located h

/-- `parser_error_located`: every error the model can raise — lexer or parser, `ParseException` or
`BlockParseException` — carries a line that exists in the text (`line ≤ number of lines`) and a column such
that the offset of that line plus the column does not pass the end of the text. (`lineOff s l` is the offset of
the first character of line `l`; line `0`, used only by the BOM error `0:0`, is treated like line `1`.)
Proved in two stages: every position the parser can report is the start or end position of a token, the
lexer's error position, or `0:0` (`PosInv.lean`, compositional over the parser monad); the lexer's line
bookkeeping is exact (`LexPos.lean`: `lineno = newlines consumed + 1`, `line_start = offset after the last
newline consumed`, for every token kind incl. continuation lines, multi-line strings and newlines inside
single-quoted strings). -/
theorem parser_error_located (s : Str) (names : List (Str × Nat)) (e : Err)
    (h : parseWith names s = .error e) :
    ∃ l c, (e = .parse l c ∨ e = .block l c) ∧ l ≤ countNl s + 1 ∧ lineOff s l + c ≤ s.length := by
  have hloc := parse_error_located h
  have hpos := parse_error_inText h
  cases e with
  | parse l c => exact ⟨l, c, Or.inl rfl, hpos⟩
  | block l c => exact ⟨l, c, Or.inr rfl, hpos⟩
  | notInNoWs => simp [Err.isLocated] at hloc
  | fuel => simp [Err.isLocated] at hloc

/-- exact token offsets (groundwork for span exactness): the line/column of a token address its `bytespan`
start (`offset of its line + column = bytespan[0]`), and the span is exactly as long as the token's text -/
theorem lex_token_offsets (s : Str) : ∀ t ∈ (lex s).toks,
    lineOff s t.lineno + t.colno = t.spanStart ∧ t.spanEnd = t.spanStart + t.text.length :=
  MesonModel.Lang.lex_token_offsets s

/-- the lexer's bookkeeping: every token starts and ends at a line/column inside the text -/
theorem lex_token_positions (s : Str) : ∀ t ∈ (lex s).toks,
    InText s (t.lineno, t.colno) ∧ InText s (t.lineno, t.colno + t.spanEnd - t.spanStart) :=
  (lex_pos s).1

/-- `lex_token_linecol` — **line bookkeeping is exact, for every input and every token kind**: the line number
of every token the lexer yields is `1 +` the number of `'\n'` characters before the token's first character
(`bytespan[0]`), its column is the distance from that character back to the previous `'\n'` (to the start of
the text on line 1), and the offset lies inside the text (`Addr`). This is the statement about the text alone;
it covers the tokens that follow multi-line tokens — triple-quoted (f-)strings, single-quoted strings holding
a raw newline, `\`-continuations with blanks and a trailing comment — because the model's `lexStep` mirrors
each of the four `lineno`/`line_start` updates of `Lexer.lex` and `LexPos.lean` proves the state invariant
`lineno = newlines consumed + 1`, `line_start = offset after the last newline consumed` across every one of
them. `'\r'` is an ordinary character: outside strings/comments the lexer rejects it, inside it is one
column. -/
theorem lex_token_linecol (s : Str) : ∀ t ∈ (lex s).toks,
    t.spanStart ≤ s.length ∧ t.lineno = countNl (s.take t.spanStart) + 1 ∧
      t.colno = lastLineLen (s.take t.spanStart) :=
  MesonModel.Lang.lex_token_linecol s

/-- an address (`Addr s l c off`: `off ≤ len`, `l = 1 + newlines before off`, `c = distance to the previous
newline`) denotes its offset in the rewriter's line table and lies inside the text; an offset has one address -/
theorem address_offset (s : Str) (l c off : Nat) (h : Addr s l c off) : lineOff s l + c = off ∧ InText s (l, c) :=
  ⟨h.lineOff, h.inText⟩

theorem address_unique (s : Str) (l c l' c' off : Nat) (h : Addr s l c off) (h' : Addr s l' c' off) :
    l = l' ∧ c = c' := h.unique h'

/-- the tokens after a continuation line with a trailing comment, after a triple-quoted string spanning three
lines, and after a CRLF inside a comment: (line, column, offset) -/
example : ((lex "a = \\  # c\n [ '''x\n\ny''', # z\r\n 2]\n".toList).toks.map
    (fun t => (t.lineno, t.colno, t.spanStart))).drop 5 =
    [(2, 0, 11), (2, 1, 12), (2, 2, 13), (2, 3, 14), (4, 4, 24), (4, 5, 25), (4, 6, 26), (4, 10, 30), (5, 0, 31),
     (5, 1, 32), (5, 2, 33), (5, 3, 34)] := by decide +kernel

example : lineOff "ab\ncd\n".toList 2 = 3 := by decide
/-- the `eof` token after a multi-line string sits past the end of line 1, but inside the text -/
example : errOf "f('''a\nb'''" = some (.block 1 11) := by decide +kernel

/-! ### spans: the recorded extent of every call and array literal delimits exactly the construct -/

/-- the full statement of span exactness: for every accepted input and every node `n` of the tree (`sub`: the
tree's nodes, all descendants included), the position fields of `n` are exact (`SpanExact`): if `n` is of one
of the five kinds whose constructor records an end position — `FunctionNode`, `MethodNode`, `ArrayNode`,
`DictNode`, `ParenthesizedNode` — then both recorded line/column pairs are addresses in the sense of
`lex_token_linecol` (line = 1 + newlines before, column = distance to the previous newline) and the text
`s[lineOff s lineno + colno : lineOff s end_lineno + end_colno]` (`extentSlice`; `lineOff` counts
lines by `'\n'` only, as the rewriter's line table does) is the source of the construct: what `RawPrinter`
prints for its parts, from the first token to the closing `)` / `]` / `}`, without the trivia after it;
every other node kind records no end position (`end_lineno/end_colno` = start). A `MethodNode` is positioned at its *name* (`mparser.py:534`), so its extent is
`name(args)`, not `obj.name(args)`. False of the code as it is, for the reason `raw_roundtrip_full` is false
(the print reorders a positional argument written after a keyword argument), see
`span_exact_counterexample`. -/
def span_exact_full : Prop :=
  ∀ (s : Str) (names : List (Str × Nat)) (r : ParseOk), parseWith names s = .ok r →
    ∀ n ∈ sub r.tree, SpanExact s n

/-- `span_exact_partial`: for **every** input the parser accepts, unless a positional argument was appended
after a keyword argument (ghost counter `lossy`, the same hypothesis as `raw_roundtrip_partial`), the
line/column extent recorded on every function call, method call, array literal, dict literal and
parenthesised expression, converted to offsets with the line table, delimits exactly the source text of that
construct — multi-line strings, continuation lines and comments inside the brackets included — and no other
node kind records an end position. Proved production by production (`SpanProd.lean`): a state
invariant ties the unconsumed token stream to the suffix of the input it prints and to the line/column of its
first token (from the lexer theorems `lex_token_linecol`, `lex_partition`, `lex_tokens_print` and "a `)` / `]`
/ `}` token is one character long and not a newline"); where `e8`, `method_call` and `e9` (three sites) build
the node, the ghost-output-stream facts of `raw_roundtrip_partial` give the text between the first and the
last token. -/
theorem span_exact_partial (s : Str) (names : List (Str × Nat)) (r : ParseOk)
    (h : parseWith names s = .ok r) (hl : r.lossy = 0) : ∀ n ∈ sub r.tree, SpanExact s n :=
  parse_spans h hl

/-- `span_exact_partial` spelled out for a `FunctionNode`: `f(...)` from the `f` to the `)` -/
theorem span_exact_function (s : Str) (names : List (Str × Nat)) (r : ParseOk)
    (h : parseWith names s = .ok r) (hl : r.lossy = 0) (b : Base) (name lpar a rpar : Node)
    (hn : Node.function b name lpar a rpar ∈ sub r.tree) :
    slice s (lineOff s b.lineno + b.colno) (lineOff s b.endLineno + b.endColno) =
      emit name ++ emit lpar ++ emit a ++ symValue rpar :=
  (span_exact_partial s names r h hl _ hn).2.2

/-- … for an `ArrayNode`: `[...]` from the `[` to the `]` -/
theorem span_exact_array (s : Str) (names : List (Str × Nat)) (r : ParseOk)
    (h : parseWith names s = .ok r) (hl : r.lossy = 0) (b : Base) (l a rb : Node)
    (hn : Node.array b l a rb ∈ sub r.tree) :
    slice s (lineOff s b.lineno + b.colno) (lineOff s b.endLineno + b.endColno) =
      emit l ++ emit a ++ symValue rb :=
  (span_exact_partial s names r h hl _ hn).2.2

/-- … for a `DictNode`: `{...}` from the `{` to the `}` -/
theorem span_exact_dict (s : Str) (names : List (Str × Nat)) (r : ParseOk)
    (h : parseWith names s = .ok r) (hl : r.lossy = 0) (b : Base) (l a rc : Node)
    (hn : Node.dict b l a rc ∈ sub r.tree) :
    slice s (lineOff s b.lineno + b.colno) (lineOff s b.endLineno + b.endColno) =
      emit l ++ emit a ++ symValue rc :=
  (span_exact_partial s names r h hl _ hn).2.2

/-- … for a `ParenthesizedNode`: `(...)` from the `(` to the `)` -/
theorem span_exact_paren (s : Str) (names : List (Str × Nat)) (r : ParseOk)
    (h : parseWith names s = .ok r) (hl : r.lossy = 0) (b : Base) (l inner rp : Node)
    (hn : Node.paren b l inner rp ∈ sub r.tree) :
    slice s (lineOff s b.lineno + b.colno) (lineOff s b.endLineno + b.endColno) =
      emit l ++ emit inner ++ symValue rp :=
  (span_exact_partial s names r h hl _ hn).2.2

/-- … for a `MethodNode`: `name(...)` from the method name to the `)` (the object expression and the dot lie
before the recorded start) -/
theorem span_exact_method (s : Str) (names : List (Str × Nat)) (r : ParseOk)
    (h : parseWith names s = .ok r) (hl : r.lossy = 0) (b : Base) (obj dot name lpar a rpar : Node)
    (hn : Node.method b obj dot name lpar a rpar ∈ sub r.tree) :
    slice s (lineOff s b.lineno + b.colno) (lineOff s b.endLineno + b.endColno) =
      emit name ++ emit lpar ++ emit a ++ symValue rpar :=
  (span_exact_partial s names r h hl _ hn).2.2

/-- `node_end_positions` — the END positions recorded by the parser nodes obey the same law as the token
positions (`lex_token_linecol`): on every node that records an end (`Node.recordsEnd`: function, method,
array, dict, parenthesised) `end_lineno` is `1 +` the number of newlines before the end offset `e` and
`end_colno` the distance from `e` back to the previous newline — `e` being the offset just after the closing
`)` / `]` / `}`, i.e. the one the line table computes from `(end_lineno, end_colno)` — and likewise
`lineno/colno` for the start offset `a`; both offsets lie inside the text. -/
theorem node_end_positions (s : Str) (names : List (Str × Nat)) (r : ParseOk)
    (h : parseWith names s = .ok r) (hl : r.lossy = 0) (n : Node) (hn : n ∈ sub r.tree)
    (hr : n.recordsEnd = true) :
    Addr s n.base.lineno n.base.colno (lineOff s n.base.lineno + n.base.colno) ∧
    Addr s n.base.endLineno n.base.endColno (lineOff s n.base.endLineno + n.base.endColno) := by
  have hx := span_exact_partial s names r h hl n hn
  cases n <;> simp [Node.recordsEnd] at hr <;> exact ⟨hx.1, hx.2.1⟩

/-- `no_end_recorded` — precisely which node kinds record no end position: every node of an accepted tree that
is not a function call, method call, array literal, dict literal or parenthesised expression — string nodes
(single- and triple-quoted, f-strings), numbers, ids, booleans, symbols, `continue`/`break`, index expressions
`a[i]`, unary/binary/ternary operators, assignments, argument lists, code blocks, `if`/`elif`/`else`/`foreach`
clauses and the empty node — has `end_lineno = lineno` and `end_colno = colno` (the `BaseNode` defaults); the
only extent such a node carries is the `bytespan` of an elementary node, which is compared with the
implementation on every run. -/
theorem no_end_recorded (s : Str) (names : List (Str × Nat)) (r : ParseOk)
    (h : parseWith names s = .ok r) (hl : r.lossy = 0) (n : Node) (hn : n ∈ sub r.tree)
    (hr : n.recordsEnd = false) : n.base.endLineno = n.base.lineno ∧ n.base.endColno = n.base.colno := by
  have hx := span_exact_partial s names r h hl n hn
  cases n <;> simp [Node.recordsEnd] at hr <;> first | exact hx | exact hx.1

/-- `(text cut by the extent, construct)` for every call / array node of the tree, in tree order -/
def spansOf (s : String) : Option (List (String × String)) :=
  match parse s.toList with
  | .ok r => some ((sub r.tree).filterMap (fun n =>
      match n with
      | .function b name lpar a rpar =>
        some (String.ofList (extentSlice s.toList b), String.ofList (emit name ++ emit lpar ++ emit a ++ symValue rpar))
      | .method b _ _ name lpar a rpar =>
        some (String.ofList (extentSlice s.toList b), String.ofList (emit name ++ emit lpar ++ emit a ++ symValue rpar))
      | .array b l a rb => some (String.ofList (extentSlice s.toList b), String.ofList (emit l ++ emit a ++ symValue rb))
      | _ => none))
  | .error _ => none

/-- the hypotheses of `span_exact_partial` are satisfiable on a program with nested calls, a method chain, an
array spanning lines with a multi-line string and a comment inside -/
example : (match parse "x = f(a, [1, 2] , k : g( 3 ) ) # c\ny = a.b(1).c( [ '''m\nl''' , # d\n 2] )\n".toList with
    | .ok r => r.lossy == 0 && ((sub r.tree).filter Node.isCallOrArray).length == 6 &&
        (sub r.tree).all (spanExactB "x = f(a, [1, 2] , k : g( 3 ) ) # c\ny = a.b(1).c( [ '''m\nl''' , # d\n 2] )\n".toList)
    | .error _ => false) = true := by decide +kernel

/-- a dict literal over two lines with a comment, inside a parenthesised expression over three lines: all
position fields exact -/
example : (match parse "d = ( {'a' : 1, # c\n 'b' : [2] }\n )\n".toList with
    | .ok r => r.lossy == 0 && ((sub r.tree).filter Node.recordsEnd).length == 3 &&
        (sub r.tree).all (spanExactB "d = ( {'a' : 1, # c\n 'b' : [2] }\n )\n".toList)
    | .error _ => false) = true := by decide +kernel

example : spansOf "y = a.b(1).c( [ 2,\n 3] ) \n" =
    some [("c( [ 2,\n 3] )", "c( [ 2,\n 3] )"), ("b(1)", "b(1)"), ("[ 2,\n 3]", "[ 2,\n 3]")] := by decide +kernel

/-- with a keyword argument before a positional one the extent still delimits the call as written, but the
print of its parts is reordered (F-PARSE-KWORDER) -/
theorem kwarg_before_positional_span :
    spansOf "f(a: 1, b)\n" = some [("f(a: 1, b)", "f(b, a: 1)")] := by decide +kernel

/-- the full statement is false of the code as it is -/
theorem span_exact_counterexample : ¬ span_exact_full := by
  intro h
  have hw : (match parse "f(a: 1, b)\n".toList with
      | .ok r => (sub r.tree).all (spanExactB "f(a: 1, b)\n".toList)
      | .error _ => true) = false := by decide +kernel
  split at hw
  · rename_i r hr
    have hall := h _ [] r hr
    have : (sub r.tree).all (spanExactB "f(a: 1, b)\n".toList) = true :=
      List.all_eq_true.mpr (fun n hn => (spanExactB_iff n).mpr (hall n hn))
    rw [this] at hw; cases hw
  · cases hw

/-! ### the side condition of the round trip, made precise

`raw_roundtrip_partial` speaks about the ghost counter `lossy`. What the implementation itself records is the
flag `ArgumentNode.order_error` (`incorrect_order()`, which the interpreter turns into "All keyword arguments
must be after positional arguments"). `orderFlags t` is the decidable condition on the *tree*: the number of
`ArgumentNode`s of `t` whose `order_error` is set. -/

/-- `ArgumentNode.order_error` -/
def orderFlag : Node → Bool
  | .args _ _ _ _ _ _ oe => oe
  | _ => false

/-- number of argument lists of the tree in which a positional argument was written after a keyword argument -/
def orderFlags (t : Node) : Nat := ((sub t).filter orderFlag).length

/-- `order_flag_sound`: the ghost counter never misses a flag — on every accepted input on which the counter is
`0`, no `ArgumentNode` of the tree has `order_error` set. (The counter is incremented by `noteOrder` exactly
where `ArgumentNode.append` computes `order_error = True`, `mparser.py:370-374`; proved along the
production-by-production span invariant.) Together with `raw_roundtrip_partial` and `span_exact_partial`: every
accepted input that is not printed back byte for byte, or has a call/array/dict/parenthesis extent that is not
exact, has `lossy > 0`. -/
theorem order_flag_sound (s : Str) (names : List (Str × Nat)) (r : ParseOk)
    (h : parseWith names s = .ok r) (hl : r.lossy = 0) : orderFlags r.tree = 0 := by
  have hx := span_exact_partial s names r h hl
  unfold orderFlags
  rw [List.length_eq_zero_iff, List.filter_eq_nil_iff]
  intro n hn
  have := hx n hn
  cases n <;> simp [orderFlag]
  case args b pos commas colons keys vals oe => exact this.2

/-- the converse (`order_flag_complete`): a set counter shows as a set flag in the tree — every `ArgumentNode`
under construction ends up in the returned tree. Not proved here (it needs a second pass over all productions,
"the node under construction is a sub-node of the result"); it is checked on every input of every run: the
driver's answer carries both the counter and the flags, the harness compares them with each other and with
`order_error` of the real `ArgumentNode` objects (`model:lossy-vs-flag`, `impl:order-error-vs-print`). -/
def order_flag_complete : Prop :=
  ∀ (s : Str) (names : List (Str × Nat)) (r : ParseOk), parseWith names s = .ok r → orderFlags r.tree = 0 → r.lossy = 0

/-- `raw_roundtrip` at full strength under the decidable side condition on the tree: no `order_error` flag -/
def raw_roundtrip_unless_order_error : Prop :=
  ∀ (s : Str) (names : List (Str × Nat)) (r : ParseOk), parseWith names s = .ok r → orderFlags r.tree = 0 →
    emit r.tree = s ∧ ∀ n ∈ sub r.tree, SpanExact s n

/-- … which is `raw_roundtrip_partial` + `span_exact_partial` once the flag is known to be complete -/
theorem raw_roundtrip_unless_order_error_of_complete (hc : order_flag_complete) : raw_roundtrip_unless_order_error :=
  fun s names r h hf => ⟨raw_roundtrip_partial s names r h (hc s names r h hf),
    span_exact_partial s names r h (hc s names r h hf)⟩

/-- what the printer does when the flag is set, on the smallest witness: `visit_ArgumentNode` prints all
positional arguments first (each followed by the next comma of the list), then the keyword arguments — the text
is a permutation of the source tokens (`a: 1, b` → `b, a: 1`), the counter is 1 and the flag is set. With the
keyword argument last (`f(b, a: 1)`) counter and flag are 0 and the text is reproduced. -/
theorem order_error_witness :
    (match parse "f(a: 1, b)\n".toList with
     | .ok r => (r.lossy, orderFlags r.tree, String.ofList (emit r.tree))
     | .error _ => (0, 0, "")) = (1, 1, "f(b, a: 1)\n") ∧
    (match parse "f(b, a: 1)\n".toList with
     | .ok r => (r.lossy, orderFlags r.tree, String.ofList (emit r.tree))
     | .error _ => (9, 9, "")) = (0, 0, "f(b, a: 1)\n") := by
  constructor <;> decide +kernel

/-- `fuel_suffices`: the model's recursion bound is never the reason for a failure -/
theorem fuel_suffices (s : Str) (names : List (Str × Nat)) : parseWith names s ≠ .error .fuel := by
  intro h; have := parse_error_located h; simp [Err.isLocated] at this

/-- the `AttributeError` of `e4` (`temp_node.whitespaces` is `None`) cannot happen -/
theorem not_in_attribute_error_unreachable (s : Str) (names : List (Str × Nat)) :
    parseWith names s ≠ .error .notInNoWs := by
  intro h; have := parse_error_located h; simp [Err.isLocated] at this

/-- lexer adjacency: a `not` token is never immediately followed by an `in` token (`notin` lexes as one
identifier), so there is always whitespace/comment/newline text between them -/
theorem lex_not_in_separated (s : Str) : NoAdj (lex s).toks := lex_noAdj s

/-- on any token list without adjacent `not`,`in`, with the default fuel -/
theorem tokens_error_located (names : List (Str × Nat)) (lr : LexResult) (e : Err)
    (hn : NoAdj lr.toks) (h : parseToks names lr (defaultFuel lr) = .error e) : e.isLocated = true :=
  parseToks_located hn h

/-- the former witnesses are now located errors -/
theorem unhashable_key_located : errOf "a = {-: 1}\n" = some (.parse 1 6) := by decide +kernel
theorem unknown_name_located : errOf "x = '\\N{foo}'\n" = some (.parse 1 4) := by decide +kernel
theorem illegal_codepoint_located : errOf "x = '\\UFFFFFFFF'\n" = some (.parse 1 4) := by decide +kernel

/-- line bookkeeping follows a newline inside a single-quoted string (lexer repair): the call on the third line
is recorded on line 3 -/
example : ((lex "x = 'a\nb'\nf()\n".toList).toks.map (fun t => (t.lineno, t.colno))).drop 6 =
    [(3, 0), (3, 1), (3, 2), (3, 3)] := by decide +kernel

/-! ### grammar facts (shape of accepted trees; used by C01/C17) -/

/-- `comparison_not_chained`: whatever comparison node `e4` builds (at any nesting depth, for any parser state),
neither operand is itself a comparison node — `a == b == c` and `a < b in c` have no derivation without
parentheses (the second operator is left unconsumed and the statement is rejected by the caller) -/
theorem comparison_not_chained (stmt : P Node) (k : Nat) (st st' : PState) (c : Str) (b : Base) (l op r : Node)
    (h : e4 stmt k st = .ok (.binop (.cmp c) b l op r, st')) : l.isCmp = false ∧ r.isCmp = false := by
  have := e4_operands_not_cmp stmt k st _ st' h
  simpa using this

/-- `unary_not_stacked`: the operand of every `not` / unary-minus node is a postfix expression (literal, id,
bracketed expression, call, method call, indexing, or the empty node), never another unary node -/
theorem unary_not_stacked (stmt : P Node) (k : Nat) (st st' : PState) (u : UnKind) (b : Base) (op v : Node)
    (h : e7 stmt k st = .ok (.unop u b op v, st')) : v.isPostfix = true ∧ v.isUnary = false := by
  have hp : v.isPostfix = true := e7_operand_postfix stmt k st _ st' h
  refine ⟨hp, ?_⟩
  cases v <;> simp_all [Node.isPostfix, Node.isUnary]

/-- arithmetic operands: what `e5` returns is an arithmetic node, a unary node or a postfix expression -/
theorem arithmetic_level_kinds (stmt : P Node) (k : Nat) (st st' : PState) (n : Node)
    (h : e5 stmt k st = .ok (n, st')) : n.isArith = true ∨ n.isUnary = true ∨ n.isPostfix = true := by
  have := e5_kind stmt k st n st' h
  simp [Node.isE5, Node.isE7] at this
  rcases this with h | h | h
  · exact Or.inl h
  · exact Or.inr (Or.inl h)
  · exact Or.inr (Or.inr h)

/-- `ternary_not_nested`: while `in_ternary` is set — anywhere inside the two branches of a ternary, at any
nesting depth, parentheses included, since the flag is global and every production restores it
(`TernaryFlag.lean`) — `statement()` never returns a ternary node; for every fuel and every parser state -/
theorem ternary_not_nested (n : Nat) (st st' : PState) (nd : Node)
    (h : statement n st = .ok (nd, st')) (ht : st.inTernary = true) : nd.isTernary = false :=
  statement_no_ternary_in_ternary n h ht

/-- every production leaves the `in_ternary` flag as it found it -/
theorem in_ternary_restored (n : Nat) (st st' : PState) (nd : Node)
    (h : statement n st = .ok (nd, st')) : st'.inTernary = st.inTernary :=
  (statement_pt n).elim st nd st' h

example : errOf "x = a == b == c\n" = some (.parse 1 11) := by decide +kernel
example : errOf "x = not not a\n" = some (.parse 1 12) := by decide +kernel
/-- nested ternaries are rejected, also inside parentheses (the `in_ternary` flag is global) -/
example : errOf "x = a ? b : c ? d : e\n" = some (.parse 1 12) := by decide +kernel
example : errOf "x = a ? (b ? c : d) : e\n" = some (.parse 1 9) := by decide +kernel

end MesonModel.Props.C02
