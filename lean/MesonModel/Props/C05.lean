/-
C05 — the build graph is dependency-complete: any valid schedule builds the same thing.

Statements over the execution model `MesonModel/Graph/Model.lean` (steps with declared inputs/outputs and an arbitrary
deterministic behaviour `reads`/`act`), for *all* graphs, initial file systems and schedules:

* `replay_ok_all_schedules`      if every step only looks at paths that no step produces or that a declared ancestor
                                 produces (`Hermetic`), and every step replayed on "initial files + reference outputs of its
                                 declared ancestors" succeeds with the reference content (`ReplayOK`, what the executor
                                 measures per step), then **every** complete valid schedule succeeds and ends in exactly
                                 the reference state;
* `hermetic_implies_confluent`   under `Hermetic` (and single authorship of paths) any two complete valid schedules give
                                 the same result — both fail, or both succeed with the same final file system;
* `hermetic_of_reads_subset`     the hypothesis in the form "reads ⊆ sources ∪ outputs of declared ancestors";
* `missing_edge_has_bad_schedule` the converse: if `j` is not a declared ancestor of `i` there is a complete valid schedule
                                 (a permutation of any given one) that runs `i` before `j`, and when `i` runs there, every
                                 path written by `j` still has its initial content (absent / stale);
* `missing_edge_counterexample`  a concrete graph with a missing order-only edge on a generated header: two valid
                                 schedules, one fails;
* small facts: valid schedules = topological orders of the declared relation; independent steps commute; a batch of
  simultaneously enabled steps (parallel execution reading the state at batch start) equals running them in sequence;
  the executable checkers used by the driver decide `Valid`, `Complete`, and compute exactly the declared ancestors.

Over the derivation model `MesonModel/Graph/HeaderDeps.lean` (BuildTarget.process_sourcelist / add_deps, NinjaBackend
get_generated_headers + the header_deps loop of generate_target + order_deps_to_strings), for *all* well-formed target tables:

* `declared_order_only_covers_may_read`  every generated header a compile statement of a target may read (outputs of the
                                 generated elements handed to the target directly or through `declare_dependency(sources:)`
                                 at any depth, in any form — whole custom target, index, generator list, repeated, mixed —
                                 and generator-made headers of the libraries of its link_with / link_whole closure) is
                                 among the order-only inputs the backend declares for it;
* `compile_step_hermetic_of_model`  hence a compile statement whose produced reads are its declared inputs or such headers
                                 satisfies the hypothesis `Hermetic` of the schedule theorems;
* `both_outputs_of_one_producer_declared`  the instance for two outputs of one custom target arriving as `ct[i]` / `ct`;
* `wfB_sound`                    the driver's well-formedness bit (reported with every answer) implies the hypothesis `WF`.
-/
import MesonModel.Graph.Lemmas
import MesonModel.Graph.HeaderDepsLemmas

namespace MesonModel.Props.C05
open MesonModel.Graph

variable {ι F C : Type} [DecidableEq ι] [DecidableEq F]

/-! ### hermetic ⇒ every schedule succeeds with the same result -/

/-- per-step hermetic replay against a reference decides all schedules -/
theorem replay_ok_all_schedules {g : Graph ι F C} {init ref : FS F C} (hh : Hermetic g) (hf : RefFrame g init ref)
    (hrep : ReplayOK g init ref) (s : List ι) (hv : Valid g s) (hc : Complete g s) : run g init s = some ref := by
  rcases replay_invariant hh hrep hv with ⟨st, hrun, hst⟩
  unfold run
  rw [hrun]
  congr 1
  funext f
  rw [hst f]
  split
  · rfl
  · next hno =>
    symm
    apply hf
    intro j hj hm
    exact hno (mem_outsOf.2 ⟨j, List.mem_reverse.2 (hc j hj), hm⟩)

/-- one successful complete valid schedule transfers to all of them -/
theorem hermetic_success_transfers {g : Graph ι F C} {init ref : FS F C} (hd : DisjointOuts g) (hh : Hermetic g)
    {s₁ s₂ : List ι} (v₁ : Valid g s₁) (c₁ : Complete g s₁) (v₂ : Valid g s₂) (c₂ : Complete g s₂)
    (h₁ : run g init s₁ = some ref) : run g init s₂ = some ref := by
  have hc₁ : ∀ i, i ∈ g.steps → i ∈ s₁.reverse := fun i hi => List.mem_reverse.2 (c₁ i hi)
  rcases run_gives_replayOK hd hh v₁ hc₁ h₁ with ⟨hf, hrep⟩
  exact replay_ok_all_schedules hh hf hrep s₂ v₂ c₂

/-- any two complete valid schedules of a dependency-complete graph yield the same thing (both fail or both succeed
    with the same final file contents) — every topological order, every interleaving of atomic steps -/
theorem hermetic_implies_confluent {g : Graph ι F C} {init : FS F C} (hd : DisjointOuts g) (hh : Hermetic g)
    {s₁ s₂ : List ι} (v₁ : Valid g s₁) (c₁ : Complete g s₁) (v₂ : Valid g s₂) (c₂ : Complete g s₂) :
    run g init s₁ = run g init s₂ := by
  cases h₁ : run g init s₁ with
  | some ref => exact (hermetic_success_transfers hd hh v₁ c₁ v₂ c₂ h₁).symm
  | none =>
    cases h₂ : run g init s₂ with
    | none => rfl
    | some ref =>
      have := hermetic_success_transfers hd hh v₂ c₂ v₁ c₁ h₂
      rw [h₁] at this
      cases this

/-- the hypothesis as the property states it: each step reads only sources / configure-time files (paths no step
    writes) and outputs of its declared ancestors -/
theorem hermetic_of_reads_subset {g : Graph ι F C} (src : F → Prop) (hd : DisjointOuts g)
    (hsrc : ∀ f, src f → ∀ j, j ∈ g.steps → f ∉ (g.step j).outs)
    (hr : ∀ i, i ∈ g.steps → ∀ f, f ∈ (g.step i).reads →
      src f ∨ ∃ j, j ∈ g.steps ∧ Anc g i j ∧ f ∈ (g.step j).outs) : Hermetic g := by
  intro i hi f hf j hj hfj
  rcases hr i hi f hf with hs | ⟨k, hk, ha, hfk⟩
  · exact absurd hfj (hsrc f hs j hj)
  · by_cases e : k = j
    · exact e ▸ ha
    · exact absurd hfj (hd k hk j hj e f hfk)

/-! ### the converse -/

/-- if `j` is not a declared ancestor of `i`, some complete valid schedule runs `i` first, and at that moment nothing
    `j` writes has been written: a step that needs an output of `j` fails there or reads stale content -/
theorem missing_edge_has_bad_schedule {g : Graph ι F C} {init : FS F C} (hd : DisjointOuts g) {s : List ι}
    (hv : Valid g s) (hc : Complete g s) {i j : ι} (hi : i ∈ g.steps) (hj : j ∈ g.steps) (hij : j ≠ i)
    (hna : ¬ Anc g i j) :
    ∃ a b, Valid g (a ++ i :: b) ∧ Complete g (a ++ i :: b) ∧ (a ++ i :: b).Perm s ∧ j ∈ b ∧
      ∀ st, run g init a = some st → ∀ f, f ∈ (g.step j).outs → st f = init f := by
  have hc' : ∀ k, k ∈ g.steps → k ∈ s.reverse := fun k hk => List.mem_reverse.2 (hc k hk)
  rcases reorder_first hv hc' hi hj hij hna with ⟨x, y, hvx, hcx, hjx, hperm⟩
  have e : (y.reverse ++ i :: x.reverse).reverse = x ++ i :: y := by simp
  refine ⟨y.reverse, x.reverse, ?_, ?_, ?_, List.mem_reverse.2 hjx, ?_⟩
  · unfold Valid; rw [e]; exact hvx
  · intro k hk
    have := hcx k hk
    rw [← e] at this
    exact List.mem_reverse.1 this
  · have h1 : (y.reverse ++ i :: x.reverse).Perm (x ++ i :: y) := by
      rw [← e]; exact (List.reverse_perm _).symm
    exact h1.trans (hperm.trans (List.reverse_perm s))
  · intro st hrun f hf
    unfold run at hrun
    rw [List.reverse_reverse] at hrun
    apply runH_frame hrun
    intro m
    rcases mem_outsOf.1 m with ⟨k, hk, hm⟩
    have hnd := hvx.nodup
    have hkj : k ≠ j := by
      rintro rfl
      exact (List.nodup_append.1 hnd).2.2 k hjx k (List.mem_cons_of_mem _ hk) rfl
    have hks : k ∈ g.steps := hvx.mem_steps k (List.mem_append_right _ (List.mem_cons_of_mem _ hk))
    exact hd k hks j hj hkj f hm hf

/-! ### small facts -/

/-- valid schedules are exactly the topological orders of the declared predecessor relation -/
theorem valid_iff_topological_order {g : Graph ι F C} (s : List ι) :
    Valid g s ↔ s.Nodup ∧ (∀ i, i ∈ s → i ∈ g.steps) ∧
      (∀ a i b, s = a ++ i :: b → ∀ j, Pred g i j → j ∈ a) := by
  unfold Valid
  rw [validH_iff]
  constructor
  · rintro ⟨hn, hm, hp⟩
    refine ⟨(List.reverse_perm s).nodup_iff.1 hn, fun i hi => hm i (List.mem_reverse.2 hi), ?_⟩
    intro a i b e j hj
    have : s.reverse = b.reverse ++ i :: a.reverse := by simp [e]
    exact List.mem_reverse.1 (hp _ _ _ this j hj)
  · rintro ⟨hn, hm, hp⟩
    refine ⟨(List.reverse_perm s).nodup_iff.2 hn, fun i hi => hm i (List.mem_reverse.1 hi), ?_⟩
    intro x i y e j hj
    have : s = y.reverse ++ i :: x.reverse := by
      have := congrArg List.reverse e
      simpa using this
    exact List.mem_reverse.1 (hp _ _ _ this j hj)

/-- steps that neither write nor read what the other writes can be swapped -/
theorem independent_steps_commute (s t : Step F C) (σ : FS F C) (h1 : ∀ f, f ∈ s.outs → f ∉ t.outs)
    (h2 : ∀ f, f ∈ s.outs → f ∉ t.reads) (h3 : ∀ f, f ∈ t.outs → f ∉ s.reads) :
    (exec s σ).bind (exec t) = (exec t σ).bind (exec s) := exec_comm s t σ h1 h2 h3

/-- really parallel execution of a batch of steps that were all enabled when the batch started (each reads the state at
    the start of the batch) is the sequential execution of the batch, in a dependency-complete graph -/
theorem parallel_batch_eq_sequential {g : Graph ι F C} (hh : Hermetic g) {h b : List ι} (hv : ValidH g h)
    (hb : ∀ i, i ∈ b → i ∈ g.steps ∧ i ∉ h ∧ Enabled g h i) (st : FS F C) :
    runBatchH g st b = runH g st b := by
  apply runBatchH_eq_runH
  intro i hi f hf m
  rcases mem_outsOf.1 m with ⟨j, hj, hm⟩
  have ha : Anc g i j := hh i (hb i hi).1 f hf j (hb j hj).1 hm
  exact (hb j hj).2.1 (hv.enabled_anc (hb i hi).2.2 ha)

/-- the driver's schedule checker decides validity and completeness -/
theorem validScheduleB_decides {g : Graph ι F C} (s : List ι) :
    (validScheduleB g s = true ↔ Valid g s) ∧ (completeB g s = true ↔ Complete g s) :=
  ⟨validScheduleB_iff s, completeB_iff s⟩

/-- the driver's ancestor sets: sound always, complete whenever the run-time closedness check passes (it is reported
    with every answer) -/
theorem ancestorsB_exact {g : Graph ι F C} (i : ι) (hc : ancClosedB g i (ancestorsB g i) = true) (j : ι) :
    j ∈ ancestorsB g i ↔ Anc g i j :=
  ⟨ancestorsB_sound, anc_complete_of_closed hc⟩

/-! ### the order-only derivation declares every generated header a compile statement may read -/

section derivation
open MesonModel.Graph.HeaderDeps

/-- declared ⊇ may-read, for every well-formed target table: whatever the form and the route by which the outputs of a
    producer reach the target, each header among them is an order-only input of the target's compile statements -/
theorem declared_order_only_covers_may_read {tb : Table} (hwf : WF tb) {t : Nat} (ht : t < tb.tgts.length) {p : Str}
    (h : MayRead tb t p) : p ∈ orderOnly tb t := by
  unfold orderOnly headerDeps
  rw [List.map_append, List.map_map, List.map_map]
  rcases h with ⟨g, o, hg, ho, hh, rfl⟩ | ⟨l, outs, o, hr, hg, ho, hh, rfl⟩
  · refine List.mem_append_right _ (List.mem_map.2 ⟨_, mem_loopHeaders
      (handed_generated hwf.depsBefore _ (hwf.rootsInRange t) hg) ho hh, rfl⟩)
  · have hl : l < t := by
      have key : ∀ {a b : Nat}, LibReach tb a b → b < a := by
        intro a b hab
        induction hab with
        | base hl _ => exact hwf.libsBefore _ _ hl
        | step hl _ _ ih => have := hwf.libsBefore _ _ hl; omega
      exact key hr
    have hp : (tb.tgt l).priv ≠ [] := hwf.privNamed l (by omega)
    have hm := reach_genHeaders hwf hr (t + 1) (by omega) _
      (mem_ownGenHeaders (priv := (tb.tgt l).priv) (handed_generated hwf.depsBefore _ (hwf.rootsInRange l) hg) ho hh)
    refine List.mem_append_left _ (List.mem_map.2 ⟨_, hm, ?_⟩)
    simp [orderDepStr, hasDirPart_joinPath hp]

/-- the same for the headers of the target's own generator lists (they are declared twice: by get_generated_headers and by
    the loop) and, in particular, for two different outputs of one custom target that arrive by different routes -/
theorem both_outputs_of_one_producer_declared {tb : Table} (hwf : WF tb) {t : Nat} (ht : t < tb.tgts.length)
    {dir : Str} {o₁ o₂ : Out} {g₁ g₂ : Gen} (h₁ : Handed tb (tb.tgt t) g₁) (h₂ : Handed tb (tb.tgt t) g₂)
    (e₁ : g₁ = .cti dir o₁ ∨ ∃ os, g₁ = .ct dir os ∧ o₁ ∈ os) (e₂ : g₂ = .cti dir o₂ ∨ ∃ os, g₂ = .ct dir os ∧ o₂ ∈ os)
    (k₁ : headerish o₁.cls = true) (k₂ : headerish o₂.cls = true) :
    joinPath dir o₁.name ∈ orderOnly tb t ∧ joinPath dir o₂.name ∈ orderOnly tb t := by
  constructor
  · apply declared_order_only_covers_may_read hwf ht
    refine Or.inl ⟨g₁, o₁, h₁, ?_, k₁, ?_⟩
    · rcases e₁ with rfl | ⟨os, rfl, hm⟩
      · simp [Gen.outs]
      · simpa [Gen.outs] using hm
    · rcases e₁ with rfl | ⟨os, rfl, _⟩ <;> rfl
  · apply declared_order_only_covers_may_read hwf ht
    refine Or.inl ⟨g₂, o₂, h₂, ?_, k₂, ?_⟩
    · rcases e₂ with rfl | ⟨os, rfl, hm⟩
      · simp [Gen.outs]
      · simpa [Gen.outs] using hm
    · rcases e₂ with rfl | ⟨os, rfl, _⟩ <;> rfl

/-- hermeticity of a compile statement follows from the model: if the statement carries the derived order-only inputs and,
    among the paths that some step produces, reads only its declared inputs and generated headers it may read, then every
    producer of something it reads is a declared ancestor -/
theorem compile_step_hermetic_of_model {ι C : Type} [DecidableEq ι] {g : Graph ι Str C} {tb : Table} (hwf : WF tb) {t : Nat}
    (ht : t < tb.tgts.length) {i : ι} (hins : ∀ p, p ∈ orderOnly tb t → p ∈ (g.step i).ins)
    (hreads : ∀ f, f ∈ (g.step i).reads → (∃ j, j ∈ g.steps ∧ f ∈ (g.step j).outs) → f ∈ (g.step i).ins ∨ MayRead tb t f) :
    ∀ f, f ∈ (g.step i).reads → ∀ j, j ∈ g.steps → f ∈ (g.step j).outs → Anc g i j := by
  intro f hf j hj hfj
  have hin : f ∈ (g.step i).ins := by
    rcases hreads f hf ⟨j, hj, hfj⟩ with h | h
    · exact h
    · exact hins f (declared_order_only_covers_may_read hwf ht h)
  exact Anc.base ⟨hj, f, hin, hfj⟩

/-- the well-formedness bit the driver reports with every `hdeps` answer discharges the hypothesis `WF` -/
theorem wfB_sound {tb : Table} (h : wfB tb = true) : WF tb := wfB_implies_WF h

end derivation

/-! ### the hypotheses are satisfiable, and the conclusion fails without them -/

namespace DerivationExample
open MesonModel.Graph.HeaderDeps

/- gen = custom_target(output: ['x.c', 'x.h']);  d = declare_dependency(sources: gen[1]);
   executable('app', 'main.c', gen[0], dependencies: d);  lib = static_library('l', g.process('a.in'));
   executable('app2', 'main2.c', gen[0], gen, link_with: lib) -/
def xc : Out := ⟨"x.c".toList, .source⟩
def xh : Out := ⟨"x.h".toList, .header⟩
def tb : Table :=
  { deps := [{ sources := [.cti [] xh] }],
    tgts := [{ kind := .executable, priv := "app.p".toList, sources := [.cti [] xc], deps := [0] },
             { kind := .static, priv := "libl.a.p".toList,
               sources := [.glist [⟨"a.c".toList, .source⟩, ⟨"a.h".toList, .header⟩]] },
             { kind := .executable, priv := "app2.p".toList, sources := [.cti [] xc, .ct [] [xc, xh]], linkWith := [1] }] }

example : wfB tb = true := by decide
example : WF tb := wfB_sound (by decide)
example : orderOnly tb 0 = ["x.h".toList] := by decide
example : orderOnly tb 1 = ["libl.a.p/a.h".toList, "libl.a.p/a.h".toList] := by decide
example : orderOnly tb 2 = ["libl.a.p/a.h".toList, "x.h".toList] := by decide
example : MayRead tb 0 "x.h".toList :=
  Or.inl ⟨.cti [] xh, xh, Or.inr ⟨0, .root (by decide), by decide⟩, by decide, by decide, by decide⟩

end DerivationExample

namespace Example

/- paths: 0 gen.h.in (source)  1 gen.h  2 main.c (source)  3 main.o  4 app  5 other.txt
   steps: 0 generate gen.h   1 compile main.c (includes gen.h)   2 link   3 an unrelated generator -/

def actGen : List (Option Nat) → Option (Nat → Nat)
  | [some v] => some (fun _ => v + 1)
  | _ => none

def actCompile : List (Option Nat) → Option (Nat → Nat)
  | [some a, some b] => some (fun _ => a * 10 + b)
  | _ => none

def actLink : List (Option Nat) → Option (Nat → Nat)
  | [some a] => some (fun _ => a + 100)
  | _ => none

def stepsOK : Nat → Step Nat Nat
  | 0 => { ins := [0], outs := [1], reads := [0], act := actGen }
  | 1 => { ins := [2, 1], outs := [3], reads := [2, 1], act := actCompile }   -- `|| gen.h` declared
  | 2 => { ins := [3], outs := [4], reads := [3], act := actLink }
  | _ => { ins := [0], outs := [5], reads := [0], act := actGen }

def stepsBad : Nat → Step Nat Nat
  | 1 => { ins := [2], outs := [3], reads := [2, 1], act := actCompile }       -- the order-only edge is missing
  | i => stepsOK i

def gOK : Graph Nat Nat Nat := { steps := [0, 1, 2, 3], step := stepsOK }
def gBad : Graph Nat Nat Nat := { steps := [0, 1, 2, 3], step := stepsBad }

def init : FS Nat Nat := fun f => if f = 0 then some 5 else if f = 2 then some 7 else none

theorem anc10 : Anc gOK 1 0 := Anc.base ⟨by decide, 1, by decide, by decide⟩
theorem anc21 : Anc gOK 2 1 := Anc.base ⟨by decide, 3, by decide, by decide⟩

theorem gOK_disjoint : DisjointOuts gOK := by
  intro i hi j hj hij f hfi hfj
  simp only [gOK, List.mem_cons, List.mem_nil_iff, or_false] at hi hj
  rcases hi with rfl | rfl | rfl | rfl <;> rcases hj with rfl | rfl | rfl | rfl <;>
    simp [gOK, stepsOK] at hfi hfj hij <;> omega

theorem gOK_hermetic : Hermetic gOK := by
  intro i hi f hf j hj hfj
  simp only [gOK, List.mem_cons, List.mem_nil_iff, or_false] at hi hj
  rcases hi with rfl | rfl | rfl | rfl <;> rcases hj with rfl | rfl | rfl | rfl <;>
    simp [gOK, stepsOK] at hf hfj <;> first | exact anc10 | exact anc21 | omega

/-- four different complete valid schedules of `gOK` … -/
example : [[0, 1, 2, 3], [3, 0, 1, 2], [0, 3, 1, 2], [0, 1, 3, 2]].all
    (fun s => validScheduleB gOK s && completeB gOK s) = true := by decide

/-- … to which the confluence theorem applies (the hypotheses are satisfiable) … -/
example : run gOK init [0, 1, 2, 3] = run gOK init [3, 0, 1, 2] :=
  hermetic_implies_confluent gOK_disjoint gOK_hermetic
    ((validScheduleB_iff _).1 (by decide)) ((completeB_iff _).1 (by decide))
    ((validScheduleB_iff _).1 (by decide)) ((completeB_iff _).1 (by decide))

/-- … and they do succeed: app = (7*10 + (5+1)) + 100 -/
example : (run gOK init [3, 0, 1, 2]).map (fun st => [st 1, st 3, st 4, st 5]) =
    some [some 6, some 76, some 176, some 6] := by decide

/-- an invalid order is rejected -/
example : validScheduleB gOK [1, 0, 2, 3] = false := by decide

/-- without the order-only edge on the generated header, running the compile first is a valid schedule, and it fails,
    while the declaration order succeeds: the conclusion of `hermetic_implies_confluent` is false for `gBad` -/
theorem missing_edge_counterexample :
    ¬ (∀ s₁ s₂, Valid gBad s₁ → Complete gBad s₁ → Valid gBad s₂ → Complete gBad s₂ →
        run gBad init s₁ = run gBad init s₂) := by
  intro h
  have e := h [0, 1, 2, 3] [1, 0, 2, 3]
    ((validScheduleB_iff _).1 (by decide)) ((completeB_iff _).1 (by decide))
    ((validScheduleB_iff _).1 (by decide)) ((completeB_iff _).1 (by decide))
  have e' := congrArg Option.isSome e
  revert e'
  decide

/-- and `gBad` indeed violates the hypothesis: step 1 reads path 1, written by step 0, which is not its ancestor;
    `missing_edge_has_bad_schedule` applies to it -/
example : ¬ Hermetic gBad := by
  intro h
  have ha : Anc gBad 1 0 := h 1 (by decide) 1 (by decide) 0 (by decide) (by decide)
  have key : ∀ i j, Anc gBad i j → i = 1 → False := by
    intro i j ha
    induction ha with
    | base hp =>
      rintro rfl
      rcases hp with ⟨hj, f, hf, hfj⟩
      simp only [gBad, List.mem_cons, List.mem_nil_iff, or_false] at hj
      rcases hj with rfl | rfl | rfl | rfl <;> simp [gBad, stepsBad, stepsOK] at hf hfj <;> omega
    | tail _ _ ih => exact ih
  exact key 1 0 ha rfl

end Example

end MesonModel.Props.C05
