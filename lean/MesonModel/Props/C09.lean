/-
C09 — A killed meson command never bricks the build directory.

Property theorems only (helper lemmas: `MesonModel/Crash/Lemmas.lean`).

* General theorems, for every directory, every content and (where stated) every effect trace: atomic
  temp-file + `os.replace` writes are crash safe; an in-place write has a crash point that leaves the file torn;
  the static "never torn" discipline is sound; the readers of the follow-up `meson setup` are total and fail
  exactly when `cmd_line.txt` is torn (internal error) or `coredata.dat` is torn with no `cmd_line.txt` (clean error).
* Per-run obligations over `Generated/CrashTraces.lean` — the effect traces recorded from the real commands on
  this very run — by kernel evaluation: at every crash point of every recorded trace, `--wipe` included, the
  follow-up setup is usable and every option has its old or its new value.  `coredata.dat` and `cmd_line.txt` are
  never torn in any recorded trace; `coredata.dat` never disappears during `--reconfigure`/`configure`;
  `cmd_line.txt` never disappears during `--wipe`; no file is renamed into place while a handle on it holds
  unflushed data.
  (Until 550d77f `cmd_line.txt` was rewritten in place; until the two `--wipe` repairs `--wipe` moved `cmd_line.txt`
  out of the tree and back, and a directory without `coredata.dat` was configured without the machine files that
  `cmd_line.txt` names.  The exclusions for both are gone.)
* The buffered dimension (`Crash/Buffered.lean`): with `open`/`write`/`spill`/`flush`/`fsync`/`close`/`replace` as
  separate effects, handles that follow their inode through a rename and a user-space buffer that a kill loses,
  the target of temp+`os.replace` is old-or-new at every crash point iff nothing is pending in the buffer at the
  rename (and nothing is written through the handle afterwards).
-/
import MesonModel.Crash.Lemmas
import MesonModel.Crash.Buffered
import MesonModel.Generated.CrashTraces

namespace MesonModel.Props.C09
open MesonModel.Crash MesonModel.Generated

variable {α : Type}

/-! ### write protocols, all directories and contents -/

/-- temp + flush + fsync + close + `os.replace`: at every crash point the target is what it was or the new content -/
theorem atomic_replace_safe (fs : FS α) (tmp dst : Path) (c : α) (h : tmp ≠ dst) :
    ∀ s ∈ crashStates fs (atomicWrite tmp dst c), s dst = fs dst ∨ s dst = .ok c := by
  intro s hs
  have h' : dst ≠ tmp := fun e => h e.symm
  simp [atomicWrite, crashStates, step, mid, FS.set] at hs
  rcases hs with rfl | rfl | rfl | rfl | rfl | rfl | rfl | rfl <;> simp [h']

/-- … and every other file except the temp file is untouched -/
theorem atomic_replace_frame (fs : FS α) (tmp dst q : Path) (c : α) (hq1 : q ≠ tmp) (hq2 : q ≠ dst) :
    ∀ s ∈ crashStates fs (atomicWrite tmp dst c), s q = fs q := by
  intro s hs
  simp [atomicWrite, crashStates, step, mid, FS.set] at hs
  rcases hs with rfl | rfl | rfl | rfl | rfl | rfl | rfl | rfl <;> simp [hq1, hq2]

/-- `coredata.save` (copy to `.prev`, temp, fsync, replace): `coredata.dat` is old or new at every crash point -/
theorem coredata_save_safe (fs : FS α) (c : α) :
    ∀ s ∈ crashStates fs (coredataSave c), s pCoredata = fs pCoredata ∨ s pCoredata = .ok c := by
  intro s hs
  have e0 : (step fs (.copyfile pCoredata pCoredataPrev)) pCoredata = fs pCoredata :=
    step_copyfile_other fs _ _ _ (by decide)
  simp only [coredataSave, crashStates] at hs
  split at hs
  · rename_i m hm
    simp only [List.mem_cons] at hs
    rcases hs with rfl | rfl | hs
    · exact Or.inl rfl
    · exact Or.inl (mid_copyfile_other fs _ _ _ _ (by decide) hm)
    · have := atomic_replace_safe _ pCoredataTmp pCoredata c (by decide) s hs
      rwa [e0] at this
  · simp only [List.mem_cons] at hs
    rcases hs with rfl | hs
    · exact Or.inl rfl
    · have := atomic_replace_safe _ pCoredataTmp pCoredata c (by decide) s hs
      rwa [e0] at this

/-- `coredata.save` passes the static discipline for `coredata.dat` from any directory -/
theorem coredata_save_never_tears_coredata (fs : FS α) (c : α) (h : fs pCoredata ≠ .torn) :
    ∀ s ∈ crashStates fs (coredataSave c), s pCoredata ≠ .torn := by
  intro s hs
  rcases coredata_save_safe fs c s hs with h' | h' <;> simp [h', h]

/-- `_write_config_atomically` (cmd_line.txt~ + fsync + replace): `cmd_line.txt` is old or new at every crash point -/
theorem cmdline_save_safe (fs : FS α) (c : α) :
    ∀ s ∈ crashStates fs (cmdlineSave c), s pCmdline = fs pCmdline ∨ s pCmdline = .ok c :=
  atomic_replace_safe fs pCmdlineTmp pCmdline c (by decide)

/-- … and it never touches `coredata.dat`: from a readable directory the follow-up setup stays usable throughout -/
theorem cmdline_save_recoverable (fs : FS α) (c : α) (h0 : fs pCoredata ≠ .torn) (h1 : fs pCmdline ≠ .torn) :
    ∀ s ∈ crashStates fs (cmdlineSave c), ∃ src, recover s = .usable src := by
  intro s hs
  apply recover_usable_of_not_torn
  · rw [atomic_replace_frame fs pCmdlineTmp pCmdline pCoredata c (by decide) (by decide) s hs]; exact h0
  · rcases cmdline_save_safe fs c s hs with h | h <;> simp [h, h1]

/-- the rollback of a failed configuration (`os.replace(coredata.dat.prev, coredata.dat)`) is atomic: at every
    crash point `coredata.dat` is what the failed command left or what `.prev` held, and it never disappears -/
theorem rollback_atomic_safe (fs : FS α) :
    ∀ s ∈ crashStates fs (restorePrev : List (Effect α)),
      (s pCoredata = fs pCoredata ∨ s pCoredata = fs pCoredataPrev) ∧
      (fs pCoredata ≠ .absent → fs pCoredataPrev ≠ .absent → s pCoredata ≠ .absent) := by
  intro s hs
  cases hp : fs pCoredataPrev <;>
    simp [restorePrev, crashStates, step, mid, hp] at hs <;>
    (try rcases hs with rfl | rfl) <;> (try subst hs) <;>
    simp_all [FS.set, pCoredata, pCoredataPrev]

/-- an in-place write (`open(p,'w')`; dump; close) has a crash point that leaves the file torn -/
theorem in_place_write_unsafe (fs : FS α) (p : Path) (c : α) :
    ∃ s ∈ crashStates fs (inPlaceWrite p c), s p = .torn := by
  refine ⟨(fs.set p .torn), ?_, by simp⟩
  simp [inPlaceWrite, crashStates, step, mid, FS.set]

/-- … and so has every trace that opens the file for writing, whatever precedes or follows -/
theorem open_for_write_unsafe (fs : FS α) (pre post : List (Effect α)) (p : Path) :
    ∃ s ∈ crashStates fs (pre ++ .openW p :: post), s p = .torn := by
  refine ⟨step (run fs pre) (.openW p), ?_, by simp [step]⟩
  apply crashStates_append_right
  apply crashStates_tail_subset
  exact start_mem_crashStates _ _

/-! ### leftover temp files -/

/-- the temp-file protocol of build.ninja with a truncating first open: whatever a killed run left in
    `build.ninja~` (or anywhere else), the file renamed into place holds exactly preamble ++ body -/
theorem stale_temp_harmless {β : Type} (fs : CFS β) (tmp dst : Path) (pre body : List β) (h : tmp ≠ dst) :
    (crun fs (ninjaTempTruncating tmp dst pre body)) dst = some (pre ++ body) ∧
    (crun fs (ninjaTempTruncating tmp dst pre body)) tmp = none := by
  have h' : dst ≠ tmp := fun e => h e.symm
  simp [ninjaTempTruncating, crun, cstep, CFS.set, h, h']

/-- with append-mode opens only, a leftover `build.ninja~` survives: the file renamed into place holds the stale
    manifest followed by the new one … -/
theorem appending_temp_keeps_stale {β : Type} (fs : CFS β) (tmp dst : Path) (stale pre body : List β)
    (h : tmp ≠ dst) (hs : fs tmp = some stale) :
    (crun fs (ninjaTempAppending tmp dst pre body)) dst = some (stale ++ pre ++ body) := by
  have h' : dst ≠ tmp := fun e => h e.symm
  simp [ninjaTempAppending, crun, cstep, CFS.set, h, h', hs]

/-- … which is right only in a directory where no killed run left the temp file -/
theorem appending_temp_clean_only {β : Type} (fs : CFS β) (tmp dst : Path) (pre body : List β)
    (h : tmp ≠ dst) (hs : fs tmp = none) :
    (crun fs (ninjaTempAppending tmp dst pre body)) dst = some (pre ++ body) := by
  have h' : dst ≠ tmp := fun e => h e.symm
  simp [ninjaTempAppending, crun, cstep, CFS.set, h, h', hs]

theorem appending_temp_counterexample :
    ∃ fs : CFS Nat, (crun fs (ninjaTempAppending pBuildNinjaTmp pBuildNinja [1] [2])) pBuildNinja ≠ some [1, 2] := by
  refine ⟨fun p => if p = pBuildNinjaTmp then some [1, 2] else none, ?_⟩
  decide

/-- the static form, all traces: renaming only fresh files into place under the worst assumption about leftovers
    implies it for every directory a killed run can have left -/
theorem replaces_fresh_mono (t : List (Effect α)) (st st' : Stale)
    (hle : ∀ p, st' p = true → st p = true) (h : replacesFresh st t = true) : replacesFresh st' t = true :=
  replacesFresh_mono t st st' hle h

/-! ### the buffered dimension: data reaches the file only at flush/close (`Crash/Buffered.lean`)

`open(tmp,'w')`, any handle operations, `os.replace(tmp, dst)`, any further handle operations — with a user-space
buffer that a kill loses and a handle that follows its inode through the rename. -/

section Buffered
open Buf
variable {β : Type}

/-- if every write is followed by a flush or a close before the rename and nothing is written through the handle
    afterwards, the target holds what it held or the complete new content at every crash point — whatever the
    data, however much of it the buffer hands to the kernel on its own -/
theorem buffered_replace_safe (s : St β) (tmp dst : Path) (ops1 ops2 : List (HOp β)) (hne : tmp ≠ dst)
    (hd : dirtyAfter false ops1 = false) (hw : ops2.all (fun op => !op.isWrite) = true) :
    ∀ f ∈ crashFiles s (proto tmp dst ops1 ops2), f dst = s.file dst ∨ f dst = some (finalContent ops1 ops2) := by
  have hp : (atReplace ops1).pending = [] :=
    clean_pending One.init false ops1 (fun _ => rfl) hd
  have hw' : (ops2 ++ [HOp.close]).all (fun op => !op.isWrite) = true := by
    rw [List.all_append, hw]; rfl
  have hfin : finalContent ops1 ops2 = (atReplace ops1).c := (One.trail_const _ _ hp hw').2.1
  intro f hf
  rcases proto_crash_dst s tmp dst ops1 ops2 hne f hf with h | ⟨c, hc, h⟩
  · exact Or.inl h
  · right; rw [h, hfin, (One.trail_const _ _ hp hw).1 c hc]

/-- if something is pending in the buffer at the rename, the crash point right after the rename leaves the target
    with neither its old nor the new content (the old file is assumed not to be, by coincidence, exactly what had
    reached the temp file) -/
theorem buffered_replace_unflushed_unsafe (s : St β) (tmp dst : Path) (ops1 ops2 : List (HOp β)) (hne : tmp ≠ dst)
    (hp : (atReplace ops1).pending ≠ []) (hold : s.file dst ≠ some (atReplace ops1).c) :
    ∃ f ∈ crashFiles s (proto tmp dst ops1 ops2), f dst ≠ s.file dst ∧ f dst ≠ some (finalContent ops1 ops2) := by
  obtain ⟨f, hf, h⟩ := proto_crash_after_replace s tmp dst ops1 ops2 hne
  refine ⟨f, hf, ?_, ?_⟩
  · rw [h]; exact fun e => hold e.symm
  · rw [h]
    intro e
    have e' : (atReplace ops1).c = finalContent ops1 ops2 := by simpa using e
    obtain ⟨y, hy⟩ := One.total_run (atReplace ops1) (ops2 ++ [.close])
    have hpc := One.pending_after_close (atReplace ops1) ops2
    simp only [One.total, hpc, List.append_nil] at hy
    unfold finalContent at e'
    rw [← e', List.append_assoc] at hy
    have : (atReplace ops1).pending ++ y = [] := by
      have := congrArg List.length hy
      simp only [List.length_append] at this
      exact List.eq_nil_of_length_eq_zero (by simp only [List.length_append]; omega)
    exact hp (List.append_eq_nil_iff.mp this).1

/-- the atomic-replace theorem in the finer model: the target is old-or-new at every crash point IFF every byte
    written to the temp file has been flushed (or the file closed) before the rename -/
theorem buffered_replace_iff (s : St β) (tmp dst : Path) (ops1 ops2 : List (HOp β)) (hne : tmp ≠ dst)
    (hw : ops2.all (fun op => !op.isWrite) = true) (hold : s.file dst ≠ some (atReplace ops1).c) :
    (∀ f ∈ crashFiles s (proto tmp dst ops1 ops2), f dst = s.file dst ∨ f dst = some (finalContent ops1 ops2)) ↔
      (atReplace ops1).pending = [] := by
  constructor
  · intro h
    apply Classical.byContradiction
    intro hp
    obtain ⟨f, hf, h1, h2⟩ := buffered_replace_unflushed_unsafe s tmp dst ops1 ops2 hne hp hold
    rcases h f hf with h' | h'
    · exact h1 h'
    · exact h2 h'
  · intro hp
    have hw' : (ops2 ++ [HOp.close]).all (fun op => !op.isWrite) = true := by
      rw [List.all_append, hw]; rfl
    have hfin : finalContent ops1 ops2 = (atReplace ops1).c := (One.trail_const _ _ hp hw').2.1
    intro f hf
    rcases proto_crash_dst s tmp dst ops1 ops2 hne f hf with h | ⟨c, hc, h⟩
    · exact Or.inl h
    · right; rw [h, hfin, (One.trail_const _ _ hp hw).1 c hc]

/-- a recorded protocol instance that passes the trace discipline `flushedReplaces` (what
    `recorded_replaces_flushed` decides on the real traces) is crash safe in the finer model -/
theorem flushed_discipline_safe (s : St β) (tmp dst : Path) (ops1 ops2 : List (HOp β)) (hne : tmp ≠ dst)
    (h : flushedReplaces [] [] (protoCoarse tmp dst ops1 ops2) = true) :
    ∀ f ∈ crashFiles s (proto tmp dst ops1 ops2), f dst = s.file dst ∨ f dst = some (finalContent ops1 ops2) :=
  buffered_replace_safe s tmp dst ops1 ops2 hne (flushed_proto tmp dst ops1 ops2 h).1 (flushed_proto tmp dst ops1 ops2 h).2

/-- `coredata.save` / `_write_config_atomically` as written: write, `f.flush()`, `os.fsync(f.fileno())`, end of the
    `with` block, then `os.replace` — passes the discipline for every data -/
theorem written_protocol_flushed (d : List β) :
    flushedReplaces [] [] (protoCoarse pCmdlineTmp pCmdline [HOp.write d, .flush, .fsync, .close] []) = true := by
  rfl

/-- the counterexample trace, replace before close: `os.fsync(f)` without `f.flush()` and `os.replace` inside the
    `with` block — killed between the rename and the close, `cmd_line.txt` is an empty file: neither the old content
    nor the new -/
theorem replace_before_close_counterexample :
    ∃ f ∈ crashFiles (⟨fun p => if p = pCmdline then some [7] else none, fun _ => none⟩ : St Nat)
        (proto pCmdlineTmp pCmdline [.write [1, 2, 3], .fsync] [.close]),
      f pCmdline = some [] ∧ finalContent (β := Nat) [.write [1, 2, 3], .fsync] [.close] = [1, 2, 3] ∧
      flushedReplaces [] [] (protoCoarse (β := Nat) pCmdlineTmp pCmdline [.write [1, 2, 3], .fsync] [.close]) = false := by
  obtain ⟨f, hf, h⟩ := proto_crash_after_replace
    (⟨fun p => if p = pCmdline then some [7] else none, fun _ => none⟩ : St Nat)
    pCmdlineTmp pCmdline [.write [1, 2, 3], .fsync] [.close] (by decide)
  exact ⟨f, hf, by simpa [atReplace, One.run, One.step, One.init] using h, by decide, by decide⟩

end Buffered

/-! ### the static discipline, all traces -/

/-- a trace that never opens, writes or copies onto `p` and only replaces it by complete files leaves `p`
    readable at every crash point -/
theorem never_torn_sound (p : Path) (fs : FS α) (t : List (Effect α))
    (hc : neverTornCheck p fs t = true) (h0 : fs p ≠ .torn) :
    ∀ s ∈ crashStates fs t, s p ≠ .torn :=
  neverTornCheck_sound p fs t hc h0

/-- a trace that never unlinks `p` nor renames it away leaves `p` in existence at every crash point -/
theorem always_present_sound (p : Path) (fs : FS α) (t : List (Effect α))
    (hc : alwaysPresentCheck p t = true) (h0 : fs p ≠ .absent) :
    ∀ s ∈ crashStates fs t, s p ≠ .absent :=
  alwaysPresentCheck_sound p fs t hc h0

/-- the kill points the harness enumerates (`crashAt`, by index) are crash states of the theorems -/
theorem crash_points_covered (fs : FS α) (t : List (Effect α)) (k : Nat) (torn : Bool) :
    crashAt fs t k torn ∈ crashStates fs t :=
  crashAt_mem_crashStates fs t k torn

/-! ### the readers of the follow-up `meson setup [--reconfigure]` -/

/-- recovery is total on readable state: no torn `coredata.dat`, no torn `cmd_line.txt` ⇒ usable -/
theorem recover_total_on_ok (fs : FS α) (h0 : fs pCoredata ≠ .torn) (h1 : fs pCmdline ≠ .torn) :
    ∃ src, recover fs = .usable src :=
  recover_usable_of_not_torn fs h0 h1

/-- a loadable `coredata.dat` is used as is (its option values are not overridden by `cmd_line.txt`) -/
theorem recover_uses_coredata (fs : FS α) (a : α) (h0 : fs pCoredata = .ok a) (h1 : fs pCmdline ≠ .torn) :
    recover fs = .usable (.coredata a) := by
  unfold recover
  cases h : fs pCmdline <;> simp_all

/-- the follow-up setup ends in a Python traceback exactly when `cmd_line.txt` is torn -/
theorem recover_traceback_iff (fs : FS α) : recover fs = .internalError ↔ fs pCmdline = .torn :=
  recover_internal_iff fs

/-- for every trace obeying the discipline on both files the follow-up setup succeeds at every crash point -/
theorem disciplined_trace_recoverable (fs : FS α) (t : List (Effect α))
    (hc0 : neverTornCheck pCoredata fs t = true) (hc1 : neverTornCheck pCmdline fs t = true)
    (h0 : fs pCoredata ≠ .torn) (h1 : fs pCmdline ≠ .torn) :
    ∀ s ∈ crashStates fs t, ∃ src, recover s = .usable src := by
  intro s hs
  exact recover_usable_of_not_torn s (neverTornCheck_sound pCoredata fs t hc0 h0 s hs)
    (neverTornCheck_sound pCmdline fs t hc1 h1 s hs)

/-! ### the defects, on the protocols as written in the sources -/

/-- a configured directory: both state files hold their pre-command content -/
def configured : FS Gen := FS.ofList [(pCoredata, .ok .old), (pCmdline, .ok .old), (pPrivate, .dir)]

/-- why `cmd_line.txt` must not be written in place (as it was before 550d77f): any in-place writer of it, from any
    directory, has a crash point after which the follow-up setup dies with a traceback -/
theorem in_place_cmdline_unrecoverable (fs : FS α) (c : α) :
    ∃ s ∈ crashStates fs (inPlaceWrite pCmdline c), recover s = .internalError := by
  obtain ⟨s, hs, ht⟩ := in_place_write_unsafe fs pCmdline c
  exact ⟨s, hs, (recover_internal_iff s).mpr ht⟩

/-- the wipe sequence of `MesonApp.__init__` + `generate` (msetup.py): everything in the tree is deleted except
    `cmd_line.txt` (and the machine files stored next to it), which stays in place; then the directory is configured
    again: `coredata.save` (no `.prev`: there is no coredata.dat), build.dat, `write_cmd_line_file` -/
def wipeProtocol (c : α) : List (Effect α) :=
  [.unlink pBuildNinja, .unlink pBuildDat, .unlink pCoredata, .unlink pCoredataPrev] ++
  atomicWrite pCoredataTmp pCoredata c ++ inPlaceWrite pBuildDat c ++ cmdlineSave c

/-- at every crash point of `--wipe` the follow-up setup is usable and configures from the old `coredata.dat`,
    from `cmd_line.txt` (old or rewritten) or from the new `coredata.dat`: old-or-new, also when option values came
    from a machine file -/
theorem wipe_protocol_recoverable :
    ∀ s ∈ crashStates configured (wipeProtocol Gen.new), acceptable .wipe false (recover s) = true ∧
      acceptable .wipe true (recover s) = true := by
  decide

/-- why `cmd_line.txt` must stay in the tree: the sequence used before the repair (copy it out of the tree, delete
    the tree, move the copy back) has crash points after which the follow-up setup silently configures from
    defaults — every option the user had set is lost -/
def wipeMoveAside (backup : Path) : List (Effect Gen) :=
  [.copyfile pCmdline backup, .unlink pCmdline, .unlink pCoredata, .rmdir pPrivate,
   .mkdir pPrivate, .replace backup pCmdline]

theorem wipe_move_aside_counterexample :
    ∃ s ∈ crashStates configured (wipeMoveAside 100), recover s = .usable .fresh ∧
      acceptable .wipe false (recover s) = false := by
  decide

/-- rotating the old `coredata.dat` away with a rename before the new one is renamed into place (instead of
    copying it, as `coredata.save` does) opens the same hole for `configure`/`--reconfigure` -/
def rotateByRename (c : Gen) : List (Effect Gen) :=
  [.openW pCoredataTmp, .write pCoredataTmp, .close pCoredataTmp c,
   .replace pCoredata pCoredataPrev, .replace pCoredataTmp pCoredata]

theorem rotate_by_rename_counterexample :
    ∃ s ∈ crashStates configured (rotateByRename .new), s pCoredata = .absent ∧
      acceptable .configure true (recover s) = false := by
  decide

/-- a configured directory after a later save: `coredata.dat.prev` holds the pre-command state -/
def configuredWithPrev : FS Gen :=
  FS.ofList [(pCoredata, .ok .new), (pCoredataPrev, .ok .old), (pCmdline, .ok .old), (pPrivate, .dir)]

/-- a rollback that first unlinks `coredata.dat` and then renames `.prev` into place has a crash point where the
    directory looks unconfigured: the follow-up setup rebuilds from cmd_line.txt and loses every value that lives
    only in coredata.dat (the environment of the first setup) -/
def restorePrevUnlinkFirst : List (Effect Gen) :=
  [.unlink pCoredata, .replace pCoredataPrev pCoredata]

theorem rollback_unlink_replace_counterexample :
    ∃ s ∈ crashStates configuredWithPrev restorePrevUnlinkFirst, s pCoredata = .absent ∧
      recover s = .usable (.cmdline .old) ∧ acceptable .reconfigure true (recover s) = false := by
  decide

/-- a writer that always rewrites its file in place heals a torn copy on the next run, whatever the kill left -/
theorem always_rewrite_repairs (p : Path) (c : α) (fs : FS α) :
    (run fs (inPlaceWrite p c)) p ≠ .torn :=
  repairs_sound AFS.top p (inPlaceWrite p c) (by simp [repairs, absRun, absStep, AFS.set, AFS.top, inPlaceWrite]) fs
    (AFS.top_describes fs)

/-- a writer that skips the file when it already exists ("the name identifies the content") does not: the torn
    copy a kill left stays torn through every later run -/
theorem skip_if_exists_counterexample :
    ∃ s ∈ crashStates (fun _ => FileSt.absent) (inPlaceWrite 50 Gen.new),
      s 50 = .torn ∧ (run s ([] : List (Effect Gen))) 50 = .torn ∧
      repairs AFS.top 50 ([] : List (Effect Gen)) = false := by
  decide

/-! ### recovery totality: from every crash state of every modelled command, old-or-new

The commands as written in the sources, over any content type, from *every* configured directory (whatever else it
holds: leftovers of killed runs included).  `recovered`: the configuration the follow-up setup ends with. -/

def recovered : Verdict α → Option α
  | .usable (.coredata a) => some a
  | .usable (.cmdline a) => some a
  | _ => none

/-- `meson configure -D…` (mconf.run_impl): `update_cmd_line_file`, then `coredata.save` -/
def cmdConfigure (c : α) : List (Effect α) := cmdlineSave c ++ coredataSave c

/-- `meson setup --reconfigure` (msetup._generate): `coredata.save`, build.ninja via its temp file, build.dat in
    place, `update_cmd_line_file` -/
def cmdReconfigure (c : α) : List (Effect α) :=
  coredataSave c ++ atomicWrite pBuildNinjaTmp pBuildNinja c ++ inPlaceWrite pBuildDat c ++ cmdlineSave c

/-- … failing after the dump: the `except` handler renames `.prev` back -/
def cmdReconfigureFailing (c : α) : List (Effect α) :=
  coredataSave c ++ atomicWrite pBuildNinjaTmp pBuildNinja c ++ restorePrev

/-- a first `meson setup` in an empty directory -/
def cmdSetup (c : α) : List (Effect α) :=
  atomicWrite pCoredataTmp pCoredata c ++ atomicWrite pBuildNinjaTmp pBuildNinja c ++
    inPlaceWrite pBuildDat c ++ cmdlineSave c

theorem configure_recovery_total (fs : FS α) (o c : α) (h0 : fs pCoredata = .ok o) (h1 : fs pCmdline = .ok o) :
    ∀ s ∈ crashStates fs (cmdConfigure c), recovered (recover s) = some o ∨ recovered (recover s) = some c := by
  intro s hs
  have h0 : fs 0 = .ok o := h0
  have h1 : fs 1 = .ok o := h1
  simp [cmdConfigure, cmdlineSave, coredataSave, atomicWrite, crashStates, step, mid, FS.set, h0, h1,
    pCoredata, pCmdline, pCoredataTmp, pCoredataPrev, pCmdlineTmp] at hs
  rcases hs with rfl | rfl | rfl | rfl | rfl | rfl | rfl | rfl | rfl | rfl | rfl | rfl | rfl | rfl | rfl | rfl | rfl <;>
    simp [recover, recovered, h0, h1, pCoredata, pCmdline, pCoredataTmp, pCoredataPrev, pCmdlineTmp]

theorem reconfigure_recovery_total (fs : FS α) (o c : α) (h0 : fs pCoredata = .ok o) (h1 : fs pCmdline = .ok o) :
    ∀ s ∈ crashStates fs (cmdReconfigure c), recovered (recover s) = some o ∨ recovered (recover s) = some c := by
  intro s hs
  have h0 : fs 0 = .ok o := h0
  have h1 : fs 1 = .ok o := h1
  simp [cmdReconfigure, cmdlineSave, coredataSave, atomicWrite, inPlaceWrite, crashStates, step, mid, FS.set, h0, h1,
    pCoredata, pCmdline, pCoredataTmp, pCoredataPrev, pCmdlineTmp, pBuildNinja, pBuildNinjaTmp, pBuildDat] at hs
  rcases hs with rfl | rfl | rfl | rfl | rfl | rfl | rfl | rfl | rfl | rfl | rfl | rfl | rfl | rfl | rfl | rfl | rfl |
    rfl | rfl | rfl | rfl | rfl | rfl | rfl | rfl | rfl | rfl | rfl | rfl <;>
    simp [recover, recovered, h0, h1, pCoredata, pCmdline, pCoredataTmp, pCoredataPrev, pCmdlineTmp, pBuildNinja,
      pBuildNinjaTmp, pBuildDat]

theorem failing_reconfigure_recovery_total (fs : FS α) (o c : α) (h0 : fs pCoredata = .ok o)
    (h1 : fs pCmdline = .ok o) :
    ∀ s ∈ crashStates fs (cmdReconfigureFailing c),
      recovered (recover s) = some o ∨ recovered (recover s) = some c := by
  intro s hs
  have h0 : fs 0 = .ok o := h0
  have h1 : fs 1 = .ok o := h1
  simp [cmdReconfigureFailing, restorePrev, coredataSave, atomicWrite, crashStates, step, mid, FS.set, h0, h1,
    pCoredata, pCmdline, pCoredataTmp, pCoredataPrev, pBuildNinja, pBuildNinjaTmp] at hs
  rcases hs with rfl | rfl | rfl | rfl | rfl | rfl | rfl | rfl | rfl | rfl | rfl | rfl | rfl | rfl | rfl | rfl | rfl |
    rfl <;>
    simp [recover, recovered, h0, h1, pCoredata, pCmdline, pCoredataTmp, pCoredataPrev, pBuildNinja, pBuildNinjaTmp]

theorem wipe_recovery_total (fs : FS α) (o c : α) (h0 : fs pCoredata = .ok o) (h1 : fs pCmdline = .ok o) :
    ∀ s ∈ crashStates fs (wipeProtocol c), recovered (recover s) = some o ∨ recovered (recover s) = some c := by
  intro s hs
  have h0 : fs 0 = .ok o := h0
  have h1 : fs 1 = .ok o := h1
  simp [wipeProtocol, cmdlineSave, atomicWrite, inPlaceWrite, crashStates, step, mid, FS.set, h0, h1,
    pCoredata, pCmdline, pCoredataTmp, pCoredataPrev, pCmdlineTmp, pBuildNinja, pBuildDat] at hs
  rcases hs with rfl | rfl | rfl | rfl | rfl | rfl | rfl | rfl | rfl | rfl | rfl | rfl | rfl | rfl | rfl | rfl | rfl |
    rfl | rfl | rfl | rfl | rfl | rfl | rfl <;>
    simp [recover, recovered, h0, h1, pCoredata, pCmdline, pCoredataTmp, pCoredataPrev, pCmdlineTmp, pBuildNinja,
      pBuildDat]

/-- a first setup in a directory that is not configured: the follow-up setup (same command line) starts afresh or
    finds the complete new configuration -/
theorem setup_recovery_total (fs : FS α) (c : α) (h0 : fs pCoredata = .absent) (h1 : fs pCmdline = .absent) :
    ∀ s ∈ crashStates fs (cmdSetup c), recover s = .usable .fresh ∨ recovered (recover s) = some c := by
  intro s hs
  have h0 : fs 0 = .absent := h0
  have h1 : fs 1 = .absent := h1
  simp [cmdSetup, cmdlineSave, atomicWrite, inPlaceWrite, crashStates, step, mid, FS.set, h0, h1,
    pCoredata, pCmdline, pCoredataTmp, pCmdlineTmp, pBuildNinja, pBuildNinjaTmp, pBuildDat] at hs
  rcases hs with rfl | rfl | rfl | rfl | rfl | rfl | rfl | rfl | rfl | rfl | rfl | rfl | rfl | rfl | rfl | rfl | rfl |
    rfl | rfl | rfl | rfl | rfl | rfl | rfl | rfl | rfl | rfl <;>
    simp [recover, recovered, h0, h1, pCoredata, pCmdline, pCoredataTmp, pCmdlineTmp, pBuildNinja, pBuildNinjaTmp,
      pBuildDat]

/-- the last clause of the property at full strength: for every recorded command and *every* configured starting
    directory — not only the one it was recorded from, so with any leftovers of earlier killed runs — every crash
    point is recoverable old-or-new.  Proved: for the recorded starting directories (`all_crash_points_recoverable`
    below, per run) and, from every configured directory and for every content, for the state-file protocols of the
    four commands as written in the sources (the `*_recovery_total` theorems above).  Not proved: this statement,
    i.e. the recorded traces from arbitrary directories, and the follow-up run as a state transformer on individual
    options (the model takes a configuration as a whole: all options old or all new). -/
def recovery_total_full_statement : Prop :=
  ∀ sc ∈ CrashTraces.all, ∀ fs : FS Gen, fs pCoredata = sc.fs0 pCoredata → fs pCmdline = sc.fs0 pCmdline →
    ∀ s ∈ crashStates fs sc.trace, acceptable sc.cmd sc.coredataOnly (recover s) = true

/-! ### per-run obligations over the traces recorded from the real commands -/

def scenarioOk (sc : Scenario) : Bool :=
  (crashStates sc.fs0 sc.trace).all (fun s => acceptable sc.cmd sc.coredataOnly (recover s))

/-- the property over the model, full strength: every crash point of every recorded command is recoverable
    with old-or-new option values -/
def full_statement : Prop :=
  ∀ sc ∈ CrashTraces.all, ∀ s ∈ crashStates sc.fs0 sc.trace,
    acceptable sc.cmd sc.coredataOnly (recover s) = true

/-- every crash point of every recorded trace — `setup`, `--reconfigure`, `--wipe`, `configure`, succeeding or
    failing — is recoverable, and the recovered option values are the pre-command ones or the ones the command was
    setting -/
theorem all_crash_points_recoverable : full_statement := by
  have key : ∀ sc ∈ CrashTraces.all, scenarioOk sc = true := by decide +kernel
  intro sc hsc s hs
  have := key sc hsc
  simp only [scenarioOk, List.all_eq_true] at this
  exact this s hs

/-- the part of `recovery_total_full_statement` that is proved per run: the starting directory is the recorded one -/
theorem recovery_total_partial :
    ∀ sc ∈ CrashTraces.all, ∀ fs : FS Gen, fs = sc.fs0 →
      ∀ s ∈ crashStates fs sc.trace, acceptable sc.cmd sc.coredataOnly (recover s) = true := by
  intro sc hsc fs hfs s hs
  subst hfs
  exact all_crash_points_recoverable sc hsc s hs

def keepsCmdline (sc : Scenario) : Bool :=
  !(sc.cmd == .wipe) || (alwaysPresentCheck pCmdline sc.trace && !(sc.fs0 pCmdline).isAbsent)

/-- `--wipe` never unlinks `cmd_line.txt` nor renames it away … -/
theorem recorded_wipe_keeps_cmdline : ∀ sc ∈ CrashTraces.all, keepsCmdline sc = true := by
  decide +kernel

/-- … hence the file the directory is configured from again exists at every crash point of `--wipe` -/
theorem recorded_wipe_cmdline_always_present :
    ∀ sc ∈ CrashTraces.all, sc.cmd = .wipe → ∀ s ∈ crashStates sc.fs0 sc.trace, s pCmdline ≠ .absent := by
  intro sc hsc hcmd
  have hk := recorded_wipe_keeps_cmdline sc hsc
  simp only [keepsCmdline, hcmd, beq_self_eq_true, Bool.not_true, Bool.false_or, Bool.and_eq_true,
    Bool.not_eq_true'] at hk
  have h0 : sc.fs0 pCmdline ≠ .absent := by
    intro h; simp [h, FileSt.isAbsent] at hk
  exact alwaysPresentCheck_sound pCmdline sc.fs0 sc.trace hk.1 h0

/-- no recorded command (nor its recorded follow-up run) renames a file into place while a handle on it holds
    unflushed data, nor writes through a handle whose file has been renamed into place -/
theorem recorded_replaces_flushed :
    ∀ sc ∈ CrashTraces.all, Buf.flushedReplaces [] [] sc.trace = true ∧
      Buf.flushedReplaces [] [] sc.recovery = true := by
  decide +kernel

/-- in every recorded trace `coredata.dat` obeys the static discipline (only ever replaced by a complete file) … -/
theorem recorded_coredata_disciplined :
    ∀ sc ∈ CrashTraces.all, neverTornCheck pCoredata sc.fs0 sc.trace = true := by
  decide +kernel

/-- … hence it is readable or absent, never torn, at every crash point of every recorded command -/
theorem recorded_coredata_never_torn :
    ∀ sc ∈ CrashTraces.all, ∀ s ∈ crashStates sc.fs0 sc.trace, s pCoredata ≠ .torn := by
  intro sc hsc
  have h0 : sc.fs0 pCoredata ≠ .torn := by
    have : ∀ sc ∈ CrashTraces.all, (sc.fs0 pCoredata).isTorn = false := by decide +kernel
    exact (isTorn_false_iff _).mp (this sc hsc)
  exact neverTornCheck_sound pCoredata sc.fs0 sc.trace (recorded_coredata_disciplined sc hsc) h0

/-- in every recorded trace `cmd_line.txt` obeys the static discipline too (since 550d77f) … -/
theorem recorded_cmdline_disciplined :
    ∀ sc ∈ CrashTraces.all, neverTornCheck pCmdline sc.fs0 sc.trace = true := by
  decide +kernel

/-- … hence it is never torn at any crash point of any recorded command -/
theorem recorded_cmdline_never_torn :
    ∀ sc ∈ CrashTraces.all, ∀ s ∈ crashStates sc.fs0 sc.trace, s pCmdline ≠ .torn := by
  intro sc hsc
  have h0 : sc.fs0 pCmdline ≠ .torn := by
    have : ∀ sc ∈ CrashTraces.all, (sc.fs0 pCmdline).isTorn = false := by decide +kernel
    exact (isTorn_false_iff _).mp (this sc hsc)
  exact neverTornCheck_sound pCmdline sc.fs0 sc.trace (recorded_cmdline_disciplined sc hsc) h0

/-- the follow-up setup never ends in a traceback or a clean error, for any recorded command, `--wipe` included -/
theorem recorded_recovery_always_succeeds :
    ∀ sc ∈ CrashTraces.all, ∀ s ∈ crashStates sc.fs0 sc.trace, ∃ src, recover s = .usable src := by
  intro sc hsc s hs
  exact recover_usable_of_not_torn s (recorded_coredata_never_torn sc hsc s hs)
    (recorded_cmdline_never_torn sc hsc s hs)

def keepsCoredata (sc : Scenario) : Bool :=
  !(sc.cmd == .reconfigure || sc.cmd == .configure) ||
    (alwaysPresentCheck pCoredata sc.trace && !(sc.fs0 pCoredata).isAbsent)

/-- `--reconfigure` and `configure` never unlink `coredata.dat` nor rename it away, and it exists beforehand … -/
theorem recorded_coredata_kept :
    ∀ sc ∈ CrashTraces.all, keepsCoredata sc = true := by
  decide +kernel

/-- … hence it exists at every crash point of these two commands (a directory that was configured stays so) -/
theorem recorded_coredata_always_present :
    ∀ sc ∈ CrashTraces.all, (sc.cmd = .reconfigure ∨ sc.cmd = .configure) →
      ∀ s ∈ crashStates sc.fs0 sc.trace, s pCoredata ≠ .absent := by
  intro sc hsc hcmd
  have hk := recorded_coredata_kept sc hsc
  have hc : (sc.cmd == .reconfigure || sc.cmd == .configure) = true := by
    rcases hcmd with h | h <;> simp [h]
  simp only [keepsCoredata, hc, Bool.not_true, Bool.false_or, Bool.and_eq_true, Bool.not_eq_true'] at hk
  have h0 : sc.fs0 pCoredata ≠ .absent := by
    intro h; simp [h, FileSt.isAbsent] at hk
  exact alwaysPresentCheck_sound pCoredata sc.fs0 sc.trace hk.1 h0

/-- every file a recorded command renames into place was opened truncating (or copied whole) by that very
    command, assuming that *every* path absent from the clean pre-command directory may hold leftovers … -/
theorem recorded_temps_truncated :
    ∀ sc ∈ CrashTraces.all, replacesFresh sc.stale0 sc.trace = true := by
  decide +kernel

/-- … hence for every directory a killed run can have left -/
theorem recorded_temps_ignore_leftovers :
    ∀ sc ∈ CrashTraces.all, ∀ st : Stale, (∀ p, st p = true → sc.stale0 p = true) →
      replacesFresh st sc.trace = true := by
  intro sc hsc st hle
  exact replacesFresh_mono sc.trace sc.stale0 st hle (recorded_temps_truncated sc hsc)

/-! #### every file the command writes -/

/-- the follow-up run recorded from the state where `p` was left torn rewrites `p`, whatever else it finds -/
def repairedWhenTorn (sc : Scenario) (p : Path) : Bool :=
  match sc.tornRecovery.lookup p with
  | some rt => repairs AFS.top p rt
  | none => false

/-- a written file is fine if no meson command reads it, or it is a temp file (renamed away; leftovers are covered by
    `recorded_temps_truncated`), or no kill can tear it, or the follow-up run rewrites it whatever it finds, or — for
    a writer that keeps a whole file — the follow-up run that finds it torn rewrites it -/
def writesRecoverable (sc : Scenario) : Bool :=
  (writeSet sc.trace).all (fun p =>
    sc.ignored.contains p ||
    (replaceSources sc.trace).contains p ||
    (neverTornCheck p sc.fs0 sc.trace && !(sc.fs0 p).isTorn) ||
    repairs sc.known p sc.recovery ||
    repairedWhenTorn sc p)

theorem recorded_writes_recoverable :
    ∀ sc ∈ CrashTraces.all, writesRecoverable sc = true := by
  decide +kernel

/-- every state file a recorded command creates or writes is, at every crash point, either not torn, or made whole
    again by the recorded follow-up run from whatever the kill left, or rewritten by the follow-up run recorded from
    the state where it was torn (again whatever else that run finds) -/
theorem recorded_written_files_repaired :
    ∀ sc ∈ CrashTraces.all, ∀ p ∈ writeSet sc.trace, p ∉ sc.ignored → p ∉ replaceSources sc.trace →
      ∀ s ∈ crashStates sc.fs0 sc.trace,
        s p ≠ .torn ∨ (run s sc.recovery) p ≠ .torn ∨
        ∃ rt, sc.tornRecovery.lookup p = some rt ∧ ∀ fs : FS Gen, (run fs rt) p ≠ .torn := by
  intro sc hsc p hp hign htmp s hs
  have h := recorded_writes_recoverable sc hsc
  simp only [writesRecoverable, List.all_eq_true] at h
  have hp' := h p hp
  simp only [Bool.or_eq_true, Bool.and_eq_true, Bool.not_eq_true'] at hp'
  rcases hp' with (((hc | hc) | ⟨hn, h0⟩) | hr) | ht
  · exact absurd (List.contains_iff_mem.mp hc) hign
  · exact absurd (List.contains_iff_mem.mp hc) htmp
  · exact Or.inl (neverTornCheck_sound p sc.fs0 sc.trace hn ((isTorn_false_iff _).mp h0) s hs)
  · exact Or.inr (Or.inl (repairs_sound sc.known p sc.recovery hr s (sc.known_describes s hs)))
  · right; right
    unfold repairedWhenTorn at ht
    cases hl : sc.tornRecovery.lookup p with
    | none => simp [hl] at ht
    | some rt =>
      simp only [hl] at ht
      exact ⟨rt, rfl, fun fs => repairs_sound AFS.top p rt ht fs (AFS.top_describes fs)⟩

/-- the follow-up run too renames only files it opened truncating, whatever it finds -/
theorem recorded_recovery_temps_truncated :
    ∀ sc ∈ CrashTraces.all, replacesFresh (fun _ => true) sc.recovery = true := by
  decide +kernel

/-! ### non-vacuity -/

example : CrashTraces.all.length = 45 := by decide
example : ∃ sc ∈ CrashTraces.all, sc.cmd = .wipe ∧ sc.coredataOnly = false := by decide
example : (crashStates CrashTraces.sc_configure_h2_ninja.fs0 CrashTraces.sc_configure_h2_ninja.trace).length > 10 := by
  decide +kernel
/-- the partial theorem's hypotheses hold at some crash point where a state file is mid-update -/
example : ∃ s ∈ crashStates configured (coredataSave Gen.new),
    s pCoredataTmp = .torn ∧ s pCmdline ≠ .torn ∧ recover s = .usable (.coredata .old) := by decide
example : neverTornCheck pCoredata configured (coredataSave Gen.new) = true := by decide
example : neverTornCheck pCmdline configured (inPlaceWrite pCmdline Gen.new) = false := by decide
example : neverTornCheck pCmdline configured (cmdlineSave Gen.new) = true := by decide
example : alwaysPresentCheck pCoredata (coredataSave Gen.new) = true := by decide
example : alwaysPresentCheck pCoredata (rotateByRename .new) = false := by decide
example : alwaysPresentCheck pCoredata (restorePrev : List (Effect Gen)) = true := by decide
example : alwaysPresentCheck pCoredata restorePrevUnlinkFirst = false := by decide
example : replacesFresh (fun _ => true) ([.openW 6, .write 6, .close 6 Gen.new, .openA 6, .write 6, .close 6 Gen.new, .replace 6 5] : List (Effect Gen)) = true := by decide
example : replacesFresh (fun _ => true) ([.openA 6, .write 6, .close 6 Gen.new, .replace 6 5] : List (Effect Gen)) = false := by decide
example : ∀ s ∈ crashStates configuredWithPrev (restorePrev : List (Effect Gen)), s pCoredata ≠ .absent := by decide
example : ∃ sc ∈ CrashTraces.all, sc.coredataOnly = true ∧ sc.cmd = .configure := by decide

end MesonModel.Props.C09
