/-
C09 — A killed meson command never bricks the build directory.

Property theorems only (helper lemmas: `MesonModel/Crash/Lemmas.lean`).

* General theorems, for every directory, every content and (where stated) every effect trace: atomic
  temp-file + `os.replace` writes are crash safe; an in-place write has a crash point that leaves the file torn;
  the static "never torn" discipline is sound; the readers of the follow-up `meson setup` are total and fail
  exactly when `cmd_line.txt` is torn (internal error) or `coredata.dat` is torn with no `cmd_line.txt` (clean error).
* Per-run obligations over `Generated/CrashTraces.lean` — the effect traces recorded from the real commands on
  this very run — by kernel evaluation: at every crash point of every recorded trace the follow-up setup is
  usable with old-or-new option values, except in the two windows proved (and confirmed on the real code) to
  be defects: `cmd_line.txt` torn (written in place), and `--wipe` having deleted both `coredata.dat` and
  `cmd_line.txt` before restoring the latter from its out-of-tree copy.
-/
import MesonModel.Crash.Lemmas
import MesonModel.Generated.CrashTraces

namespace MesonModel.Props.C09
open MesonModel.Crash MesonModel.Generated

variable {α : Type}

/-! ### write protocols, all directories and contents -/

/-- temp + flush + fsync + close + `os.replace`: at every crash point the target is what it was or the new content -/
theorem atomic_replace_safe (fs : FS α) (tmp dst : Path) (c : α) (h : tmp ≠ dst) :
    ∀ s ∈ crashStates fs (atomicWrite tmp dst c), s dst = fs dst ∨ s dst = .ok c := by
  intro s hs
  have h' : dst ≠ tmp := fun e => h e.symm
  simp [atomicWrite, crashStates, step, mid, FS.set] at hs
  rcases hs with rfl | rfl | rfl | rfl | rfl | rfl | rfl | rfl <;> simp [h']

/-- … and every other file except the temp file is untouched -/
theorem atomic_replace_frame (fs : FS α) (tmp dst q : Path) (c : α) (hq1 : q ≠ tmp) (hq2 : q ≠ dst) :
    ∀ s ∈ crashStates fs (atomicWrite tmp dst c), s q = fs q := by
  intro s hs
  simp [atomicWrite, crashStates, step, mid, FS.set] at hs
  rcases hs with rfl | rfl | rfl | rfl | rfl | rfl | rfl | rfl <;> simp [hq1, hq2]

/-- `coredata.save` (copy to `.prev`, temp, fsync, replace): `coredata.dat` is old or new at every crash point -/
theorem coredata_save_safe (fs : FS α) (c : α) :
    ∀ s ∈ crashStates fs (coredataSave c), s pCoredata = fs pCoredata ∨ s pCoredata = .ok c := by
  intro s hs
  have e0 : (step fs (.copyfile pCoredata pCoredataPrev)) pCoredata = fs pCoredata :=
    step_copyfile_other fs _ _ _ (by decide)
  simp only [coredataSave, crashStates] at hs
  split at hs
  · rename_i m hm
    simp only [List.mem_cons] at hs
    rcases hs with rfl | rfl | hs
    · exact Or.inl rfl
    · exact Or.inl (mid_copyfile_other fs _ _ _ _ (by decide) hm)
    · have := atomic_replace_safe _ pCoredataTmp pCoredata c (by decide) s hs
      rwa [e0] at this
  · simp only [List.mem_cons] at hs
    rcases hs with rfl | hs
    · exact Or.inl rfl
    · have := atomic_replace_safe _ pCoredataTmp pCoredata c (by decide) s hs
      rwa [e0] at this

/-- `coredata.save` passes the static discipline for `coredata.dat` from any directory -/
theorem coredata_save_never_tears_coredata (fs : FS α) (c : α) (h : fs pCoredata ≠ .torn) :
    ∀ s ∈ crashStates fs (coredataSave c), s pCoredata ≠ .torn := by
  intro s hs
  rcases coredata_save_safe fs c s hs with h' | h' <;> simp [h', h]

/-- an in-place write (`open(p,'w')`; dump; close) has a crash point that leaves the file torn -/
theorem in_place_write_unsafe (fs : FS α) (p : Path) (c : α) :
    ∃ s ∈ crashStates fs (inPlaceWrite p c), s p = .torn := by
  refine ⟨(fs.set p .torn), ?_, by simp⟩
  simp [inPlaceWrite, crashStates, step, mid, FS.set]

/-- … and so has every trace that opens the file for writing, whatever precedes or follows -/
theorem open_for_write_unsafe (fs : FS α) (pre post : List (Effect α)) (p : Path) :
    ∃ s ∈ crashStates fs (pre ++ .openW p :: post), s p = .torn := by
  refine ⟨step (run fs pre) (.openW p), ?_, by simp [step]⟩
  apply crashStates_append_right
  apply crashStates_tail_subset
  exact start_mem_crashStates _ _

/-! ### the static discipline, all traces -/

/-- a trace that never opens, writes or copies onto `p` and only replaces it by complete files leaves `p`
    readable at every crash point -/
theorem never_torn_sound (p : Path) (fs : FS α) (t : List (Effect α))
    (hc : neverTornCheck p fs t = true) (h0 : fs p ≠ .torn) :
    ∀ s ∈ crashStates fs t, s p ≠ .torn :=
  neverTornCheck_sound p fs t hc h0

/-- the kill points the harness enumerates (`crashAt`, by index) are crash states of the theorems -/
theorem crash_points_covered (fs : FS α) (t : List (Effect α)) (k : Nat) (torn : Bool) :
    crashAt fs t k torn ∈ crashStates fs t :=
  crashAt_mem_crashStates fs t k torn

/-! ### the readers of the follow-up `meson setup [--reconfigure]` -/

/-- recovery is total on readable state: no torn `coredata.dat`, no torn `cmd_line.txt` ⇒ usable -/
theorem recover_total_on_ok (fs : FS α) (h0 : fs pCoredata ≠ .torn) (h1 : fs pCmdline ≠ .torn) :
    ∃ src, recover fs = .usable src :=
  recover_usable_of_not_torn fs h0 h1

/-- a loadable `coredata.dat` is used as is (its option values are not overridden by `cmd_line.txt`) -/
theorem recover_uses_coredata (fs : FS α) (a : α) (h0 : fs pCoredata = .ok a) (h1 : fs pCmdline ≠ .torn) :
    recover fs = .usable (.coredata a) := by
  unfold recover
  cases h : fs pCmdline <;> simp_all

/-- the follow-up setup ends in a Python traceback exactly when `cmd_line.txt` is torn -/
theorem recover_traceback_iff (fs : FS α) : recover fs = .internalError ↔ fs pCmdline = .torn :=
  recover_internal_iff fs

/-- for every trace obeying the discipline on both files the follow-up setup succeeds at every crash point -/
theorem disciplined_trace_recoverable (fs : FS α) (t : List (Effect α))
    (hc0 : neverTornCheck pCoredata fs t = true) (hc1 : neverTornCheck pCmdline fs t = true)
    (h0 : fs pCoredata ≠ .torn) (h1 : fs pCmdline ≠ .torn) :
    ∀ s ∈ crashStates fs t, ∃ src, recover s = .usable src := by
  intro s hs
  exact recover_usable_of_not_torn s (neverTornCheck_sound pCoredata fs t hc0 h0 s hs)
    (neverTornCheck_sound pCmdline fs t hc1 h1 s hs)

/-! ### the defects, on the protocols as written in the sources -/

/-- a configured directory: both state files hold their pre-command content -/
def configured : FS Gen := FS.ofList [(pCoredata, .ok .old), (pCmdline, .ok .old), (pPrivate, .dir)]

/-- `update_cmd_line_file` / `write_cmd_line_file` rewrite `cmd_line.txt` in place: there is a crash point after
    which the follow-up setup dies with a traceback (F-CRASH-CMDLINE) -/
theorem cmdline_in_place_counterexample :
    ∃ s ∈ crashStates configured (inPlaceWrite pCmdline Gen.new), recover s = .internalError := by
  decide

/-- the wipe sequence of `MesonApp.__init__` (msetup.py:85-115): copy cmd_line.txt out of the tree, delete the
    tree, move the copy back -/
def wipeProtocol (backup : Path) : List (Effect Gen) :=
  [.copyfile pCmdline backup, .unlink pCmdline, .unlink pCoredata, .rmdir pPrivate,
   .mkdir pPrivate, .replace backup pCmdline]

/-- … has crash points after which the follow-up setup silently configures from defaults: every option the
    user had set is lost -/
theorem wipe_window_counterexample :
    ∃ s ∈ crashStates configured (wipeProtocol 100), recover s = .usable .fresh ∧
      acceptable .wipe (recover s) = false := by
  decide

/-! ### per-run obligations over the traces recorded from the real commands -/

/-- the two windows in which the current code does not recover (the findings above) -/
def excused (c : Cmd) (s : FS Gen) : Bool :=
  (s pCmdline).isTorn ||
  (c == .wipe && (s pCoredata).isAbsent && (s pCmdline).isAbsent)

def scenarioOk (sc : Scenario) : Bool :=
  (crashStates sc.fs0 sc.trace).all (fun s => excused sc.cmd s || acceptable sc.cmd (recover s))

/-- the property over the model, full strength: every crash point of every recorded command is recoverable
    with old-or-new option values (false of the current code: see the two counterexamples) -/
def full_statement : Prop :=
  ∀ sc ∈ CrashTraces.all, ∀ s ∈ crashStates sc.fs0 sc.trace, acceptable sc.cmd (recover s) = true

/-- every crash point of every recorded trace outside the two defect windows is recoverable, and the
    recovered option values are the pre-command ones or the ones the command was setting -/
theorem all_crash_points_recoverable_partial :
    ∀ sc ∈ CrashTraces.all, ∀ s ∈ crashStates sc.fs0 sc.trace,
      (s pCmdline ≠ .torn) →
      ¬ (sc.cmd = .wipe ∧ s pCoredata = .absent ∧ s pCmdline = .absent) →
      acceptable sc.cmd (recover s) = true := by
  have key : ∀ sc ∈ CrashTraces.all, scenarioOk sc = true := by decide +kernel
  intro sc hsc s hs h1 h2
  have := key sc hsc
  simp only [scenarioOk, List.all_eq_true] at this
  have hx := this s hs
  simp only [Bool.or_eq_true] at hx
  rcases hx with hx | hx
  · exfalso
    simp only [excused, Bool.or_eq_true, Bool.and_eq_true, beq_iff_eq] at hx
    rcases hx with hx | ⟨⟨hc, ha⟩, hb⟩
    · apply h1
      cases h : s pCmdline <;> simp_all [FileSt.isTorn]
    · apply h2
      refine ⟨hc, ?_, ?_⟩
      · cases h : s pCoredata <;> simp_all [FileSt.isAbsent]
      · cases h : s pCmdline <;> simp_all [FileSt.isAbsent]
  · exact hx

/-- in every recorded trace `coredata.dat` obeys the static discipline (only ever replaced by a complete file) … -/
theorem recorded_coredata_disciplined :
    ∀ sc ∈ CrashTraces.all, neverTornCheck pCoredata sc.fs0 sc.trace = true := by
  decide +kernel

/-- … hence it is readable or absent, never torn, at every crash point of every recorded command -/
theorem recorded_coredata_never_torn :
    ∀ sc ∈ CrashTraces.all, ∀ s ∈ crashStates sc.fs0 sc.trace, s pCoredata ≠ .torn := by
  intro sc hsc
  have h0 : sc.fs0 pCoredata ≠ .torn := by
    have : ∀ sc ∈ CrashTraces.all, (sc.fs0 pCoredata).isTorn = false := by decide +kernel
    exact (isTorn_false_iff _).mp (this sc hsc)
  exact neverTornCheck_sound pCoredata sc.fs0 sc.trace (recorded_coredata_disciplined sc hsc) h0

/-! ### non-vacuity -/

example : CrashTraces.all.length = 20 := by decide
example : (crashStates CrashTraces.sc_configure_h2_ninja.fs0 CrashTraces.sc_configure_h2_ninja.trace).length > 10 := by
  decide +kernel
/-- the partial theorem's hypotheses hold at some crash point where a state file is mid-update -/
example : ∃ s ∈ crashStates configured (coredataSave Gen.new),
    s pCoredataTmp = .torn ∧ s pCmdline ≠ .torn ∧ recover s = .usable (.coredata .old) := by decide
example : neverTornCheck pCoredata configured (coredataSave Gen.new) = true := by decide
example : neverTornCheck pCmdline configured (inPlaceWrite pCmdline Gen.new) = false := by decide

end MesonModel.Props.C09
