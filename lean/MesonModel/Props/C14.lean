/-
C14 — Template substitution replaces exactly the placeholders and nothing else.
Property theorems only; helper lemmas live in `MesonModel/Template/Lemmas.lean`.
Statements quantify over every line / text (`List Char`), every configuration data and every fuel.
-/
import MesonModel.Template.Lemmas
import MesonModel.Template.CmakeSegs
import MesonModel.Template.DispatchLemmas
import MesonModel.Template.CmakeTop

namespace MesonModel.Props.C14
open MesonModel.Template MesonModel.Py

/-! ### meson format: `@VAR@`, `\@VAR\@`, backslash pairs -/

/-- the text substituted for `@nm@` : the value rendered by `str()`, empty when undefined -/
def valueText (d : Data) (nm : Name) : List Char := render d (.var nm)

/-- the matches and the unmatched characters partition the line: nothing is lost, duplicated or reordered -/
theorem segments_partition (s : List Char) : (segments s).flatMap Seg.src = s :=
  scan_partition _ _ _ (Nat.le_refl _)

/-- `do_replacement_meson` is the concatenation of the per-segment replacements, and the segmentation
`segments s` does not take the data as an argument -/
theorem subst_eq_flatMap_render (d : Data) (s : List Char) :
    substMeson d s = (segments s).flatMap (render d) := rfl

/-- every character outside a match is copied unchanged, whatever the data -/
theorem literal_bytes_preserved (d : Data) (c : Char) : render d (.lit c) = [c] := rfl

/-- a line template: literal text and holes, independent of any data -/
inductive Piece where
  | text (t : List Char)
  | hole (nm : Name)

def fill (d : Data) : Piece → List Char
  | .text t => t
  | .hole nm => valueText d nm

def pieceOf : Seg → Piece
  | .lit c => .text [c]
  | .esc n => .text (List.replicate n '\\')
  | .var nm => .hole nm
  | .escaped nm => .text ('@' :: (nm ++ ['@']))

/-- **A substituted value is never scanned again**: for every line there is one data-independent
skeleton of literal pieces and holes such that, for *all* data, the result is the skeleton with each
hole filled by the value's text — the content of a value cannot influence what is substituted. -/
theorem value_never_rescanned (s : List Char) :
    ∃ skel : List Piece, ∀ d : Data, substMeson d s = skel.flatMap (fill d) := by
  refine ⟨(segments s).map pieceOf, fun d => ?_⟩
  rw [subst_eq_flatMap_render, List.flatMap_map]
  congr 1
  funext sg
  cases sg <;> rfl

example : substMeson [("var".toList, .str "@var2@".toList), ("var2".toList, .str "error".toList)]
    "m \"@var@\"".toList = "m \"@var2@\"".toList := by decide

/-- escape rules: `2n` backslashes in front of `@`/`\@` become `n`; `\@name\@` becomes `@name@` -/
theorem escape_rules (d : Data) (n : Nat) (nm : Name) :
    (Seg.esc n).src = List.replicate (2 * n) '\\' ∧ render d (.esc n) = List.replicate n '\\' ∧
    (Seg.escaped nm).src = '\\' :: '@' :: (nm ++ ['\\', '@']) ∧ render d (.escaped nm) = '@' :: (nm ++ ['@']) :=
  ⟨rfl, rfl, rfl, rfl⟩

/-- a name is reported missing iff it occurs as a substituted placeholder and the data lacks it -/
theorem missing_iff (d : Data) (s : List Char) (nm : Name) :
    nm ∈ missingMeson d s ↔ (Seg.var nm ∈ segments s ∧ d.get? nm = none) := by
  simp only [missingMeson, List.mem_filterMap]
  constructor
  · rintro ⟨sg, hsg, h⟩
    cases sg with
    | var n =>
      simp only [segMissing] at h
      split at h
      · rename_i hn
        cases h
        exact ⟨hsg, by simpa using hn⟩
      · cases h
    | _ => simp [segMissing] at h
  · rintro ⟨h1, h2⟩
    exact ⟨_, h1, by simp [segMissing, h2]⟩

/-- **only placeholders are substituted**: whatever is looked up (and hence whatever can be reported
missing) is a non-empty name over `[-a-zA-Z0-9_]` that occurs in the line literally as `@name@`;
conversely (`simple_var`) such an occurrence after plain text *is* substituted -/
theorem var_segment_sound (s : List Char) (nm : Name) (h : Seg.var nm ∈ segments s) :
    nm ≠ [] ∧ (∀ c ∈ nm, isNameChar c = true) ∧ ('@' :: (nm ++ ['@'])) <:+: s := by
  obtain ⟨h1, h2⟩ := scan_var_wf _ _ _ _ h
  refine ⟨h1, h2, ?_⟩
  have := src_infix_of_mem h
  rwa [segments_partition] at this

/-- **`var_segment_iff` (positional)**: take any occurrence `@nm@` in a line, at the position after `pre`,
such that the scan reaches that position as a segment boundary (`segs1` are the segments produced so far
and cover exactly `pre`, i.e. the `@` is not swallowed by an earlier match).  The next segment is the
substitution of `nm` **iff** `nm` is a non-empty name over `[-a-zA-Z0-9_]` and the character before the
`@` is not a backslash.  (`scan_split`: what follows a prefix of the segment list depends only on the
remaining text and on whether the text so far ends in a backslash.) -/
theorem var_segment_iff (pre nm post : List Char) (segs1 segs2 : List Seg)
    (hsplit : segments (pre ++ '@' :: (nm ++ '@' :: post)) = segs1 ++ segs2)
    (hpre : segs1.flatMap Seg.src = pre) :
    (∃ segs3, segs2 = Seg.var nm :: segs3) ↔
      (nm ≠ [] ∧ (∀ c ∈ nm, isNameChar c = true) ∧ pre.getLast? ≠ some '\\') :=
  var_segment_iff_aux pre nm post segs1 segs2 hsplit hpre

example : segments ("a\\\\".toList ++ '@' :: ("v".toList ++ '@' :: "z".toList)) =
    [.lit 'a', .esc 1] ++ [.lit '@', .lit 'v', .lit '@', .lit 'z'] ∧
    ([Seg.lit 'a', .esc 1].flatMap Seg.src = "a\\\\".toList) := by decide

example : segments ("a ".toList ++ '@' :: ("v".toList ++ '@' :: "z".toList)) =
    [.lit 'a', .lit ' '] ++ [.var ['v'], .lit 'z'] := by decide

/-- a line without `@` is copied unchanged and reports nothing -/
theorem no_at_identity (d : Data) (s : List Char) (h : '@' ∉ s) :
    substMeson d s = s ∧ missingMeson d s = [] :=
  ⟨substMeson_no_at d s h, missingMeson_no_at d s h⟩

example : '@' ∉ "plain \\ text ${X}\r\n".toList := by decide

/-- **`@name@` after plain text is substituted exactly once**, the text before it is copied and the rest
of the line is processed independently of the value -/
theorem simple_var (d : Data) (pre name post : List Char)
    (hpre : ∀ c ∈ pre, c ≠ '@' ∧ c ≠ '\\') (hn : name ≠ []) (hnc : ∀ c ∈ name, isNameChar c = true) :
    substMeson d (pre ++ '@' :: (name ++ '@' :: post)) = pre ++ valueText d name ++ substMeson d post := by
  simp only [substMeson, segments]
  rw [scan_plain_prefix pre _ false _ hpre (Nat.le_refl _)]
  have hlen : (pre ++ '@' :: (name ++ '@' :: post)).length - pre.length = (name ++ '@' :: post).length + 1 := by
    simp
  rw [hlen]
  have hp : (if pre.isEmpty then false else false) = false := by split <;> rfl
  rw [hp]
  simp only [scan, matchAt_var name post hn hnc, Seg.endsBs]
  rw [scan_eq_segments _ post (by simp; omega)]
  simp [List.flatMap_append, flatMap_render_lit, valueText, segments]

example : (∀ c ∈ "#define V \"".toList, c ≠ '@' ∧ c ≠ '\\') ∧ "var".toList ≠ [] ∧
    (∀ c ∈ "var".toList, isNameChar c = true) := by decide

/-- `\@name\@` after plain text yields `@name@` (no look-up) -/
theorem simple_escaped (d : Data) (pre name post : List Char)
    (hpre : ∀ c ∈ pre, c ≠ '@' ∧ c ≠ '\\') (hn : name ≠ []) (hnc : ∀ c ∈ name, isNameChar c = true) :
    substMeson d (pre ++ '\\' :: '@' :: (name ++ '\\' :: '@' :: post)) =
      pre ++ '@' :: (name ++ ['@']) ++ substMeson d post := by
  simp only [substMeson, segments]
  rw [scan_plain_prefix pre _ false _ hpre (Nat.le_refl _)]
  have hlen : (pre ++ '\\' :: '@' :: (name ++ '\\' :: '@' :: post)).length - pre.length
      = (name ++ '\\' :: '@' :: post).length + 1 + 1 := by
    simp
  rw [hlen]
  simp only [scan, matchAt_escaped _ name post hn hnc, Seg.endsBs]
  rw [scan_eq_segments _ post (by simp; omega)]
  simp [List.flatMap_append, flatMap_render_lit, render, segments]

/-! ### `#mesondefine` -/

/-- the `#mesondefine` table, one row per value type; the whole line (terminator included) is the
placeholder, the result always ends in `\n` -/
theorem define_table (d : Data) (line t0 nm : List Char) (h : splitWs line = [t0, nm]) :
    (d.get? nm = none → defineMeson d line = .ok (sUndefOpen ++ nm ++ sUndefClose)) ∧
    (d.get? nm = some (.bool true) → defineMeson d line = .ok (sDefine ++ nm ++ ['\n'])) ∧
    (d.get? nm = some (.bool false) → defineMeson d line = .ok (sUndef ++ nm ++ ['\n'])) ∧
    (∀ i, d.get? nm = some (.int i) →
      defineMeson d line = .ok (sDefine ++ nm ++ ' ' :: (toString i).toList ++ ['\n'])) ∧
    (∀ v, d.get? nm = some (.str v) → '@' ∉ v → '@' ∉ nm →
      defineMeson d line = .ok (strip (sDefine ++ nm ++ ' ' :: v) ++ ['\n'])) := by
  refine ⟨?_, ?_, ?_, ?_, ?_⟩
  · intro hv; simp only [defineMeson, h, hv]
  · intro hv; simp only [defineMeson, h, hv]
  · intro hv; simp only [defineMeson, h, hv]
  · intro i hv; simp only [defineMeson, h, hv]
  · intro v hv hat hnm
    simp only [defineMeson, h, hv]
    congr 1
    apply substMeson_no_at
    intro hmem
    rcases List.mem_append.mp hmem with hm | hm
    · have h1 := mem_of_mem_strip hm
      rcases List.mem_append.mp h1 with h2 | h2
      · rcases List.mem_append.mp h2 with h3 | h3
        · exact absurd h3 (by decide)
        · exact hnm h3
      · rcases List.mem_cons.mp h2 with h3 | h3
        · exact absurd h3 (by decide)
        · exact hat h3
    · simp at hm

example : sDefine = "#define ".toList ∧ sUndef = "#undef ".toList ∧ sUndefOpen = "/* #undef ".toList ∧
    sUndefClose = " */\n".toList := ⟨rfl, rfl, rfl, rfl⟩

example : splitWs "  #mesondefine\tFOO \r\n".toList = ["#mesondefine".toList, "FOO".toList] := by decide

/-- any other number of tokens on a `#mesondefine` line is an error, never a silent copy -/
theorem define_needs_two_tokens (d : Data) (line : List Char) (h : (splitWs line).length ≠ 2) :
    defineMeson d line = .error .defineTokens := by
  unfold defineMeson
  split
  · rename_i heq; simp [heq] at h
  · rfl

/-! ### whole files: every byte outside a placeholder is copied (line endings included) -/

/-- `readlines()` (newline='') followed by `writelines` loses nothing -/
theorem splitLines_lossless (text : List Char) : (splitLines text).flatten = text := splitLines_flatten text

/-- meson format: a text without `@` and `#` — whatever its backslashes, `$`, braces, CR / LF / CRLF mix —
is reproduced byte for byte, with no missing variables -/
theorem copy_identity_meson (d : Data) (fuel : Nat) (text : List Char) (h1 : '@' ∉ text) (h2 : '#' ∉ text) :
    confFile .meson d fuel text = .ok (text, [], d.isEmpty) := by
  have hl : ∀ l ∈ splitLines text, lineMeson d l = .ok ⟨l, [], false⟩ := by
    intro l hl
    exact lineMeson_plain d (fun h => h1 (mem_of_mem_splitLines _ _ hl _ h))
      (fun h => h2 (mem_of_mem_splitLines _ _ hl _ h))
  simp only [confFile, confStr, confStrMeson, mapLines_ok _ _ _ hl, Except.map, collect_plain,
    splitLines_flatten]

/-- cmake formats: a text without `@`, `$`, `#` is reproduced byte for byte (fuel > longest line) -/
theorem copy_identity_cmake (atOnly : Bool) (d : Data) (fuel : Nat) (text : List Char)
    (h1 : '@' ∉ text) (h2 : '#' ∉ text) (h3 : '$' ∉ text) (hf : ∀ l ∈ splitLines text, l.length < fuel) :
    confFile (if atOnly then .cmakeAt else .cmake) d fuel text = .ok (text, [], d.isEmpty) := by
  have hl : ∀ l ∈ splitLines text, lineCmake atOnly d fuel l = .ok ⟨l, [], false⟩ := by
    intro l hl
    exact lineCmake_plain atOnly d fuel (fun h => h1 (mem_of_mem_splitLines _ _ hl _ h))
      (fun h => h2 (mem_of_mem_splitLines _ _ hl _ h)) (fun h => h3 (mem_of_mem_splitLines _ _ hl _ h)) (hf l hl)
  cases atOnly <;>
    simp only [confFile, confStr, confStrCmake, mapLines_ok _ _ _ hl, Except.map, collect_plain,
      splitLines_flatten, if_true, Bool.false_eq_true, if_false]

example : confFile .meson [] 0 "a \\ b\r\n{x}\rlast".toList = .ok ("a \\ b\r\n{x}\rlast".toList, [], true) := by
  decide

/-! ### cmake formats: the index scanner -/

/-- a line without `@` and `$` is copied (one unit of fuel per character suffices) -/
theorem cmake_no_placeholder_identity (atOnly : Bool) (d : Data) (fuel : Nat) (line : List Char)
    (h1 : '@' ∉ line) (h2 : '$' ∉ line) (hf : line.length < fuel) :
    substCmake atOnly d fuel line = .ok (line, []) := by
  simpa [substCmake] using parseLine_plain atOnly d fuel [] line [] h1 h2 hf

/-- termination: for every line and data some fuel lets the scanner finish -/
def cmake_terminates_statement : Prop :=
  ∀ (atOnly : Bool) (d : Data) (line : List Char), ∃ fuel, substCmake atOnly d fuel line ≠ .error .fuel

/-- **the cmake scanner terminates on every input** — in particular on self-referential values such as
`${A}` with `A = 'x${A}'`: every loop iteration consumes template text, so one unit of fuel per
character (plus one) suffices, for all data -/
theorem cmake_fuel_suffices (atOnly : Bool) (d : Data) (line : List Char) (fuel : Nat) (h : line.length < fuel) :
    substCmake atOnly d fuel line ≠ .error .fuel :=
  fuel_suffices atOnly d fuel [] line [] h

theorem cmake_terminates : cmake_terminates_statement :=
  fun atOnly d line => ⟨line.length + 1, cmake_fuel_suffices atOnly d line _ (Nat.lt_succ_self _)⟩

example : substCmake false [(['A'], .str "x${A}".toList)] 5 "${A}".toList = .ok ("x${A}".toList, []) := by decide

/-- **one pass, for all values** (`${name}` after plain text): the scanner state after the placeholder has
the plain text and the value — whatever it contains — appended to the output, and only the text *after*
the placeholder left to scan.  (`pre` is the output so far, reversed; the scanner never reads it.) -/
theorem cmake_var_one_pass (d : Data) (f : Nat) (pre p name post : List Char) (m : List Name)
    (hp : ∀ c ∈ p, c ≠ '@' ∧ c ≠ '$') (hn : ∀ c ∈ name, isCmakeChar c = true) (hf : name.length < f) :
    parseLine false d (f + 1 + p.length) pre (p ++ '$' :: '{' :: (name ++ '}' :: post)) m =
      parseLine false d f ((varVal d name).reverse ++ (p.reverse ++ pre)) post (varMiss d name ++ m) := by
  rw [parseLine_plain_prefix false d p (f + 1) pre _ m hp, parseLine_var_step d f _ name post m hn hf, varGet_eq]

/-- the same for `@name@`, in both cmake formats -/
theorem cmake_at_one_pass (atOnly : Bool) (d : Data) (f : Nat) (pre p name post : List Char) (m : List Name)
    (hp : ∀ c ∈ p, c ≠ '@' ∧ c ≠ '$') (hne : name ≠ []) (hn : ∀ c ∈ name, isCmakeChar c = true) :
    parseLine atOnly d (f + 1 + p.length) pre (p ++ '@' :: (name ++ '@' :: post)) m =
      parseLine atOnly d f ((varVal d name).reverse ++ (p.reverse ++ pre)) post (varMiss d name ++ m) := by
  rw [parseLine_plain_prefix atOnly d p (f + 1) pre _ m hp, parseLine_at_step atOnly d f _ name post m hne hn,
    varGet_eq]

/-! #### the global one-pass theorem for the cmake formats

`cmakeSegs atOnly fuel line : Skel` is computed from the line alone (no data).  It is `.ok segs`
(literal characters, `@name@`, `${name}`), `.err e` (the scanner raises `e` for every data), or `.nested`:
some `${…}` has `$` or `@` between its braces, so the *name* is computed from the data (`${${X}}`) —
the carve-out, by design of the format. -/

/-- the segments partition the line: nothing lost, duplicated or reordered -/
theorem cmake_segments_partition (atOnly : Bool) (fuel : Nat) (line : List Char) (segs : List CSeg)
    (h : cmakeSegs atOnly fuel line = .ok segs) : segs.flatMap CSeg.src = line :=
  cmakeSegs_partition atOnly fuel line segs h

/-- **`cmake_one_pass`**: for every data, the scanner's result is the concatenation of the per-segment
replacements of the data-independent segmentation (literal characters copied, each placeholder replaced
by its value's text — whatever that text contains), and the missing names are exactly the look-ups that
failed, in order -/
theorem cmake_one_pass (atOnly : Bool) (d : Data) (fuel : Nat) (line : List Char) (segs : List CSeg)
    (hf : line.length < fuel) (h : cmakeSegs atOnly fuel line = .ok segs) :
    substCmake atOnly d fuel line =
      .ok (segs.flatMap (CSeg.text d), (segs.flatMap (CSeg.miss d)).reverse) := by
  have := parseLine_eq_run atOnly d fuel [] line [] hf _ (by rw [h]; rfl)
  simpa [substCmake] using this

/-- an error of the segmentation is the scanner's error for every data -/
theorem cmake_error_data_independent (atOnly : Bool) (d : Data) (fuel : Nat) (line : List Char) (e : Err)
    (hf : line.length < fuel) (h : cmakeSegs atOnly fuel line = .err e) :
    substCmake atOnly d fuel line = .error e := by
  have := parseLine_eq_run atOnly d fuel [] line [] hf _ (by rw [h]; rfl)
  simpa [substCmake] using this

/-- **a substituted value is never scanned again (cmake formats)**: outside the carve-out there is one
data-independent skeleton such that for *all* data the result is the skeleton rendered with the data -/
theorem cmake_value_never_rescanned (atOnly : Bool) (fuel : Nat) (line : List Char) (hf : line.length < fuel)
    (hn : cmakeSegs atOnly fuel line ≠ .nested) :
    ∃ sk : Skel, ∀ d : Data, some (substCmake atOnly d fuel line) = sk.run d [] [] := by
  refine ⟨cmakeSegs atOnly fuel line, fun d => ?_⟩
  cases h : cmakeSegs atOnly fuel line with
  | ok segs => rw [cmake_one_pass atOnly d fuel line segs hf h]; simp [Skel.run]
  | err e => rw [cmake_error_data_independent atOnly d fuel line e hf h]; rfl
  | nested => exact absurd h hn

/-- the carve-out is empty for `cmake@` -/
theorem cmakeAt_never_nested (fuel : Nat) (line : List Char) : cmakeSegs true fuel line ≠ .nested :=
  cmakeSegs_atOnly_ne_nested fuel line

/-- **reports every undefined name, and only those (cmake formats)**: a name is reported missing iff it is
the name of a placeholder segment of the line and the data lacks it; such names are well-formed -/
theorem cmake_missing_iff (atOnly : Bool) (d : Data) (fuel : Nat) (line : List Char) (segs : List CSeg)
    (hf : line.length < fuel) (h : cmakeSegs atOnly fuel line = .ok segs) (t : List Char) (miss : List Name)
    (hr : substCmake atOnly d fuel line = .ok (t, miss)) (nm : Name) :
    nm ∈ miss ↔ ((CSeg.atVar nm ∈ segs ∨ CSeg.braceVar nm ∈ segs) ∧ d.get? nm = none) := by
  rw [cmake_one_pass atOnly d fuel line segs hf h] at hr
  simp only [Except.ok.injEq, Prod.mk.injEq] at hr
  obtain ⟨_, rfl⟩ := hr
  simp only [List.mem_reverse, List.mem_flatMap]
  constructor
  · rintro ⟨sg, hsg, hm⟩
    cases sg with
    | lit c => simp [CSeg.miss] at hm
    | atVar n =>
      simp only [CSeg.miss, varMiss] at hm
      split at hm
      · simp at hm
      · rename_i hn; simp at hm; subst hm; exact ⟨Or.inl hsg, hn⟩
    | braceVar n =>
      simp only [CSeg.miss, varMiss] at hm
      split at hm
      · simp at hm
      · rename_i hn; simp at hm; subst hm; exact ⟨Or.inr hsg, hn⟩
  · rintro ⟨hsg | hsg, hn⟩
    · exact ⟨_, hsg, by simp [CSeg.miss, varMiss, hn]⟩
    · exact ⟨_, hsg, by simp [CSeg.miss, varMiss, hn]⟩

theorem cmake_placeholder_names_wf (atOnly : Bool) (fuel : Nat) (line : List Char) (segs : List CSeg)
    (h : cmakeSegs atOnly fuel line = .ok segs) (nm : Name)
    (hm : CSeg.atVar nm ∈ segs ∨ CSeg.braceVar nm ∈ segs) : ∀ c ∈ nm, isCmakeChar c = true :=
  cmakeSegs_name_wf atOnly fuel line segs h nm hm

example : cmakeSegs false 30 "a ${X}@Y@ $ {".toList =
    .ok ([.lit 'a', .lit ' ', .braceVar ['X'], .atVar ['Y']] ++ " $ {".toList.map .lit) := by decide
example : cmakeSegs false 30 "${${X}}".toList = .nested := by decide
example : cmakeSegs true 30 "${${X}}@X@".toList = .ok ("${${X}}".toList.map .lit ++ [.atVar ['X']]) := by decide
example : cmakeSegs false 30 "${A B}".toList = .err .invalidChar := by decide

/-- every well-formed `${VAR}` is replaced: two adjacent placeholders are both replaced and both looked
up, for **all** values — empty, undefined or containing placeholders themselves -/
def cmake_adjacent_statement : Prop :=
  ∀ (d : Data) (a b : Name) (fuel : Nat), (∀ c ∈ a ++ b, isCmakeChar c = true) →
    a.length + b.length + 8 ≤ fuel →
    substCmake false d fuel ('$' :: '{' :: (a ++ '}' :: '$' :: '{' :: (b ++ ['}']))) =
      .ok (varVal d a ++ varVal d b, varMiss d b ++ varMiss d a)

theorem cmake_adjacent : cmake_adjacent_statement := by
  intro d a b fuel hc hf
  have ha : ∀ c ∈ a, isCmakeChar c = true := fun c h => hc c (List.mem_append_left _ h)
  have hb : ∀ c ∈ b, isCmakeChar c = true := fun c h => hc c (List.mem_append_right _ h)
  obtain ⟨g, rfl⟩ : ∃ g, fuel = g + 1 + 1 + 1 := ⟨fuel - 3, by omega⟩
  unfold substCmake
  rw [parseLine_var_step d (g + 2) [] a _ [] ha (by omega), varGet_eq,
    parseLine_var_step d (g + 1) _ b [] _ hb (by omega), varGet_eq]
  simp [parseLine]

example : substCmake false [(['A'], .str []), (['B'], .str "bee".toList)] 100 "${A}${B}".toList
    = .ok ("bee".toList, []) := by decide

example : substCmake false [(['B'], .str "bee".toList)] 100 "${A}${B}".toList
    = .ok ("bee".toList, [['A']]) := by decide

/-! #### the cmake formats without carve-out

`cmakeTop atOnly fuel line` is the *top-level* segmentation (literal character / `@name@` / `${inner}` up to the
matching brace / a position where the scanner raises); it takes no data, also for nested references.  `runTop`
renders it left to right: a literal is copied, a placeholder contributes the value of its name, and the name of a
`${inner}` segment is whatever the same scanner makes of `inner` (the documented `${${X}}`). -/

/-- **`cmake_one_pass_all_lines`**: for every line, every data and every fuel the scanner *is* the left-to-right
rendering of the data-independent top-level segmentation — no hypothesis, nested `${${X}}` included -/
theorem cmake_one_pass_all_lines (atOnly : Bool) (d : Data) (fuel : Nat) (line : List Char) :
    substCmake atOnly d fuel line = runTop atOnly d fuel (cmakeTop atOnly fuel line) [] [] :=
  parseLine_eq_runTop atOnly d fuel [] line []

/-- the top-level segments partition the line (when the scanner reaches its end), and with `length + 1` fuel
the fuel never runs out: nothing is lost, duplicated or reordered -/
theorem cmake_top_partition (atOnly : Bool) (fuel : Nat) (line : List Char)
    (h : ∀ e, TSeg.bad e ∉ cmakeTop atOnly fuel line) : (cmakeTop atOnly fuel line).flatMap TSeg.src = line :=
  cmakeTop_partition atOnly fuel line h

theorem cmake_top_fuel_suffices (atOnly : Bool) (fuel : Nat) (line : List Char) (hf : line.length < fuel) :
    TSeg.bad .fuel ∉ cmakeTop atOnly fuel line :=
  cmakeTop_fuel atOnly fuel line hf

/-- **every byte outside a placeholder is copied, and what has been written is never read again** (all lines,
all data): rendering the segments after an arbitrary output-so-far `pre` is `pre` followed by the rendering from
scratch — so neither a literal character nor a substituted value can influence what follows it -/
theorem cmake_output_never_reread (atOnly : Bool) (d : Data) (fuel : Nat) (segs : List TSeg) (pre : List Char)
    (m : List Name) :
    runTop atOnly d fuel segs pre m =
      (runTop atOnly d fuel segs [] m).map fun (t, mm) => (pre.reverse ++ t, mm) :=
  runTop_pre atOnly d fuel segs pre m

/-- one rendering step per segment kind: a literal is copied; `@name@` contributes exactly the value text and a
report iff undefined; `${inner}` contributes the value of the name computed from `inner` -/
theorem cmake_render_steps (atOnly : Bool) (d : Data) (f : Nat) (t : List TSeg) (pre : List Char) (m : List Name) :
    (∀ c, runTop atOnly d (f + 1) (.lit c :: t) pre m = runTop atOnly d f t (c :: pre) m) ∧
    (∀ nm, runTop atOnly d (f + 1) (.atVar nm :: t) pre m =
      runTop atOnly d f t ((varVal d nm).reverse ++ pre) (varMiss d nm ++ m)) ∧
    (∀ inner nm m1, parseLine atOnly d f [] inner m = .ok (nm, m1) → (∀ c ∈ nm, isCmakeChar c = true) →
      runTop atOnly d (f + 1) (.brace inner :: t) pre m =
        runTop atOnly d f t ((varVal d nm).reverse ++ pre) (varMiss d nm ++ m1)) := by
  refine ⟨fun c => rfl, fun nm => rfl, fun inner nm m1 h hn => ?_⟩
  simp [runTop, h, any_not_cmake_false hn]

example : cmakeTop false 30 "a${${X}}@Y@".toList = [.lit 'a', .brace "${X}".toList, .atVar ['Y']] := by decide
example : substCmake false [(['X'], .str ['Z']), (['Z'], .str "v${X}".toList)] 30 "a${${X}}@Y@".toList
    = .ok ("av${X}".toList, [['Y']]) := by decide

/-- **the self-referential case**: `${A}` where the value of `A` mentions `${A}` again (or anything else) yields
the value once, verbatim, with `length + 1` fuel — for every name, value and further data.  (Before repair
e7f602b the scanner resumed inside the substituted text and never returned on this input.) -/
theorem cmake_self_reference_one_pass (nm v : List Char) (rest : Data) (fuel : Nat)
    (hn : ∀ c ∈ nm, isCmakeChar c = true) (hf : nm.length + 4 ≤ fuel) :
    substCmake false ((nm, .str v) :: rest) fuel ('$' :: '{' :: (nm ++ ['}'])) = .ok (v, []) := by
  obtain ⟨g, rfl⟩ : ∃ g, fuel = g + 1 + 1 := ⟨fuel - 2, by omega⟩
  unfold substCmake
  rw [parseLine_var_step _ (g + 1) [] nm [] [] hn (by omega), varGet_eq]
  simp [parseLine, varVal, varMiss, Data.get?, List.lookup, Val.cmakeStr]

example : substCmake false [(['A'], .str "x${A}${${A}}@A@".toList)] 5 "${A}".toList
    = .ok ("x${A}${${A}}@A@".toList, []) := by decide

/-- the same for `@A@` in both cmake formats -/
theorem cmake_self_reference_at_one_pass (atOnly : Bool) (nm v : List Char) (rest : Data) (fuel : Nat)
    (hne : nm ≠ []) (hn : ∀ c ∈ nm, isCmakeChar c = true) (hf : 2 ≤ fuel) :
    substCmake atOnly ((nm, .str v) :: rest) fuel ('@' :: (nm ++ ['@'])) = .ok (v, []) := by
  obtain ⟨g, rfl⟩ : ∃ g, fuel = g + 1 + 1 := ⟨fuel - 2, by omega⟩
  unfold substCmake
  rw [parseLine_at_step atOnly _ (g + 1) [] nm [] [] hne hn, varGet_eq]
  simp [parseLine, varVal, varMiss, Data.get?, List.lookup, Val.cmakeStr]

/-! #### `#cmakedefine` / `#cmakedefine01` : the rendering for every value kind -/

/-- truthiness as `do_define_cmake` uses it (`not v`, `bool(v)`): a string is true iff non-empty, an integer iff
non-zero, a boolean is itself -/
theorem cmake_truthiness (s : List Char) (i : Int) (b : Bool) :
    (Val.str s).truthy = !s.isEmpty ∧ (Val.int i).truthy = (i != 0) ∧ (Val.bool b).truthy = b :=
  ⟨rfl, rfl, rfl⟩

/-- **the `#cmakedefine` table**.  `nm` is the second token of the directive (`t0` the directive word, `extra` the
remaining tokens), `is01` = the line says `cmakedefine01`.
 * undefined: `/* #undef NAME */`, resp. `#define NAME 0` for `cmakedefine01`;
 * defined but false (`''`, `0`, `false`): `/* #undef NAME */`;
 * `cmakedefine01`, defined: `#define NAME 1` / `#define NAME 0` by truthiness — for str, int and bool alike;
 * true value, no further tokens: `#define NAME`;
 * true value with further tokens: `#define NAME <tokens, a token that is a key replaced by str(value)>`, blanks
   normalised, then ONE replacement pass of the format (so `cmake_one_pass_all_lines` applies to it). -/
theorem cmakedefine_table (atOnly : Bool) (d : Data) (fuel : Nat) (line t0 nm : List Char)
    (extra : List (List Char)) (h : splitWs ((lstrip line).drop 1) = t0 :: nm :: extra) :
    (d.get? nm = none → hasSub sCmakedefine01 line = false →
      defineCmake atOnly d fuel line = .ok (sUndefOpen ++ nm ++ sUndefClose)) ∧
    (d.get? nm = none → hasSub sCmakedefine01 line = true →
      defineCmake atOnly d fuel line = .ok (sDefine ++ nm ++ " 0\n".toList)) ∧
    (∀ v, d.get? nm = some v → v.truthy = false → hasSub sCmakedefine01 line = false →
      defineCmake atOnly d fuel line = .ok (sUndefOpen ++ nm ++ sUndefClose)) ∧
    (∀ v, d.get? nm = some v → hasSub sCmakedefine01 line = true → '@' ∉ nm → '$' ∉ nm → nm.length + 12 ≤ fuel →
      defineCmake atOnly d fuel line = .ok (sDefine ++ nm ++ [' ', if v.truthy then '1' else '0', '\n'])) ∧
    (∀ v nm0 z, d.get? nm = some v → v.truthy = true → hasSub sCmakedefine01 line = false → extra = [] →
      nm = nm0 ++ [z] → isSpace z = false → '@' ∉ nm → '$' ∉ nm → nm.length + 12 ≤ fuel →
      defineCmake atOnly d fuel line = .ok (sDefine ++ nm ++ ['\n'])) ∧
    (∀ v, d.get? nm = some v → v.truthy = true → hasSub sCmakedefine01 line = false →
      defineCmake atOnly d fuel line =
        (substCmake atOnly d fuel (strip (sDefine ++ nm ++ ' ' :: joinSp (extra.map fun tok =>
          match d.get? tok with
          | some w => w.pyStr
          | none => tok)) ++ ['\n'])).map (·.1)) := by
  have h' : splitWs (lstrip line).tail = t0 :: nm :: extra := by simpa using h
  refine ⟨?_, ?_, ?_, ?_, ?_, ?_⟩
  · intro hv hb; simp [defineCmake, h', hv, hb]
  · intro hv hb; simp [defineCmake, h', hv, hb]
  · intro v hv ht hb; simp [defineCmake, h', hv, hb, ht]
  · intro v hv hb h1 h2 hf
    simp only [defineCmake, h, hv, hb, Bool.not_true, Bool.false_and, Bool.false_eq_true, if_false, if_true]
    cases ht : v.truthy
    · simpa using define_bit_text atOnly d fuel nm '0' (Or.inr rfl) h1 h2 hf
    · simpa using define_bit_text atOnly d fuel nm '1' (Or.inl rfl) h1 h2 hf
  · intro v nm0 z hv ht hb he hnm hz h1 h2 hf
    subst hnm
    simp only [defineCmake, h, hv, hb, ht, he, Bool.not_false, Bool.not_true, Bool.and_false, Bool.false_eq_true,
      if_false, List.map_nil, joinSp]
    exact define_bare_text atOnly d fuel nm0 z hz h1 h2 hf
  · intro v hv ht hb
    simp only [defineCmake, h, hv, hb, ht, Bool.not_false, Bool.not_true, Bool.and_false, Bool.false_eq_true, if_false]
    rfl

example : splitWs ((lstrip "  # cmakedefine01 FOO \n".toList).drop 1) = ["cmakedefine01".toList, "FOO".toList] ∧
    hasSub sCmakedefine01 "  # cmakedefine01 FOO \n".toList = true := by decide

example : defineCmake false [("FOO".toList, .str "0".toList)] 100 "#cmakedefine01 FOO\n".toList
    = .ok "#define FOO 1\n".toList := by decide
example : defineCmake false [("FOO".toList, .int 0)] 100 "#cmakedefine01 FOO\n".toList
    = .ok "#define FOO 0\n".toList := by decide
example : defineCmake false [("VAR".toList, .str "value".toList)] 100 "#cmakedefine VAR x ${VAR} VAR".toList
    = .ok "#define VAR x value value\n".toList := by decide

/-- a directive without a name is an error (`IndexError` in the implementation), never a silent copy -/
theorem cmakedefine_needs_name (atOnly : Bool) (d : Data) (fuel : Nat) (line : List Char)
    (h : (splitWs ((lstrip line).drop 1)).length < 2) : defineCmake atOnly d fuel line = .error .indexError := by
  unfold defineCmake
  split
  · rename_i heq; rw [heq] at h; simp at h; omega
  · rfl

/-! ### the file layer over bytes: `do_conf_file(src, dst, data, format, encoding)`

`confFileBytes c` decodes the input bytes with the codec `c`, substitutes, and encodes the result with the
*same* codec.  The codec is a parameter; the hypotheses used are stated explicitly. -/

/-- input that is not valid in the encoding is a read error (a `MesonException`), for every format and data -/
theorem file_undecodable_is_read_error (c : Codec) (fmt : Format) (d : Data) (fuel : Nat) (src : Bytes)
    (h : c.decode src = none) : confFileBytes c fmt d fuel src = .error .read := by
  simp [confFileBytes, h]

/-- **placeholder-free files are copied byte for byte** in any encoding that round-trips
(`encode (decode b) = b` on valid input), whatever their line endings and non-ASCII content (meson format) -/
theorem file_bytes_copy_meson (c : Codec) (hrt : ∀ b t, c.decode b = some t → c.encode t = some b)
    (d : Data) (fuel : Nat) (src : Bytes) (text : List Char) (hd : c.decode src = some text)
    (h1 : '@' ∉ text) (h2 : '#' ∉ text) :
    confFileBytes c .meson d fuel src = .ok src := by
  simp [confFileBytes, hd, copy_identity_meson d fuel text h1 h2, hrt src text hd]

/-- the same for the cmake formats -/
theorem file_bytes_copy_cmake (c : Codec) (hrt : ∀ b t, c.decode b = some t → c.encode t = some b)
    (atOnly : Bool) (d : Data) (fuel : Nat) (src : Bytes) (text : List Char) (hd : c.decode src = some text)
    (h1 : '@' ∉ text) (h2 : '#' ∉ text) (h3 : '$' ∉ text) (hf : ∀ l ∈ splitLines text, l.length < fuel) :
    confFileBytes c (if atOnly then .cmakeAt else .cmake) d fuel src = .ok src := by
  simp [confFileBytes, hd, copy_identity_cmake atOnly d fuel text h1 h2 h3 hf, hrt src text hd]

/-- **`file_bytes_preserved`** (meson format, one line, stateless encoding: `encode (a ++ b) = encode a ++
encode b`): the bytes of the line and the bytes of the result are both the concatenation, segment by
segment, of the encodings of the segment's source resp. replacement — and on every literal segment the two
coincide: the bytes outside the placeholders are copied unchanged and in place -/
theorem file_bytes_preserved (c : Codec) (hc : c.Stateless) (d : Data) (s : List Char) (sb ob : Seg → Bytes)
    (hsrc : ∀ sg ∈ segments s, c.encode sg.src = some (sb sg))
    (hout : ∀ sg ∈ segments s, c.encode (render d sg) = some (ob sg)) :
    c.encode s = some ((segments s).flatMap sb) ∧
    c.encode (substMeson d s) = some ((segments s).flatMap ob) ∧
    (∀ ch, Seg.lit ch ∈ segments s → ob (.lit ch) = sb (.lit ch)) := by
  refine ⟨?_, encode_flatMap c hc _ _ _ hout, ?_⟩
  · have := encode_flatMap c hc Seg.src sb (segments s) hsrc
    rwa [segments_partition] at this
  · intro ch hm
    have h1 := hsrc _ hm
    have h2 := hout _ hm
    simp only [Seg.src, render] at h1 h2
    rw [h1] at h2
    exact (Option.some.inj h2).symm

/-- the same for the cmake formats (outside the nested-name carve-out) -/
theorem file_bytes_preserved_cmake (c : Codec) (hc : c.Stateless) (atOnly : Bool) (d : Data) (fuel : Nat)
    (line : List Char) (segs : List CSeg) (hf : line.length < fuel) (h : cmakeSegs atOnly fuel line = .ok segs)
    (sb ob : CSeg → Bytes)
    (hsrc : ∀ sg ∈ segs, c.encode sg.src = some (sb sg))
    (hout : ∀ sg ∈ segs, c.encode (sg.text d) = some (ob sg)) :
    c.encode line = some (segs.flatMap sb) ∧
    (∃ miss, substCmake atOnly d fuel line = .ok (segs.flatMap (CSeg.text d), miss) ∧
      c.encode (segs.flatMap (CSeg.text d)) = some (segs.flatMap ob)) ∧
    (∀ ch, CSeg.lit ch ∈ segs → ob (.lit ch) = sb (.lit ch)) := by
  refine ⟨?_, ⟨_, cmake_one_pass atOnly d fuel line segs hf h, encode_flatMap c hc _ _ _ hout⟩, ?_⟩
  · have := encode_flatMap c hc CSeg.src sb segs hsrc
    rwa [cmake_segments_partition atOnly fuel line segs h] at this
  · intro ch hm
    have h1 := hsrc _ hm
    have h2 := hout _ hm
    simp only [CSeg.src, CSeg.text] at h1 h2
    rw [h1] at h2
    exact (Option.some.inj h2).symm

/-- iso-8859-1 meets the hypotheses -/
theorem latin1_is_stateless : latin1.Stateless := latin1_stateless

example : confFileBytes latin1 .meson [(['A'], .str [Char.ofNat 0xfc])] 0 [0x78, 0xe9, 0x40, 0x41, 0x40, 0x0d, 0x0a]
    = .ok [0x78, 0xe9, 0xfc, 0x0d, 0x0a] := by decide
example : confFileBytes latin1 .meson [(['A'], .str [Char.ofNat 0x20ac])] 0 [0x40, 0x41, 0x40] = .error .write := by
  decide

/-! ### `#mesondefine` string values are scanned once more -/

/-- full statement: the value written by `#mesondefine` is not scanned again -/
def define_value_opaque_statement : Prop :=
  ∀ (d : Data) (line t0 nm v : List Char), splitWs line = [t0, nm] → d.get? nm = some (.str v) →
    defineMeson d line = .ok (strip (sDefine ++ nm ++ ' ' :: v) ++ ['\n'])

theorem define_value_opaque_counterexample : ¬ define_value_opaque_statement := by
  intro h
  have := h [("var".toList, .str "@var2@".toList), ("var2".toList, .str "error".toList)]
    "#mesondefine var\n".toList "#mesondefine".toList "var".toList "@var2@".toList (by decide) (by decide)
  revert this
  decide

/-! ### header without a template -/

/-- the header is prelude, then one block per entry of the *sorted* entry list, then the epilogue -/
theorem header_shape (f : HdrFormat) (guard : Option (List Char)) (es : List Entry) :
    dumpHeader f guard es = hdrPrelude f guard ++ (sortEntries es).flatMap (entryText f) ++ hdrEpilogue f guard := rfl

/-- every block ends with exactly the directive for its key -/
theorem entry_directive (f : HdrFormat) (e : Entry) :
    ∃ comment, entryText f e = comment ++ directive f e.key e.val := ⟨_, rfl⟩

/-- **exactly the keys, once each, in sorted order**: the emitted blocks are a permutation of the data's
entries (nothing added, dropped or duplicated) and their keys ascend in code-point order; with distinct
keys (a dict) the order is strict, so the emitted key sequence is *the* sorted key list -/
theorem header_keys_sorted_once (es : List Entry) :
    (sortEntries es).Perm es ∧
    (sortEntries es).Pairwise (fun a b => strLe a.key b.key = true) ∧
    ((es.map (·.key)).Nodup →
      (sortEntries es).Pairwise (fun a b => strLe a.key b.key = true ∧ a.key ≠ b.key)) := by
  refine ⟨sortEntries_perm es, sortEntries_sorted es, fun hnd => ?_⟩
  have hnd' : ((sortEntries es).map (·.key)).Nodup :=
    ((sortEntries_perm es).map (·.key)).nodup_iff.mpr hnd
  have h1 := sortEntries_sorted es
  have h2 : (sortEntries es).Pairwise (fun a b => a.key ≠ b.key) := by
    simpa [List.Nodup, List.pairwise_map] using hnd'
  exact List.Pairwise.and h1 h2 |>.imp (fun h => h)

/-- two sorted duplicate-free key sequences with the same elements are equal: the output order is
determined by the key set alone (insertion order of the dict is irrelevant) -/
theorem header_order_canonical (es es' : List Entry) (hp : es.Perm es') (hnd : (es.map (·.key)).Nodup) :
    (sortEntries es).map (·.key) = (sortEntries es').map (·.key) := by
  have p1 : ((sortEntries es).map (·.key)).Perm ((sortEntries es').map (·.key)) :=
    (((sortEntries_perm es).trans hp).trans (sortEntries_perm es').symm).map _
  have s1 : ((sortEntries es).map (·.key)).Pairwise (fun a b => strLe a b = true) := by
    rw [List.pairwise_map]; exact sortEntries_sorted es
  have s2 : ((sortEntries es').map (·.key)).Pairwise (fun a b => strLe a b = true) := by
    rw [List.pairwise_map]; exact sortEntries_sorted es'
  exact List.Perm.eq_of_pairwise (fun a b _ _ h1 h2 => strLe_antisymm a b h1 h2) s1 s2 p1

example : (sortEntries [⟨"b".toList, .bool true, none⟩, ⟨"B".toList, .int 1, none⟩, ⟨"a10".toList, .str [], none⟩,
    ⟨"a2".toList, .bool false, none⟩]).map (·.key) = ["B".toList, "a10".toList, "a2".toList, "b".toList] := by decide

/-! ### the call site: action dispatch of `configure_file()`

`cfRun c fuel a` models `Interpreter.func_configure_file` for the keyword set `a` (`Template/Dispatch.lean`): the
count `kwargs[x] not in [None, False]` and the branch chain `… is not None / … is not None / kwargs['copy']` are
modelled separately; the theorems below say that they agree and that the *presence* of `configuration:` — not the
content of the data — selects template processing. -/

/-- **exactly one action**: zero, two or three of `configuration` / `command` / `copy` are an error; a call that
succeeds had exactly one of them, and the branch that ran is that one -/
theorem cf_exactly_one_action (c : Codec) (fuel : Nat) (a : CfArgs) :
    ((presentActions a).length = 0 → cfRun c fuel a = .error .noAction) ∧
    ((presentActions a).length = 2 → ∃ x y, cfRun c fuel a = .error (.twoActions x y)) ∧
    ((presentActions a).length = 3 → cfRun c fuel a = .error .threeActions) ∧
    (∀ o, cfRun c fuel a = .ok o → presentActions a = [o.action]) := by
  refine ⟨?_, ?_, ?_, ?_⟩
  · intro h
    have : presentActions a = [] := List.eq_nil_of_length_eq_zero h
    simp [cfRun, this]
  · intro h
    match hp : presentActions a, h with
    | [x, y], _ => exact ⟨x, y, by simp [cfRun, hp]⟩
  · intro h
    match hp : presentActions a, h with
    | [x, y, z], _ => simp [cfRun, hp]
  · intro o ho
    unfold cfRun at ho
    split at ho
    · cases ho
    · rename_i x hp
      split at ho
      · cases ho
      · -- one action present: which one is decided by the three flags
        unfold presentActions at hp
        unfold cfBranch at ho
        cases hc : a.configuration.entries? with
        | some es =>
          simp only [hc, Option.isSome_some, if_true] at hp ho
          have hcmd : a.command = false := by
            cases h : a.command <;> simp_all
          have hcopy : a.copy = false := by
            cases h : a.copy <;> simp_all
          split at ho
          · cases ho
          · split at ho
            · split at ho
              · cases ho
              · cases ho; simp [presentActions, hc, hcmd, hcopy]
            · cases ho; simp [presentActions, hc, hcmd, hcopy]
        | none =>
          simp only [hc, Option.isSome_none, Bool.false_eq_true, if_false, List.append_nil] at hp ho
          cases hcmd : a.command with
          | true =>
            have hcopy : a.copy = false := by
              cases h : a.copy <;> simp_all
            simp only [hcmd, if_true] at ho
            split at ho
            · split at ho
              · cases ho; simp [presentActions, hc, hcmd, hcopy]
              · cases ho
            · cases ho; simp [presentActions, hc, hcmd, hcopy]
          | false =>
            simp only [hcmd, Bool.false_eq_true, if_false, List.nil_append] at hp ho
            cases hcopy : a.copy with
            | true =>
              simp only [hcopy, if_true] at ho
              split at ho
              · cases ho; simp [presentActions, hc, hcmd, hcopy]
              · cases ho
            | false => simp [hcopy] at hp
    · cases ho
    · cases ho

/-- `capture: true` needs `command:` — in every other mode the call is an error, nothing is written -/
theorem cf_capture_requires_command (c : Codec) (fuel : Nat) (a : CfArgs) (hcap : a.capture = true)
    (hcmd : a.command = false) : ∀ o, cfRun c fuel a ≠ .ok o := by
  intro o ho
  unfold cfRun at ho
  split at ho <;> first | cases ho | skip
  simp [hcap, hcmd] at ho

/-- **`configuration:` present — with any data, the empty one included — ⇒ the template is processed**: the
result of the call is exactly `do_conf_file` on the input bytes with that data (substituted bytes in the codec of
`encoding:`, the undefined names, the useless-data flag) and the data object is marked used.  No hypothesis on
`es`: an empty dict and an unpopulated `configuration_data()` take the same path as any other data. -/
theorem cf_configuration_processes_template (c : Codec) (fuel : Nat) (a : CfArgs) (es : List Entry) (src : Bytes)
    (hconf : a.configuration.entries? = some es) (hcmd : a.command = false) (hcopy : a.copy = false)
    (hcap : a.capture = false) (hin : a.inputs = [src]) :
    cfRun c fuel a =
      match confFileFull c a.format (dataOf es) fuel src with
      | .error e => .error (.file e)
      | .ok (b, miss, useless) => .ok ⟨.configuration, .bytes b, miss, useless, true⟩ := by
  rw [cfRun_single c fuel a _ (presentActions_conf a es hconf hcmd hcopy)]
  simp only [hcap, hcmd, Bool.false_and, Bool.false_eq_true, if_false, cfBranch, hconf, hin, List.length_singleton,
    Nat.lt_irrefl, gt_iff_lt]
  cases confFileFull c a.format (dataOf es) fuel src with
  | error e => rfl
  | ok r => obtain ⟨b, miss, u⟩ := r; rfl

/-- `confFileFull` writes the bytes `confFileBytes` writes -/
theorem confFileFull_bytes (c : Codec) (fmt : Format) (d : Data) (fuel : Nat) (src : Bytes) :
    (confFileFull c fmt d fuel src).map (·.1) = confFileBytes c fmt d fuel src := by
  unfold confFileFull confFileBytes
  cases c.decode src with
  | none => rfl
  | some text =>
    simp only
    cases confFile fmt d fuel text with
    | error e => rfl
    | ok r =>
      obtain ⟨out, miss, u⟩ := r
      simp only
      cases c.encode out <;> rfl

/-- **empty data still substitutes and reports** (meson format, text without `#`): with `configuration: {}` or an
unpopulated `configuration_data()` every line is rewritten by the one-pass substitution — each `@name@` replaced by
the empty text, escapes resolved, everything else copied — and a name is reported **iff** it is a substituted
placeholder of some line -/
theorem cf_empty_configuration_meson (c : Codec) (fuel : Nat) (a : CfArgs) (src : Bytes) (text : List Char)
    (hconf : a.configuration = .dict [] ∨ a.configuration = .cdata []) (hcmd : a.command = false)
    (hcopy : a.copy = false) (hcap : a.capture = false) (hin : a.inputs = [src]) (hfmt : a.format = .meson)
    (hd : c.decode src = some text) (hh : '#' ∉ text) (b : Bytes)
    (he : c.encode ((splitLines text).flatMap (substMeson [])) = some b) :
    ∃ o, cfRun c fuel a = .ok o ∧ o.action = .configuration ∧ o.out = .bytes b ∧ o.used = true ∧
      ∀ nm, nm ∈ o.missing ↔ ∃ l ∈ splitLines text, Seg.var nm ∈ segments l := by
  have hes : a.configuration.entries? = some [] := by
    rcases hconf with h | h <;> simp [h, ConfKw.entries?]
  rw [cf_configuration_processes_template c fuel a [] src hes hcmd hcopy hcap hin]
  simp only [confFileFull, hd, hfmt, dataOf, List.map_nil, confFile_meson_nohash [] fuel text hh, he]
  refine ⟨_, rfl, rfl, rfl, rfl, fun nm => ?_⟩
  simp only [List.mem_flatMap]
  constructor
  · rintro ⟨l, hl, hm⟩
    exact ⟨l, hl, ((missing_iff [] l nm).mp hm).1⟩
  · rintro ⟨l, hl, hm⟩
    exact ⟨l, hl, (missing_iff [] l nm).mpr ⟨hm, rfl⟩⟩

example : (splitLines "n=[@NAME@] \\@X\\@\r\n@OTHER@".toList).flatMap (substMeson []) = "n=[] @X@\r\n".toList ∧
    (splitLines "n=[@NAME@] \\@X\\@\r\n@OTHER@".toList).flatMap (missingMeson []) = ["NAME".toList, "OTHER".toList] := by
  decide

/-- **`configuration:` without `input:` generates the header** — for every data, the empty one included: the file
is `_dump_c_header` (c, nasm) resp. the key-sorted JSON object of exactly the entries (`header_keys_sorted_once`
says what that header defines) -/
theorem cf_configuration_without_input_generates_header (c : Codec) (fuel : Nat) (a : CfArgs) (es : List Entry)
    (hconf : a.configuration.entries? = some es) (hcmd : a.command = false) (hcopy : a.copy = false)
    (hcap : a.capture = false) (hin : a.inputs = []) :
    cfRun c fuel a = .ok ⟨.configuration, headerFile a.outputFormat a.macroName es, [], false, true⟩ := by
  rw [cfRun_single c fuel a _ (presentActions_conf a es hconf hcmd hcopy)]
  simp [hcap, cfBranch, hconf, hin]

example : headerFile .c none [] = .bytes ((String.ofList (hdrPrelude .c none)).toUTF8.toList) := by
  simp [headerFile, dumpHeader, sortEntries, hdrEpilogue]

/-- a dict and a `configuration_data()` object with the same entries are processed alike -/
theorem cf_dict_same_as_object (c : Codec) (fuel : Nat) (a : CfArgs) (es : List Entry)
    (hd : ∀ e ∈ es, e.desc = none) :
    cfRun c fuel { a with configuration := .dict es } = cfRun c fuel { a with configuration := .cdata es } := by
  have : (es.map fun e => (⟨e.key, e.val, none⟩ : Entry)) = es := by
    induction es with
    | nil => rfl
    | cons e t ih =>
      have h1 := hd e (by simp)
      rw [List.map_cons, ih (fun x hx => hd x (List.mem_cons_of_mem _ hx))]
      cases e; simp_all
  simp [cfRun, presentActions, cfBranch, ConfKw.entries?, this]

/-- `copy: true` reproduces the input byte for byte -/
theorem cf_copy_copies_bytes (c : Codec) (fuel : Nat) (a : CfArgs) (src : Bytes)
    (hconf : a.configuration = .absent) (hcmd : a.command = false) (hcopy : a.copy = true)
    (hcap : a.capture = false) (hin : a.inputs = [src]) :
    cfRun c fuel a = .ok ⟨.copy, .bytes src, [], false, false⟩ := by
  simp [cfRun, presentActions, cfBranch, hconf, ConfKw.entries?, hcmd, hcopy, hcap, hin]

/-- **a successful call in configuration or copy mode has written the output file** (only a `command:` without
`capture:` leaves the writing to the command): the fall-through of the branch chain is unreachable -/
theorem cf_success_writes_output (c : Codec) (fuel : Nat) (a : CfArgs) (o : CfOut)
    (h : cfRun c fuel a = .ok o) (hm : o.action ≠ .command) : o.out ≠ .untouched := by
  have hone := (cf_exactly_one_action c fuel a).2.2.2 o h
  rw [cfRun_single c fuel a _ hone] at h
  split at h
  · cases h
  · unfold cfBranch at h
    unfold presentActions at hone
    cases hc : a.configuration.entries? with
    | some es =>
      simp only [hc] at h
      split at h
      · cases h
      · split at h
        · split at h
          · cases h
          · cases h; simp
        · cases h
          cases a.outputFormat <;> simp [headerFile]
    | none =>
      simp only [hc] at h
      cases hcmd : a.command with
      | true =>
        simp only [hcmd, if_true] at h
        split at h
        · split at h
          · cases h; simp
          · cases h
        · cases h; exact absurd rfl hm
      | false =>
        simp only [hcmd, Bool.false_eq_true, if_false] at h
        cases hcopy : a.copy with
        | true =>
          simp only [hcopy, if_true] at h
          split at h
          · cases h; simp
          · cases h
        | false => simp [hc, hcmd, hcopy] at hone

end MesonModel.Props.C14
