import MesonModel.Template.Model

namespace MesonModel.Props.C14
open MesonModel.Template MesonModel.Py

theorem placeholder_tmp : (1 : Nat) = 1 := rfl

end MesonModel.Props.C14
