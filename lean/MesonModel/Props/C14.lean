/-
C14 — Template substitution replaces exactly the placeholders and nothing else.
Property theorems only; helper lemmas live in `MesonModel/Template/Lemmas.lean`.
Statements quantify over every line / text (`List Char`), every configuration data and every fuel.
-/
import MesonModel.Template.Lemmas
import MesonModel.Template.CmakeSegs

namespace MesonModel.Props.C14
open MesonModel.Template MesonModel.Py

/-! ### meson format: `@VAR@`, `\@VAR\@`, backslash pairs -/

/-- the text substituted for `@nm@` : the value rendered by `str()`, empty when undefined -/
def valueText (d : Data) (nm : Name) : List Char := render d (.var nm)

/-- the matches and the unmatched characters partition the line: nothing is lost, duplicated or reordered -/
theorem segments_partition (s : List Char) : (segments s).flatMap Seg.src = s :=
  scan_partition _ _ _ (Nat.le_refl _)

/-- `do_replacement_meson` is the concatenation of the per-segment replacements, and the segmentation
`segments s` does not take the data as an argument -/
theorem subst_eq_flatMap_render (d : Data) (s : List Char) :
    substMeson d s = (segments s).flatMap (render d) := rfl

/-- every character outside a match is copied unchanged, whatever the data -/
theorem literal_bytes_preserved (d : Data) (c : Char) : render d (.lit c) = [c] := rfl

/-- a line template: literal text and holes, independent of any data -/
inductive Piece where
  | text (t : List Char)
  | hole (nm : Name)

def fill (d : Data) : Piece → List Char
  | .text t => t
  | .hole nm => valueText d nm

def pieceOf : Seg → Piece
  | .lit c => .text [c]
  | .esc n => .text (List.replicate n '\\')
  | .var nm => .hole nm
  | .escaped nm => .text ('@' :: (nm ++ ['@']))

/-- **A substituted value is never scanned again**: for every line there is one data-independent
skeleton of literal pieces and holes such that, for *all* data, the result is the skeleton with each
hole filled by the value's text — the content of a value cannot influence what is substituted. -/
theorem value_never_rescanned (s : List Char) :
    ∃ skel : List Piece, ∀ d : Data, substMeson d s = skel.flatMap (fill d) := by
  refine ⟨(segments s).map pieceOf, fun d => ?_⟩
  rw [subst_eq_flatMap_render, List.flatMap_map]
  congr 1
  funext sg
  cases sg <;> rfl

example : substMeson [("var".toList, .str "@var2@".toList), ("var2".toList, .str "error".toList)]
    "m \"@var@\"".toList = "m \"@var2@\"".toList := by decide

/-- escape rules: `2n` backslashes in front of `@`/`\@` become `n`; `\@name\@` becomes `@name@` -/
theorem escape_rules (d : Data) (n : Nat) (nm : Name) :
    (Seg.esc n).src = List.replicate (2 * n) '\\' ∧ render d (.esc n) = List.replicate n '\\' ∧
    (Seg.escaped nm).src = '\\' :: '@' :: (nm ++ ['\\', '@']) ∧ render d (.escaped nm) = '@' :: (nm ++ ['@']) :=
  ⟨rfl, rfl, rfl, rfl⟩

/-- a name is reported missing iff it occurs as a substituted placeholder and the data lacks it -/
theorem missing_iff (d : Data) (s : List Char) (nm : Name) :
    nm ∈ missingMeson d s ↔ (Seg.var nm ∈ segments s ∧ d.get? nm = none) := by
  simp only [missingMeson, List.mem_filterMap]
  constructor
  · rintro ⟨sg, hsg, h⟩
    cases sg with
    | var n =>
      simp only [segMissing] at h
      split at h
      · rename_i hn
        cases h
        exact ⟨hsg, by simpa using hn⟩
      · cases h
    | _ => simp [segMissing] at h
  · rintro ⟨h1, h2⟩
    exact ⟨_, h1, by simp [segMissing, h2]⟩

/-- **only placeholders are substituted**: whatever is looked up (and hence whatever can be reported
missing) is a non-empty name over `[-a-zA-Z0-9_]` that occurs in the line literally as `@name@`;
conversely (`simple_var`) such an occurrence after plain text *is* substituted -/
theorem var_segment_sound (s : List Char) (nm : Name) (h : Seg.var nm ∈ segments s) :
    nm ≠ [] ∧ (∀ c ∈ nm, isNameChar c = true) ∧ ('@' :: (nm ++ ['@'])) <:+: s := by
  obtain ⟨h1, h2⟩ := scan_var_wf _ _ _ _ h
  refine ⟨h1, h2, ?_⟩
  have := src_infix_of_mem h
  rwa [segments_partition] at this

/-- **`var_segment_iff` (positional)**: take any occurrence `@nm@` in a line, at the position after `pre`,
such that the scan reaches that position as a segment boundary (`segs1` are the segments produced so far
and cover exactly `pre`, i.e. the `@` is not swallowed by an earlier match).  The next segment is the
substitution of `nm` **iff** `nm` is a non-empty name over `[-a-zA-Z0-9_]` and the character before the
`@` is not a backslash.  (`scan_split`: what follows a prefix of the segment list depends only on the
remaining text and on whether the text so far ends in a backslash.) -/
theorem var_segment_iff (pre nm post : List Char) (segs1 segs2 : List Seg)
    (hsplit : segments (pre ++ '@' :: (nm ++ '@' :: post)) = segs1 ++ segs2)
    (hpre : segs1.flatMap Seg.src = pre) :
    (∃ segs3, segs2 = Seg.var nm :: segs3) ↔
      (nm ≠ [] ∧ (∀ c ∈ nm, isNameChar c = true) ∧ pre.getLast? ≠ some '\\') :=
  var_segment_iff_aux pre nm post segs1 segs2 hsplit hpre

example : segments ("a\\\\".toList ++ '@' :: ("v".toList ++ '@' :: "z".toList)) =
    [.lit 'a', .esc 1] ++ [.lit '@', .lit 'v', .lit '@', .lit 'z'] ∧
    ([Seg.lit 'a', .esc 1].flatMap Seg.src = "a\\\\".toList) := by decide

example : segments ("a ".toList ++ '@' :: ("v".toList ++ '@' :: "z".toList)) =
    [.lit 'a', .lit ' '] ++ [.var ['v'], .lit 'z'] := by decide

/-- a line without `@` is copied unchanged and reports nothing -/
theorem no_at_identity (d : Data) (s : List Char) (h : '@' ∉ s) :
    substMeson d s = s ∧ missingMeson d s = [] :=
  ⟨substMeson_no_at d s h, missingMeson_no_at d s h⟩

example : '@' ∉ "plain \\ text ${X}\r\n".toList := by decide

/-- **`@name@` after plain text is substituted exactly once**, the text before it is copied and the rest
of the line is processed independently of the value -/
theorem simple_var (d : Data) (pre name post : List Char)
    (hpre : ∀ c ∈ pre, c ≠ '@' ∧ c ≠ '\\') (hn : name ≠ []) (hnc : ∀ c ∈ name, isNameChar c = true) :
    substMeson d (pre ++ '@' :: (name ++ '@' :: post)) = pre ++ valueText d name ++ substMeson d post := by
  simp only [substMeson, segments]
  rw [scan_plain_prefix pre _ false _ hpre (Nat.le_refl _)]
  have hlen : (pre ++ '@' :: (name ++ '@' :: post)).length - pre.length = (name ++ '@' :: post).length + 1 := by
    simp
  rw [hlen]
  have hp : (if pre.isEmpty then false else false) = false := by split <;> rfl
  rw [hp]
  simp only [scan, matchAt_var name post hn hnc, Seg.endsBs]
  rw [scan_eq_segments _ post (by simp; omega)]
  simp [List.flatMap_append, flatMap_render_lit, valueText, segments]

example : (∀ c ∈ "#define V \"".toList, c ≠ '@' ∧ c ≠ '\\') ∧ "var".toList ≠ [] ∧
    (∀ c ∈ "var".toList, isNameChar c = true) := by decide

/-- `\@name\@` after plain text yields `@name@` (no look-up) -/
theorem simple_escaped (d : Data) (pre name post : List Char)
    (hpre : ∀ c ∈ pre, c ≠ '@' ∧ c ≠ '\\') (hn : name ≠ []) (hnc : ∀ c ∈ name, isNameChar c = true) :
    substMeson d (pre ++ '\\' :: '@' :: (name ++ '\\' :: '@' :: post)) =
      pre ++ '@' :: (name ++ ['@']) ++ substMeson d post := by
  simp only [substMeson, segments]
  rw [scan_plain_prefix pre _ false _ hpre (Nat.le_refl _)]
  have hlen : (pre ++ '\\' :: '@' :: (name ++ '\\' :: '@' :: post)).length - pre.length
      = (name ++ '\\' :: '@' :: post).length + 1 + 1 := by
    simp
  rw [hlen]
  simp only [scan, matchAt_escaped _ name post hn hnc, Seg.endsBs]
  rw [scan_eq_segments _ post (by simp; omega)]
  simp [List.flatMap_append, flatMap_render_lit, render, segments]

/-! ### `#mesondefine` -/

/-- the `#mesondefine` table, one row per value type; the whole line (terminator included) is the
placeholder, the result always ends in `\n` -/
theorem define_table (d : Data) (line t0 nm : List Char) (h : splitWs line = [t0, nm]) :
    (d.get? nm = none → defineMeson d line = .ok (sUndefOpen ++ nm ++ sUndefClose)) ∧
    (d.get? nm = some (.bool true) → defineMeson d line = .ok (sDefine ++ nm ++ ['\n'])) ∧
    (d.get? nm = some (.bool false) → defineMeson d line = .ok (sUndef ++ nm ++ ['\n'])) ∧
    (∀ i, d.get? nm = some (.int i) →
      defineMeson d line = .ok (sDefine ++ nm ++ ' ' :: (toString i).toList ++ ['\n'])) ∧
    (∀ v, d.get? nm = some (.str v) → '@' ∉ v → '@' ∉ nm →
      defineMeson d line = .ok (strip (sDefine ++ nm ++ ' ' :: v) ++ ['\n'])) := by
  refine ⟨?_, ?_, ?_, ?_, ?_⟩
  · intro hv; simp only [defineMeson, h, hv]
  · intro hv; simp only [defineMeson, h, hv]
  · intro hv; simp only [defineMeson, h, hv]
  · intro i hv; simp only [defineMeson, h, hv]
  · intro v hv hat hnm
    simp only [defineMeson, h, hv]
    congr 1
    apply substMeson_no_at
    intro hmem
    rcases List.mem_append.mp hmem with hm | hm
    · have h1 := mem_of_mem_strip hm
      rcases List.mem_append.mp h1 with h2 | h2
      · rcases List.mem_append.mp h2 with h3 | h3
        · exact absurd h3 (by decide)
        · exact hnm h3
      · rcases List.mem_cons.mp h2 with h3 | h3
        · exact absurd h3 (by decide)
        · exact hat h3
    · simp at hm

example : sDefine = "#define ".toList ∧ sUndef = "#undef ".toList ∧ sUndefOpen = "/* #undef ".toList ∧
    sUndefClose = " */\n".toList := ⟨rfl, rfl, rfl, rfl⟩

example : splitWs "  #mesondefine\tFOO \r\n".toList = ["#mesondefine".toList, "FOO".toList] := by decide

/-- any other number of tokens on a `#mesondefine` line is an error, never a silent copy -/
theorem define_needs_two_tokens (d : Data) (line : List Char) (h : (splitWs line).length ≠ 2) :
    defineMeson d line = .error .defineTokens := by
  unfold defineMeson
  split
  · rename_i heq; simp [heq] at h
  · rfl

/-! ### whole files: every byte outside a placeholder is copied (line endings included) -/

/-- `readlines()` (newline='') followed by `writelines` loses nothing -/
theorem splitLines_lossless (text : List Char) : (splitLines text).flatten = text := splitLines_flatten text

/-- meson format: a text without `@` and `#` — whatever its backslashes, `$`, braces, CR / LF / CRLF mix —
is reproduced byte for byte, with no missing variables -/
theorem copy_identity_meson (d : Data) (fuel : Nat) (text : List Char) (h1 : '@' ∉ text) (h2 : '#' ∉ text) :
    confFile .meson d fuel text = .ok (text, [], d.isEmpty) := by
  have hl : ∀ l ∈ splitLines text, lineMeson d l = .ok ⟨l, [], false⟩ := by
    intro l hl
    exact lineMeson_plain d (fun h => h1 (mem_of_mem_splitLines _ _ hl _ h))
      (fun h => h2 (mem_of_mem_splitLines _ _ hl _ h))
  simp only [confFile, confStr, confStrMeson, mapLines_ok _ _ _ hl, Except.map, collect_plain,
    splitLines_flatten]

/-- cmake formats: a text without `@`, `$`, `#` is reproduced byte for byte (fuel > longest line) -/
theorem copy_identity_cmake (atOnly : Bool) (d : Data) (fuel : Nat) (text : List Char)
    (h1 : '@' ∉ text) (h2 : '#' ∉ text) (h3 : '$' ∉ text) (hf : ∀ l ∈ splitLines text, l.length < fuel) :
    confFile (if atOnly then .cmakeAt else .cmake) d fuel text = .ok (text, [], d.isEmpty) := by
  have hl : ∀ l ∈ splitLines text, lineCmake atOnly d fuel l = .ok ⟨l, [], false⟩ := by
    intro l hl
    exact lineCmake_plain atOnly d fuel (fun h => h1 (mem_of_mem_splitLines _ _ hl _ h))
      (fun h => h2 (mem_of_mem_splitLines _ _ hl _ h)) (fun h => h3 (mem_of_mem_splitLines _ _ hl _ h)) (hf l hl)
  cases atOnly <;>
    simp only [confFile, confStr, confStrCmake, mapLines_ok _ _ _ hl, Except.map, collect_plain,
      splitLines_flatten, if_true, Bool.false_eq_true, if_false]

example : confFile .meson [] 0 "a \\ b\r\n{x}\rlast".toList = .ok ("a \\ b\r\n{x}\rlast".toList, [], true) := by
  decide

/-! ### cmake formats: the index scanner -/

/-- a line without `@` and `$` is copied (one unit of fuel per character suffices) -/
theorem cmake_no_placeholder_identity (atOnly : Bool) (d : Data) (fuel : Nat) (line : List Char)
    (h1 : '@' ∉ line) (h2 : '$' ∉ line) (hf : line.length < fuel) :
    substCmake atOnly d fuel line = .ok (line, []) := by
  simpa [substCmake] using parseLine_plain atOnly d fuel [] line [] h1 h2 hf

/-- termination: for every line and data some fuel lets the scanner finish -/
def cmake_terminates_statement : Prop :=
  ∀ (atOnly : Bool) (d : Data) (line : List Char), ∃ fuel, substCmake atOnly d fuel line ≠ .error .fuel

/-- **the cmake scanner terminates on every input** — in particular on self-referential values such as
`${A}` with `A = 'x${A}'`: every loop iteration consumes template text, so one unit of fuel per
character (plus one) suffices, for all data -/
theorem cmake_fuel_suffices (atOnly : Bool) (d : Data) (line : List Char) (fuel : Nat) (h : line.length < fuel) :
    substCmake atOnly d fuel line ≠ .error .fuel :=
  fuel_suffices atOnly d fuel [] line [] h

theorem cmake_terminates : cmake_terminates_statement :=
  fun atOnly d line => ⟨line.length + 1, cmake_fuel_suffices atOnly d line _ (Nat.lt_succ_self _)⟩

example : substCmake false [(['A'], .str "x${A}".toList)] 5 "${A}".toList = .ok ("x${A}".toList, []) := by decide

/-- **one pass, for all values** (`${name}` after plain text): the scanner state after the placeholder has
the plain text and the value — whatever it contains — appended to the output, and only the text *after*
the placeholder left to scan.  (`pre` is the output so far, reversed; the scanner never reads it.) -/
theorem cmake_var_one_pass (d : Data) (f : Nat) (pre p name post : List Char) (m : List Name)
    (hp : ∀ c ∈ p, c ≠ '@' ∧ c ≠ '$') (hn : ∀ c ∈ name, isCmakeChar c = true) (hf : name.length < f) :
    parseLine false d (f + 1 + p.length) pre (p ++ '$' :: '{' :: (name ++ '}' :: post)) m =
      parseLine false d f ((varVal d name).reverse ++ (p.reverse ++ pre)) post (varMiss d name ++ m) := by
  rw [parseLine_plain_prefix false d p (f + 1) pre _ m hp, parseLine_var_step d f _ name post m hn hf, varGet_eq]

/-- the same for `@name@`, in both cmake formats -/
theorem cmake_at_one_pass (atOnly : Bool) (d : Data) (f : Nat) (pre p name post : List Char) (m : List Name)
    (hp : ∀ c ∈ p, c ≠ '@' ∧ c ≠ '$') (hne : name ≠ []) (hn : ∀ c ∈ name, isCmakeChar c = true) :
    parseLine atOnly d (f + 1 + p.length) pre (p ++ '@' :: (name ++ '@' :: post)) m =
      parseLine atOnly d f ((varVal d name).reverse ++ (p.reverse ++ pre)) post (varMiss d name ++ m) := by
  rw [parseLine_plain_prefix atOnly d p (f + 1) pre _ m hp, parseLine_at_step atOnly d f _ name post m hne hn,
    varGet_eq]

/-! #### the global one-pass theorem for the cmake formats

`cmakeSegs atOnly fuel line : Skel` is computed from the line alone (no data).  It is `.ok segs`
(literal characters, `@name@`, `${name}`), `.err e` (the scanner raises `e` for every data), or `.nested`:
some `${…}` has `$` or `@` between its braces, so the *name* is computed from the data (`${${X}}`) —
the carve-out, by design of the format. -/

/-- the segments partition the line: nothing lost, duplicated or reordered -/
theorem cmake_segments_partition (atOnly : Bool) (fuel : Nat) (line : List Char) (segs : List CSeg)
    (h : cmakeSegs atOnly fuel line = .ok segs) : segs.flatMap CSeg.src = line :=
  cmakeSegs_partition atOnly fuel line segs h

/-- **`cmake_one_pass`**: for every data, the scanner's result is the concatenation of the per-segment
replacements of the data-independent segmentation (literal characters copied, each placeholder replaced
by its value's text — whatever that text contains), and the missing names are exactly the look-ups that
failed, in order -/
theorem cmake_one_pass (atOnly : Bool) (d : Data) (fuel : Nat) (line : List Char) (segs : List CSeg)
    (hf : line.length < fuel) (h : cmakeSegs atOnly fuel line = .ok segs) :
    substCmake atOnly d fuel line =
      .ok (segs.flatMap (CSeg.text d), (segs.flatMap (CSeg.miss d)).reverse) := by
  have := parseLine_eq_run atOnly d fuel [] line [] hf _ (by rw [h]; rfl)
  simpa [substCmake] using this

/-- an error of the segmentation is the scanner's error for every data -/
theorem cmake_error_data_independent (atOnly : Bool) (d : Data) (fuel : Nat) (line : List Char) (e : Err)
    (hf : line.length < fuel) (h : cmakeSegs atOnly fuel line = .err e) :
    substCmake atOnly d fuel line = .error e := by
  have := parseLine_eq_run atOnly d fuel [] line [] hf _ (by rw [h]; rfl)
  simpa [substCmake] using this

/-- **a substituted value is never scanned again (cmake formats)**: outside the carve-out there is one
data-independent skeleton such that for *all* data the result is the skeleton rendered with the data -/
theorem cmake_value_never_rescanned (atOnly : Bool) (fuel : Nat) (line : List Char) (hf : line.length < fuel)
    (hn : cmakeSegs atOnly fuel line ≠ .nested) :
    ∃ sk : Skel, ∀ d : Data, some (substCmake atOnly d fuel line) = sk.run d [] [] := by
  refine ⟨cmakeSegs atOnly fuel line, fun d => ?_⟩
  cases h : cmakeSegs atOnly fuel line with
  | ok segs => rw [cmake_one_pass atOnly d fuel line segs hf h]; simp [Skel.run]
  | err e => rw [cmake_error_data_independent atOnly d fuel line e hf h]; rfl
  | nested => exact absurd h hn

/-- the carve-out is empty for `cmake@` -/
theorem cmakeAt_never_nested (fuel : Nat) (line : List Char) : cmakeSegs true fuel line ≠ .nested :=
  cmakeSegs_atOnly_ne_nested fuel line

/-- **reports every undefined name, and only those (cmake formats)**: a name is reported missing iff it is
the name of a placeholder segment of the line and the data lacks it; such names are well-formed -/
theorem cmake_missing_iff (atOnly : Bool) (d : Data) (fuel : Nat) (line : List Char) (segs : List CSeg)
    (hf : line.length < fuel) (h : cmakeSegs atOnly fuel line = .ok segs) (t : List Char) (miss : List Name)
    (hr : substCmake atOnly d fuel line = .ok (t, miss)) (nm : Name) :
    nm ∈ miss ↔ ((CSeg.atVar nm ∈ segs ∨ CSeg.braceVar nm ∈ segs) ∧ d.get? nm = none) := by
  rw [cmake_one_pass atOnly d fuel line segs hf h] at hr
  simp only [Except.ok.injEq, Prod.mk.injEq] at hr
  obtain ⟨_, rfl⟩ := hr
  simp only [List.mem_reverse, List.mem_flatMap]
  constructor
  · rintro ⟨sg, hsg, hm⟩
    cases sg with
    | lit c => simp [CSeg.miss] at hm
    | atVar n =>
      simp only [CSeg.miss, varMiss] at hm
      split at hm
      · simp at hm
      · rename_i hn; simp at hm; subst hm; exact ⟨Or.inl hsg, hn⟩
    | braceVar n =>
      simp only [CSeg.miss, varMiss] at hm
      split at hm
      · simp at hm
      · rename_i hn; simp at hm; subst hm; exact ⟨Or.inr hsg, hn⟩
  · rintro ⟨hsg | hsg, hn⟩
    · exact ⟨_, hsg, by simp [CSeg.miss, varMiss, hn]⟩
    · exact ⟨_, hsg, by simp [CSeg.miss, varMiss, hn]⟩

theorem cmake_placeholder_names_wf (atOnly : Bool) (fuel : Nat) (line : List Char) (segs : List CSeg)
    (h : cmakeSegs atOnly fuel line = .ok segs) (nm : Name)
    (hm : CSeg.atVar nm ∈ segs ∨ CSeg.braceVar nm ∈ segs) : ∀ c ∈ nm, isCmakeChar c = true :=
  cmakeSegs_name_wf atOnly fuel line segs h nm hm

example : cmakeSegs false 30 "a ${X}@Y@ $ {".toList =
    .ok ([.lit 'a', .lit ' ', .braceVar ['X'], .atVar ['Y']] ++ " $ {".toList.map .lit) := by decide
example : cmakeSegs false 30 "${${X}}".toList = .nested := by decide
example : cmakeSegs true 30 "${${X}}@X@".toList = .ok ("${${X}}".toList.map .lit ++ [.atVar ['X']]) := by decide
example : cmakeSegs false 30 "${A B}".toList = .err .invalidChar := by decide

/-- every well-formed `${VAR}` is replaced: two adjacent placeholders are both replaced and both looked
up, for **all** values — empty, undefined or containing placeholders themselves -/
def cmake_adjacent_statement : Prop :=
  ∀ (d : Data) (a b : Name) (fuel : Nat), (∀ c ∈ a ++ b, isCmakeChar c = true) →
    a.length + b.length + 8 ≤ fuel →
    substCmake false d fuel ('$' :: '{' :: (a ++ '}' :: '$' :: '{' :: (b ++ ['}']))) =
      .ok (varVal d a ++ varVal d b, varMiss d b ++ varMiss d a)

theorem cmake_adjacent : cmake_adjacent_statement := by
  intro d a b fuel hc hf
  have ha : ∀ c ∈ a, isCmakeChar c = true := fun c h => hc c (List.mem_append_left _ h)
  have hb : ∀ c ∈ b, isCmakeChar c = true := fun c h => hc c (List.mem_append_right _ h)
  obtain ⟨g, rfl⟩ : ∃ g, fuel = g + 1 + 1 + 1 := ⟨fuel - 3, by omega⟩
  unfold substCmake
  rw [parseLine_var_step d (g + 2) [] a _ [] ha (by omega), varGet_eq,
    parseLine_var_step d (g + 1) _ b [] _ hb (by omega), varGet_eq]
  simp [parseLine]

example : substCmake false [(['A'], .str []), (['B'], .str "bee".toList)] 100 "${A}${B}".toList
    = .ok ("bee".toList, []) := by decide

example : substCmake false [(['B'], .str "bee".toList)] 100 "${A}${B}".toList
    = .ok ("bee".toList, [['A']]) := by decide

/-! ### the file layer over bytes: `do_conf_file(src, dst, data, format, encoding)`

`confFileBytes c` decodes the input bytes with the codec `c`, substitutes, and encodes the result with the
*same* codec.  The codec is a parameter; the hypotheses used are stated explicitly. -/

/-- input that is not valid in the encoding is a read error (a `MesonException`), for every format and data -/
theorem file_undecodable_is_read_error (c : Codec) (fmt : Format) (d : Data) (fuel : Nat) (src : Bytes)
    (h : c.decode src = none) : confFileBytes c fmt d fuel src = .error .read := by
  simp [confFileBytes, h]

/-- **placeholder-free files are copied byte for byte** in any encoding that round-trips
(`encode (decode b) = b` on valid input), whatever their line endings and non-ASCII content (meson format) -/
theorem file_bytes_copy_meson (c : Codec) (hrt : ∀ b t, c.decode b = some t → c.encode t = some b)
    (d : Data) (fuel : Nat) (src : Bytes) (text : List Char) (hd : c.decode src = some text)
    (h1 : '@' ∉ text) (h2 : '#' ∉ text) :
    confFileBytes c .meson d fuel src = .ok src := by
  simp [confFileBytes, hd, copy_identity_meson d fuel text h1 h2, hrt src text hd]

/-- the same for the cmake formats -/
theorem file_bytes_copy_cmake (c : Codec) (hrt : ∀ b t, c.decode b = some t → c.encode t = some b)
    (atOnly : Bool) (d : Data) (fuel : Nat) (src : Bytes) (text : List Char) (hd : c.decode src = some text)
    (h1 : '@' ∉ text) (h2 : '#' ∉ text) (h3 : '$' ∉ text) (hf : ∀ l ∈ splitLines text, l.length < fuel) :
    confFileBytes c (if atOnly then .cmakeAt else .cmake) d fuel src = .ok src := by
  simp [confFileBytes, hd, copy_identity_cmake atOnly d fuel text h1 h2 h3 hf, hrt src text hd]

/-- **`file_bytes_preserved`** (meson format, one line, stateless encoding: `encode (a ++ b) = encode a ++
encode b`): the bytes of the line and the bytes of the result are both the concatenation, segment by
segment, of the encodings of the segment's source resp. replacement — and on every literal segment the two
coincide: the bytes outside the placeholders are copied unchanged and in place -/
theorem file_bytes_preserved (c : Codec) (hc : c.Stateless) (d : Data) (s : List Char) (sb ob : Seg → Bytes)
    (hsrc : ∀ sg ∈ segments s, c.encode sg.src = some (sb sg))
    (hout : ∀ sg ∈ segments s, c.encode (render d sg) = some (ob sg)) :
    c.encode s = some ((segments s).flatMap sb) ∧
    c.encode (substMeson d s) = some ((segments s).flatMap ob) ∧
    (∀ ch, Seg.lit ch ∈ segments s → ob (.lit ch) = sb (.lit ch)) := by
  refine ⟨?_, encode_flatMap c hc _ _ _ hout, ?_⟩
  · have := encode_flatMap c hc Seg.src sb (segments s) hsrc
    rwa [segments_partition] at this
  · intro ch hm
    have h1 := hsrc _ hm
    have h2 := hout _ hm
    simp only [Seg.src, render] at h1 h2
    rw [h1] at h2
    exact (Option.some.inj h2).symm

/-- the same for the cmake formats (outside the nested-name carve-out) -/
theorem file_bytes_preserved_cmake (c : Codec) (hc : c.Stateless) (atOnly : Bool) (d : Data) (fuel : Nat)
    (line : List Char) (segs : List CSeg) (hf : line.length < fuel) (h : cmakeSegs atOnly fuel line = .ok segs)
    (sb ob : CSeg → Bytes)
    (hsrc : ∀ sg ∈ segs, c.encode sg.src = some (sb sg))
    (hout : ∀ sg ∈ segs, c.encode (sg.text d) = some (ob sg)) :
    c.encode line = some (segs.flatMap sb) ∧
    (∃ miss, substCmake atOnly d fuel line = .ok (segs.flatMap (CSeg.text d), miss) ∧
      c.encode (segs.flatMap (CSeg.text d)) = some (segs.flatMap ob)) ∧
    (∀ ch, CSeg.lit ch ∈ segs → ob (.lit ch) = sb (.lit ch)) := by
  refine ⟨?_, ⟨_, cmake_one_pass atOnly d fuel line segs hf h, encode_flatMap c hc _ _ _ hout⟩, ?_⟩
  · have := encode_flatMap c hc CSeg.src sb segs hsrc
    rwa [cmake_segments_partition atOnly fuel line segs h] at this
  · intro ch hm
    have h1 := hsrc _ hm
    have h2 := hout _ hm
    simp only [CSeg.src, CSeg.text] at h1 h2
    rw [h1] at h2
    exact (Option.some.inj h2).symm

/-- iso-8859-1 meets the hypotheses -/
theorem latin1_is_stateless : latin1.Stateless := latin1_stateless

example : confFileBytes latin1 .meson [(['A'], .str [Char.ofNat 0xfc])] 0 [0x78, 0xe9, 0x40, 0x41, 0x40, 0x0d, 0x0a]
    = .ok [0x78, 0xe9, 0xfc, 0x0d, 0x0a] := by decide
example : confFileBytes latin1 .meson [(['A'], .str [Char.ofNat 0x20ac])] 0 [0x40, 0x41, 0x40] = .error .write := by
  decide

/-! ### `#mesondefine` string values are scanned once more -/

/-- full statement: the value written by `#mesondefine` is not scanned again -/
def define_value_opaque_statement : Prop :=
  ∀ (d : Data) (line t0 nm v : List Char), splitWs line = [t0, nm] → d.get? nm = some (.str v) →
    defineMeson d line = .ok (strip (sDefine ++ nm ++ ' ' :: v) ++ ['\n'])

theorem define_value_opaque_counterexample : ¬ define_value_opaque_statement := by
  intro h
  have := h [("var".toList, .str "@var2@".toList), ("var2".toList, .str "error".toList)]
    "#mesondefine var\n".toList "#mesondefine".toList "var".toList "@var2@".toList (by decide) (by decide)
  revert this
  decide

/-! ### header without a template -/

/-- the header is prelude, then one block per entry of the *sorted* entry list, then the epilogue -/
theorem header_shape (f : HdrFormat) (guard : Option (List Char)) (es : List Entry) :
    dumpHeader f guard es = hdrPrelude f guard ++ (sortEntries es).flatMap (entryText f) ++ hdrEpilogue f guard := rfl

/-- every block ends with exactly the directive for its key -/
theorem entry_directive (f : HdrFormat) (e : Entry) :
    ∃ comment, entryText f e = comment ++ directive f e.key e.val := ⟨_, rfl⟩

/-- **exactly the keys, once each, in sorted order**: the emitted blocks are a permutation of the data's
entries (nothing added, dropped or duplicated) and their keys ascend in code-point order; with distinct
keys (a dict) the order is strict, so the emitted key sequence is *the* sorted key list -/
theorem header_keys_sorted_once (es : List Entry) :
    (sortEntries es).Perm es ∧
    (sortEntries es).Pairwise (fun a b => strLe a.key b.key = true) ∧
    ((es.map (·.key)).Nodup →
      (sortEntries es).Pairwise (fun a b => strLe a.key b.key = true ∧ a.key ≠ b.key)) := by
  refine ⟨sortEntries_perm es, sortEntries_sorted es, fun hnd => ?_⟩
  have hnd' : ((sortEntries es).map (·.key)).Nodup :=
    ((sortEntries_perm es).map (·.key)).nodup_iff.mpr hnd
  have h1 := sortEntries_sorted es
  have h2 : (sortEntries es).Pairwise (fun a b => a.key ≠ b.key) := by
    simpa [List.Nodup, List.pairwise_map] using hnd'
  exact List.Pairwise.and h1 h2 |>.imp (fun h => h)

/-- two sorted duplicate-free key sequences with the same elements are equal: the output order is
determined by the key set alone (insertion order of the dict is irrelevant) -/
theorem header_order_canonical (es es' : List Entry) (hp : es.Perm es') (hnd : (es.map (·.key)).Nodup) :
    (sortEntries es).map (·.key) = (sortEntries es').map (·.key) := by
  have p1 : ((sortEntries es).map (·.key)).Perm ((sortEntries es').map (·.key)) :=
    (((sortEntries_perm es).trans hp).trans (sortEntries_perm es').symm).map _
  have s1 : ((sortEntries es).map (·.key)).Pairwise (fun a b => strLe a b = true) := by
    rw [List.pairwise_map]; exact sortEntries_sorted es
  have s2 : ((sortEntries es').map (·.key)).Pairwise (fun a b => strLe a b = true) := by
    rw [List.pairwise_map]; exact sortEntries_sorted es'
  exact List.Perm.eq_of_pairwise (fun a b _ _ h1 h2 => strLe_antisymm a b h1 h2) s1 s2 p1

example : (sortEntries [⟨"b".toList, .bool true, none⟩, ⟨"B".toList, .int 1, none⟩, ⟨"a10".toList, .str [], none⟩,
    ⟨"a2".toList, .bool false, none⟩]).map (·.key) = ["B".toList, "a10".toList, "a2".toList, "b".toList] := by decide

end MesonModel.Props.C14
