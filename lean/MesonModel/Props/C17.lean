import MesonModel.Rewrite.SpliceLemmas
import MesonModel.Rewrite.StrLitLemmas
import MesonModel.Rewrite.Parse
import MesonModel.Rewrite.Compare
import MesonModel.Rewrite.ListEdit
import MesonModel.Rewrite.PathMatch
import MesonModel.Rewrite.Script
import MesonModel.Rewrite.ParenTable
import MesonModel.Rewrite.CommandLemmas
import MesonModel.Rewrite.SrcCommandLemmas
/-
C17 — rewriter edits are local and keep everything else meaning the same (theorems over the model).

* splice: `apply_changes` applies its work list last-edit-first with the offsets of the ORIGINAL file; for
  edits sorted descending and disjoint that is the simultaneous replacement (`splice_local`), so the text
  before the first / after the last edited span and every gap between edits is unchanged;
  two disjoint edits commute up to the offset shift (`edits_commute_when_sorted_desc`);
  the offsets themselves agree with the lexer's line numbering exactly when the file has no line
  separator other than LF (`lineOffsets_agree_partial`, `lineOffsets_formfeed_counterexample`).
* escape: reading back `'` ++ escape v ++ `'` gives `v` for every `v` provided the regenerated
  `escape_trans` table is well-formed (`escape_roundtrip_of_table`); the live table IS well-formed since
  /repo fbd2b8c (`escape_table_live`, `by decide` on the regenerated table on every run), so the full
  statement holds (`escape_roundtrip_live`). Before that repair the table mapped the quote to itself:
  the conditional `escape_roundtrip_counterexample` / `escape_roundtrip_partial` still compile and
  describe that state (they become the operative ones again if the entry regresses).
* printer: the full operator table (every binary operator on either side, `not`, unary minus, method call, index,
  ternary condition × every operand shape): operands written in parentheses are always read back
  (`written_parens_read_back`, /repo b64ff56); for operands without a `ParenthesizedNode` the text is read back exactly
  when `needsParens → emitsParens` (`paren_table_exact`), with the arithmetic positions where the live rule falls short
  listed (`arithmetic_missing_parens`). No universally quantified print/parse proof over all trees.
-/
namespace MesonModel.Props.C17
open MesonModel.Rewrite MesonModel.Generated

/-! ### splice locality -/

/-- last-edit-first application of a descending, disjoint, in-range work list = simultaneous replacement:
every untouched segment of the original text is in the result verbatim and in order -/
theorem splice_local (raw : List Char) (edits : List SpanEdit) (hd : DescDisjoint edits)
    (hr : ∀ x ∈ edits, x.2.1 ≤ raw.length) : applySpans raw edits = simul raw edits :=
  applySpans_eq_simul edits raw hd hr

/-- text before the first edited span is unchanged -/
theorem splice_local_prefix (raw : List Char) (edits : List SpanEdit) (hd : DescDisjoint edits)
    (hr : ∀ x ∈ edits, x.2.1 ≤ raw.length) (p : Nat) (hp : p ≤ raw.length) (hb : ∀ x ∈ edits, p ≤ x.1) :
    (applySpans raw edits).take p = raw.take p := by
  rw [splice_local raw edits hd hr]; exact simul_prefix edits raw p hp hb

/-- text after the last edited span is unchanged -/
theorem splice_local_suffix (raw : List Char) (s e : Nat) (r : List Char) (rest : List SpanEdit)
    (hd : DescDisjoint ((s, e, r) :: rest)) (hr : ∀ x ∈ (s, e, r) :: rest, x.2.1 ≤ raw.length) :
    ∃ pre, applySpans raw ((s, e, r) :: rest) = pre ++ raw.drop e := by
  rw [splice_local raw _ hd hr]; exact simul_suffix raw s e r rest

/-- the gap between two consecutive edits still holds the same text -/
theorem splice_local_gap (raw : List Char) (s1 e1 s2 e2 : Nat) (r1 r2 : List Char) (rest : List SpanEdit)
    (hd : DescDisjoint ((s1, e1, r1) :: (s2, e2, r2) :: rest))
    (hr : ∀ x ∈ (s1, e1, r1) :: (s2, e2, r2) :: rest, x.2.1 ≤ raw.length) :
    ∃ pre, applySpans raw ((s1, e1, r1) :: (s2, e2, r2) :: rest)
      = pre ++ r2 ++ (raw.take s1).drop e2 ++ r1 ++ raw.drop e1 := by
  rw [splice_local raw _ hd hr]
  exact ⟨simul ((raw.take s1).take s2) rest, by simp [simul, List.append_assoc]⟩

example : DescDisjoint [(8, 10, ['x']), (2, 5, [])] := by simp [DescDisjoint]
example : applySpans "0123456789ab".toList [(8, 10, ['x']), (2, 5, [])] = "01567xab".toList := by decide

/-- two disjoint edits: later-one-first with the original offsets = earlier-one-first with the later one
shifted by the length change (both are the simultaneous replacement) -/
theorem edits_commute_when_sorted_desc (A B C D E r1 r2 : List Char) :
    splice (splice (A ++ B ++ C ++ D ++ E) (A.length + B.length + C.length)
        (A.length + B.length + C.length + D.length) r1) A.length (A.length + B.length) r2
    = splice (splice (A ++ B ++ C ++ D ++ E) A.length (A.length + B.length) r2)
        (A.length + r2.length + C.length) (A.length + r2.length + C.length + D.length) r1 := by
  obtain ⟨h1, h2⟩ := two_edits_commute A B C D E r1 r2
  rw [h1, h2]

/-- `sorted(..., reverse=True)` as modelled drops or duplicates nothing -/
theorem sortDesc_length (ws : List Work) : (sortDesc ws).length = ws.length := sortDescBy_length keyLt ws

/-- the sort key the real `apply_changes` uses (probed per run, `Generated.PrecTable`) is (line, column) -/
theorem sortKey_live : keyLt = keyLtWith true true := by
  funext a b; simp [keyLt, PrecTable.sortKeyUsesLine, PrecTable.sortKeyUsesColumn]

/-- with that key the work list is applied in position-descending order: no edit is followed by one that lies
later in the file (on another line OR further right on the same line) — the order `splice_local` needs -/
theorem sortDesc_is_descending (ws : List Work) :
    (sortDesc ws).Pairwise (fun a b => ¬ posLt a b) := by
  unfold sortDesc; rw [sortKey_live]; exact sortDescBy_sorted ws

/-- … strictly descending when no two edits start at the same position -/
theorem sortDesc_is_strictly_descending (ws : List Work)
    (distinct : (sortDesc ws).Pairwise (fun a b => ¬ (a.span.line = b.span.line ∧ a.span.col = b.span.col))) :
    (sortDesc ws).Pairwise (fun a b => posLt b a) := by
  have h := sortDesc_is_descending ws
  have hb := List.Pairwise.and h distinct
  exact hb.imp (by
    intro a b hab
    obtain ⟨h1, h2⟩ := hab
    unfold posLt at h1 ⊢; omega)

def mkWork (line col : Nat) : Work := ⟨.modify, ⟨line, col, line, col + 3⟩, .arrOrFunc, .empty⟩

/-- a LINE-ONLY key is not enough: two edits on one line stay in queue order (stable sort), the left one is applied
first and the right one then uses an offset that is no longer valid -/
theorem sortDesc_line_only_counterexample :
    (sortDescBy (keyLtWith true false) [mkWork 2 26, mkWork 2 47]).map (·.span.col) = [26, 47] ∧
    (sortDescBy (keyLtWith true true) [mkWork 2 26, mkWork 2 47]).map (·.span.col) = [47, 26] := by decide

/-! ### line offsets -/

def offsets_full_statement : Prop := ∀ s : List Char, lineOffsets s = lexLineOffsets s

/-- `splitlines(True)` offsets = the lexer's line starts when LF is the only separator in the file -/
theorem lineOffsets_agree_partial (s : List Char) (plain : ∀ c ∈ s, isLineSep c = true → c = '\n') :
    lineOffsets s = lexLineOffsets s := lineOffsets_eq_lexLineOffsets s plain

example : ∀ c ∈ "a = 1\nb = 2\n".toList, isLineSep c = true → c = '\n' := by decide

/-- a form feed inside a comment: `splitlines` starts a line the lexer does not -/
theorem lineOffsets_formfeed_counterexample :
    lineOffsets "#\x0c\nx".toList = [0, 2, 3] ∧ lexLineOffsets "#\x0c\nx".toList = [0, 3] := by decide

theorem offsets_full_statement_false : ¬ offsets_full_statement := by
  intro h
  have := h "#\x0c\nx".toList
  revert this
  decide

/-! ### escape -/

/-- the text `visit_StringNode` writes for a plain string with value `v` -/
def printedLiteral (tbl : List (Char × List Char)) (v : List Char) : List Char := '\'' :: (escapeWith tbl v ++ ['\''])

theorem astPrint_str (v : List Char) :
    astPrint (.str 0 v false false) = printedLiteral PrecTable.escapeTrans v := by
  simp [astPrint, pr, PS.init, PS.append, printedLiteral, escape, escapeWith]

def escape_full_statement : Prop := ∀ v, lexString (printedLiteral PrecTable.escapeTrans v) = some v

/-- reading back the printed literal gives the value, for EVERY value, whenever the translate table is
well-formed (decidable check on the regenerated table) -/
theorem escape_roundtrip_of_table (tbl : List (Char × List Char)) (h : tableOk tbl = true) (v : List Char) :
    lexString (printedLiteral tbl v) = some v := by
  simp only [printedLiteral, escapeWith_eq_units_of_ok h v]
  exact lexString_units v

/-- the full statement, conditional on the live table -/
theorem escape_roundtrip (h : tableOk PrecTable.escapeTrans = true) : escape_full_statement :=
  fun v => escape_roundtrip_of_table _ h v

/-- the regenerated `escape_trans` is well-formed (re-decided on every run; false before /repo fbd2b8c) -/
theorem escape_table_live : tableOk PrecTable.escapeTrans = true := by decide

/-- the hypothesis of `escape_roundtrip` holds of the live table: the theorem is not vacuous -/
example : tableOk PrecTable.escapeTrans = true := escape_table_live

/-- full strength, unconditional: every string value, re-printed by `AstPrinter`, is read back unchanged -/
theorem escape_roundtrip_live : escape_full_statement := escape_roundtrip escape_table_live

example : lexString (printedLiteral PrecTable.escapeTrans ['i', 't', '\'', 's', '\\']) = some ['i', 't', '\'', 's', '\\'] :=
  escape_roundtrip_live _

/-- non-vacuity: the table with the quote entry written as backslash-quote is well-formed -/
example : tableOk [('\'', ['\\', '\'']), ('\\', ['\\', '\\'])] = true := by decide

/-- on the live table: either it is well-formed, or a lone quote is a counterexample -/
theorem escape_roundtrip_counterexample :
    tableOk PrecTable.escapeTrans = false → lexString (printedLiteral PrecTable.escapeTrans ['\'']) ≠ some ['\''] := by
  decide

/-- the table is in exactly one of the two states the theorems above speak about -/
theorem escape_table_pinned : tableOk PrecTable.escapeTrans = false ∨ tableOk PrecTable.escapeTrans = true := by
  cases tableOk PrecTable.escapeTrans <;> simp

/-- every value WITHOUT a quote is read back unchanged (backslash entry of the live table checked by `decide`) -/
theorem escape_roundtrip_partial (v : List Char) (hv : '\'' ∉ v) :
    lexString (printedLiteral PrecTable.escapeTrans v) = some v := by
  have hb : tableBsOk PrecTable.escapeTrans = true := by decide
  simp only [printedLiteral, escapeWith_eq_units_of_bsOk hb v hv]
  exact lexString_units v

example : '\'' ∉ "C:\\dir\\f".toList := by decide

/-! ### list-valued edits: only the addressed elements change -/

/-- `_remove_helper` (the loop as coded) keeps exactly the elements that are not hit, in their order -/
theorem remove_keeps_unmatched_in_order {α : Type} (hit : α → Bool) (l : List α) :
    removeHelper hit l = l.filter (fun i => !hit i) := removeHelper_eq_filter hit l

/-- for an entry `k' = v`, being hit by the patterns `<key>=.*` of `default-options set/delete` means that its
key IS one of the requested keys (not a key that merely ends with, starts with or contains one) -/
theorem defaultOptions_hit_iff_own_key (keys : List (List Char)) (k' v : List Char)
    (hkeys : ∀ k ∈ keys, '=' ∉ k) (hk' : '=' ∉ k') :
    keys.any (fun k => keyMatches k (k' ++ '=' :: v)) = keys.contains k' := by
  induction keys with
  | nil => rfl
  | cons k t ih =>
    have iht := ih (fun x hx => hkeys x (by simp [hx]))
    by_cases h : k = k'
    · subst h; simp [keyMatches_self]
    · have hm : keyMatches k (k' ++ '=' :: v) = false := by
        cases hh : keyMatches k (k' ++ '=' :: v) with
        | false => rfl
        | true => exact absurd (keyMatches_own_key_only k k' v (hkeys k (by simp)) hk' hh) h
      have hne : (k' == k) = false := by simp [Ne.symm h]
      simp [List.any_cons, hm, iht, List.contains_cons, hne]
      intro e; exact absurd e.symm h

/-- `default-options delete`: the result is the old list without the entries of the requested keys; entries of
every other key and entries without `=` stay, in order -/
theorem defaultOptions_delete_is_filter (keys l : List (List Char)) :
    defaultOptionsDelete keys l = l.filter (fun e => !(keys.any (fun k => keyMatches k e))) :=
  removeHelper_eq_filter _ l

theorem defaultOptions_keeps_entry_without_equals (keys : List (List Char)) (e : List Char) (he : '=' ∉ e) :
    keys.any (fun k => keyMatches k e) = false := by
  induction keys with
  | nil => rfl
  | cons k t ih => simp [List.any_cons, keyMatches_no_equals k e he, ih]

/-- `default-options set`: old entries of other keys first (unchanged, in order), then `key=value` for the requested keys -/
theorem defaultOptions_set_shape (kvs : List (List Char × List Char)) (l : List (List Char)) :
    defaultOptionsSet kvs l
      = l.filter (fun e => !((kvs.map (·.1)).any (fun k => keyMatches k e))) ++ kvs.map (fun kv => kv.1 ++ '=' :: kv.2) := by
  simp [defaultOptionsSet, defaultOptions_delete_is_filter]

example : defaultOptionsDelete ["debug".toList] ["b_ndebug=if-release".toList, "debug=true".toList, "c_args=-Ddebug=1".toList,
    "sub:debug=true".toList, "debug".toList] = ["b_ndebug=if-release".toList, "c_args=-Ddebug=1".toList, "sub:debug=true".toList, "debug".toList] := by
  decide

/-! ### script mode = one invocation per command -/

/-- a script (`meson rewrite command '[c1, c2, …]'`) ends in the same files, and fails at the same command, as one
`meson rewrite` invocation per command — because `run()` re-analyses the files it has just written before the next
command, whatever that command did (for every analysis, every command semantics, every file tree, every script) -/
theorem script_eq_separate_invocations {σ ι κ : Type} (analyze : σ → ι) (step : ι → κ → σ → Option σ)
    (s : σ) (cmds : List κ) : runScript analyze step s cmds = runSeparate analyze step s cmds :=
  runLoop_eq_separate analyze step cmds s

/-- without the re-analysis after an appending command the equality fails: `[target_add 1, use 1]` aborts with the
target unknown (the file already holds it), and `[target_add 1, target_add 1]` is no longer refused -/
theorem script_without_reanalysis_counterexample :
    runSeparate id toyStep [] [.add 1, .use 1] = ([1], true) ∧
    runLoopStale id toyStep toySkip [] [] [.add 1, .use 1] = ([1], false) ∧
    runSeparate id toyStep [] [.add 1, .add 1] = ([1], false) ∧
    runLoopStale id toyStep toySkip [] [] [.add 1, .add 1] = ([1, 1], true) := by decide

example : runScript id toyStep [] [.add 1, .use 1, .add 1] = ([1], false) := by decide

/-! ### which source string a removal takes -/

/-- a string of a list matches a requested file iff, read from the directory that list's strings are relative to,
it names the same normalised path as the request read from the source root -/
theorem find_node_string_matches_iff (relto s root req : List Char) :
    stringMatches relto s root req = true ↔ normpath (joinPath relto s) = normpath (joinPath root req) := by
  simp [stringMatches]

/-- `find_node` can only return positions whose string satisfies that equation, and every such position is offered -/
theorem candMatches_iff (root req : List Char) (c : Cand) (j : Nat) :
    j ∈ candMatches root req c ↔ ∃ s, c.strings[j]? = some s ∧ normpath (joinPath c.relto s) = normpath (joinPath root req) := by
  simp only [candMatches, List.mem_filterMap]
  constructor
  · rintro ⟨⟨s, k⟩, hmem, h⟩
    split at h
    · rename_i hm
      have hk : k = j := by simpa using h
      subst hk
      have := List.mem_zipIdx hmem
      refine ⟨s, ?_, (find_node_string_matches_iff _ _ _ _).mp hm⟩
      simp at this
      simpa using this.2.symm ▸ (List.getElem?_eq_getElem this.1 ▸ rfl)
    · simp at h
  · rintro ⟨s, hs, heq⟩
    refine ⟨(s, j), ?_, ?_⟩
    · have hj : j < c.strings.length := by
        cases hlt : decide (j < c.strings.length) with
        | true => exact of_decide_eq_true hlt
        | false =>
          have : c.strings.length ≤ j := Nat.le_of_not_lt (of_decide_eq_false hlt)
          simp [List.getElem?_eq_none this] at hs
      have hget : c.strings[j] = s := by
        have := List.getElem?_eq_getElem hj
        rw [this] at hs; exact Option.some.inj hs
      rw [List.mem_zipIdx_iff_getElem?]
      simp [hs]
    · simp [(find_node_string_matches_iff _ _ _ _).mpr heq]

/-- the same basename in another directory is not taken; `../` and `./` are seen through -/
example : stringMatches "/r/lib".toList "util.c".toList "/r".toList "lib/util.c".toList = true ∧
    stringMatches "/r".toList "util.c".toList "/r".toList "lib/util.c".toList = false ∧
    stringMatches "/r/app".toList "../lib/./util.c".toList "/r".toList "lib/util.c".toList = true := by decide

/-! ### printer: what is read back -/

/-- what is read back from the printed text is (structurally, `Expr.beq`) the erased tree -/
def roundtripB (e : Expr) : Bool :=
  match parseText (astPrint e) with
  | some p => p.erase == e.erase
  | none => false

def roundtrip (e : Expr) : Prop := roundtripB e = true

instance (e : Expr) : Decidable (roundtrip e) := inferInstanceAs (Decidable (roundtripB e = true))

def astPrint_full_statement : Prop := ∀ e : Expr, e.opsKnown = true → roundtrip e

def idx (c : Char) : Expr := .id 0 [c]

/-! Since /repo b64ff56 a `ParenthesizedNode` prints its parentheses: what the user wrote in parentheses is read back
as the same tree. The former counterexamples (`not (a and b)`, `(a or b) and c`, `(a + b).m()`, `-(-x)`) now round-trip: -/

theorem astPrint_written_parens_samples :
    roundtrip (.not 0 (.paren 0 (.and 0 (idx 'a') (idx 'b')))) ∧
    roundtrip (.and 0 (.paren 0 (.or 0 (idx 'a') (idx 'b'))) (idx 'c')) ∧
    roundtrip (.method 0 (.paren 0 (.arith 0 ['+'] ['+'] (idx 'a') (idx 'b'))) ['m'] 0 .nil) ∧
    roundtrip (.uminus 0 (.paren 0 (.uminus 0 (idx 'x')))) := by decide

/-- the whole operator table with the operand WRITTEN in parentheses: every position (either side of every binary
operator, operand of `not` / unary minus / method call / index, condition of a ternary) × every operand shape is read
back as the same tree -/
theorem written_parens_read_back :
    ∀ s ∈ Slot.all, ∀ i ∈ Inner.all, readsBack (s.place (.paren 0 i.tree)) = true := by decide +kernel

/-- the whole table for operands NOT written in parentheses (nodes the rewriter builds itself): the printed text is read
back as the same tree exactly when the parentheses the grammar needs (`needsParens`, from the precedence table and the
associativity of `Parser.e1 … e9`) are the ones `maybe_parentheses` emits (`emitsParens`, the model of the live rule) -/
theorem paren_table_exact :
    ∀ s ∈ Slot.all, ∀ i ∈ Inner.all,
      readsBack (s.place i.tree) = (!needsParens s i || emitsParens s i) := by decide +kernel

/-- the printer never emits parentheses the grammar does not need -/
theorem no_superfluous_parens : ∀ s ∈ Slot.all, ∀ i ∈ Inner.all, emitsParens s i = true → needsParens s i = true := by
  decide +kernel

/-- operands of an ArithmeticNode — the only place the rewriter itself builds operator nodes — where the rule leaves the
needed parentheses out: `a + (b + c)`, `a + (b - c)`, `a * (b * c)` (same value re-associated) and `a * (b / c)`,
`a * (b % c)` (DIFFERENT value: recorded findings `printer:parens:*:/:right`, `printer:parens:*:%:right`) -/
theorem arithmetic_missing_parens :
    missingParens.filter (fun p => match p.1 with | .left o | .right o => o.isArith | _ => false)
      = [(.right .add, .bin .add), (.right .add, .bin .sub), (.right .mul, .bin .mul), (.right .mul, .bin .div),
         (.right .mul, .bin .mod)] := by decide +kernel

/-- a string holding a quote is not read back while the table maps the quote to itself (state before fbd2b8c) -/
theorem astPrint_quote_counterexample :
    tableOk PrecTable.escapeTrans = false → ¬ roundtrip (.str 0 ['i', 't', '\'', 's'] false false) := by decide

/-- … and IS read back with the live table -/
theorem astPrint_quote_roundtrip_live : roundtrip (.str 0 ['i', 't', '\'', 's'] false false) := by decide

/-- the print/parse statement over ALL trees is false: a tree that needs parentheses but carries no `ParenthesizedNode`
(the parser never builds one; only code constructing nodes can) under a non-arithmetic operator is printed without them -/
theorem astPrint_full_statement_false : ¬ astPrint_full_statement := by
  intro hall
  have h : roundtrip (.not 0 (.and 0 (idx 'a') (idx 'b'))) := hall _ (by decide)
  revert h
  decide

/-- samples of the fragment where the printer is right: atoms, calls, arithmetic with the parentheses it re-creates -/
theorem astPrint_roundtrip_samples :
    roundtrip (.arith 0 ['*'] ['*'] (.paren 0 (.arith 0 ['+'] ['+'] (idx 'a') (idx 'b'))) (.num 0 2)) ∧
    roundtrip (.arith 0 ['-'] ['-'] (idx 'a') (.paren 0 (.arith 0 ['-'] ['-'] (idx 'b') (idx 'c')))) ∧
    roundtrip (.arith 0 ['+'] ['+'] (.paren 0 (.ternary 0 (idx 'x') (idx 'a') (idx 'b'))) (.num 0 1)) ∧
    roundtrip (.call 0 ['f'] 0 (.pos (.str 0 ['a', '\\', 'b'] false false) (.kw (idx 'k') (.bool 0 true) .nil))) ∧
    roundtrip (.arr 0 0 (.pos (.num 0 1) (.pos (.arith 0 ['%'] ['%'] (idx 'n') (.num 0 3)) .nil))) := by decide

/-! ### one whole command on the AST + printer model: `kwargs set / delete` on a function call (Rewrite/Command.lean)

`applyKw raw sp node cmd` = `process_kwargs` on the parsed call node followed by `apply_changes`; the real command is
compared with it on every run (driver command `kwcmd`: file text, extents and tree of the addressed call as parsed from the
text BEFORE the command, the command itself → the file the real command wrote). -/

/-- (c) on the file text, for every file, every call node, every command: nothing changes, or exactly the text between the
node's extents is replaced by the re-printed node — every character before it and after it is what it was -/
theorem kwargs_command_local (raw : List Char) (sp : Span) (node : Expr) (cmd : KwCmd) (s e : Nat)
    (hs : startOf (lineOffsets raw) sp = .ok s) (he : endOf (lineOffsets raw) sp = .ok e) :
    (editCall cmd node = none ∧ applyKw raw sp node cmd = .ok raw) ∨
    ∃ n', editCall cmd node = some n' ∧ applyKw raw sp node cmd = .ok (raw.take s ++ newData n' ++ raw.drop e) := by
  have h := applyKw_eq raw sp node cmd s e hs he
  cases hc : editCall cmd node with
  | none => left; rw [hc] at h; exact ⟨rfl, h⟩
  | some n' => right; rw [hc] at h; exact ⟨n', rfl, h⟩

/-- (c) inside the re-printed statement: same function, same levels, the positional arguments untouched and in order, the
keyword arguments exactly the edited dictionary (in dictionary order), and every keyword the command does not name keeps
the value it had -/
theorem kwargs_command_keeps_other_arguments (cmd : KwCmd) (l : Nat) (fn : List Char) (al : Nat) (items : Items) (n' : Expr)
    (h : editCall cmd (.call l fn al items) = some n') :
    n' = .call l fn al (rebuild items (editedDict cmd items)) ∧
    (rebuild items (editedDict cmd items)).posPart = items.posPart ∧
    (rebuild items (editedDict cmd items)).kwPart = (editedDict cmd items).map (fun p => (Expr.id p.2.lvl p.1, p.2)) ∧
    ∀ k', (∀ kv ∈ cmd.kvs, kv.1 ≠ k') → dictGet (editedDict cmd items) k' = items.kwValue k' := by
  refine ⟨?_, rebuild_posPart _ _, rebuild_kwPart _ _, ?_⟩
  · simp only [editCall] at h
    split at h
    · exact absurd h (by simp)
    · simpa [editedDict] using h.symm
  · intro k' hk
    unfold editedDict Items.kwValue
    exact editDict_other cmd.delete k' _ _ _ (fun kv hkv => hk kv ((mem_sortKvs kv cmd.kvs).mp hkv))

/-- (b) `kwargs set <key> <value>`: the node is queued for re-printing and the addressed keyword has EXACTLY the node built
from the requested value (for every call, every key, every value — no escaping or decoding happens on the way) -/
theorem kwargs_set_has_requested_value (l : Nat) (fn : List Char) (al : Nat) (items : Items) (k : List Char) (v : NewVal) :
    (editCall ⟨false, [(k, v)]⟩ (.call l fn al items)).isSome = true ∧
    dictGet (editedDict ⟨false, [(k, v)]⟩ items) k = some v.node := by
  constructor
  · simp [editCall, sortKvs, insertKv, editDict]
  · simp [editedDict, sortKvs, insertKv, editDict, dictGet_dictSet_self]

/-- `kwargs delete <key>`: afterwards the call has no such keyword -/
theorem kwargs_delete_removes_key (items : Items) (k : List Char) (v : NewVal) :
    dictGet (editedDict ⟨true, [(k, v)]⟩ items) k = none := by
  unfold editedDict
  simp only [sortKvs, insertKv, editDict]
  cases h : dictHas (kwDictOf items) k with
  | true => simp [editDict, dictGet_dictDel_self]
  | false => simp [editDict, dictGet_none_of_not_has k _ h]

/-- (d) setting a keyword the call does not have and deleting it again restores the keyword dictionary, entry for entry and
in order (and both commands do change something: each queues the node) -/
theorem kwargs_set_then_delete_restores (d : KwDict) (k : List Char) (v v' : NewVal) (hnew : dictHas d k = false) :
    editDict true [(k, v')] (editDict false [(k, v)] d 0).1 0 = (d, 1) := by
  simp [editDict, dictHas_dictSet_self, dictDel_dictSet_new d k v.node hnew]

example : dictHas (kwDictOf (.pos (.str 0 ['t'] false false) (.kw (.id 0 ['i']) (.bool 0 true) .nil))) ['k'] = false := by decide

/-- (a), the part that depends on the VALUE: the text written for an introduced string value is one string token whose
value is the requested one, for every value (quotes, backslashes, anything) -/
theorem introduced_string_read_back (v : List Char) : lexString (astPrint (NewVal.str v).node) = some v := by
  show lexString (astPrint (.str 0 v false false)) = some v
  rw [astPrint_str]; exact escape_roundtrip_live v

/-- the statement a `kwargs set` re-prints is read back (own reader) as the edited tree -/
def kwSetReadsBack (items : Items) (k : List Char) (v : NewVal) : Bool :=
  match editCall ⟨false, [(k, v)]⟩ (.call 0 ['f'] 0 items) with
  | some n' =>
    match parseText (newData n') with
    | some p => p.erase == n'.erase
    | none => false
  | none => false

/-- calls whose arguments are literals: positional strings, keywords with string / boolean values -/
def literalOnly : Items → Bool
  | .nil => true
  | .pos (.str _ v false false) r => !v.contains '\n' && literalOnly r
  | .kw (.id _ n) (.str _ v false false) r => !n.isEmpty && n.all isIdChar && !v.contains '\n' && literalOnly r
  | .kw (.id _ n) (.bool _ _) r => !n.isEmpty && n.all isIdChar && literalOnly r
  | _ => false

/-- (a) at full strength for the literal fragment — NOT proved for all items (it needs an induction through `lexText` and
`pE1 … pArgs` with their fuel); checked on the samples below and per run (`kwcmd`, `parse-printed` streams) -/
def kwargs_set_parses_full_statement : Prop :=
  ∀ (items : Items) (k v : List Char), literalOnly items = true → k.all isIdChar = true → (k.head?.map isIdStart) = some true →
    keywords.contains k = false → v.contains '\n' = false → kwSetReadsBack items k (.str v) = true

def sampleItems : Items :=
  .pos (.str 0 ['t', '0'] false false) (.pos (.str 0 ['a', '\'', '\\'] false false)
    (.kw (.id 0 ['i', 'n', 's', 't', 'a', 'l', 'l']) (.bool 0 false) (.kw (.id 0 ['d']) (.str 0 ['x'] false false) .nil)))

def hostileSamples : List (List Char) :=
  ["it's".toList, "'".toList, "''".toList, "\\".toList, "C:/dir\\".toList, "a\\nb".toList, "\\'".toList, "a\\\\b".toList,
   "é中".toList, "@0@".toList, " lead".toList, "trail ".toList, "a\tb".toList, "say \"hi\"".toList, "a#b".toList, "".toList]

/-- (a) + (b) on the text, for hostile values × (existing key replaced / new key appended / key on a call without keywords) -/
theorem kwargs_set_parses_partial :
    ∀ v ∈ hostileSamples,
      kwSetReadsBack sampleItems ['d'] (.str v) = true ∧ kwSetReadsBack sampleItems ['n', 'e', 'w'] (.str v) = true ∧
      kwSetReadsBack (.pos (.str 0 v false false) .nil) ['k'] (.strList [v, v]) = true := by decide +kernel

/-! ### one more whole command: `target <t> add / rm` of source files and extra files (Rewrite/SrcCommand.lean)

`applySrc` = `add_src_or_extra` / `rm_src_or_extra` on the list node the rewriter works on + the "Sort files" step of
`process_target` (with `pathname_sort_key`) + `apply_changes`; every real command of the single-directory families is
compared with it byte for byte (driver command `srccmd`). The theorems speak about the literal-list case: a list node
(`ArrayNode` / `files(...)`) whose positional arguments are all string literals. -/

/-- on the file text: nothing changes, or exactly the text between the list node's extents is replaced -/
theorem src_command_local (raw : List Char) (sp : Span) (node : Expr) (root : List Char) (kind : ListKind)
    (oldT : List (List Char)) (cmd : SrcCmd) (s e : Nat)
    (hs : startOf (lineOffsets raw) sp = .ok s) (he : endOf (lineOffsets raw) sp = .ok e) :
    (editSrc root kind oldT cmd node = none ∧ applySrc raw sp node root kind oldT cmd = .ok raw) ∨
    ∃ n', editSrc root kind oldT cmd node = some n' ∧
      applySrc raw sp node root kind oldT cmd = .ok (raw.take s ++ newData n' ++ raw.drop e) := by
  have h := applySrc_eq raw sp node root kind oldT cmd s e hs he
  cases hc : editSrc root kind oldT cmd node with
  | none => left; rw [hc] at h; exact ⟨rfl, h⟩
  | some n' => right; rw [hc] at h; exact ⟨n', rfl, h⟩

theorem plain_beq_newExtra : (ListKind.plain == ListKind.newExtra) = false := by decide
theorem plain_bne_plain : (ListKind.plain != ListKind.plain) = false := by decide

theorem editArgs_add_plain (root : List Char) (oldT files : List (List Char)) (items : Items) :
    editArgs root .plain oldT ⟨false, files⟩ items
      = some ((itemsOfList (sortArgs false (items.posPart ++ toAppend root oldT files))).append items.kwOnly) := by
  simp [editArgs, plain_beq_newExtra, plain_bne_plain]

theorem editArgs_rm_plain (root : List Char) (oldT files : List (List Char)) (items : Items) :
    editArgs root .plain oldT ⟨true, files⟩ items
      = if (rmAll root files items.posPart 0).2 = 0 then none
        else some ((itemsOfList (sortArgs false (rmAll root files items.posPart 0).1)).append items.kwOnly) := by
  simp [editArgs, plain_bne_plain]

/-- `add`: the list is queued; afterwards it holds exactly the old literals and one new literal `normpath f` for every requested
file that was not yet a file of the target (source set = old ∪ new), sorted; keyword arguments untouched -/
theorem src_add_result (root : List Char) (oldT files : List (List Char)) (items : Items)
    (h : ∀ e ∈ items.posPart, e.isStr = true) :
    ∃ items', editArgs root .plain oldT ⟨false, files⟩ items = some items' ∧
      items'.posPart = sortBy srcLt (items.posPart ++ toAppend root oldT files) ∧ items'.kwPart = items.kwPart ∧
      ∀ e, e ∈ items'.posPart ↔
        (e ∈ items.posPart ∨ ∃ f ∈ files, alreadyThere root oldT f = false ∧ e = .str 0 (normpath f) false false) := by
  have hall : ∀ e ∈ items.posPart ++ toAppend root oldT files, e.isStr = true := by
    intro e he
    rcases List.mem_append.mp he with h1 | h1
    · exact h e h1
    · exact toAppend_isStr root oldT files e h1
  have hp : ((itemsOfList (sortArgs false (items.posPart ++ toAppend root oldT files))).append items.kwOnly).posPart
      = sortBy srcLt (items.posPart ++ toAppend root oldT files) := by
    rw [posPart_relist, sortArgs_plain_allStr _ hall]
  refine ⟨_, editArgs_add_plain root oldT files items, hp, kwPart_relist _ _, ?_⟩
  intro e
  rw [hp, mem_sortBy, List.mem_append, mem_toAppend]

/-- every literal `add` writes is read back as one string token with the value `normpath f` — for every file name -/
theorem src_add_literals_read_back (root : List Char) (oldT files : List (List Char)) :
    ∀ e ∈ toAppend root oldT files, lexString (astPrint e) = some e.strVal := by
  intro e he
  obtain ⟨f, _, _, h⟩ := (mem_toAppend root oldT files e).mp he
  rw [h]
  exact introduced_string_read_back (normpath f)

/-- `rm`: keyword arguments untouched, nothing is invented, and every literal that no requested file matches stays
(source set ⊇ old \ removed and ⊆ old) -/
theorem src_rm_result (root : List Char) (oldT files : List (List Char)) (items items' : Items)
    (h : ∀ e ∈ items.posPart, e.isStr = true)
    (he : editArgs root .plain oldT ⟨true, files⟩ items = some items') :
    items'.kwPart = items.kwPart ∧ (∀ e, e ∈ items'.posPart → e ∈ items.posPart) ∧
    (∀ e ∈ items.posPart, (∀ f ∈ files, srcMatches root f e = false) → e ∈ items'.posPart) := by
  have hsub : ∀ e ∈ (rmAll root files items.posPart 0).1, e.isStr = true :=
    fun e hm => h e (rmAll_subset root files _ 0 e hm)
  have hi : items' = (itemsOfList (sortArgs false (rmAll root files items.posPart 0).1)).append items.kwOnly := by
    rw [editArgs_rm_plain] at he
    split at he
    · exact absurd he (by simp)
    · exact (Option.some.inj he).symm
  have hp : items'.posPart = sortBy srcLt (rmAll root files items.posPart 0).1 := by
    rw [hi, posPart_relist, sortArgs_plain_allStr _ hsub]
  refine ⟨by rw [hi, kwPart_relist], ?_, ?_⟩
  · intro e hm
    rw [hp, mem_sortBy] at hm
    exact rmAll_subset root files _ 0 e hm
  · intro e hm hno
    rw [hp, mem_sortBy]
    exact rmAll_keeps root files _ 0 e hm hno

/-- (d) adding a file the list does not hold and removing it again: both commands queue the node, and the list afterwards holds
exactly the literals it held before (the original source set), keyword arguments untouched -/
theorem src_add_then_rm_restores (root : List Char) (oldT oldT' : List (List Char)) (f : List Char) (items : Items)
    (h : ∀ e ∈ items.posPart, e.isStr = true)
    (hnew : alreadyThere root oldT f = false) (hno : ∀ e ∈ items.posPart, srcMatches root f e = false)
    (hself : stringMatches root (normpath f) root f = true) :
    ∃ items1 items2, editArgs root .plain oldT ⟨false, [f]⟩ items = some items1 ∧
      editArgs root .plain oldT' ⟨true, [f]⟩ items1 = some items2 ∧
      items2.kwPart = items.kwPart ∧ ∀ e, e ∈ items2.posPart ↔ e ∈ items.posPart := by
  have hta : toAppend root oldT [f] = [.str 0 (normpath f) false false] := by
    simp [toAppend, sortedSet, insertSet, hnew]
  obtain ⟨items1, h1, hp1, hk1, _⟩ := src_add_result root oldT [f] items h
  rw [hta] at hp1
  have hpe : srcMatches root f (.str 0 (normpath f) false false) = true := by
    simp [srcMatches, Expr.isStr, Expr.strVal, hself]
  obtain ⟨hflag, hmem⟩ := add_then_rm_core srcLt (srcMatches root f) items.posPart (.str 0 (normpath f) false false) hno hpe
  have hall1 : ∀ e ∈ items1.posPart, e.isStr = true := by
    intro e he
    rw [hp1, mem_sortBy] at he
    rcases List.mem_append.mp he with h2 | h2
    · exact h e h2
    · have : e = .str 0 (normpath f) false false := by simpa using h2
      rw [this]; rfl
  have hrm : rmAll root [f] items1.posPart 0 = ((removeFirst (srcMatches root f) items1.posPart).1, 1) := by
    simp [rmAll, hp1, hflag]
  have hsubR : ∀ e ∈ (removeFirst (srcMatches root f) items1.posPart).1, e.isStr = true :=
    fun e hm => hall1 e (removeFirst_subset _ _ e hm)
  have h2 : editArgs root .plain oldT' ⟨true, [f]⟩ items1
      = some ((itemsOfList (sortArgs false (removeFirst (srcMatches root f) items1.posPart).1)).append items1.kwOnly) := by
    rw [editArgs_rm_plain, hrm]; simp
  refine ⟨items1, _, h1, h2, ?_, ?_⟩
  · rw [kwPart_relist, hk1]
  · intro e
    rw [posPart_relist, sortArgs_plain_allStr _ hsubR, mem_sortBy, hp1]
    exact hmem e

/-- (e) removing a file the list holds once and adding it again (the target's files being the list's literals): the removal
takes it out, the addition is not skipped, and the list afterwards names exactly the files it named before -/
theorem src_rm_then_add_keeps (root : List Char) (oldT : List (List Char)) (f : List Char) (items : Items) (e0 : Expr)
    (h : ∀ e ∈ items.posPart, e.isStr = true) (hnd : items.posPart.Nodup) (hin : e0 ∈ items.posPart)
    (hm : srcMatches root f e0 = true) (huniq : ∀ y ∈ items.posPart, srcMatches root f y = true → y = e0)
    (hval : e0.strVal = normpath f) :
    ∃ items1 items2, editArgs root .plain oldT ⟨true, [f]⟩ items = some items1 ∧
      e0 ∉ items1.posPart ∧
      editArgs root .plain (items1.posPart.map Expr.strVal) ⟨false, [f]⟩ items1 = some items2 ∧
      items2.kwPart = items.kwPart ∧
      ∀ v, v ∈ items2.posPart.map Expr.strVal ↔ v ∈ items.posPart.map Expr.strVal := by
  obtain ⟨hflag, hout, _⟩ := rm_then_add_core srcLt (srcMatches root f) items.posPart e0 hnd hin hm huniq
  have hrm : rmAll root [f] items.posPart 0 = ((removeFirst (srcMatches root f) items.posPart).1, 1) := by
    simp [rmAll, hflag]
  have hsubR : ∀ e ∈ (removeFirst (srcMatches root f) items.posPart).1, e.isStr = true :=
    fun e hm' => h e (removeFirst_subset _ _ e hm')
  have h1 : editArgs root .plain oldT ⟨true, [f]⟩ items
      = some ((itemsOfList (sortArgs false (removeFirst (srcMatches root f) items.posPart).1)).append items.kwOnly) := by
    rw [editArgs_rm_plain, hrm]; simp
  have hp1 : ((itemsOfList (sortArgs false (removeFirst (srcMatches root f) items.posPart).1)).append items.kwOnly).posPart
      = sortBy srcLt (removeFirst (srcMatches root f) items.posPart).1 := by
    rw [posPart_relist, sortArgs_plain_allStr _ hsubR]
  have hall1 : ∀ e ∈ sortBy srcLt (removeFirst (srcMatches root f) items.posPart).1, e.isStr = true :=
    fun e he => hsubR e ((mem_sortBy _ _ _).mp he)
  -- the addition is not skipped: no literal left matches `f`
  have hnone : (sortBy srcLt (removeFirst (srcMatches root f) items.posPart).1).any (srcMatches root f) = false := by
    cases hany : (sortBy srcLt (removeFirst (srcMatches root f) items.posPart).1).any (srcMatches root f) with
    | false => rfl
    | true =>
      obtain ⟨y, hy, hpy⟩ := List.any_eq_true.mp hany
      have hyR := (mem_sortBy _ _ _).mp hy
      have : y = e0 := huniq y (removeFirst_subset _ _ y hyR) hpy
      rw [this] at hyR
      exact absurd hyR hout
  have hskip : alreadyThere root ((sortBy srcLt (removeFirst (srcMatches root f) items.posPart).1).map Expr.strVal) f = false := by
    rw [alreadyThere_eq_any root f _ hall1, hnone]
  obtain ⟨items2, h2, hp2, hk2, hmem2⟩ := src_add_result root
    ((sortBy srcLt (removeFirst (srcMatches root f) items.posPart).1).map Expr.strVal) [f]
    ((itemsOfList (sortArgs false (removeFirst (srcMatches root f) items.posPart).1)).append items.kwOnly)
    (by rw [hp1]; exact hall1)
  refine ⟨_, items2, h1, ?_, ?_, ?_, ?_⟩
  · rw [hp1, mem_sortBy]; exact hout
  · rw [hp1]; exact h2
  · rw [hk2, kwPart_relist]
  · intro v
    simp only [List.mem_map]
    constructor
    · rintro ⟨e, he, rfl⟩
      rcases (hmem2 e).mp he with h3 | ⟨g, hg, _, heq⟩
      · rw [hp1, mem_sortBy] at h3
        exact ⟨e, removeFirst_subset _ _ e h3, rfl⟩
      · have hgf : g = f := by simpa using hg
        refine ⟨e0, hin, ?_⟩
        rw [heq, hgf, hval]; rfl
    · rintro ⟨e, he, rfl⟩
      cases hpe : srcMatches root f e with
      | true =>
        have : e = e0 := huniq e he hpe
        refine ⟨.str 0 (normpath f) false false, (hmem2 _).mpr (Or.inr ⟨f, by simp, hskip, rfl⟩), ?_⟩
        rw [this, hval]; rfl
      | false =>
        refine ⟨e, (hmem2 e).mpr (Or.inl ?_), rfl⟩
        rw [hp1, mem_sortBy]
        exact removeFirst_keeps _ _ e he hpe

/-- the hypotheses of (d) and (e) are satisfiable (`['a.c', 'b.c']`, file `n.c` resp. `a.c`) -/
example : alreadyThere ['/', 'r'] [['a', '.', 'c'], ['b', '.', 'c']] ['n', '.', 'c'] = false ∧
    stringMatches ['/', 'r'] (normpath ['n', '.', 'c']) ['/', 'r'] ['n', '.', 'c'] = true ∧
    srcMatches ['/', 'r'] ['n', '.', 'c'] (.str 1 ['a', '.', 'c'] false false) = false ∧
    srcMatches ['/', 'r'] ['a', '.', 'c'] (.str 1 ['a', '.', 'c'] false false) = true ∧
    (Expr.str 1 ['a', '.', 'c'] false false).strVal = normpath ['a', '.', 'c'] := by decide

/-- the sort step on a concrete list: directories before files, numbers by value, case folded (`pathname_sort_key`) -/
example : (sortBy srcLt [.str 0 "b.c".toList false false, .str 0 "a10.c".toList false false, .str 0 "sub/z.c".toList false false,
    .str 0 "A2.c".toList false false]).map Expr.strVal = ["sub/z.c".toList, "A2.c".toList, "a10.c".toList, "b.c".toList] := by decide

end MesonModel.Props.C17
