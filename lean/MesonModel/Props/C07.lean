import MesonModel.Options.InvOps
import MesonModel.Options.MergeLemmas
import MesonModel.Options.TopLemmas
import MesonModel.Options.WfOps
import MesonModel.Options.ParentOps
import MesonModel.Options.SubLemmas
import MesonModel.Options.ChangedLemmas
import MesonModel.Options.ComposeLemmas
/-
C07 — option values resolve by the documented precedence and are always valid.
Statements over the model `MesonModel.Options` (options.py:356-640, 773-1417; cmdline.py:222-241).
-/
namespace MesonModel.Props.C07
open MesonModel.Options MesonModel.Options.M

/-! ## validity: "a value violating an option's type, choices or range is always rejected and a stored
value always satisfies them" -/

/-- whatever `validate_value` accepts, the value it returns satisfies the option's type, choices and range -/
theorem validate_result_conforms (k : Kind) (v v' : Val) (h : validate k v = .ok v') : conforms k v' = true :=
  validate_sound h

/-- a typed value that satisfies the option is accepted and stored unchanged -/
theorem conforming_value_accepted (k : Kind) (v : Val) (h : conforms k v = true) : validate k v = .ok v :=
  validate_of_conforms h

/-- a value of the option's own type that violates its choices or range is rejected with `MesonException` -/
theorem nonconforming_value_rejected (k : Kind) (v : Val) (ht : nativeType k v = true)
    (hc : conforms k v = false) : validate k v = .error .meson :=
  validate_rejects_nonconforming ht hc

/-- `stored_value_valid`: after any sequence of API calls — whatever their arguments, and including calls
that raise half-way — every option object (reachable or stale) holds a value of its own type, within its
choices and range.  Induction over the call sequence; each call is covered by `Pres.applyOp`. -/
theorem stored_value_valid (ops : List Op) (s : Store) (h : HeapValid s) : HeapValid (run s ops) := by
  induction ops generalizing s with
  | nil => exact h
  | cons op r ih => exact ih _ ((Pres.applyOp op).run s h)

theorem stored_value_valid_from_new (ops : List Op) (cross : Bool) : HeapValid (run (Store.new cross) ops) :=
  stored_value_valid ops _ (by intro o ho; simp [Store.new] at ho)

/-- in particular: whatever `get_value_for` returns for an option without override is a legal value of the
object it was read from (own value), or of the parent it yields to -/
theorem own_value_conforms (ops : List Op) (cross : Bool) (id : Nat) (o : Obj)
    (ho : (run (Store.new cross) ops).heap[id]? = some o) : conforms o.kind o.value = true :=
  stored_value_valid_from_new ops cross o (List.mem_of_getElem? ho)

/-! ### validity of *effective* values (what `get_value_for` reports, own or yielded) -/

/-- `yielding_parent_same_kind`: `add_project_option` links a parent only when `type(parent) is type(valobj)`;
as an invariant of every call sequence, a linked parent always has the child's class (same constructor —
a feature option is *not* a combo option, although `UserFeatureOption` subclasses `UserComboOption`) -/
theorem yielding_parent_same_kind (ops : List Op) (cross : Bool) (i pid : Nat) (o : Obj)
    (ho : (run (Store.new cross) ops).heap[i]? = some o) (hp : o.parent = some pid) :
    ∃ p : Obj, (run (Store.new cross) ops).heap[pid]? = some p ∧ p.kind.sameClass o.kind = true :=
  parentOk_run ops _ (parentOk_new cross) i o pid ho hp

/-- the Python type(s) an option class stores -/
def classType : Kind → Val → Bool
  | .string, .str _ => true
  | .boolean, .bool _ => true
  | .integer _ _, .int _ => true
  | .umask, .int _ => true
  | .umask, .str _ => true
  | .combo _, .str _ => true
  | .feature, .str _ => true
  | .array _, .arr _ => true
  | _, _ => false

theorem classType_of_conforms {k : Kind} {v : Val} (h : conforms k v = true) : classType k v = true := by
  cases k <;> cases v <;> simp_all [conforms, classType]

theorem classType_sameClass {k k' : Kind} {v : Val} (h : k.sameClass k' = true) (hv : classType k v = true) :
    classType k' v = true := by
  cases k <;> cases k' <;> simp_all [Kind.sameClass, classType] <;> cases v <;> simp_all [classType]

/-- what an option reports without override — its own value or, when yielding, its parent's — always has the
type of the option's *own* class, in every reachable store -/
theorem effective_value_has_own_type (ops : List Op) (cross : Bool) (k : Key) (id : Nat) (o : Obj) (v : Val)
    (hr : resolveId (run (Store.new cross) ops) (ensureKey (run (Store.new cross) ops) k) = .ok id)
    (ho : (run (Store.new cross) ops).heap[id]? = some o)
    (ha : alookup (ensureKey (run (Store.new cross) ops) k) (run (Store.new cross) ops).augments = none)
    (hv : getValueFor (run (Store.new cross) ops) k = .ok v) : classType o.kind v = true := by
  have hval := stored_value_valid_from_new ops cross
  have hpar := parentOk_run ops _ (parentOk_new cross)
  generalize run (Store.new cross) ops = s at *
  simp only [getValueFor, getIdAndValue, hr, ho, ha] at hv
  by_cases hy : o.yielding = true
  · simp only [hy, ↓reduceIte] at hv
    cases hp : o.parent with
    | none => simp [hp, Except.map] at hv
    | some pid =>
      obtain ⟨p, hpp, hsame⟩ := hpar id o pid ho hp
      simp [hp, hpp, Except.map] at hv
      subst hv
      exact classType_sameClass hsame (classType_of_conforms (hval p (List.mem_of_getElem? hpp)))
  · simp [hy, Except.map] at hv
    subst hv
    exact classType_of_conforms (hval o (List.mem_of_getElem? ho))

/-- the full statement "an effective value satisfies the option's own type, choices and range" … -/
def effective_value_valid_full : Prop :=
  ∀ (ops : List Op) (cross : Bool) (k : Key) (id : Nat) (o : Obj) (v : Val),
    resolveId (run (Store.new cross) ops) (ensureKey (run (Store.new cross) ops) k) = .ok id →
    (run (Store.new cross) ops).heap[id]? = some o →
    alookup (ensureKey (run (Store.new cross) ops) k) (run (Store.new cross) ops).augments = none →
    getValueFor (run (Store.new cross) ops) k = .ok v → conforms o.kind v = true

def ymTop : Key := ⟨"ym".toList, some [], .host⟩
def ymSub : Key := ⟨"ym".toList, some "sub".toList, .host⟩
def ymOps : List Op :=
  [.addProject ymTop { kind := .combo ["a".toList, "b".toList, "c".toList], default := .str "c".toList },
   .addProject ymSub { kind := .combo ["a".toList, "b".toList], default := .str "a".toList, yielding := true }]

/-- … is false of the code: a yielding combo option with choices `[a, b]` reports `c` when the same-class
parent, whose choices are `[a, b, c]`, holds `c` (recorded finding `effective-value-invalid:yield:C->C`;
classes are compared, choices and ranges are not) -/
theorem effective_value_valid_counterexample : ¬ effective_value_valid_full := by
  intro h
  have := h ymOps false ymSub 1
    { kind := .combo ["a".toList, "b".toList], value := .str "a".toList, default := .str "a".toList,
      yielding := true, readonly := false, parent := some 0 } (.str "c".toList) (by rfl) (by rfl) (by rfl) (by rfl)
  revert this
  decide

/-- `effective_value_valid_partial`: it holds whenever the linked parent is declared with the same class *and*
limits (`p.kind = o.kind`), in particular for every non-yielding option -/
theorem effective_value_valid_partial (ops : List Op) (cross : Bool) (k : Key) (id : Nat) (o : Obj) (v : Val)
    (hr : resolveId (run (Store.new cross) ops) (ensureKey (run (Store.new cross) ops) k) = .ok id)
    (ho : (run (Store.new cross) ops).heap[id]? = some o)
    (ha : alookup (ensureKey (run (Store.new cross) ops) k) (run (Store.new cross) ops).augments = none)
    (hsame : o.yielding = true → ∀ pid p, o.parent = some pid →
      (run (Store.new cross) ops).heap[pid]? = some p → p.kind = o.kind)
    (hv : getValueFor (run (Store.new cross) ops) k = .ok v) : conforms o.kind v = true := by
  have hval := stored_value_valid_from_new ops cross
  generalize run (Store.new cross) ops = s at *
  simp only [getValueFor, getIdAndValue, hr, ho, ha] at hv
  by_cases hy : o.yielding = true
  · simp only [hy, ↓reduceIte] at hv
    cases hp : o.parent with
    | none => simp [hp, Except.map] at hv
    | some pid =>
      cases hpp : s.heap[pid]? with
      | none => simp [hp, hpp, Except.map] at hv
      | some p =>
        simp [hp, hpp, Except.map] at hv
        subst hv
        rw [← hsame hy pid p hp hpp]
        exact hval p (List.mem_of_getElem? hpp)
  · simp [hy, Except.map] at hv
    subst hv
    exact hval o (List.mem_of_getElem? ho)

/-- the "did the declaration change?" test of `update_project_options` (`type(old) is type(new)` and
`choices_are_different`) sees **every** constraint: two declarations it calls unchanged are the same declaration —
same class, same choices, same minimum and maximum, a bound that is introduced or removed included.  Hence an
object that is kept validates exactly as the declaration in force does. -/
theorem unchanged_declaration_is_equal (k k' : Kind) (hc : k.sameClass k' = true)
    (hd : k.choicesDiffer k' = false) : k = k' := by
  cases k <;> cases k' <;> simp_all [Kind.sameClass, Kind.choicesDiffer]

/-- `invalid_rejected`: `set_option` on an existing option (no prefix/builtin sanitisation in the way) with a
value its class rejects raises, and the store is exactly what it was -/
theorem invalid_rejected (s : Store) (k : Key) (v : Val) (first : Bool) (id : Nat) (o : Obj) (e : Err)
    (hn : (k.name == sPrefix) = false) (hb : s.isBuiltin k = false)
    (hr : resolveId s k = .ok id) (ho : s.heap[id]? = some o) (hv : validate o.kind v = .error e) :
    setOption k v first s = (.error e, s) := by
  simp [setOption, setOptionCore, setOptionTail, sanitizeForSet, resolveForSet, Bind.bind, M.bind, M.get, hn, hb, hr,
    M.pure, getObj, ho, hv, M.ofExcept, M.fail]

/-- the hypotheses of `invalid_rejected` are satisfiable: combo option `opt`, value outside the choices -/
example : ∃ s k v id o e, (k.name == sPrefix) = false ∧ s.isBuiltin k = false ∧ resolveId s k = .ok id ∧
    s.heap[id]? = some o ∧ validate o.kind v = .error e :=
  ⟨run (Store.new false) [.addSystem ⟨"opt".toList, none, .host⟩ { kind := .combo ["a".toList, "b".toList], default := .str "a".toList }],
   ⟨"opt".toList, none, .host⟩, .str "zz".toList, 0,
   { kind := .combo ["a".toList, "b".toList], value := .str "a".toList, default := .str "a".toList,
     yielding := false, readonly := false, parent := none }, .meson, by decide, by decide, by rfl, by rfl, by rfl⟩

/-! ## effective value: override > yielding parent > own value (options.py:855-864) -/

/-- the effective value of `k` in terms of the object `resolve_option` returns -/
theorem effective_value (s : Store) (k : Key) (id : Nat) (o : Obj)
    (hr : resolveId s (ensureKey s k) = .ok id) (ho : s.heap[id]? = some o) :
    getValueFor s k =
      match alookup (ensureKey s k) s.augments with
      | some v => if (ensureKey s k).sub.isNone then .error .assertion else .ok v
      | none =>
        if o.yielding then
          match o.parent with
          | none => .error .attribute
          | some pid => (match s.heap[pid]? with | some p => .ok p.value | none => .error .unsupported)
        else .ok o.value := by
  simp only [getValueFor, getIdAndValue, hr, ho]
  cases alookup (ensureKey s k) s.augments with
  | some v => by_cases hs : (ensureKey s k).sub.isNone <;> simp [hs, Except.map]
  | none =>
    by_cases hy : o.yielding
    · cases hp : o.parent with
      | none => simp [hy, hp, Except.map]
      | some pid => cases hh : s.heap[pid]? <;> simp [hy, hp, hh, Except.map]
    · simp [hy, Except.map]

/-- a per-subproject override beats everything else -/
theorem override_wins (s : Store) (k : Key) (id : Nat) (o : Obj) (v : Val) (sub : Str)
    (hr : resolveId s (ensureKey s k) = .ok id) (ho : s.heap[id]? = some o)
    (ha : alookup (ensureKey s k) s.augments = some v) (hs : (ensureKey s k).sub = some sub) :
    getValueFor s k = .ok v := by
  rw [effective_value s k id o hr ho, ha]; simp [hs]

/-- `yielding_takes_parent`: a yielding option without override has the *parent object's* value -/
theorem yielding_takes_parent (s : Store) (k : Key) (id pid : Nat) (o p : Obj)
    (hr : resolveId s (ensureKey s k) = .ok id) (ho : s.heap[id]? = some o)
    (ha : alookup (ensureKey s k) s.augments = none)
    (hy : o.yielding = true) (hp : o.parent = some pid) (hh : s.heap[pid]? = some p) :
    getValueFor s k = .ok p.value := by
  rw [effective_value s k id o hr ho, ha]; simp [hy, hp, hh]

/-- otherwise the option's own value -/
theorem own_value_otherwise (s : Store) (k : Key) (id : Nat) (o : Obj)
    (hr : resolveId s (ensureKey s k) = .ok id) (ho : s.heap[id]? = some o)
    (ha : alookup (ensureKey s k) s.augments = none) (hy : o.yielding = false) :
    getValueFor s k = .ok o.value := by
  rw [effective_value s k id o hr ho, ha]; simp [hy]


/-! ## what the mutating calls report, and what hangs on it

`set_option` returns `changed`; `meson configure` saves only when some call reported a change, and the
`buildtype` → `debug`/`optimization` expansion runs only then.  So for the property ("the value from the
highest-priority source is the effective one", the command line of `meson configure` being the latest such source)
the report must be: *the effective value for that key changed*. -/

/-- **per-project override (`:n` or `sub:n`, only the global option object exists), every store, option class, value,
prior override `x` and `first_invocation`**: `set_option` completes (the option is not read-only, or this is a first
invocation), reports `changed` **iff the value the project saw before — its stored override, else the global value —
differs from the new one**, and afterwards the project sees the new value, whatever the old override was.  Nothing
else the project or anyone else sees is touched: heap, key table and every other override are as before. -/
theorem set_override_reports_change_iff_effective_value_changes (s : Store) (ks : Key) (v w : Val) (first : Bool)
    (id : Nat) (o : Obj) (x : Option Val) (sub : Str) (hm : ks.machine = .host) (hs : ks.sub = some sub)
    (hn : (ks.name == sPrefix) = false) (hbt : (ks.name == sBuildtype) = false)
    (g : GoodSub ks id s o x) (hv : validate o.kind v = .ok w) (hro : o.readonly = false ∨ first = true) :
    ∃ changed s', setOption ks v first s = (.ok changed, s') ∧
      (changed = true ↔ getValueFor s ks ≠ .ok w) ∧
      getValueFor s' ks = .ok w ∧
      s'.heap = s.heap ∧ s'.options = s.options ∧ (∀ k', k' ≠ ks → alookup k' s'.augments = alookup k' s.augments) := by
  refine ⟨x.getD o.value != w, { s with augments := ainsert ks w s.augments }, ?_, ?_, ?_, rfl, rfl, ?_⟩
  · rw [setOption_override s ks v w first id o x sub hm hs hn hbt g hv]
    have hne : (o.readonly && (x.getD o.value != w) && !first) = false := by
      rcases hro with h | h <;> simp [h]
    simp only [hne, Bool.false_eq_true, ↓reduceIte]
  · rw [g.value hm sub hs]
    by_cases e : x.getD o.value = w <;> simp [e]
  · exact (g.afterSet w).value hm sub hs
  · intro k' hk'
    simp [alookup_ainsert, Ne.symm hk']

/-- a read-only option: the same call outside a first invocation raises exactly when the value would change (after
the override was written, as in Python: the exception escapes, nothing is rolled back) -/
theorem set_override_readonly_raises_iff_changed (s : Store) (ks : Key) (v w : Val) (id : Nat) (o : Obj)
    (x : Option Val) (sub : Str) (hm : ks.machine = .host) (hs : ks.sub = some sub)
    (hn : (ks.name == sPrefix) = false) (hbt : (ks.name == sBuildtype) = false)
    (g : GoodSub ks id s o x) (hv : validate o.kind v = .ok w) (hro : o.readonly = true) :
    (getValueFor s ks = .ok w → (setOption ks v false s).1 = .ok false) ∧
    (getValueFor s ks ≠ .ok w → (setOption ks v false s).1 = .error .meson) := by
  rw [setOption_override s ks v w false id o x sub hm hs hn hbt g hv, g.value hm sub hs]
  by_cases e : x.getD o.value = w <;> simp [e, hro]

/-- the same through `set_user_option` (any `first_invocation`) and through `set_from_configure_command` (what
`meson configure -Dsub:n=v` runs): `dirty` is reported **iff** the value the project sees changes -/
theorem configure_override_dirty_iff_effective_value_changes (s : Store) (ks : Key) (v w : Val)
    (id : Nat) (o : Obj) (x : Option Val) (sub : Str) (hm : ks.machine = .host) (hs : ks.sub = some sub)
    (hn : (ks.name == sPrefix) = false) (hbt : (ks.name == sBuildtype) = false)
    (g : GoodSub ks id s o x) (hv : validate o.kind v = .ok w) (hro : o.readonly = false) :
    ∃ dirty s', setFromConfigureCommand [(ks, some v)] s = (.ok dirty, s') ∧
      (dirty = true ↔ getValueFor s ks ≠ .ok w) ∧ getValueFor s' ks = .ok w := by
  obtain ⟨c, s', h1, h2, h3, _⟩ := set_override_reports_change_iff_effective_value_changes s ks v w false id o x sub hm hs
    hn hbt g hv (Or.inl hro)
  refine ⟨c, s', ?_, h2, h3⟩
  simp [setFromConfigureCommand, buildtypeFirst, hbt, setFromConfigure, configureOne, M.bind,
    setUserOption_override_eq s ks v false id o x sub hm hs g, h1, M.pure]

/-- **a registered, non-yielding option (global `n`, or a project option under its own key)**, every store, class,
value and `first_invocation`: `changed` **iff** its effective value changes, and afterwards it is the new value -/
theorem set_registered_reports_change_iff_effective_value_changes (s : Store) (k : Key) (v w : Val) (first : Bool)
    (id : Nat) (o : Obj) (hm : k.machine = .host)
    (hn : (k.name == sPrefix) = false) (hbt : (k.name == sBuildtype) = false)
    (g : Good k id s o) (hv : validate o.kind v = .ok w) (hro : o.readonly = false ∨ first = true) :
    ∃ changed s', setOption k v first s = (.ok changed, s') ∧
      (changed = true ↔ getValueFor s k ≠ .ok w) ∧ getValueFor s' k = .ok w := by
  refine ⟨o.value != w, _, ?_, ?_, (g.afterSet w).value hm⟩
  · rw [setOption_existing s k v w first id o hm hn hbt g hv]
    have hne : (o.readonly && (o.value != w) && !first) = false := by
      rcases hro with h | h <;> simp [h]
    simp only [hne, Bool.false_eq_true, ↓reduceIte]
  · rw [g.value hm]
    by_cases e : o.value = w <;> simp [e]

/-! ### `buildtype` given again for one project carries that project's `debug`/`optimization`

through the whole state machine on the builtin table: for the top-level project (`:buildtype`) and a subproject
(`sub:buildtype`), from every prior state — no override, or an override of any buildtype of the table, its dependents
in place — to every buildtype of the table, in particular **back to the value the global option has**; set through
`set_option`, `set_user_option` or `set_from_configure_command`. -/

def btAgain (sub : Str) (setter : Fin 3) (old : Option Str) (new : Str) : Option Val × Option Val × Option Val :=
  let k (n : Str) : Key := ⟨n, some sub, .host⟩
  let setOp (v : Str) : Op :=
    match setter.val with
    | 0 => .setOption (k sBuildtype) (.str v) false
    | 1 => .setUser (k sBuildtype) (.str v) false
    | _ => .configure [(k sBuildtype, some (.str v))]
  let s := run (coreDataInit (Store.new false)).2
    ((match old with | some b => [setOp b] | none => []) ++ [setOp new])
  ((getValueFor s (k sBuildtype)).toOption, (getValueFor s (k sDebug)).toOption, (getValueFor s (k sOptimization)).toOption)

theorem buildtype_given_again_carries_dependents :
    ∀ sub ∈ [[], "sub".toList], ∀ (setter : Fin 3), ∀ old ∈ none :: Tables.defaultDependents.map (fun r => some r.1),
      ∀ row ∈ Tables.defaultDependents,
        btAgain sub setter old row.1 = (some (.str row.1), some (.bool row.2.2), some (.str row.2.1)) := by
  decide +kernel

/-- "`buildtype` sets `debug`/`optimization` unless they are given explicitly" for a **per-project** buildtype
(`:buildtype`, `sub:buildtype`) on one `meson configure` command line, in either textual order, and for `-D:buildtype`
on the `meson setup` command line (after the repair of `set_from_configure_command` and
`initialize_from_top_level_project_call`, which now move every `buildtype` entry to the front; before it the explicit
value listed *before* the buildtype was overwritten: `-Dsub:optimization=g -Dsub:buildtype=release` gave `3`) -/
def configure_buildtype_unless_explicit_full : Prop :=
  ∀ sub ∈ [[], "sub".toList], ∀ (explicitFirst : Bool),
    let k (n : Str) : Key := ⟨n, some sub, .host⟩
    let bt : Key × Option Val := (k sBuildtype, some (.str "release".toList))
    let conf (a : Key × Option Val) : Store :=
      run (coreDataInit (Store.new false)).2 [.configure (if explicitFirst then [a, bt] else [bt, a])]
    (getValueFor (conf (k sOptimization, some (.str "g".toList))) (k sOptimization)).toOption = some (.str "g".toList) ∧
    (getValueFor (conf (k sDebug, some (.bool true))) (k sDebug)).toOption = some (.bool true) ∧
    (getValueFor (conf (k sDebug, some (.bool true))) (k sOptimization)).toOption = some (.str "3".toList)

theorem configure_buildtype_unless_explicit : configure_buildtype_unless_explicit_full := by
  unfold configure_buildtype_unless_explicit_full
  decide +kernel

/-- the same on the `meson setup` command line for the top-level project's own `-D:buildtype` (the re-ordering in
`cmdline.py` only knows the global key) -/
theorem setup_root_buildtype_unless_explicit : ∀ (explicitFirst : Bool),
    let k (n : Str) : Key := ⟨n, some [], .host⟩
    let bt : Key × Val := (k sBuildtype, .str "release".toList)
    let setup (a : Key × Val) : Store :=
      run (coreDataInit (Store.new false)).2 [.initTop [] (reorderCmd (if explicitFirst then [a, bt] else [bt, a])) []]
    (getValueFor (setup (k sOptimization, .str "1".toList)) (k sOptimization)).toOption = some (.str "1".toList) ∧
    (getValueFor (setup (k sDebug, .bool true)) (k sDebug)).toOption = some (.bool true) := by
  decide +kernel

/-! ## the documented eight-step order for subprojects -/

/-- `subproject_precedence`, merge level, **for arbitrary input dicts**: what `initialize_from_subproject_call`
applies for option `n` of subproject `sub` is the highest-priority source present, in the documented order
8 > 7 > 6 > 5 > (4,3: global value stands) > 2.  (Source 1, and 3/4 themselves, were applied to the global
option by the top-level call; `effective_value` says the override, when present, wins over it.)
`alast` is the binding of a key in a dict (`alast_eq_alookup`). -/
theorem subproject_merge_precedence (sub n : Str) (m : Machine) (po : List Key) (ps spcall pdo cmd mf d : Dict)
    (h : mergeSub po ps sub spcall pdo cmd mf = .ok d) :
    alookup ⟨n, some sub, m⟩ d =
      ofirst (alast ⟨n, some sub, m⟩ cmd)
      (ofirst (alast ⟨n, some sub, m⟩ mf)
      (ofirst (alast ⟨n, none, m⟩ spcall)
      (ofirst (alast ⟨n, some sub, m⟩ ps)
      (if ((alast ⟨n, none, m⟩ cmd).isSome || (alast ⟨n, none, m⟩ mf).isSome)
            && !(po.contains ⟨n, some [], m⟩) then none
       else alast ⟨n, none, m⟩ pdo)))) :=
  mergeSub_lookup sub n m po ps spcall pdo cmd mf d h

theorem dict_binding_is_lookup (k : Key) (d : Dict) (h : (d.map Prod.fst).Nodup) : alast k d = alookup k d :=
  alast_eq_alookup k d h

example : mergeSub [] [] "sub".toList [] [(⟨"o".toList, none, .host⟩, .str "x".toList)] [] [] =
    .ok [(⟨"o".toList, some "sub".toList, .host⟩, .str "x".toList)] := by rfl

/-! ## top-level precedence through the whole call, generally

`Good k id s o` (Options/TopLemmas.lean) says: option `k` exists in `s` with object `id`, which currently is
`o`, is not yielding, has no override, is not a builtin (no path sanitisation), and no option of another
name shares its object (`OwnObject`; objects are allocated per key). -/

/-- `toplevel_precedence`: **for every store, every option class, all values and arbitrary dicts** (any other
options, valid or not, `buildtype`, subproject and build-machine keys, pending options; only `prefix` entries
and other variants of the same name are excluded): if `initialize_from_top_level_project_call` completes, the
option holds the cleaned value of the first source that gives it in the order command line, machine file,
`project(default_options)`, and otherwise what it held before (its declared default).  All 2^4 subsets of the
sources are instances (each `alast k d` is `some _` or `none`). -/
theorem toplevel_precedence (k : Key) (id : Nat) (s s' : Store) (o : Obj) (pdo cmd mf : Dict)
    (hm : k.machine = .host) (hs : k.sub = none)
    (hn : (k.name == sPrefix) = false) (hbt : (k.name == sBuildtype) = false)
    (hd : k.name ≠ sDebug ∧ k.name ≠ sOptimization)
    (hnp : (Tables.nopfxTable.map (·.1)).contains k.name = false)
    (g : Good k id s o)
    (h1 : NoPrefix pdo) (h2 : NoPrefix cmd) (h3 : NoPrefix mf)
    (hp : ∀ kv ∈ pdo, kv.1 = k ∨ kv.1.name ≠ k.name)
    (hc : ∀ kv ∈ cmd, kv.1 = k ∨ kv.1.name ≠ k.name)
    (hf : ∀ kv ∈ mf, kv.1 = k ∨ kv.1.name ≠ k.name)
    (hrun : initTop pdo cmd mf s = (.ok (), s')) :
    getValueFor s' k = .ok
      (match ofirst (alast k cmd) (ofirst (alast k mf) (alast k pdo)) with
       | some v => cleaned o.kind v
       | none => o.value) :=
  initTop_value k id s s' o pdo cmd mf hm hs hn hbt hd hnp g h1 h2 h3 hp hc hf hrun

/-- heap-id distinctness is an invariant of every call sequence: in every reachable store each key has its
own object, inside the heap -/
theorem object_table_wellformed (ops : List Op) (cross : Bool) : Wf (run (Store.new cross) ops) :=
  wf_run ops _ (wf_new cross)

/-- `toplevel_precedence` for every store the API can produce: the `OwnObject` hypothesis is discharged by the
invariant, what remains are the facts about option `k` itself -/
theorem toplevel_precedence_reachable (ops : List Op) (cross : Bool) (k : Key) (id : Nat) (s' : Store) (o : Obj)
    (pdo cmd mf : Dict)
    (hm : k.machine = .host) (hs : k.sub = none)
    (hn : (k.name == sPrefix) = false) (hbt : (k.name == sBuildtype) = false)
    (hd : k.name ≠ sDebug ∧ k.name ≠ sOptimization)
    (hnp : (Tables.nopfxTable.map (·.1)).contains k.name = false)
    (hopt : alookup k (run (Store.new cross) ops).options = some id)
    (hobj : (run (Store.new cross) ops).heap[id]? = some o)
    (hnb : (run (Store.new cross) ops).isBuiltin k = false)
    (haug : alookup k (run (Store.new cross) ops).augments = none)
    (hny : o.yielding = false)
    (h1 : NoPrefix pdo) (h2 : NoPrefix cmd) (h3 : NoPrefix mf)
    (hp : ∀ kv ∈ pdo, kv.1 = k ∨ kv.1.name ≠ k.name)
    (hc : ∀ kv ∈ cmd, kv.1 = k ∨ kv.1.name ≠ k.name)
    (hf : ∀ kv ∈ mf, kv.1 = k ∨ kv.1.name ≠ k.name)
    (hrun : initTop pdo cmd mf (run (Store.new cross) ops) = (.ok (), s')) :
    getValueFor s' k = .ok
      (match ofirst (alast k cmd) (ofirst (alast k mf) (alast k pdo)) with
       | some v => cleaned o.kind v
       | none => o.value) :=
  toplevel_precedence k id _ s' o pdo cmd mf hm hs hn hbt hd hnp
    ⟨hopt, hobj, (object_table_wellformed ops cross).ownObject hopt, hnb, haug, hny⟩ h1 h2 h3 hp hc hf hrun

/-- the frame lemma it rests on: a `set_user_option` for an option of another name — whatever it does: write
an object, write an override, expand `buildtype`, reset the prefix directories, park a pending value, raise —
leaves everything `get_value_for k` depends on unchanged -/
theorem set_user_option_frame (k : Key) (id : Nat) (key : Key) (v : Val) (first : Bool) (s : Store)
    (hname : key.name ≠ k.name) (hnp : (Tables.nopfxTable.map (·.1)).contains k.name = false)
    (hd : key.name = sBuildtype → k.name ≠ sDebug ∧ k.name ≠ sOptimization)
    (hown : OwnObject k.name id s) : SameObs k id s (setUserOption key v first s).2 :=
  (Fr.setUserOption k id key v first hname hnp hd).run s hown

/-! ## subproject precedence through the whole call, generally

`GoodSub ks id s o x` (Options/SubLemmas.lean): the option is a global one (object `id` = `o`, not yielding, own
object), the subproject has no option object of its own under `ks = sub:n`, it is not a builtin with path
sanitisation, and `x` is the per-subproject override present before the call (`none` on a first configuration). -/

/-- `subproject_precedence`: **for every store, option class, all values and arbitrary input dicts** (any other
options, valid or not, `buildtype`, other subprojects, pending options; entries naming `n` must be host-machine
keys): if `initialize_from_subproject_call` completes, what subproject `sub` sees for option `n` is
* an override that already existed (`x`), else
* the cleaned value of the **last defined** source among the documented steps
  8 command line `sub:n`, 7 machine file `sub:n`, 6 `subproject(default_options:)`, 5 parent `sub:n`
  (`pending_subproject_options`, recorded by the top-level call), 2 the subproject's own `default_options` —
  step 2 only when neither machine file (3) nor command line (4) give the global `n` (or `n` is a top-level
  project option), else
* the global value `o.value`, which by `toplevel_precedence` is the first of steps 4, 3, 1, default.
All 2^8 subsets of the sources are instances. -/
theorem subproject_precedence (n sub : Str) (id : Nat) (s s' : Store) (o : Obj) (x : Option Val)
    (spcall pdo cmd mf : Dict)
    (hn : (n == sPrefix) = false) (hbt : (n == sBuildtype) = false)
    (hdn : n ≠ sDebug ∧ n ≠ sOptimization)
    (hnp : (Tables.nopfxTable.map (·.1)).contains n = false)
    (g : GoodSub ⟨n, some sub, .host⟩ id s o x)
    (hin : ∀ k ∈ (pdo ++ spcall ++ s.pendingSub ++ mf ++ cmd).map Prod.fst, k.name = n → k.machine = .host)
    (hrun : initSub sub spcall pdo cmd mf s = (.ok (), s')) :
    getValueFor s' ⟨n, some sub, .host⟩ = .ok (x.getD
      (((ofirst (alast ⟨n, some sub, .host⟩ cmd)
        (ofirst (alast ⟨n, some sub, .host⟩ mf)
        (ofirst (alast ⟨n, none, .host⟩ spcall)
        (ofirst (alast ⟨n, some sub, .host⟩ s.pendingSub)
        (if ((alast ⟨n, none, .host⟩ cmd).isSome || (alast ⟨n, none, .host⟩ mf).isSome)
              && !(s.projectOptions.contains ⟨n, some [], .host⟩) then none
         else alast ⟨n, none, .host⟩ pdo))))).map (cleaned o.kind)).getD o.value)) := by
  cases hd : mergeSub s.projectOptions s.pendingSub sub spcall pdo cmd mf with
  | error e =>
    simp [initSub, Bind.bind, M.bind, M.get, hd, M.ofExcept, M.fail] at hrun
  | ok d =>
    have hother := merged_other s.projectOptions s.pendingSub sub n spcall pdo cmd mf d hd hin
    rw [initSub_value ⟨n, some sub, .host⟩ id s s' o x sub spcall pdo cmd mf d rfl rfl hn hbt hdn hnp g hd hother hrun,
      mergeSub_lookup sub n .host s.projectOptions s.pendingSub spcall pdo cmd mf d hd]

/-! ## the two calls composed: the documented eight steps in one statement -/

/-- **`subproject_precedence_composed`**: `initialize_from_top_level_project_call(pdoTop, cmd, mf)` followed by
`initialize_from_subproject_call(sub, spcall, pdoSub, cmd, mf)` — the same command line and machine files, as meson
passes them — **for every store, option class, all values and arbitrary dicts**: for a global option `n` (a builtin-like
option without path sanitisation; `Pair`: no object, project option, override or recorded value under `sub:n` yet), if
both calls complete, subproject `sub` sees the cleaned value of the **last defined** of the documented sources

    1 parent `default_options` `n` < 2 the subproject's own `default_options` < 3 machine file `n` < 4 command line `n`
    < 5 parent `default_options` `sub:n` < 6 `subproject(default_options:)` < 7 machine file `sub:n` < 8 command line `sub:n`

else the value the option held before (its declared default).  (Step 2 yields to 3 and 4, which enter through the
global value together with 1 — `toplevel_precedence`; the entries may be mixed with any other options, valid or not,
`buildtype`, other subprojects, pending options.)  All 2^8 subsets of the sources are instances. -/
theorem subproject_precedence_composed (n sub : Str) (id : Nat) (s0 s1 s2 : Store) (o : Obj)
    (pdoTop cmd mf spcall pdoSub : Dict) (hsub : sub ≠ [])
    (hn : (n == sPrefix) = false) (hbt : (n == sBuildtype) = false)
    (hdn : n ≠ sDebug ∧ n ≠ sOptimization)
    (hnp : (Tables.nopfxTable.map (·.1)).contains n = false)
    (p : Pair n sub id s0.projectOptions s0 o none)
    (h1 : NoPrefix pdoTop) (h2 : NoPrefix cmd) (h3 : NoPrefix mf)
    (hp : ∀ kv ∈ pdoTop, kv.1 = ⟨n, none, .host⟩ ∨ kv.1 = ⟨n, some sub, .host⟩ ∨ kv.1.name ≠ n)
    (hc : ∀ kv ∈ cmd, kv.1 = ⟨n, none, .host⟩ ∨ kv.1 = ⟨n, some sub, .host⟩ ∨ kv.1.name ≠ n)
    (hf : ∀ kv ∈ mf, kv.1 = ⟨n, none, .host⟩ ∨ kv.1 = ⟨n, some sub, .host⟩ ∨ kv.1.name ≠ n)
    (hin : ∀ k ∈ (pdoSub ++ spcall).map Prod.fst, k.name = n → k.machine = .host)
    (hrun1 : initTop pdoTop cmd mf s0 = (.ok (), s1))
    (hrun2 : initSub sub spcall pdoSub cmd mf s1 = (.ok (), s2)) :
    getValueFor s2 ⟨n, some sub, .host⟩ = .ok
      (match ofirst (alast ⟨n, some sub, .host⟩ cmd)                                    -- 8
            (ofirst (alast ⟨n, some sub, .host⟩ mf)                                     -- 7
            (ofirst (alast ⟨n, none, .host⟩ spcall)                                     -- 6
            (ofirst (alast ⟨n, some sub, .host⟩ pdoTop)                                 -- 5
            (if ((alast ⟨n, none, .host⟩ cmd).isSome || (alast ⟨n, none, .host⟩ mf).isSome)
                  && !(s0.projectOptions.contains ⟨n, some [], .host⟩) then none
             else alast ⟨n, none, .host⟩ pdoSub)))) with                                -- 2, unless 3 or 4 is given
       | some v => cleaned o.kind v
       | none =>
         match ofirst (alast ⟨n, none, .host⟩ cmd)                                      -- 4
               (ofirst (alast ⟨n, none, .host⟩ mf)                                      -- 3
               (alast ⟨n, none, .host⟩ pdoTop)) with                                    -- 1
         | some v => cleaned o.kind v
         | none => o.value) := by
  obtain ⟨o1, p1, hk1, hv1⟩ := initTop_pair s0 s1 o none pdoTop cmd mf hsub hn hbt hdn hnp p h1 h2 h3 hp hc hf hrun1
  have hhost : ∀ (d : Dict), (∀ kv ∈ d, kv.1 = (⟨n, none, .host⟩ : Key) ∨ kv.1 = ⟨n, some sub, .host⟩ ∨ kv.1.name ≠ n) →
      ∀ k ∈ d.map Prod.fst, k.name = n → k.machine = .host := by
    intro d hd k hk hkn
    obtain ⟨kv, hkv, rfl⟩ := List.mem_map.mp hk
    rcases hd kv hkv with h | h | h
    · rw [h]
    · rw [h]
    · exact absurd hkn h
  have hin' : ∀ k ∈ (pdoSub ++ spcall ++ s1.pendingSub ++ mf ++ cmd).map Prod.fst, k.name = n → k.machine = .host := by
    intro k hk hkn
    simp only [List.map_append, List.mem_append] at hk
    rcases hk with (((hk | hk) | hk) | hk) | hk
    · exact hin k (by simp [hk]) hkn
    · exact hin k (by simp [hk]) hkn
    · exact p1.pshost k hk hkn
    · exact hhost mf hf k hk hkn
    · exact hhost cmd hc k hk hkn
  rw [subproject_precedence n sub id s1 s2 o1 none spcall pdoSub cmd mf hn hbt hdn hnp p1.goodSub hin' hrun2,
    alast_eq_alookup _ _ p1.psnd, p1.ps, p1.proj, hk1, hv1]
  generalize (if ((alast (⟨n, none, .host⟩ : Key) cmd).isSome || (alast (⟨n, none, .host⟩ : Key) mf).isSome)
      && !(s0.projectOptions.contains ⟨n, some [], .host⟩) then none else alast (⟨n, none, .host⟩ : Key) pdoSub) = e2
  cases alast (⟨n, some sub, .host⟩ : Key) cmd <;> cases alast (⟨n, some sub, .host⟩ : Key) mf <;>
    cases alast (⟨n, none, .host⟩ : Key) spcall <;> cases alast (⟨n, some sub, .host⟩ : Key) pdoTop <;>
    cases e2 <;> first | rfl | simp [ofirst]

/-! ## yielding, generally -/

/-- in **any** store: a yielding subproject option without override whose parent pointer is the current object
of the top-level option `:n` reports exactly what the top-level project sees for `:n` -/
theorem yielding_reports_parent_option (s : Store) (n sub : Str) (idc idp : Nat) (c p : Obj)
    (hc : alookup ⟨n, some sub, .host⟩ s.options = some idc) (hco : s.heap[idc]? = some c)
    (hca : alookup ⟨n, some sub, .host⟩ s.augments = none)
    (hy : c.yielding = true) (hpar : c.parent = some idp)
    (hp : alookup ⟨n, some [], .host⟩ s.options = some idp) (hpo : s.heap[idp]? = some p)
    (hpa : alookup ⟨n, some [], .host⟩ s.augments = none) (hpy : p.yielding = false) :
    getValueFor s ⟨n, some sub, .host⟩ = getValueFor s ⟨n, some [], .host⟩ := by
  have e1 := ensureKey_host s ⟨n, some sub, .host⟩ rfl
  have e2 := ensureKey_host s ⟨n, some [], .host⟩ rfl
  rw [yielding_takes_parent s _ idc idp c p (by simp [resolveId, e1, hc]) hco (by rw [e1]; exact hca) hy hpar hpo,
    own_value_otherwise s _ idp p (by simp [resolveId, e2, hp]) hpo (by rw [e2]; exact hpa) hpy]

/-- `yielding_takes_parent` through `initialize_from_subproject_call`, **for every store and arbitrary input
dicts**: if no source addresses the yielding option itself (the merged dict holds nothing for `sub:n`; entries
naming `n` are host-machine keys), then after the call it still reports the parent object's value — whatever
else the call sets, expands, parks or rejects on the way (the call's result may even be an exception) -/
theorem yielding_takes_parent_through_subproject_call (s : Store) (n sub : Str) (idc idp : Nat) (c p : Obj)
    (spcall pdo cmd mf d : Dict)
    (hdn : n ≠ sDebug ∧ n ≠ sOptimization)
    (hnp : (Tables.nopfxTable.map (·.1)).contains n = false)
    (hc : alookup ⟨n, some sub, .host⟩ s.options = some idc) (hco : s.heap[idc]? = some c)
    (hca : alookup ⟨n, some sub, .host⟩ s.augments = none)
    (hy : c.yielding = true) (hpar : c.parent = some idp) (hpo : s.heap[idp]? = some p)
    (hownc : OwnObject n idc s) (hownp : OwnObject n idp s)
    (hd : mergeSub s.projectOptions s.pendingSub sub spcall pdo cmd mf = .ok d)
    (hnone : alookup ⟨n, some sub, .host⟩ d = none)
    (hin : ∀ k ∈ (pdo ++ spcall ++ s.pendingSub ++ mf ++ cmd).map Prod.fst, k.name = n → k.machine = .host) :
    getValueFor (initSub sub spcall pdo cmd mf s).2 ⟨n, some sub, .host⟩ = .ok p.value := by
  have hP : ∀ kv ∈ d, kv.1.sub ≠ some sub ∨ kv.1.name ≠ n := by
    intro kv hkv
    rcases merged_other s.projectOptions s.pendingSub sub n spcall pdo cmd mf d hd hin kv hkv with h | h
    · exact absurd h (not_mem_of_alookup_none hnone kv hkv)
    · exact h
  have f1 := initSub_frame ⟨n, some sub, .host⟩ idc s sub spcall pdo cmd mf d hd hP hnp hdn hownc
  have f2 := initSub_frame ⟨n, some sub, .host⟩ idp s sub spcall pdo cmd mf d hd hP hnp hdn hownp
  generalize (initSub sub spcall pdo cmd mf s).2 = s' at f1 f2
  obtain ⟨_, ho, _, _, hh1, ha1⟩ := f1
  have hh2 := f2.2.2.2.2.1
  have e1 := ensureKey_host s' ⟨n, some sub, .host⟩ rfl
  exact yielding_takes_parent s' _ idc idp c p (by simp [resolveId, e1, ho, hc]) (by rw [hh1]; exact hco)
    (by rw [e1, ha1]; exact hca) hy hpar (by rw [hh2]; exact hpo)

/-! ### through the whole state machine, for every subset of the sources

The scenarios below run the *complete* model (`add_system_option` / `add_project_option`,
`initialize_from_top_level_project_call`, `initialize_from_subproject_call`, `get_value_for`) on every subset of the
value sources with pairwise distinct values, and compare with the documented order (`effTop`, `effSub`).
They are checked by kernel evaluation for all 2^4 resp. 2^8 subsets. -/

def kOpt : Key := ⟨"opt".toList, none, .host⟩
def kRoot : Key := ⟨"opt".toList, some [], .host⟩
def kSub : Key := ⟨"opt".toList, some "sub".toList, .host⟩
def cval (i : Nat) : Val := .str ['c', Char.ofNat (48 + i)]
def comboSpec : ObjSpec := { kind := .combo ((List.range 10).map (fun i => ['c', Char.ofNat (48 + i)])), default := cval 0 }
def src (b : Bool) (k : Key) (i : Nat) : Dict := if b then [(k, cval i)] else []

/-- documented top-level order: command line (3), machine file (2), `project(default_options)` (1), default (0) -/
def effTop (b : Fin 8) : Option Val :=
  some (if b.val.testBit 2 then cval 3 else if b.val.testBit 1 then cval 2 else if b.val.testBit 0 then cval 1 else cval 0)

/-- documented subproject order: the last present of sources 1..8, else the default -/
def effSub (b : Fin 256) : Option Val :=
  some ((List.range 8).foldl (fun acc i => if b.val.testBit i then cval (i + 1) else acc) (cval 0))

def topScenario (project : Bool) (b : Fin 8) : Option Val :=
  let s := run (Store.new false)
    [if project then .addProject kRoot comboSpec else .addSystem kOpt comboSpec,
     .initTop (src (b.val.testBit 0) kOpt 1) (src (b.val.testBit 2) kOpt 3) (src (b.val.testBit 1) kOpt 2)]
  (getValueFor s kRoot).toOption

def subScenario (b : Fin 256) : Option Val :=
  let bit (i : Nat) : Bool := b.val.testBit i
  let pdoTop := src (bit 0) kOpt 1 ++ src (bit 4) kSub 5
  let mf := src (bit 2) kOpt 3 ++ src (bit 6) kSub 7
  let cmd := src (bit 3) kOpt 4 ++ src (bit 7) kSub 8
  let s := run (Store.new false) [.addSystem kOpt comboSpec, .initTop pdoTop cmd mf,
    .initSub "sub".toList (src (bit 5) kOpt 6) (src (bit 1) kOpt 2) cmd mf]
  (getValueFor s kSub).toOption

/-- the hypotheses of `toplevel_precedence` are satisfiable (and its conclusion is what the scenario shows) -/
example : Good kOpt 0 (run (Store.new false) [.addSystem kOpt comboSpec])
    { kind := comboSpec.kind, value := cval 0, default := cval 0, yielding := false, readonly := false, parent := none } := by
  refine ⟨by rfl, by rfl, ?_, by decide, by rfl, rfl⟩
  intro key i h hn
  have hopt : (run (Store.new false) [.addSystem kOpt comboSpec]).options = [(kOpt, 0)] := by rfl
  rw [hopt] at h
  simp only [alookup] at h
  split at h
  · next e => exact absurd (by rw [← e]) hn
  · cases h

/-- the hypotheses of `subproject_precedence` are satisfiable -/
example : GoodSub kSub 0 (run (Store.new false) [.addSystem kOpt comboSpec])
    { kind := comboSpec.kind, value := cval 0, default := cval 0, yielding := false, readonly := false, parent := none }
    none := by
  refine ⟨by rfl, by rfl, ?_, by rfl, by decide, by decide, by rfl, rfl⟩
  intro key i h hn
  have hopt : (run (Store.new false) [.addSystem kOpt comboSpec]).options = [(kOpt, 0)] := by rfl
  rw [hopt] at h
  simp only [alookup] at h
  split at h
  · next e => exact absurd (by rw [← e]; rfl) hn
  · cases h

/-- `toplevel_precedence` for a **project option declared by the top-level project** (`:n` is the registered
option; `-Dn=v`, a machine file's `n = v` and `default_options: ['n=v']` address it without subproject), in the
same generality: every store, every option class, all values, arbitrary dicts (any other options, valid or not,
`buildtype`, subproject and build-machine keys, pending options; only `prefix` entries and other variants of the same
name are excluded; `n` is not a compiler/base/backend name, whose values wait as pending options).  If
`initialize_from_top_level_project_call` completes, `:n` holds the cleaned value of the first source that gives it:
command line > machine file > `project(default_options)` > what it held before (the declared default). -/
theorem toplevel_precedence_project_option (n : Str) (id : Nat) (s s' : Store) (o : Obj) (pdo cmd mf : Dict)
    (hn : (n == sPrefix) = false) (hbt : (n == sBuildtype) = false)
    (hd : n ≠ sDebug ∧ n ≠ sOptimization)
    (hnp : (Tables.nopfxTable.map (·.1)).contains n = false)
    (hpend : acceptAsPending ⟨n, none, .host⟩ true = false)
    (hg : alookup (⟨n, none, .host⟩ : Key) s.options = none)
    (g : Good ⟨n, some [], .host⟩ id s o)
    (h1 : NoPrefix pdo) (h2 : NoPrefix cmd) (h3 : NoPrefix mf)
    (hp : ∀ kv ∈ pdo, kv.1 = ⟨n, none, .host⟩ ∨ kv.1.name ≠ n)
    (hc : ∀ kv ∈ cmd, kv.1 = ⟨n, none, .host⟩ ∨ kv.1.name ≠ n)
    (hf : ∀ kv ∈ mf, kv.1 = ⟨n, none, .host⟩ ∨ kv.1.name ≠ n)
    (hrun : initTop pdo cmd mf s = (.ok (), s')) :
    getValueFor s' ⟨n, some [], .host⟩ = .ok
      (match ofirst (alast ⟨n, none, .host⟩ cmd) (ofirst (alast ⟨n, none, .host⟩ mf) (alast ⟨n, none, .host⟩ pdo)) with
       | some v => cleaned o.kind v
       | none => o.value) :=
  initTop_value_project n id s s' o pdo cmd mf hn hbt hd hnp hpend hg g h1 h2 h3 hp hc hf hrun

/-- the hypotheses of `subproject_precedence_composed` are satisfiable: the store of `subScenario` before the calls -/
example : Pair "opt".toList "sub".toList 0 (run (Store.new false) [.addSystem kOpt comboSpec]).projectOptions
    (run (Store.new false) [.addSystem kOpt comboSpec])
    { kind := comboSpec.kind, value := cval 0, default := cval 0, yielding := false, readonly := false, parent := none }
    none := by
  have hps0 : (run (Store.new false) [.addSystem kOpt comboSpec]).pendingSub = [] := by rfl
  refine ⟨⟨by rfl, by rfl, ?_, by decide, by rfl, rfl⟩, by rfl, rfl, by rfl, by decide, by rfl,
    by rw [hps0]; simp [NodupKeys], by rfl, ?_⟩
  · intro key i h hn
    have hopt : (run (Store.new false) [.addSystem kOpt comboSpec]).options = [(kOpt, 0)] := by rfl
    rw [hopt] at h
    simp only [alookup] at h
    split at h
    · next e => exact absurd (by rw [← e]; rfl) hn
    · cases h
  · intro key hk
    have hps : (run (Store.new false) [.addSystem kOpt comboSpec]).pendingSub = [] := by rfl
    rw [hps] at hk
    simp at hk

/-- the hypotheses of `toplevel_precedence_project_option` are satisfiable: a combo project option `:opt` -/
example : Good kRoot 0 (run (Store.new false) [.addProject kRoot comboSpec])
      { kind := comboSpec.kind, value := cval 0, default := cval 0, yielding := false, readonly := false, parent := none } ∧
    alookup kOpt (run (Store.new false) [.addProject kRoot comboSpec]).options = none ∧
    acceptAsPending kOpt true = false := by
  refine ⟨⟨by rfl, by rfl, ?_, by decide, by rfl, rfl⟩, by rfl, by decide⟩
  intro key i h hn
  have hopt : (run (Store.new false) [.addProject kRoot comboSpec]).options = [(kRoot, 0)] := by rfl
  rw [hopt] at h
  simp only [alookup] at h
  split at h
  · next e => exact absurd (by rw [← e]) hn
  · cases h

/-- `toplevel_precedence` on all 2^3 subsets of the three sources (the fourth source, the declared default, is
always present), for a builtin-like system option and for a top-level project option -/
theorem toplevel_precedence_all_subsets : ∀ (project : Bool) (b : Fin 8), topScenario project b = effTop b := by
  decide +kernel

/-- `subproject_precedence` on all 2^8 subsets, through the whole state machine -/
theorem subproject_precedence_all_subsets : ∀ b : Fin 256, subScenario b = effSub b := by
  decide +kernel

/-! ## yielding -/

def yieldScenario (yielding : Bool) (b : Fin 8) : Option Val :=
  let s := run (Store.new false)
    [.addProject kRoot comboSpec,
     .initTop (src (b.val.testBit 0) kOpt 1) (src (b.val.testBit 2) kOpt 3) (src (b.val.testBit 1) kOpt 2),
     .updateProject "sub".toList [(kSub, { comboSpec with default := cval 9, yielding := yielding })],
     .initSub "sub".toList [] [] (src (b.val.testBit 2) kOpt 3) (src (b.val.testBit 1) kOpt 2)]
  (getValueFor s kSub).toOption

/-- a yielding subproject option has the parent's effective value, a non-yielding one its own default,
whatever subset of sources set the parent -/
theorem yielding_takes_parent_all_subsets : ∀ b : Fin 8,
    yieldScenario true b = effTop b ∧ yieldScenario false b = some (cval 9) := by
  decide +kernel

/-! ## buildtype and its dependents -/

def kBt : Key := ⟨"buildtype".toList, none, .host⟩
def kDbg : Key := ⟨"debug".toList, none, .host⟩
def kOptim : Key := ⟨"optimization".toList, none, .host⟩
def sv (s : String) : Val := .str s.toList

def btScenario (pdo cmd : Dict) : Option Val × Option Val :=
  let s := run (Store.new false) [.initBuiltins, .initTop pdo (reorderCmd cmd) []]
  ((getValueFor s kDbg).toOption, (getValueFor s kOptim).toOption)

/-- `buildtype` alone sets `debug` and `optimization` by the documented table, from either source -/
theorem buildtype_sets_dependents :
    ∀ row ∈ Tables.defaultDependents, row.1 ≠ "debug".toList →
      btScenario [(kBt, .str row.1)] [] = (some (.bool row.2.2), some (.str row.2.1)) ∧
      btScenario [] [(kBt, .str row.1)] = (some (.bool row.2.2), some (.str row.2.1)) := by
  decide +kernel

/-- on the command line the textual order does not matter: an explicit `debug` wins over `buildtype` -/
theorem buildtype_explicit_wins_on_cmdline :
    btScenario [] [(kDbg, sv "true"), (kBt, sv "release")] = (some (.bool true), some (sv "3")) ∧
    btScenario [] [(kBt, sv "release"), (kDbg, sv "true")] = (some (.bool true), some (sv "3")) := by
  decide +kernel

/-- one source (0 = `project(default_options)`, 1 = machine file, 2 = command line after the real re-ordering)
holding the given entries in the given textual order -/
def btFrom (src : Fin 3) (entries : Dict) : Option Val × Option Val :=
  let s := run (Store.new false) [.initBuiltins,
    .initTop (if src.val = 0 then entries else []) (if src.val = 2 then reorderCmd entries else [])
             (if src.val = 1 then entries else [])]
  ((getValueFor s kDbg).toOption, (getValueFor s kOptim).toOption)

def pair (first : Bool) (a b : Key × Val) : Dict := if first then [a, b] else [b, a]

/-- `buildtype_sets_dependents_unless_explicit`, full statement: in each of the three sources, for every
`buildtype` of the table, an explicitly given `debug` resp. `optimization` survives the `buildtype` expansion in
*either* textual order, and the other dependent still follows the table.  (Before the repair of
`initialize_from_top_level_project_call` this was false for `default_options` and machine files:
`['debug=true', 'buildtype=release']` ended with `debug=false`.) -/
def buildtype_unless_explicit_full : Prop :=
  ∀ row ∈ Tables.defaultDependents, ∀ (src : Fin 3) (explicitFirst : Bool),
    (∀ dbg : Bool,
      btFrom src (pair explicitFirst (kDbg, sv (if dbg then "true" else "false")) (kBt, .str row.1)) =
        (some (.bool dbg), some (.str row.2.1))) ∧
    (∀ o ∈ ["0", "g", "1", "2", "3", "s", "plain"],
      btFrom src (pair explicitFirst (kOptim, sv o) (kBt, .str row.1)) = (some (.bool row.2.2), some (sv o)))

theorem buildtype_unless_explicit : buildtype_unless_explicit_full := by
  unfold buildtype_unless_explicit_full
  decide +kernel

/-! ### the same for a subproject: `buildtype` and an explicit dependent at any two of the steps that address
the subproject (2 own `default_options`, 5 parent `sub:opt`, 6 `subproject(default_options:)`, 7 machine file
`sub:opt`, 8 command line `sub:opt`), in either textual order when they share a step -/

def kS (n : String) : Key := ⟨n.toList, some "sub".toList, .host⟩
def kG (n : String) : Key := ⟨n.toList, none, .host⟩

/-- the five dicts `(pdoTop, pdoSub, spcall, mf, cmd)` with `entries` placed at `step` -/
def atStep (step : Fin 5) (n : String) (v : Val) : Dict × Dict × Dict × Dict × Dict :=
  match step.val with
  | 0 => ([], [(kG n, v)], [], [], [])
  | 1 => ([(kS n, v)], [], [], [], [])
  | 2 => ([], [], [(kG n, v)], [], [])
  | 3 => ([], [], [], [(kS n, v)], [])
  | _ => ([], [], [], [], [(kS n, v)])

def subBt (sb sd : Fin 5) (depFirst : Bool) (dep : String) (dv : Val) : Option Val × Option Val × Option Val :=
  let a := atStep sd dep dv
  let b := atStep sb "buildtype" (sv "release")
  let j (x y : Dict) : Dict := if depFirst then x ++ y else y ++ x
  let pdoTop := j a.1 b.1
  let pdoSub := j a.2.1 b.2.1
  let spcall := j a.2.2.1 b.2.2.1
  let mf := j a.2.2.2.1 b.2.2.2.1
  let cmd := reorderCmd (j a.2.2.2.2 b.2.2.2.2)
  let s := run (Store.new false) [.initBuiltins, .initTop pdoTop cmd mf, .initSub "sub".toList spcall pdoSub cmd mf]
  ((getValueFor s (kS "buildtype")).toOption, (getValueFor s (kS "debug")).toOption,
   (getValueFor s (kS "optimization")).toOption)

/-- an explicit `debug` / `optimization` for the subproject wins over the subproject's `buildtype=release`
for all 25 pairs of steps and both orders (before the repair of `initialize_from_subproject_call` it was lost
in every one of them, e.g. own `default_options: ['buildtype=release']` with `-Dsub:optimization=1` gave 3) -/
theorem subproject_buildtype_unless_explicit : ∀ (sb sd : Fin 5) (depFirst : Bool),
    subBt sb sd depFirst "debug" (sv "true") = (some (sv "release"), some (.bool true), some (sv "3")) ∧
    subBt sb sd depFirst "optimization" (sv "1") = (some (sv "release"), some (.bool false), some (sv "1")) := by
  decide +kernel

/-- the command-line re-ordering puts `buildtype` first and keeps every binding -/
theorem reorderCmd_buildtype_first (cmd : Dict) (v : Val) (h : alookup buildtypeKey cmd = some v) :
    reorderCmd cmd = (buildtypeKey, v) :: aerase buildtypeKey cmd := by
  simp [reorderCmd, h]

theorem reorderCmd_lookup (cmd : Dict) (k : Key) : alookup k (reorderCmd cmd) = alookup k cmd := by
  unfold reorderCmd
  cases h : alookup buildtypeKey cmd with
  | none => rfl
  | some v =>
    by_cases e : buildtypeKey = k
    · subst e; simp [alookup, h]
    · simp [alookup, e, alookup_aerase]

/-! ## the declared defaults as `CoreData.__init__` finalises them (coredata.py:233-260, 320-325) -/

/-- `CoreData.__init__`'s option part keeps every stored value valid -/
theorem coredata_init_keeps_values_valid (s : Store) (h : HeapValid s) : HeapValid (coreDataInit s).2 :=
  Pres.coreDataInit.run s h

/-- what a builtin reports right after `CoreData.__init__`: its prefix-dependent value at the default prefix if it
has one, else its declared default — in a cross build the declared defaults of the table *after*
`builtin_options_libdir_cross_fixup` (regenerated from the live module on every run) -/
def builtinDefaultOk (cross : Bool) (row : Str × Kind × Val × Bool) : Bool :=
  let want : Val :=
    match alookup row.1 Tables.nopfxTable with
    | some m => (match alookup Tables.defaultPrefix m with | some v => .str v | none => row.2.2.1)
    | none => row.2.2.1
  (getValueFor (coreDataInit (Store.new cross)).2 ⟨row.1, none, .host⟩).toOption == some want

theorem builtins_report_declared_default :
    (Tables.builtinOptions.all (builtinDefaultOk false) && Tables.builtinOptionsCross.all (builtinDefaultOk true)) = true := by
  decide +kernel

/-- the documented special case: with a cross file, `libdir` defaults to `lib`, not to the build machine's guess -/
theorem cross_libdir_default_is_lib :
    (getValueFor (coreDataInit (Store.new true)).2 ⟨"libdir".toList, none, .host⟩).toOption
      = some (.str "lib".toList) := by
  decide +kernel

/-! ## options registered after the top-level call (backend, compiler, base options) -/

def kLate : Key := ⟨"backend_max_links".toList, none, .host⟩
def lateVal (i : Nat) : Val := .str [Char.ofNat (48 + i)]

/-- `-Dbackend_max_links`, machine file, `default_options` are parked as pending options by the top-level call in
their order of precedence; `add_system_option` (what `init_backend_options` does afterwards) applies the winner -/
def lateScenario (b : Fin 8) : Option Val :=
  let src (bit : Nat) (i : Nat) : Dict := if b.val.testBit bit then [(kLate, lateVal i)] else []
  let s := run (coreDataInit (Store.new false)).2
    [.initTop (src 0 1) (src 2 3) (src 1 2), .addSystem kLate { kind := .integer (some 0) none, default := .int 0 }]
  (getValueFor s kLate).toOption

/-- for every subset of the three sources the late-registered option ends with the value of the command line, else
the machine file, else `default_options`, else its default (after the repair of `Environment.init_backend_options`
this is also what the build directory reports; the second pass it made is not part of the store) -/
theorem late_registered_option_precedence : ∀ b : Fin 8,
    lateScenario b = some (if b.val.testBit 2 then .int 3 else if b.val.testBit 1 then .int 2
                           else if b.val.testBit 0 then .int 1 else .int 0) := by
  decide +kernel

/-- the three addressing forms of a late-registered option (`name`, `:name` for the top-level project only,
`sub:name`): each project sees the value addressed to it, else the global one, for every subset of the three forms
on the command line — both when the top-level project registers the option (then the subproject is initialised) and
when the subproject registers it first.  (Before the repair of `add_system_option_internal` the `:name` value stayed
pending forever.) -/
def lateAddrScenario (subFirst : Bool) (b : Fin 8) : Option Val × Option Val × Option Val :=
  let kR : Key := ⟨"backend_max_links".toList, some [], .host⟩
  let kS : Key := ⟨"backend_max_links".toList, some "sub".toList, .host⟩
  let ent (bit : Nat) (k : Key) (i : Nat) : Dict := if b.val.testBit bit then [(k, lateVal i)] else []
  let cmd := ent 0 kLate 1 ++ ent 1 kR 2 ++ ent 2 kS 3
  let spec : ObjSpec := { kind := .integer (some 0) none, default := .int 0 }
  let s := run (coreDataInit (Store.new false)).2
    (if subFirst then [.initTop [] cmd [], .initSub "sub".toList [] [] cmd [], .addSystem kS spec]
     else [.initTop [] cmd [], .addSystem kLate spec, .initSub "sub".toList [] [] cmd []])
  ((getValueFor s kLate).toOption, (getValueFor s kR).toOption, (getValueFor s kS).toOption)

theorem late_registered_option_addressing : ∀ (subFirst : Bool) (b : Fin 8),
    lateAddrScenario subFirst b =
      (let g : Val := if b.val.testBit 0 then .int 1 else .int 0
       (some g, some (if b.val.testBit 1 then .int 2 else g), some (if b.val.testBit 2 then .int 3 else g))) := by
  decide +kernel

/-! ## prefix-dependent directory defaults -/

def kDir (n : String) : Key := ⟨n.toList, none, .host⟩

def prefixScenario (pfx : String) : List (Option Val) :=
  let s := run (Store.new false) [.initBuiltins, .initTop [] [(prefixKey, sv pfx)] []]
  ["sysconfdir", "localstatedir", "sharedstatedir"].map (fun n => (getValueFor s (kDir n)).toOption)

/-- `prefix_dirs_follow_prefix` for the three documented prefixes classes -/
theorem prefix_dirs_follow_prefix :
    prefixScenario "/usr" = [some (sv "/etc"), some (sv "/var"), some (sv "/var/lib")] ∧
    prefixScenario "/usr/local" = [some (sv "etc"), some (sv "/var/local"), some (sv "/var/local/lib")] ∧
    prefixScenario "/opt/x" = [some (sv "etc"), some (sv "var"), some (sv "com")] := by
  decide +kernel

end MesonModel.Props.C07
