/-
C11 — Installation is confined to DESTDIR, exact and reversible.
Property statements over the model `MesonModel.Install` (helper results live in
`MesonModel/Install/PathLemmas.lean` and `MesonModel/Install/DryRunLemmas.lean`).
-/
import MesonModel.Install.PathLemmas
import MesonModel.Install.DryRunLemmas
import MesonModel.Install.ConfineInstall
import MesonModel.Install.UninstallLemmas
import MesonModel.Install.InstallLog3
import MesonModel.Install.FilesLemmas
import MesonModel.Install.GlueLemmas
import MesonModel.Install.OnlyChanged
import MesonModel.Install.TouchLemmas
import MesonModel.Install.AllRules
import MesonModel.Install.IdemRules
import MesonModel.Install.SymlinkRules

namespace MesonModel.Props.C11
open MesonModel.Install MesonModel.Py

/-! ### destinations: relative ones under the prefix, absolute ones re-rooted under DESTDIR -/

/-- For every DESTDIR, absolute prefix and install path without `..` components, the file-system key that
`get_destdir_path` denotes is DESTDIR's key followed by the install path's components (absolute path:
re-rooted) or by the prefix's and the install path's components (relative path). -/
theorem destination_rule (destdir pfx ip : Str) (hd : destdir ≠ []) (hpfx : isAbs pfx = true)
    (h1 : NoDotDot destdir) (h2 : NoDotDot pfx) (h3 : NoDotDot ip) :
    keyOfAbs (getDestdirPath destdir (destdirJoin destdir pfx) ip) =
      keyOfAbs destdir ++ (if isAbs ip then keyOfAbs ip else keyOfAbs pfx ++ keyOfAbs ip) :=
  dest_key destdir pfx ip hd hpfx h1 h2 h3

/-- confinement of destinations at full strength (after the repair of F-INSTALL-DOTDOT): for every plan,
option set and install path — `..` components included — whenever `get_destdir_path` returns instead of
raising, the destination lies beneath DESTDIR -/
theorem confined_destination (p : Plan) (o : Opts) (path out : Str)
    (hd : isAbs (mkCfg p o).destdir = true) (h : destPath (mkCfg p o) path = some out) :
    isAbs out = true ∧ keyOfAbs (mkCfg p o).destdir <+: keyOfAbs out := by
  unfold destPath at h
  simp only [] at h
  split at h
  · rename_i hok
    have ho : isAbs out = true := by
      have := isAbs_getDestdirPath (mkCfg p o).destdir p.pfx path hd
      simp only [Option.some.injEq] at h
      rw [← h]; exact this
    simp only [Option.some.injEq] at h
    exact ⟨ho, destOk_sound _ _ hd ho (h ▸ hok)⟩
  · simp at h

/-- **Confinement of the whole installation.**  For every plan whose recorded directory walks hold directory-entry
names (no slash, not empty, `.` or `..`) and whose source paths do not end in `..` (`PlanOK`), every option set with a DESTDIR, and every initial
tree: a key that is not under DESTDIR is bound after `meson install` exactly as before — the only exception being
a strict ancestor of DESTDIR that was absent, which is a directory afterwards (DESTDIR's missing parents
are created).  Install paths may contain `..`: `get_destdir_path` refuses the ones that leave DESTDIR.
Holds for runs that raise half-way, `--dry-run`, `--only-changed`, any tags/skip selection. -/
theorem confined (p : Plan) (o : Opts) (fs : FS) (hp : PlanOK p) (hne : (mkCfg p o).destdir ≠ [])
    (k : Key) (hk : ¬ keyOfAbs (mkCfg p o).destdir <+: k) :
    (install p o fs).fs.get k = fs.get k ∨
    (k <+: keyOfAbs (mkCfg p o).destdir ∧ fs.look k = none ∧
      ∃ m, (install p o fs).fs.get k = some (.dir m)) :=
  Inv_install p o fs hp hne k hk

/-- the hypotheses of `confined` are satisfiable: a plan with headers, data, and a subdir walk with nested names -/
example : PlanOK
    { buildDir := "/b".toList, pfx := "/usr".toList, umask := some 0o022, targets := [], man := [], emptydirs := [],
      symlinks := [],
      headers := [{ path := "/s/a b.h".toList, src := .file 0o600 7 3, installPath := "include/../inc".toList,
                    mode := none, subproject := [], tag := none, follow := none }],
      data := [{ path := "/s/t".toList, src := .linkDangling "nowhere".toList, installPath := "/opt/t o/t".toList,
                 mode := none, subproject := [], tag := none, follow := none }],
      subdirs := [{ path := "/s/tree".toList, installPath := "/usr/share/tree".toList, mode := none, exclude := none,
                    subproject := [], tag := none, follow := none,
                    walk := [{ rel := [], rootMode := 0o755, dirs := [("sub dir".toList, .real 0o700)],
                               files := [("ü.txt".toList, .file 0o644 1 2)] },
                             { rel := ["sub dir".toList], rootMode := 0o700, dirs := [],
                               files := [(" x ".toList, .file 0o600 3 4)] }] }] } :=
  ⟨by decide, by decide, by decide, by decide, by decide, by decide⟩

/-- the *character-wise* variant of the staging check (`os.path.commonprefix([root, normpath(output)]) == root`):
DESTDIR's normalised spelling is a string prefix of the destination's -/
def destOkChars (destdir output : Str) : Bool :=
  destdir = [] || (normpath destdir).isPrefixOf (normpath output)

/-- what `confined_destination` proves for the component-wise check, stated for the character-wise one -/
def confined_charprefix_statement : Prop :=
  ∀ destdir out : Str, isAbs destdir = true → isAbs out = true → destOkChars destdir out = true →
    keyOfAbs destdir <+: keyOfAbs out

/-- the character-wise check is **not** sound: with `DESTDIR=/t/stage` the install dir
`share/../../../stage-extra/etc` (prefix `/usr`) normalises to `/t/stage-extra/etc`, which starts with the
*characters* `/t/stage` but lies in a sibling of DESTDIR; the component-wise check of the code refuses it -/
theorem confined_charprefix_counterexample : ¬ confined_charprefix_statement := by
  intro h
  have := h "/t/stage".toList "/t/stage/usr/share/../../../stage-extra/etc".toList (by decide) (by decide) (by decide)
  revert this
  decide

example : destOk "/t/stage".toList "/t/stage/usr/share/../../../stage-extra/etc".toList = false ∧
    destOk "/t/stage".toList "/t/stage/../stage.d/x".toList = false ∧
    destOk "/t/stage".toList "/t/stage/usr/share/../../../stage/etc".toList = true := by decide

/-- the former escape is refused: `share/../../../outside/d.txt`, prefix `/usr`, `DESTDIR=/tmp/x/dest`;
an install path with `..` that stays inside DESTDIR is still accepted -/
example :
    let o : Opts := { destdir := some "/tmp/x/dest".toList, dryRun := false, onlyChanged := false, tags := none,
                      skipSubprojects := [], ambientUmask := 0o022 }
    let p : Plan := { buildDir := "/b".toList, pfx := "/usr".toList, umask := none, subdirs := [], targets := [],
                      headers := [], man := [], emptydirs := [], data := [], symlinks := [] }
    destPath (mkCfg p o) "share/../../../outside/d.txt".toList = none ∧
    destPath (mkCfg p o) "/etc/../../outside/d.txt".toList = none ∧
    destPath (mkCfg p o) "share/../lib/d.txt".toList = some "/tmp/x/dest/usr/share/../lib/d.txt".toList := by
  decide

/-- the hypotheses of `destination_rule` are satisfiable, on a path with spaces, doubled and trailing slashes -/
example : NoDotDot "/tmp/x y/dest/".toList ∧ NoDotDot "/usr//local".toList ∧ NoDotDot "share/my app/./d.txt".toList ∧
    keyOfAbs (getDestdirPath "/tmp/x y/dest/".toList (destdirJoin "/tmp/x y/dest/".toList "/usr//local".toList)
      "share/my app/./d.txt".toList) =
      ["tmp", "x y", "dest", "usr", "local", "share", "my app", "d.txt"].map String.toList := by
  decide

/-! ### selection: `--tags` and `--skip-subprojects` -/

/-- `should_install` as a proposition -/
theorem should_install_iff (cfg : Cfg) (sub : Str) (tag : Option Str) :
    shouldInstall cfg sub tag = true ↔
      ¬ (sub ≠ [] ∧ (sub ∈ cfg.skip ∨ ['*'] ∈ cfg.skip)) ∧
      (∀ ts, cfg.tags = some ts → ts ≠ [] → ∃ t, tag = some t ∧ t ∈ ts) := by
  unfold shouldInstall
  cases hts : cfg.tags with
  | none => by_cases h1 : sub = [] <;> simp [h1]
  | some ts =>
    by_cases h1 : sub = [] <;> by_cases h2 : ts = [] <;> cases tag <;> simp [h1, h2]

/-- an entry that is not selected changes nothing at all: no file-system effect, no log line, no bookkeeping -/
theorem tags_and_skip (cfg : Cfg) (s : St) :
    (∀ e : DataEntry, shouldInstall cfg e.subproject e.tag = false →
      installDataOne cfg s e = s ∧ installHeader cfg s e = s ∧ installMan cfg s e = s) ∧
    (∀ e : SubdirEntry, shouldInstall cfg e.subproject e.tag = false → installSubdir cfg s e = s) ∧
    (∀ e : TargetEntry, shouldInstall cfg e.subproject e.tag = false → installTarget cfg s e = s) ∧
    (∀ e : EmptyDirEntry, shouldInstall cfg e.subproject e.tag = false → installEmptydir cfg s e = s) ∧
    (∀ e : SymlinkEntry, shouldInstall cfg e.subproject e.tag = false → installSymlink cfg s e = s) := by
  refine ⟨fun e h => ⟨?_, ?_, ?_⟩, fun e h => ?_, fun e h => ?_, fun e h => ?_, fun e h => ?_⟩ <;>
    simp [installDataOne, installHeader, installMan, installSubdir, installTarget, installEmptydir,
      installSymlink, h]

/-- `--skip-subprojects '*'` skips every entry of every subproject, whatever the tags -/
theorem skip_all_subprojects (cfg : Cfg) (sub : Str) (tag : Option Str) (h : ['*'] ∈ cfg.skip) (hs : sub ≠ []) :
    shouldInstall cfg sub tag = false := by
  simp [shouldInstall, hs, h]

/-- the skip list is read by exact membership: a subproject is named iff one of the comma-separated fields of the
option value, white space trimmed, *equals* its name -/
theorem skip_is_exact_membership (raw sub : Str) :
    sub ∈ parseList raw ↔ ∃ f ∈ splitOn ',' raw, strip f = sub := by
  unfold parseList
  exact List.mem_map

/-- **selection through the command line** (`--skip-subprojects`, `--tags` as raw option strings): an entry is
installed iff it is not (of a subproject AND that subproject's name is a member of the skip LIST — exact equality
with a trimmed comma-separated field — or the list has the item `*`), and, when a non-empty `--tags` is given, its
tag is a member of the tag list -/
theorem selection_rule (p : Plan) (o : Opts) (sub : Str) (tag : Option Str) :
    shouldInstall (mkCfg p o) sub tag = true ↔
      ¬ (sub ≠ [] ∧ (sub ∈ parseList o.skipSubprojects ∨ ['*'] ∈ parseList o.skipSubprojects)) ∧
      (∀ t0, o.tags = some t0 → t0 ≠ [] → parseList t0 ≠ [] → ∃ t, tag = some t ∧ t ∈ parseList t0) := by
  rw [should_install_iff]
  have hskip : (mkCfg p o).skip = parseList o.skipSubprojects := rfl
  rw [hskip]
  refine and_congr Iff.rfl ?_
  cases ht : o.tags with
  | none =>
    have : (mkCfg p o).tags = none := by simp [mkCfg, ht]
    simp [this]
  | some t0 =>
    by_cases h0 : t0 = []
    · have : (mkCfg p o).tags = none := by simp [mkCfg, ht, h0]
      simp [this, h0]
    · have : (mkCfg p o).tags = some (parseList t0) := by simp [mkCfg, ht, h0]
      simp [this, h0]

/-- substring test, as a Boolean -/
def hasInfix (a : Str) : Str → Bool
  | [] => a.isEmpty
  | b@(_ :: t) => a.isPrefixOf b || hasInfix a t

/-- the statement "testing the subproject's name as a SUBSTRING of the raw option value selects the same entries" -/
def skip_substring_statement : Prop :=
  ∀ raw sub : Str, sub ≠ [] → (hasInfix sub (strip raw) = true ↔ (sub ∈ parseList raw ∨ ['*'] ∈ parseList raw))

/-- it does not: skipping `core-utils` must not skip the subproject `core` (nor `utils`, nor `re-u`), and skipping
`a,b` must not skip a subproject called `a,b` -/
theorem skip_substring_counterexample : ¬ skip_substring_statement := by
  intro h
  have := h "core-utils".toList "core".toList (by decide)
  revert this
  decide

def selPlan : Plan :=
  { buildDir := "/b".toList, pfx := "/usr".toList, umask := none, subdirs := [], targets := [], headers := [], man := [],
    emptydirs := [], data := [], symlinks := [] }

example :
    let o (s : String) : Opts := { destdir := some "/d".toList, dryRun := false, onlyChanged := false, tags := none,
                                   skipSubprojects := s.toList, ambientUmask := 0o022 }
    shouldInstall (mkCfg selPlan (o "core-utils")) "core".toList none = true ∧
    shouldInstall (mkCfg selPlan (o "core-utils")) "core-utils".toList none = false ∧
    shouldInstall (mkCfg selPlan (o " core , utils")) "core-utils".toList none = true ∧
    shouldInstall (mkCfg selPlan (o " core , utils")) "utils".toList none = false ∧
    shouldInstall (mkCfg selPlan (o "x,*")) "core".toList none = false ∧
    shouldInstall (mkCfg selPlan (o "x*")) "core".toList none = true ∧
    shouldInstall (mkCfg selPlan (o "*")) [] none = true := by
  decide

/-! ### permissions -/

theorem andNot_and_self (x u : Nat) : andNot x u &&& u = 0 := by
  apply Nat.eq_of_testBit_eq
  intro i
  simp only [andNot, Nat.testBit_and, Nat.testBit_xor, Nat.zero_testBit]
  cases x.testBit i <;> cases u.testBit i <;> rfl

theorem andNot_and_of_sub (x u y : Nat) (h : x &&& y = x) : andNot x u &&& y = andNot x u := by
  apply Nat.eq_of_testBit_eq
  intro i
  have hi := congrArg (fun n => n.testBit i) h
  simp only [Nat.testBit_and] at hi
  simp only [andNot, Nat.testBit_and, Nat.testBit_xor]
  cases hx : x.testBit i <;> cases hu : u.testBit i <;> cases hy : y.testBit i <;> simp_all

/-- default permissions: no bit of the umask survives, only bits of `0o777` can be set, and
execute bits are only granted when the source had one (otherwise only bits of `0o666`) -/
theorem mode_rule_default (cur umask : Nat) :
    sanitizedMode cur umask &&& umask = 0 ∧
    sanitizedMode cur umask &&& 0o777 = sanitizedMode cur umask ∧
    (cur &&& 0o111 = 0 → sanitizedMode cur umask &&& 0o666 = sanitizedMode cur umask) := by
  unfold sanitizedMode
  refine ⟨andNot_and_self _ _, ?_, ?_⟩
  · split
    · exact andNot_and_of_sub _ _ _ (by decide)
    · exact andNot_and_of_sub _ _ _ (by decide)
  · intro h
    simp only [h, ne_eq, not_true_eq_false, if_false]
    exact andNot_and_of_sub _ _ _ (by decide)

/-- a declared `install_mode` with permissions is applied verbatim to the installed file -/
theorem mode_rule_declared (cfg : Cfg) (k : Key) (p : Nat) (c : Bool) (s : St) (m d t : Nat)
    (hdry : cfg.dryRun = false) (hk : k ≠ []) (hn : s.fs.get k = some (.file m d t)) :
    (setMode cfg k (some { perms := some p, chown := c }) s).fs.get k = some (.file p d t) := by
  have hl : s.fs.look k = some (.file m d t) := by simp [FS.look, hk, hn]
  have hlex : lexists s k = true := by simp [lexists, hl]
  unfold setMode
  simp [hdry, hlex, chmodNode, hl, St.write, FS.set, FS.get]

/-- with neither `install_mode` nor owner/group the file gets the default permissions of `mode_rule_default` -/
theorem mode_rule_umask (cfg : Cfg) (k : Key) (u : Nat) (s : St) (m d t : Nat)
    (hdry : cfg.dryRun = false) (hu : cfg.umask = some u) (hk : k ≠ []) (hn : s.fs.get k = some (.file m d t)) :
    (setMode cfg k none s).fs.get k = some (.file (sanitizedMode m u) d t) := by
  have hl : s.fs.look k = some (.file m d t) := by simp [FS.look, hk, hn]
  unfold setMode
  simp [hdry, sanitize, hu, hl, St.write, FS.set, FS.get]

/-- `install_umask = preserve` leaves the copied source permissions alone -/
theorem mode_rule_preserve (cfg : Cfg) (k : Key) (s : St)
    (hu : cfg.umask = none) : setMode cfg k none s = s := by
  unfold setMode
  by_cases hdry : cfg.dryRun = true <;> simp [hdry, sanitize, hu]

example : permsBits "rwxr-xr-x".toList = some 0o755 ∧ permsBits "rwsr-Sr-t".toList = some 0o7745 ∧
    permsBits "rwxrwxrw".toList = none ∧ permsBits "rwxrwxrwz".toList = none := by decide

/-! ### dry run -/

/-- `--dry-run` leaves the file system exactly as it was, for every plan, every option set and every
initial tree (also when an installer step raises) -/
theorem dry_run_identity (p : Plan) (o : Opts) (fs : FS) (h : o.dryRun = true) :
    (install p o fs).fs = fs := by
  unfold install
  simp only []
  exact installBody_dry (mkCfg p o) (by simp [mkCfg, h]) p _

/-! ### the log -/

/-- the log is the installers' lines followed by the directories `DirMaker` created, last created first
(children before their parents), which is what lets `uninstall` remove them with `rmdir` -/
theorem log_dirs_last (p : Plan) (o : Opts) (fs : FS) :
    (install p o fs).log =
      (installBody (mkCfg p o) p { fs := fs, log := logHeader }).log ++
      (installBody (mkCfg p o) p { fs := fs, log := logHeader }).dirs.reverse := rfl

/-- whenever `do_copyfile` reports a copy, the destination it was asked for is the line it appended -/
theorem log_complete_copy (cfg : Cfg) (fp : Str) (src : Src) (to : Str) (mk : Option Str) (fo : Option Bool) (s : St)
    (h : (doCopyfile cfg fp src to mk fo s).2 = true) :
    (doCopyfile cfg fp src to mk fo s).1.log.getLast? = some to := by
  unfold doCopyfile at *
  dsimp only at *
  (repeat' split at h) <;> simp_all [St.logLine]

/-! ### uninstall -/

theorem get_del_self (fs : FS) (k : Key) : (fs.del k).get k = none := by
  induction fs with
  | nil => rfl
  | cons e t ih =>
    obtain ⟨k', n⟩ := e
    by_cases he : k' = k
    · have : FS.del ((k', n) :: t) k = FS.del t k := by simp [FS.del, he]
      rw [this]; exact ih
    · have : FS.del ((k', n) :: t) k = (k', n) :: FS.del t k := by simp [FS.del, he]
      rw [this]; simp only [FS.get, he, if_false]; exact ih

/-- reversibility for one logged file, whatever its name (white space at either end included):
uninstall deletes exactly that key -/
theorem uninstall_removes_logged_file (cwd path : Str) (fs : FS) (m d t : Nat) (habs : isAbs path = true)
    (hk : keyOfAbs path ≠ []) (hn : fs.get (keyOfAbs path) = some (.file m d t)) :
    (uninstall cwd [path] fs).get (keyOfAbs path) = none := by
  have hhead : path.head? ≠ some '#' := by
    unfold isAbs at habs
    split at habs <;> simp_all
  have hne : path ≠ [] := by intro e; subst e; simp [isAbs] at habs
  have hkey : keyOf cwd path = keyOfAbs path := by
    unfold keyOf join; simp [habs]
  simp only [uninstall, List.foldl_cons, List.foldl_nil, uninstallLine, hhead, if_false, hne, hkey, hk, hn]
  exact get_del_self fs _

/-- non-vacuity, on the name that used to survive uninstall (trailing space) -/
example : (uninstall "/b".toList ["/d/x ".toList]
    [(["d", "x "].map String.toList, .file 0o644 1 1), (["d"].map String.toList, .dir 0o755)]).get
      (["d", "x "].map String.toList) = none := by decide

/-- **Uninstall restores a fresh destination, for whole logs.**  Let `fs` be the tree before and `fs'` the tree
after an installation whose log is `log`.  If (fresh) no logged path existed before, (log complete) the two trees
agree on every key the log does not name, (fresh, continued) nothing that existed before sits directly inside a
logged path, and (children first) no logged path that is a directory in `fs'` is followed by one of its own children — the order
`DirMaker.__exit__` produces by logging files first and directories in reverse creation order — then replaying
the log with `do_uninstall` gives back `fs` on every key.  Comment lines and repeated lines are allowed. -/
theorem uninstall_restores (cwd : Str) (log : List Str) (fs fs' : FS)
    (hfresh : ∀ k ∈ logKeys cwd log, fs.get k = none)
    (hcomplete : ∀ k, k ∉ logKeys cwd log → fs'.get k = fs.get k)
    (hinside : ∀ c, c ≠ [] → fs.get c ≠ none → c.dropLast ∉ logKeys cwd log)
    (horder : ChildrenFirst fs' (logKeys cwd log)) :
    ∀ k, (uninstall cwd log fs').get k = fs.get k := by
  rw [uninstall_eq]
  exact removeKeys_restores fs _ fs' hfresh hcomplete hinside horder

/-- the hypotheses of `uninstall_restores` are satisfiable (names with spaces, a comment line, a directory
logged after its content) -/
example :
    ∀ k, (uninstall "/b".toList ["# c".toList, "/d/a b/f ".toList, "/d/a b".toList]
      ((FS.set [(["d"].map String.toList, .dir 0o755)] (["d", "a b"].map String.toList) (.dir 0o755)).set
        (["d", "a b", "f "].map String.toList) (.file 0o644 1 1))).get k =
      FS.get [(["d"].map String.toList, .dir 0o755)] k := by
  have hk : logKeys "/b".toList ["# c".toList, "/d/a b/f ".toList, "/d/a b".toList] =
      [["d", "a b", "f "].map String.toList, ["d", "a b"].map String.toList] := by decide
  apply uninstall_restores
  · rw [hk]; decide
  · intro k hkn
    rw [hk] at hkn
    simp only [List.mem_cons, List.not_mem_nil, or_false, not_or] at hkn
    rw [get_set_other _ _ _ _ hkn.1, get_set_other _ _ _ _ hkn.2]
  · intro c hc hg
    rw [hk]
    have : c = ["d"].map String.toList := by
      by_cases hne : (["d"].map String.toList) = c
      · exact hne.symm
      · exfalso; apply hg; simp only [FS.get, hne, if_false]
    subst this
    decide
  · rw [hk]; unfold ChildrenFirst; decide

/-- **The installer's own log is complete and lists children first.**  For every plan that neither reads nor
creates symbolic links (`LinkFree`), every real (non dry-run) successful installation into a fresh DESTDIR
(nothing exists at or below it) on a link-free, well-formed tree:
(1) every path that did not exist before and exists afterwards is named by `install-log.txt`;
(2) every path the log names did not exist before;
(3) no logged directory is followed by one of its own children (files first, `DirMaker`'s directories in reverse
creation order) — the hypotheses `uninstall_restores` needs. -/
theorem log_complete (p : Plan) (o : Opts) (fs : FS) (hp : PlanOK p) (hl : LinkFree p)
    (hdry : o.dryRun = false) (hne : (mkCfg p o).destdir ≠ []) (hD : keyOfAbs (mkCfg p o).destdir ≠ [])
    (hfresh : ∀ k, keyOfAbs (mkCfg p o).destdir <+: k → fs.get k = none)
    (hNL : NL fs) (hWF : WF fs) (hok : (install p o fs).err = none) :
    (∀ k, k ≠ [] → fs.get k = none → (install p o fs).fs.get k ≠ none →
      k ∈ logKeys p.buildDir (install p o fs).log) ∧
    (∀ k ∈ logKeys p.buildDir (install p o fs).log, fs.get k = none) ∧
    ChildrenFirst (install p o fs).fs (logKeys p.buildDir (install p o fs).log) := by
  obtain ⟨s, hlog, hfs, _, hg⟩ := install_LG p o fs hp hl hdry hne hD hfresh hNL hWF hok
  rw [hlog, hfs, logKeys_append, logKeys_reverse]
  refine ⟨?_, ?_, ?_⟩
  · intro k hk h0 hget
    rcases hg.cl k hk h0 hget with h | h
    · exact List.mem_append.mpr (Or.inl h)
    · exact List.mem_append.mpr (Or.inr (List.mem_reverse.mpr h))
  · intro k hk
    rcases List.mem_append.mp hk with h | h
    · exact (hg.nf k h).2
    · exact (hg.dk k (List.mem_reverse.mp h)).2
  · unfold ChildrenFirst
    rw [List.pairwise_append]
    refine ⟨?_, ?_, ?_⟩
    · apply pairwise_of_left
      intro a ha b
      obtain ⟨⟨m, d, t, hm⟩, _⟩ := hg.nf a ha
      left; rw [hm]; rfl
    · rw [List.pairwise_reverse]
      exact hg.dord.imp (fun hab => Or.inr (Or.inr hab))
    · intro a ha b _
      obtain ⟨⟨m, d, t, hm⟩, _⟩ := hg.nf a ha
      left; rw [hm]; rfl

/-- **Uninstall after install restores the tree**, composed end to end: for every link-free plan, a successful
real installation into a fresh DESTDIR followed by `ninja uninstall` (replaying the installation's own log) gives
back the initial tree on every key. -/
theorem uninstall_after_install_restores (p : Plan) (o : Opts) (fs : FS) (hp : PlanOK p) (hl : LinkFree p)
    (hdry : o.dryRun = false) (hne : (mkCfg p o).destdir ≠ []) (hD : keyOfAbs (mkCfg p o).destdir ≠ [])
    (hfresh : ∀ k, keyOfAbs (mkCfg p o).destdir <+: k → fs.get k = none)
    (hNL : NL fs) (hWF : WF fs) (hok : (install p o fs).err = none) :
    ∀ k, (uninstall p.buildDir (install p o fs).log (install p o fs).fs).get k = fs.get k :=
  uninstall_install p o fs hp hl hdry hne hD hfresh hNL hWF hok

/-- a link-free plan with headers, data, an empty directory and a subdirectory walk (names with spaces) -/
def lfPlan : Plan :=
  { buildDir := "/b".toList, pfx := "/usr".toList, umask := some 0o022, targets := [], man := [], symlinks := [],
    emptydirs := [{ path := "var/e".toList, mode := none, subproject := [], tag := none }],
    headers := [{ path := "/s/a b.h".toList, src := .file 0o600 7 3, installPath := "include".toList, mode := none,
                  subproject := [], tag := none, follow := none }],
    data := [{ path := "/s/t".toList, src := .file 0o755 9 4, installPath := "/opt/t o/t".toList,
               mode := some { perms := some 0o750, chown := false }, subproject := [], tag := none, follow := none }],
    subdirs := [{ path := "/s/tree".toList, installPath := "/usr/share/tree".toList, mode := none, exclude := none,
                  subproject := [], tag := none, follow := none,
                  walk := [{ rel := [], rootMode := 0o755, dirs := [("sub dir".toList, .real 0o700)],
                             files := [("x.txt".toList, .file 0o644 1 2)] },
                           { rel := ["sub dir".toList], rootMode := 0o700, dirs := [],
                             files := [(" y ".toList, .file 0o600 3 4)] }] }] }

def lfOpts : Opts :=
  { destdir := some "/d".toList, dryRun := false, onlyChanged := false, tags := none, skipSubprojects := [], ambientUmask := 0o022 }

def lfFs : FS := [(["s"].map String.toList, .dir 0o755)]

/-- the hypotheses of `log_complete` / `uninstall_after_install_restores` are satisfiable -/
example : PlanOK lfPlan ∧ LinkFree lfPlan ∧ (mkCfg lfPlan lfOpts).destdir ≠ [] ∧
    keyOfAbs (mkCfg lfPlan lfOpts).destdir ≠ [] ∧
    (∀ k, keyOfAbs (mkCfg lfPlan lfOpts).destdir <+: k → lfFs.get k = none) ∧ NL lfFs ∧ WF lfFs ∧
    (install lfPlan lfOpts lfFs).err = none := by
  have hget : ∀ k, lfFs.get k ≠ none → k = ["s"].map String.toList := by
    intro k h
    by_cases e : (["s"].map String.toList) = k
    · exact e.symm
    · exfalso; apply h; simp only [lfFs, FS.get, e, if_false]
  refine ⟨⟨by decide, by decide, by decide, by decide, by decide, by decide⟩,
    ⟨by decide, by decide, by decide, by decide, by decide, by decide⟩, by decide, by decide, ?_, ?_, ?_,
    by decide +kernel⟩
  · intro k hk
    by_cases h : lfFs.get k = none
    · exact h
    · have := hget k h
      subst this
      revert hk
      decide
  · intro k t e
    have := hget k (by rw [e]; simp)
    subst this
    have hv : lfFs.get (["s"].map String.toList) = some (.dir 0o755) := by decide
    rw [hv] at e
    cases e
  · intro c _ h
    have := hget c h
    subst this
    left; decide

/-! ### exactness and idempotence (plans of file rules: file targets, headers, man pages, data) -/

def isFileSrc : Src → Bool
  | .file .. => true
  | _ => false

/-- every target's output is an existing regular file (directory outputs and optional missing outputs excluded) -/
def TargetsAreFiles (p : Plan) : Prop := ∀ t ∈ p.targets, isFileSrc t.src = true

instance (p : Plan) : Decidable (TargetsAreFiles p) := by unfold TargetsAreFiles; infer_instance

theorem okRules_of (p : Plan) (hp : PlanOK p) (hl : LinkFree p) (ht : TargetsAreFiles p) :
    (∀ t ∈ p.targets, okTarget t) ∧ (∀ e ∈ p.headers, okData e) ∧ (∀ e ∈ p.man, okData e) ∧ (∀ e ∈ p.data, okData e) := by
  refine ⟨fun t htm => ⟨(hp.targets t htm).2.1, ?_⟩, fun e he => ⟨hp.headers e he, hl.headers e he⟩,
    fun e he => ⟨hp.man e he, hl.man e he⟩, fun e he => ⟨hp.data e he, hl.data e he⟩⟩
  have := ht t htm
  cases hs : t.src <;> rw [hs] at this <;> first | exact ⟨_, _, _, rfl⟩ | cases this

/-- **created = planned.**  For every link-free plan of file targets, headers, man pages and data whose selected
rules have pairwise different destinations, every successful real installation (not `--only-changed`) into any
link-free tree: each selected rule's destination — output dir + basename for targets, install dir + source
basename for headers, the install path for man pages and data; relative ones under the prefix, absolute ones
re-rooted under DESTDIR — holds a file with the source's content and time stamp and the permissions of `modeRule`
(declared `install_mode`, else `install_umask` applied to the default permissions, else the source's); every
other key is bound as before, or was absent and is now a directory with mode `0o777 & ~umask`.  Unselected rules
(`--tags`, `--skip-subprojects`) leave no trace. -/
theorem exact (p : Plan) (o : Opts) (fs : FS) (hp : PlanOK p) (hl : LinkFree p) (hfo : FilesOnly p)
    (htf : TargetsAreFiles p) (hdry : o.dryRun = false) (honly : o.onlyChanged = false)
    (hne : (mkCfg p o).destdir ≠ []) (hD : keyOfAbs (mkCfg p o).destdir ≠ []) (hNL : NL fs)
    (hnd : (plannedKeys (mkCfg p o) p).Nodup) (hok : (install p o fs).err = none) :
    NL (install p o fs).fs ∧
    (∀ t ∈ p.targets, selTarget (mkCfg p o) t = true →
      (install p o fs).fs.get (targetKey (mkCfg p o) t) = some (targetNode (mkCfg p o) t)) ∧
    (∀ e ∈ p.headers, selData (mkCfg p o) e = true →
      (install p o fs).fs.get (headerKey (mkCfg p o) e) = some (fileNode (mkCfg p o) e)) ∧
    (∀ e ∈ p.man, selData (mkCfg p o) e = true →
      (install p o fs).fs.get (dataKey (mkCfg p o) e) = some (fileNode (mkCfg p o) e)) ∧
    (∀ e ∈ p.data, selData (mkCfg p o) e = true →
      (install p o fs).fs.get (dataKey (mkCfg p o) e) = some (fileNode (mkCfg p o) e)) ∧
    (∀ k, k ∉ plannedKeys (mkCfg p o) p → (install p o fs).fs.get k = fs.get k ∨
      (fs.get k = none ∧ (install p o fs).fs.get k = some (.dir (andNot 0o777 (mkCfg p o).procUmask)))) := by
  have hd : isAbs (mkCfg p o).destdir = true := isAbs_resolveDestdir p.buildDir o.destdir hp.buildAbs hne
  have hdest := dest_mkCfg p o hd
  obtain ⟨oT, oH, oM, oD⟩ := okRules_of p hp hl htf
  have hf : (installBody (mkCfg p o) p { fs := fs, log := logHeader }).failed = false := by
    unfold install at hok; dsimp only at hok; simp [St.failed, hok]
  exact filesBody_exact (mkCfg p o) (by simp [mkCfg, hdry]) (by simp [mkCfg, honly]) hD hdest p hfo oT oH oM oD hnd
    { fs := fs, log := logHeader } hNL hf

/-- **Overlapping destinations: the later rule wins.**  Without the pairwise-different hypothesis: a selected
rule's destination holds *its* node at the end whenever no later selected rule has the same destination, where
"later" is: later in the same list, or in a list that is installed afterwards (order: targets, headers, man
pages, data).  (Stated for data rules and headers; `filesBody_last_wins` has all four.) -/
theorem exact_overlap (p : Plan) (o : Opts) (fs : FS) (hp : PlanOK p) (hl : LinkFree p) (hfo : FilesOnly p)
    (htf : TargetsAreFiles p) (hdry : o.dryRun = false) (honly : o.onlyChanged = false)
    (hne : (mkCfg p o).destdir ≠ []) (hD : keyOfAbs (mkCfg p o).destdir ≠ []) (hNL : NL fs)
    (hok : (install p o fs).err = none) :
    (∀ pre e post, p.data = pre ++ e :: post → selData (mkCfg p o) e = true →
      (∀ e' ∈ post, selData (mkCfg p o) e' = true → dataKey (mkCfg p o) e' ≠ dataKey (mkCfg p o) e) →
      (install p o fs).fs.get (dataKey (mkCfg p o) e) = some (fileNode (mkCfg p o) e)) ∧
    (∀ pre e post, p.headers = pre ++ e :: post → selData (mkCfg p o) e = true →
      (∀ e' ∈ post, selData (mkCfg p o) e' = true → headerKey (mkCfg p o) e' ≠ headerKey (mkCfg p o) e) →
      (∀ e' ∈ p.man, selData (mkCfg p o) e' = true → dataKey (mkCfg p o) e' ≠ headerKey (mkCfg p o) e) →
      (∀ e' ∈ p.data, selData (mkCfg p o) e' = true → dataKey (mkCfg p o) e' ≠ headerKey (mkCfg p o) e) →
      (install p o fs).fs.get (headerKey (mkCfg p o) e) = some (fileNode (mkCfg p o) e)) := by
  have hd : isAbs (mkCfg p o).destdir = true := isAbs_resolveDestdir p.buildDir o.destdir hp.buildAbs hne
  have hdest := dest_mkCfg p o hd
  obtain ⟨oT, oH, oM, oD⟩ := okRules_of p hp hl htf
  have hf : (installBody (mkCfg p o) p { fs := fs, log := logHeader }).failed = false := by
    unfold install at hok; dsimp only at hok; simp [St.failed, hok]
  obtain ⟨_, _, gH, _, gD, _⟩ := filesBody_last_wins (mkCfg p o) (by simp [mkCfg, hdry]) (by simp [mkCfg, honly]) hD hdest
    p hfo oT oH oM oD { fs := fs, log := logHeader } hNL hf
  exact ⟨gD, gH⟩

/-- **installing twice gives the same tree as installing once**, for the plans of `exact`: when both runs
succeed, the second leaves every key bound exactly as the first left it -/
theorem install_idempotent (p : Plan) (o : Opts) (fs : FS) (hp : PlanOK p) (hl : LinkFree p) (hfo : FilesOnly p)
    (htf : TargetsAreFiles p) (hdry : o.dryRun = false) (honly : o.onlyChanged = false)
    (hne : (mkCfg p o).destdir ≠ []) (hD : keyOfAbs (mkCfg p o).destdir ≠ []) (hNL : NL fs)
    (hnd : (plannedKeys (mkCfg p o) p).Nodup) (hok1 : (install p o fs).err = none)
    (hok2 : (install p o (install p o fs).fs).err = none) :
    ∀ k, (install p o (install p o fs).fs).fs.get k = (install p o fs).fs.get k := by
  obtain ⟨n1, gT, gH, gM, gD, _⟩ := exact p o fs hp hl hfo htf hdry honly hne hD hNL hnd hok1
  have hd : isAbs (mkCfg p o).destdir = true := isAbs_resolveDestdir p.buildDir o.destdir hp.buildAbs hne
  have hdest := dest_mkCfg p o hd
  obtain ⟨oT, oH, oM, oD⟩ := okRules_of p hp hl htf
  have hfs : (install p o (install p o fs).fs).err =
      (installBody (mkCfg p o) p { fs := (install p o fs).fs, log := logHeader }).err := rfl
  have hf : (installBody (mkCfg p o) p { fs := (install p o fs).fs, log := logHeader }).failed = false := by
    rw [hfs] at hok2; simp [St.failed, hok2]
  exact filesBody_fixed (mkCfg p o) (by simp [mkCfg, hdry]) (by simp [mkCfg, honly]) hD hdest p hfo oT oH oM oD
    { fs := (install p o fs).fs, log := logHeader } n1 gT gH gM gD hf

/-- **`--only-changed` after an install changes nothing**, for the plans of `exact`: every rule finds its
destination with the source's time stamp, preserves it, and re-applies the same permissions (the permission rule
is idempotent, `modeRule_idem`) -/
theorem install_only_changed_idempotent (p : Plan) (o : Opts) (fs : FS) (hp : PlanOK p) (hl : LinkFree p)
    (hfo : FilesOnly p) (htf : TargetsAreFiles p) (hdry : o.dryRun = false) (honly : o.onlyChanged = false)
    (hne : (mkCfg p o).destdir ≠ []) (hD : keyOfAbs (mkCfg p o).destdir ≠ []) (hNL : NL fs)
    (hnd : (plannedKeys (mkCfg p o) p).Nodup) (hok1 : (install p o fs).err = none)
    (hok2 : (install p { o with onlyChanged := true } (install p o fs).fs).err = none) :
    ∀ k, (install p { o with onlyChanged := true } (install p o fs).fs).fs.get k = (install p o fs).fs.get k := by
  obtain ⟨n1, gT, gH, gM, gD, _⟩ := exact p o fs hp hl hfo htf hdry honly hne hD hNL hnd hok1
  have hd : isAbs (mkCfg p { o with onlyChanged := true }).destdir = true :=
    isAbs_resolveDestdir p.buildDir o.destdir hp.buildAbs hne
  have hdest := dest_mkCfg p { o with onlyChanged := true } hd
  obtain ⟨oT, oH, oM, oD⟩ := okRules_of p hp hl htf
  have hfs : (install p { o with onlyChanged := true } (install p o fs).fs).err =
      (installBody (mkCfg p { o with onlyChanged := true }) p { fs := (install p o fs).fs, log := logHeader }).err := rfl
  have hf : (installBody (mkCfg p { o with onlyChanged := true }) p
      { fs := (install p o fs).fs, log := logHeader }).failed = false := by
    rw [hfs] at hok2; simp [St.failed, hok2]
  exact filesBody_only_changed_fixed (mkCfg p { o with onlyChanged := true }) (by simp [mkCfg, hdry]) (by simp [mkCfg])
    hD hdest p hfo oT oH oM oD { fs := (install p o fs).fs, log := logHeader } n1 gT gH gM gD hf

/-- a files-only plan with a target, a header and a data rule -/
def filesPlan : Plan :=
  { lfPlan with
    subdirs := []
    emptydirs := []
    targets := [{ fname := "/b/prog".toList, src := .file 0o755 11 5, outdir := "bin".toList,
                    mode := some { perms := none, chown := false }, subproject := [], tag := some "runtime".toList,
                    optional := false, walk := [] }] }

/-- the hypotheses of `exact` / `install_idempotent` are satisfiable, and the rules are visible in the result:
a target under `bin`, a header with default permissions under umask 022, a data file with a declared mode
re-rooted from an absolute install dir -/
example :
    PlanOK filesPlan ∧ LinkFree filesPlan ∧ FilesOnly filesPlan ∧ TargetsAreFiles filesPlan ∧
    (plannedKeys (mkCfg filesPlan lfOpts) filesPlan).Nodup ∧
    (install filesPlan lfOpts lfFs).err = none ∧
    (install filesPlan lfOpts (install filesPlan lfOpts lfFs).fs).err = none ∧
    (install filesPlan lfOpts lfFs).fs.get (["d", "usr", "bin", "prog"].map String.toList) = some (.file 0o755 11 5) ∧
    (install filesPlan lfOpts lfFs).fs.get (["d", "usr", "include", "a b.h"].map String.toList) = some (.file 0o644 7 3) ∧
    (install filesPlan lfOpts lfFs).fs.get (["d", "opt", "t o", "t"].map String.toList) = some (.file 0o750 9 4) := by
  refine ⟨⟨by decide, by decide, by decide, by decide, by decide, by decide⟩,
    ⟨by decide, by decide, by decide, by decide, by decide, by decide⟩, ⟨rfl, rfl, rfl⟩, by decide, by decide +kernel,
    by decide +kernel, by decide +kernel, by decide +kernel, by decide +kernel, by decide +kernel⟩

/-- the `--only-changed` reinstall of `filesPlan` succeeds (hypothesis `hok2` of `install_only_changed_idempotent`) -/
example : (install filesPlan { lfOpts with onlyChanged := true } (install filesPlan lfOpts lfFs).fs).err = none := by
  decide +kernel

/-- the plan classes are decidable predicates -/
instance (p : Plan) : Decidable (FilesOnly p) :=
  decidable_of_iff (p.subdirs.isEmpty = true ∧ p.emptydirs.isEmpty = true ∧ p.symlinks.isEmpty = true) (by
    unfold FilesOnly; simp [List.isEmpty_iff])

instance (p : Plan) : Decidable (PlanOK p) :=
  decidable_of_iff (isAbs p.buildDir = true ∧ (∀ e ∈ p.subdirs, WalkOK e.walk) ∧
      (∀ t ∈ p.targets, WalkOK t.walk ∧ basename t.fname ≠ dotdot ∧
        basename (join p.buildDir (rstripSlash t.fname)) ≠ dotdot) ∧
      (∀ e ∈ p.headers, basename e.path ≠ dotdot) ∧ (∀ e ∈ p.man, basename e.path ≠ dotdot) ∧
      (∀ e ∈ p.data, basename e.path ≠ dotdot))
    ⟨fun ⟨a, b, c, d, e, f⟩ => ⟨a, b, c, d, e, f⟩, fun h => ⟨h.buildAbs, h.subdirs, h.targets, h.headers, h.man, h.data⟩⟩

instance (p : Plan) : Decidable (LinkFree p) :=
  decidable_of_iff ((∀ e ∈ p.subdirs, WalkNoLinks e.walk) ∧ (∀ t ∈ p.targets, noLinkSrc t.src = true ∧ WalkNoLinks t.walk) ∧
      (∀ e ∈ p.headers, noLinkSrc e.src = true) ∧ (∀ e ∈ p.man, noLinkSrc e.src = true) ∧
      (∀ e ∈ p.data, noLinkSrc e.src = true) ∧ p.symlinks.isEmpty = true)
    ⟨fun ⟨a, b, c, d, e, f⟩ => ⟨a, b, c, d, e, by simpa [List.isEmpty_iff] using f⟩,
     fun h => ⟨h.subdirs, h.targets, h.headers, h.man, h.data, by simp [h.symlinks]⟩⟩

/-- the class of `exact` / `install_idempotent` / `install_only_changed_idempotent` as one decidable predicate -/
def FileRulePlan (p : Plan) : Prop := PlanOK p ∧ LinkFree p ∧ FilesOnly p ∧ TargetsAreFiles p

instance (p : Plan) : Decidable (FileRulePlan p) := by unfold FileRulePlan; infer_instance

example : FileRulePlan filesPlan := by decide

/-- two data rules with one destination -/
def overlapPlan (t1 t2 : Nat) : Plan :=
  { lfPlan with
    subdirs := []
    emptydirs := []
    headers := []
    data := [{ path := "/s/A".toList, src := .file 0o644 1 t1, installPath := "share/x".toList, mode := none,
                 subproject := [], tag := none, follow := none },
               { path := "/s/B".toList, src := .file 0o644 2 t2, installPath := "share/x".toList, mode := none,
                 subproject := [], tag := none, follow := none }] }

/-- the later rule wins: the destination holds `B` -/
example : (install (overlapPlan 9 5) lfOpts lfFs).err = none ∧
    (install (overlapPlan 9 5) lfOpts lfFs).fs.get (["d", "usr", "share", "x"].map String.toList) =
      some (.file 0o644 2 5) := by
  decide +kernel

/-- the statement "a second `meson install --only-changed` leaves the tree as the first install left it" for plans
with overlapping destinations -/
def only_changed_idempotent_full_statement : Prop :=
  ∀ (p : Plan) (o : Opts) (fs : FS), LinkFree p → FilesOnly p → o.dryRun = false →
    (install p o fs).err = none →
    (install p { o with onlyChanged := true } (install p o fs).fs).err = none →
    ∀ k, (install p { o with onlyChanged := true } (install p o fs).fs).fs.get k = (install p o fs).fs.get k

/-- **false of the code** when two rules share a destination and the first source is newer than the second: the
first install ends with `B` (later rule wins); the `--only-changed` reinstall copies `A` (newer than the installed
`B`) and then preserves it against `B` (older than the installed `A`), so the tree changes.  Recorded, not
repaired: two rules installing different files to one path is a defect of the build definition (see report). -/
theorem only_changed_overlap_counterexample : ¬ only_changed_idempotent_full_statement := by
  intro h
  have := h (overlapPlan 9 5) lfOpts lfFs ⟨by decide, by decide, by decide, by decide, by decide, by decide⟩
    ⟨rfl, rfl, rfl⟩ (by decide) (by decide +kernel) (by decide +kernel) (["d", "usr", "share", "x"].map String.toList)
  revert this
  decide +kernel

/-! ### `--only-changed`: the decision on file metadata, and what it leaves -/

/-- **the decision of `meson install --only-changed`** (`should_preserve_existing_file`) as a function of the
metadata it reads: an existing destination is preserved iff the option is given, the source is a regular file or
a link to one (its time stamp `mt`, in nanoseconds, is the one `stat` reports), and the destination is a regular
file (or a link to one) whose time stamp is at least `mt` — *the destination is at least as new*, nothing coarser -/
theorem preserve_iff_destination_at_least_as_new (cfg : Cfg) (src : Src) (s : St) (kt : Key) :
    shouldPreserve cfg src s kt = true ↔
      cfg.onlyChanged = true ∧ ∃ mt, srcMtime src = some mt ∧
        ∃ m d tt, s.fs.follow kt = some (.file m d tt) ∧ mt ≤ tt :=
  shouldPreserve_iff cfg src s kt

/-- a source that is newer than the destination by any amount — one nanosecond included — is installed again -/
theorem newer_source_is_never_preserved (cfg : Cfg) (src : Src) (s : St) (kt : Key) (mt m d tt : Nat)
    (hs : srcMtime src = some mt) (hd : s.fs.follow kt = some (.file m d tt)) (hlt : tt < mt) :
    shouldPreserve cfg src s kt = false :=
  shouldPreserve_newer cfg src s kt mt m d tt hs hd hlt

/-- the two time stamps may lie in the same clock second (0.2 s and 0.7 s past it), or one nanosecond apart -/
example :
    let cfg : Cfg := { cwd := "/b".toList, buildDir := "/b".toList, destdir := [], fullprefix := "/usr".toList,
                       umask := none, procUmask := 0o022, dryRun := false, onlyChanged := true, tags := none, skip := [] }
    let k : Key := ["d", "f"].map String.toList
    let st (t : Nat) : St := { fs := [(k, .file 0o644 1 t)] }
    shouldPreserve cfg (.file 0o644 2 1700000000700000000) (st 1700000000200000000) k = false ∧
    shouldPreserve cfg (.file 0o644 2 1700000000200000001) (st 1700000000200000000) k = false ∧
    shouldPreserve cfg (.file 0o644 2 1700000000200000000) (st 1700000000200000000) k = true ∧
    shouldPreserve cfg (.file 0o644 2 1700000000200000000) (st 1700000000200000001) k = true ∧
    shouldPreserve cfg (.linkFile "x".toList 0o644 2 1700000000200000001) (st 1700000000200000000) k = false ∧
    shouldPreserve cfg (.linkDangling "x".toList) (st 1700000000200000000) k = false ∧
    shouldPreserve { cfg with onlyChanged := false } (.file 0o644 2 5) (st 1700000000200000000) k = false := by
  decide +kernel

/-- **created = planned, with or without `--only-changed`, on any link-free tree** (not only a fresh one).  For the
plans of `exact`: after a successful real run each selected rule's destination holds `ocNode` of what was there
before — the old content and time stamp (permission rule re-applied) exactly when `--only-changed` is on and the
destination was a regular file at least as new as the source, the source's content and time stamp otherwise; for
targets `ocTargetNode` (a kept target is not even re-`chmod`ed).  Every other key is as before or a new directory. -/
theorem only_changed_exact (p : Plan) (o : Opts) (fs : FS) (hp : PlanOK p) (hl : LinkFree p) (hfo : FilesOnly p)
    (htf : TargetsAreFiles p) (hdry : o.dryRun = false)
    (hne : (mkCfg p o).destdir ≠ []) (hD : keyOfAbs (mkCfg p o).destdir ≠ []) (hNL : NL fs)
    (hnd : (plannedKeys (mkCfg p o) p).Nodup) (hok : (install p o fs).err = none) :
    NL (install p o fs).fs ∧
    (∀ t ∈ p.targets, selTarget (mkCfg p o) t = true →
      (install p o fs).fs.get (targetKey (mkCfg p o) t) =
        some (ocTargetNode (mkCfg p o) t.mode t.src (fs.get (targetKey (mkCfg p o) t)))) ∧
    (∀ e ∈ p.headers, selData (mkCfg p o) e = true →
      (install p o fs).fs.get (headerKey (mkCfg p o) e) =
        some (ocNode (mkCfg p o) e.mode e.src (fs.get (headerKey (mkCfg p o) e)))) ∧
    (∀ e ∈ p.man, selData (mkCfg p o) e = true →
      (install p o fs).fs.get (dataKey (mkCfg p o) e) =
        some (ocNode (mkCfg p o) e.mode e.src (fs.get (dataKey (mkCfg p o) e)))) ∧
    (∀ e ∈ p.data, selData (mkCfg p o) e = true →
      (install p o fs).fs.get (dataKey (mkCfg p o) e) =
        some (ocNode (mkCfg p o) e.mode e.src (fs.get (dataKey (mkCfg p o) e)))) ∧
    (∀ k, k ∉ plannedKeys (mkCfg p o) p → (install p o fs).fs.get k = fs.get k ∨
      (fs.get k = none ∧ (install p o fs).fs.get k = some (.dir (andNot 0o777 (mkCfg p o).procUmask)))) := by
  have hd : isAbs (mkCfg p o).destdir = true := isAbs_resolveDestdir p.buildDir o.destdir hp.buildAbs hne
  have hdest := dest_mkCfg p o hd
  obtain ⟨oT, oH, oM, oD⟩ := okRules_of p hp hl htf
  have hf : (installBody (mkCfg p o) p { fs := fs, log := logHeader }).failed = false := by
    unfold install at hok; dsimp only at hok; simp [St.failed, hok]
  exact filesBody_exact_oc (mkCfg p o) (by simp [mkCfg, hdry]) hD hdest p hfo oT oH oM oD hnd
    { fs := fs, log := logHeader } hNL hf

/-- what `only_changed_exact` says about a destination that is older than its source, by however little:
it holds the source's content -/
theorem only_changed_overwrites_older (cfg : Cfg) (mode : Option FileMode) (m d t m' d' t' : Nat) (h : t' < t) :
    ocNode cfg mode (.file m d t) (some (.file m' d' t')) = .file (modeRule cfg mode m) d t ∧
    ocTargetNode cfg mode (.file m d t) (some (.file m' d' t')) = .file (modeRule cfg mode m) d t :=
  ocNode_not_keeps cfg mode m d t _ (by
    rintro ⟨_, _, _, t2, e2, hle⟩
    cases e2
    omega)

/-- **install; rewrite sources; install `--only-changed`.**  For the plans of `exact`: after a successful
installation the sources are rewritten by `g` — each one either left alone or replaced by a regular file with any
content and permissions and a *strictly later time stamp, however close* (`Rewritten`) — and
`meson install --only-changed` runs successfully.  Then every selected rule's destination holds the node of the
**current** source (new content, new time stamp, documented permissions): nothing stale survives.  Every other key
is as the first installation left it (or a new directory). -/
theorem install_modify_only_changed (p : Plan) (o : Opts) (fs : FS) (g : Str → Src → Src)
    (hg : ∀ path src, Rewritten src (g path src))
    (hp : PlanOK p) (hl : LinkFree p) (hfo : FilesOnly p) (htf : TargetsAreFiles p)
    (hdry : o.dryRun = false) (honly : o.onlyChanged = false)
    (hne : (mkCfg p o).destdir ≠ []) (hD : keyOfAbs (mkCfg p o).destdir ≠ []) (hNL : NL fs)
    (hnd : (plannedKeys (mkCfg p o) p).Nodup) (hok1 : (install p o fs).err = none)
    (hok2 : (install (touchPlan g p) { o with onlyChanged := true } (install p o fs).fs).err = none) :
    (∀ t ∈ p.targets, selTarget (mkCfg p o) t = true →
      (install (touchPlan g p) { o with onlyChanged := true } (install p o fs).fs).fs.get (targetKey (mkCfg p o) t) =
        some (targetNode (mkCfg p o) (touchTarget g t))) ∧
    (∀ e ∈ p.headers, selData (mkCfg p o) e = true →
      (install (touchPlan g p) { o with onlyChanged := true } (install p o fs).fs).fs.get (headerKey (mkCfg p o) e) =
        some (fileNode (mkCfg p o) (touchData g e))) ∧
    (∀ e ∈ p.man, selData (mkCfg p o) e = true →
      (install (touchPlan g p) { o with onlyChanged := true } (install p o fs).fs).fs.get (dataKey (mkCfg p o) e) =
        some (fileNode (mkCfg p o) (touchData g e))) ∧
    (∀ e ∈ p.data, selData (mkCfg p o) e = true →
      (install (touchPlan g p) { o with onlyChanged := true } (install p o fs).fs).fs.get (dataKey (mkCfg p o) e) =
        some (fileNode (mkCfg p o) (touchData g e))) ∧
    (∀ k, k ∉ plannedKeys (mkCfg p o) p →
      (install (touchPlan g p) { o with onlyChanged := true } (install p o fs).fs).fs.get k = (install p o fs).fs.get k ∨
      ((install p o fs).fs.get k = none ∧
        (install (touchPlan g p) { o with onlyChanged := true } (install p o fs).fs).fs.get k =
          some (.dir (andNot 0o777 (mkCfg p o).procUmask)))) := by
  obtain ⟨n1, gT, gH, gM, gD, _⟩ := exact p o fs hp hl hfo htf hdry honly hne hD hNL hnd hok1
  have hd : isAbs (mkCfg p { o with onlyChanged := true }).destdir = true :=
    isAbs_resolveDestdir p.buildDir o.destdir hp.buildAbs hne
  have hdest := dest_mkCfg p { o with onlyChanged := true } hd
  obtain ⟨oT, oH, oM, oD⟩ := okRules_of p hp hl htf
  have hfs : (install (touchPlan g p) { o with onlyChanged := true } (install p o fs).fs).err =
      (installBody (mkCfg p { o with onlyChanged := true }) (touchPlan g p)
        { fs := (install p o fs).fs, log := logHeader }).err := rfl
  have hf : (installBody (mkCfg p { o with onlyChanged := true }) (touchPlan g p)
      { fs := (install p o fs).fs, log := logHeader }).failed = false := by
    rw [hfs] at hok2; simp [St.failed, hok2]
  exact filesBody_touch_only_changed (mkCfg p { o with onlyChanged := true }) (by simp [mkCfg, hdry]) (by simp [mkCfg])
    hD hdest p g hg hfo oT oH oM oD hnd { fs := (install p o fs).fs, log := logHeader } n1 gT gH gM gD hf

/-- the sources of `filesPlan` rewritten: the header half a second later *within the same clock second*, the data
file one nanosecond later, the target left alone -/
def rewriteDemo (path : Str) : Src → Src
  | .file m d t =>
    if path = "/s/a b.h".toList ∧ t < 1700000000700000000 then .file 0o600 70 1700000000700000000
    else if path = "/s/t".toList ∧ t < 1700000000200000001 then .file 0o755 90 1700000000200000001
    else .file m d t
  | s => s

def subsecPlan : Plan :=
  { filesPlan with
    headers := [{ path := "/s/a b.h".toList, src := .file 0o600 7 1700000000200000000, installPath := "include".toList,
                  mode := none, subproject := [], tag := none, follow := none }]
    data := [{ path := "/s/t".toList, src := .file 0o755 9 1700000000200000000, installPath := "/opt/t o/t".toList,
               mode := some { perms := some 0o750, chown := false }, subproject := [], tag := none, follow := none }] }

/-- the hypotheses of `install_modify_only_changed` are satisfiable, and its conclusion is visible: the header
rewritten 0.5 s later in the same second and the data file rewritten 1 ns later are both installed again, the
untouched target is kept -/
example :
    (∀ path src, Rewritten src (rewriteDemo path src)) ∧
    FileRulePlan subsecPlan ∧ (plannedKeys (mkCfg subsecPlan lfOpts) subsecPlan).Nodup ∧
    (install subsecPlan lfOpts lfFs).err = none ∧
    (install (touchPlan rewriteDemo subsecPlan) { lfOpts with onlyChanged := true } (install subsecPlan lfOpts lfFs).fs).err = none ∧
    (install (touchPlan rewriteDemo subsecPlan) { lfOpts with onlyChanged := true } (install subsecPlan lfOpts lfFs).fs).fs.get
      (["d", "usr", "include", "a b.h"].map String.toList) = some (.file 0o644 70 1700000000700000000) ∧
    (install (touchPlan rewriteDemo subsecPlan) { lfOpts with onlyChanged := true } (install subsecPlan lfOpts lfFs).fs).fs.get
      (["d", "opt", "t o", "t"].map String.toList) = some (.file 0o750 90 1700000000200000001) ∧
    (install (touchPlan rewriteDemo subsecPlan) { lfOpts with onlyChanged := true } (install subsecPlan lfOpts lfFs).fs).fs.get
      (["d", "usr", "bin", "prog"].map String.toList) = some (.file 0o755 11 5) := by
  refine ⟨?_, by decide, by decide +kernel, by decide +kernel, by decide +kernel, by decide +kernel,
    by decide +kernel, by decide +kernel⟩
  intro path src
  cases src with
  | file m d t =>
    show Rewritten (.file m d t)
      (if path = "/s/a b.h".toList ∧ t < 1700000000700000000 then .file 0o600 70 1700000000700000000
       else if path = "/s/t".toList ∧ t < 1700000000200000001 then .file 0o755 90 1700000000200000001
       else .file m d t)
    by_cases h1 : path = "/s/a b.h".toList ∧ t < 1700000000700000000
    · rw [if_pos h1]; exact Or.inr ⟨_, _, _, _, _, _, rfl, rfl, h1.2⟩
    · rw [if_neg h1]
      by_cases h2 : path = "/s/t".toList ∧ t < 1700000000200000001
      · rw [if_pos h2]; exact Or.inr ⟨_, _, _, _, _, _, rfl, rfl, h2.2⟩
      · rw [if_neg h2]; exact Or.inl rfl
  | missing => exact Or.inl rfl
  | dir => exact Or.inl rfl
  | linkDangling _ => exact Or.inl rfl
  | linkFile _ _ _ _ => exact Or.inl rfl
  | linkDir _ => exact Or.inl rfl

/-! ### plans with empty directories (and the open part: subdirectories, symlinks) -/

/-- every rule of the plan is one the proofs cover: file targets, plain-file sources -/
theorem rulesOk_of (p : Plan) (hp : PlanOK p) (hl : LinkFree p) (ht : TargetsAreFiles p) : ∀ r ∈ rulesOf p, ruleOk r := by
  obtain ⟨oT, oH, oM, oD⟩ := okRules_of p hp hl ht
  intro r hr
  unfold rulesOf at hr
  simp only [List.mem_append, List.mem_map] at hr
  rcases hr with ⟨t, ht', rfl⟩ | ⟨e, he, rfl⟩ | ⟨e, he, rfl⟩ | ⟨e, _, rfl⟩ | ⟨e, he, rfl⟩
  · exact oT t ht'
  · exact oH e he
  · exact oM e he
  · trivial
  · exact oD e he

/-- **created = planned for plans with `install_emptydir`** (file targets, headers, man pages, empty directories,
data; no `install_subdir`, no `install_symlink`), pairwise different destinations, with or without `--only-changed`,
on ANY link-free tree (fresh or not): after a successful real run every selected rule's destination holds
`ruleNode` of what was there before — for an empty-directory rule a directory whose permissions are the documented
rule (`install_mode`, else `install_umask` on the default, else unchanged) applied to the permissions an existing
directory had, or to `0o777 & ~umask` for one the installer creates; for file rules as in `only_changed_exact`.
Every other key is as before or a new directory with mode `0o777 & ~umask`.  This is the proved part
(`_partial`) of `exact_all_kinds_full_statement`. -/
theorem exact_all_kinds_partial (p : Plan) (o : Opts) (fs : FS) (hp : PlanOK p) (hl : LinkFree p)
    (hsub : p.subdirs = []) (hsym : p.symlinks = []) (htf : TargetsAreFiles p) (hdry : o.dryRun = false)
    (hne : (mkCfg p o).destdir ≠ []) (hD : keyOfAbs (mkCfg p o).destdir ≠ []) (hNL : NL fs)
    (hnd : (ruleKeys (mkCfg p o) p).Nodup) (hok : (install p o fs).err = none) :
    NL (install p o fs).fs ∧
    (∀ r ∈ rulesOf p, ruleSel (mkCfg p o) r = true →
      (install p o fs).fs.get (ruleKey (mkCfg p o) r) = some (ruleNode (mkCfg p o) r (fs.get (ruleKey (mkCfg p o) r)))) ∧
    (∀ k, k ∉ ruleKeys (mkCfg p o) p → (install p o fs).fs.get k = fs.get k ∨
      (fs.get k = none ∧ (install p o fs).fs.get k = some (.dir (andNot 0o777 (mkCfg p o).procUmask)))) := by
  have hd : isAbs (mkCfg p o).destdir = true := isAbs_resolveDestdir p.buildDir o.destdir hp.buildAbs hne
  have hdest := dest_mkCfg p o hd
  have hf : (installBody (mkCfg p o) p { fs := fs, log := logHeader }).failed = false := by
    unfold install at hok; dsimp only at hok; simp [St.failed, hok]
  exact rulesBody_exact (mkCfg p o) (by simp [mkCfg, hdry]) hD hdest p hsub hsym (rulesOk_of p hp hl htf) hnd
    { fs := fs, log := logHeader } hNL hf

/-- the empty-directory clause of `exact_all_kinds_partial`, spelled out -/
theorem emptydir_rule (p : Plan) (o : Opts) (fs : FS) (hp : PlanOK p) (hl : LinkFree p)
    (hsub : p.subdirs = []) (hsym : p.symlinks = []) (htf : TargetsAreFiles p) (hdry : o.dryRun = false)
    (hne : (mkCfg p o).destdir ≠ []) (hD : keyOfAbs (mkCfg p o).destdir ≠ []) (hNL : NL fs)
    (hnd : (ruleKeys (mkCfg p o) p).Nodup) (hok : (install p o fs).err = none)
    (e : EmptyDirEntry) (he : e ∈ p.emptydirs) (hs : selEmpty (mkCfg p o) e = true) :
    (install p o fs).fs.get (emptyKey (mkCfg p o) e) = some (.dir (modeRule (mkCfg p o) e.mode
      (match fs.get (emptyKey (mkCfg p o) e) with
       | some (.dir m) => m
       | _ => andNot 0o777 (mkCfg p o).procUmask))) := by
  obtain ⟨_, g, _⟩ := exact_all_kinds_partial p o fs hp hl hsub hsym htf hdry hne hD hNL hnd hok
  have hr : Rule.E e ∈ rulesOf p := by
    unfold rulesOf
    simp only [List.mem_append, List.mem_map]
    exact Or.inr (Or.inr (Or.inr (Or.inl ⟨e, he, rfl⟩)))
  have := g (.E e) hr hs
  rw [show ruleKey (mkCfg p o) (.E e) = emptyKey (mkCfg p o) e from rfl] at this
  rw [this]
  show some (emptyNode (mkCfg p o) e (fs.get (emptyKey (mkCfg p o) e))) = _
  unfold emptyNode
  cases fs.get (emptyKey (mkCfg p o) e) with
  | none => rfl
  | some n => cases n <;> rfl

theorem ruleNode_idem (cfg : Cfg) (honly : cfg.onlyChanged = false) (r : Rule) (x : Option Node) :
    ruleNode cfg r (some (ruleNode cfg r x)) = ruleNode cfg r x := by
  have hoc : ∀ (mode : Option FileMode) (src : Src) (a b : Option Node),
      ocNode cfg mode src a = ocNode cfg mode src b ∧ ocTargetNode cfg mode src a = ocTargetNode cfg mode src b := by
    intro mode src a b
    unfold ocNode ocTargetNode
    cases src <;> try exact ⟨rfl, rfl⟩
    cases a with
    | none => cases b with
      | none => exact ⟨rfl, rfl⟩
      | some nb => cases nb <;> simp [honly]
    | some na =>
      cases b with
      | none => cases na <;> simp [honly]
      | some nb => cases na <;> cases nb <;> simp [honly]
  cases r with
  | T t => exact (hoc t.mode t.src _ _).2
  | H e => exact (hoc e.mode e.src _ _).1
  | M e => exact (hoc e.mode e.src _ _).1
  | D e => exact (hoc e.mode e.src _ _).1
  | E e =>
    show emptyNode cfg e (some (emptyNode cfg e x)) = emptyNode cfg e x
    unfold emptyNode
    cases x with
    | none => simp [modeRule_idem]
    | some n => cases n <;> simp [modeRule_idem]

/-- **installing twice leaves every planned destination as installing once left it**, for the plans of
`exact_all_kinds_partial` (empty directories included): the `_partial` form of `install_idempotent_full_statement`
(destinations only; that no *other* key changes is proved for file-rule plans in `install_idempotent`) -/
theorem install_idempotent_destinations_partial (p : Plan) (o : Opts) (fs : FS) (hp : PlanOK p) (hl : LinkFree p)
    (hsub : p.subdirs = []) (hsym : p.symlinks = []) (htf : TargetsAreFiles p) (hdry : o.dryRun = false)
    (honly : o.onlyChanged = false)
    (hne : (mkCfg p o).destdir ≠ []) (hD : keyOfAbs (mkCfg p o).destdir ≠ []) (hNL : NL fs)
    (hnd : (ruleKeys (mkCfg p o) p).Nodup) (hok1 : (install p o fs).err = none)
    (hok2 : (install p o (install p o fs).fs).err = none) :
    ∀ r ∈ rulesOf p, ruleSel (mkCfg p o) r = true →
      (install p o (install p o fs).fs).fs.get (ruleKey (mkCfg p o) r) = (install p o fs).fs.get (ruleKey (mkCfg p o) r) := by
  obtain ⟨n1, g1, _⟩ := exact_all_kinds_partial p o fs hp hl hsub hsym htf hdry hne hD hNL hnd hok1
  obtain ⟨_, g2, _⟩ := exact_all_kinds_partial p o _ hp hl hsub hsym htf hdry hne hD n1 hnd hok2
  intro r hr hs
  rw [g2 r hr hs, g1 r hr hs, ruleNode_idem (mkCfg p o) (by simp [mkCfg, honly])]

/-- **installing twice gives the same tree as installing once — every key**, for plans with empty directories
(file targets, headers, man pages, empty directories, data; pairwise different destinations) installed into a fresh
DESTDIR on a well-formed link-free tree: the second successful run changes nothing at all.  (`os.makedirs` over an
existing path is a no-op because the first run leaves a well-formed tree, `install_LG`; an empty-directory rule
re-applies an idempotent permission rule.) -/
theorem install_idempotent_rules (p : Plan) (o : Opts) (fs : FS) (hp : PlanOK p) (hl : LinkFree p)
    (hsub : p.subdirs = []) (hsym : p.symlinks = []) (htf : TargetsAreFiles p) (hdry : o.dryRun = false)
    (honly : o.onlyChanged = false)
    (hne : (mkCfg p o).destdir ≠ []) (hD : keyOfAbs (mkCfg p o).destdir ≠ [])
    (hfresh : ∀ k, keyOfAbs (mkCfg p o).destdir <+: k → fs.get k = none) (hNL : NL fs) (hWF : WF fs)
    (hnd : (ruleKeys (mkCfg p o) p).Nodup) (hok1 : (install p o fs).err = none)
    (hok2 : (install p o (install p o fs).fs).err = none) :
    ∀ k, (install p o (install p o fs).fs).fs.get k = (install p o fs).fs.get k := by
  obtain ⟨n1, g1, _⟩ := exact_all_kinds_partial p o fs hp hl hsub hsym htf hdry hne hD hNL hnd hok1
  obtain ⟨s1, _, hfs, _, hLG⟩ := install_LG p o fs hp hl hdry hne hD hfresh hNL hWF hok1
  have hWF1 : WF (install p o fs).fs := by rw [hfs]; exact hLG.wf
  have hd : isAbs (mkCfg p o).destdir = true := isAbs_resolveDestdir p.buildDir o.destdir hp.buildAbs hne
  have hdest := dest_mkCfg p o hd
  have hfs2 : (install p o (install p o fs).fs).err =
      (installBody (mkCfg p o) p { fs := (install p o fs).fs, log := logHeader }).err := rfl
  have hf : (installBody (mkCfg p o) p { fs := (install p o fs).fs, log := logHeader }).failed = false := by
    rw [hfs2] at hok2; simp [St.failed, hok2]
  rw [installBody_eq_rules _ p _ hsub hsym] at hf
  have := rules_fold_fixed (mkCfg p o) (by simp [mkCfg, hdry]) (by simp [mkCfg, honly]) hD hdest (rulesOf p)
    (rulesOk_of p hp hl htf) { fs := (install p o fs).fs, log := logHeader } n1 hWF1
    (fun r hr hs => ⟨_, g1 r hr hs⟩) hf
  intro k
  show (installBody (mkCfg p o) p { fs := (install p o fs).fs, log := logHeader }).fs.get k = _
  rw [installBody_eq_rules _ p _ hsub hsym]
  exact this k

/-- **created = planned for plans with `install_symlink`** (file targets, headers, man pages, empty directories, data,
symlinks; no `install_subdir`): pairwise different destinations, every link lies directly in its install directory and
no symlink rule's install directory passes through a link destination (`SymOK`; the link-free hypothesis of the other
theorems is weakened to *no link on the path prefixes `os.makedirs` traverses*).  After a successful real run on a
link-free tree: every selected symlink rule's destination is a link with exactly the declared target text (an older
link there is replaced), the other rules' destinations are as in `exact_all_kinds_partial`, links exist only at the
symlink rules' destinations, every other key is as before or a new directory.  `_partial`: first installation only;
a re-installation over the links, and plans with subdirectories, are carried by the per-run correspondence. -/
theorem exact_with_symlinks_partial (p : Plan) (o : Opts) (fs : FS) (hp : PlanOK p)
    (hl : LinkFree { p with symlinks := [] }) (hsub : p.subdirs = []) (htf : TargetsAreFiles p)
    (hdry : o.dryRun = false) (hne : (mkCfg p o).destdir ≠ []) (hD : keyOfAbs (mkCfg p o).destdir ≠ []) (hNL : NL fs)
    (hsym : ∀ e ∈ p.symlinks, SymOK (mkCfg p o) (symKeys (mkCfg p o) p) e)
    (hnd : (ruleKeys (mkCfg p o) p ++ symKeys (mkCfg p o) p).Nodup) (hok : (install p o fs).err = none) :
    LinksIn (symKeys (mkCfg p o) p) (install p o fs).fs ∧
    (∀ r ∈ rulesOf p, ruleSel (mkCfg p o) r = true →
      (install p o fs).fs.get (ruleKey (mkCfg p o) r) = some (ruleNode (mkCfg p o) r (fs.get (ruleKey (mkCfg p o) r)))) ∧
    (∀ e ∈ p.symlinks, selSym (mkCfg p o) e = true →
      (install p o fs).fs.get (symKey (mkCfg p o) e) = some (.link e.target)) ∧
    (∀ k, k ∉ ruleKeys (mkCfg p o) p ++ symKeys (mkCfg p o) p → (install p o fs).fs.get k = fs.get k ∨
      (fs.get k = none ∧ (install p o fs).fs.get k = some (.dir (andNot 0o777 (mkCfg p o).procUmask)))) := by
  have hd : isAbs (mkCfg p o).destdir = true := isAbs_resolveDestdir p.buildDir o.destdir hp.buildAbs hne
  have hdest := dest_mkCfg p o hd
  have hp' : PlanOK { p with symlinks := [] } := ⟨hp.buildAbs, hp.subdirs, hp.targets, hp.headers, hp.man, hp.data⟩
  have hokR : ∀ r ∈ rulesOf p, ruleOk r := rulesOk_of { p with symlinks := [] } hp' hl htf
  have hf : (installBody (mkCfg p o) p { fs := fs, log := logHeader }).failed = false := by
    unfold install at hok; dsimp only at hok; simp [St.failed, hok]
  exact body_exact_sym (mkCfg p o) (by simp [mkCfg, hdry]) hD hdest p hsub hokR hsym hnd
    { fs := fs, log := logHeader } hNL hf

/-- the full statement of exactness-by-idempotence for ALL plan kinds (install_subdir with excludes and
strip_directory, install_symlink, symlink sources): a second successful `meson install` leaves every key as the first
left it.  Proved parts: `install_idempotent` (file rules), `install_idempotent_rules` (file rules and empty directories,
every key, via `WF` after the first run).  Open (neither proved nor refuted in Lean) for plans with install_subdir and
for a re-installation over installed symlinks (every rule then runs on a tree that contains links); carried by the
per-run correspondence (model = real installer on generated plans with subdirectories, excludes, symlinks) and the
tree-diff oracle. -/
def install_idempotent_full_statement : Prop :=
  ∀ (p : Plan) (o : Opts) (fs : FS), PlanOK p → o.dryRun = false → o.onlyChanged = false →
    (mkCfg p o).destdir ≠ [] → WF fs → (install p o fs).err = none → (install p o (install p o fs).fs).err = none →
    ∀ k, (install p o (install p o fs).fs).fs.get k = (install p o fs).fs.get k

/-- the full statement of reversibility for ALL plan kinds (`uninstall_after_install_restores` without `LinkFree`).
Proved for link-free plans (subdirectories with excludes and strip_directory, empty directories included):
`uninstall_after_install_restores`.  Open for plans with install_symlink / symlink sources (the log invariant `LG`
speaks of files and directories only); a concrete instance with a symlink is checked at the end of this file. -/
def uninstall_after_install_full_statement : Prop :=
  ∀ (p : Plan) (o : Opts) (fs : FS), PlanOK p → o.dryRun = false → (mkCfg p o).destdir ≠ [] →
    keyOfAbs (mkCfg p o).destdir ≠ [] → (∀ k, keyOfAbs (mkCfg p o).destdir <+: k → fs.get k = none) →
    NL fs → WF fs → (install p o fs).err = none →
    ∀ k, (uninstall p.buildDir (install p o fs).log (install p o fs).fs).get k = fs.get k

/-- a plan with an empty directory (declared mode), one below a header's directory, and file rules -/
def emptyPlan : Plan :=
  { filesPlan with
    emptydirs := [{ path := "var/e".toList, mode := some { perms := some 0o700, chown := false }, subproject := [], tag := none },
                  { path := "include/sub".toList, mode := none, subproject := [], tag := none }] }

/-- the hypotheses of `exact_all_kinds_partial` are satisfiable and its conclusion visible; a pre-existing
directory with permissions 0o711 ends with 0o755 (`install_umask` 022 applied to 0o777, because it has an execute bit) -/
example :
    PlanOK emptyPlan ∧ LinkFree emptyPlan ∧ TargetsAreFiles emptyPlan ∧
    (ruleKeys (mkCfg emptyPlan lfOpts) emptyPlan).Nodup ∧
    (install emptyPlan lfOpts lfFs).err = none ∧
    (install emptyPlan lfOpts (install emptyPlan lfOpts lfFs).fs).err = none ∧
    (install emptyPlan lfOpts lfFs).fs.get (["d", "usr", "var", "e"].map String.toList) = some (.dir 0o700) ∧
    (install emptyPlan lfOpts lfFs).fs.get (["d", "usr", "include", "sub"].map String.toList) = some (.dir 0o755) ∧
    (install emptyPlan lfOpts ((lfFs.set (["d"].map String.toList) (.dir 0o755)).set (["d", "usr"].map String.toList) (.dir 0o755)
      |>.set (["d", "usr", "include"].map String.toList) (.dir 0o755)
      |>.set (["d", "usr", "include", "sub"].map String.toList) (.dir 0o711))).fs.get
        (["d", "usr", "include", "sub"].map String.toList) = some (.dir 0o755) := by
  refine ⟨⟨by decide, by decide, by decide, by decide, by decide, by decide⟩,
    ⟨by decide, by decide, by decide, by decide, by decide, by decide⟩, by decide, by decide +kernel,
    by decide +kernel, by decide +kernel, by decide +kernel, by decide +kernel, by decide +kernel⟩

/-! ### from the build definition to the install data (backend glue) -/

/-- **install_man** (reference manual: "installs to `<mandir>/man<N>`", N the file's extension), no `install_dir`, no
locale: the destination stored in the install data is `<mandir>/man<N>/<file name>` -/
theorem glue_man_rule (manroot fname : Str) (hslash : '/' ∉ lastField '.' fname) (hnum : '{' ∉ lastField '.' fname)
    (hbn : '{' ∉ basename fname) :
    manInstallPath manroot none none fname =
      manroot ++ ('/' :: manStr ++ lastField '.' fname ++ '/' :: basename fname) :=
  man_rule manroot fname hslash hnum hbn

/-- the section is the text after the last dot -/
theorem glue_man_section (b num : Str) (h : '.' ∉ num) : lastField '.' (b ++ '.' :: num) = num :=
  lastField_ext b num h

/-- **install_headers**: `<includedir>[/<subdir>][/<directory of the source> with preserve_path]` (as components) -/
theorem glue_header_rule (incroot : Str) (sd : Option Str) (pres : Bool) (fname : Str)
    (hsd : isAbs (sd.getD []) = false) (hdn : isAbs (dirname fname) = false) :
    pureTail (hdrInstallPath incroot none sd pres fname) =
      pureTail incroot ++ (pureTail (sd.getD []) ++ if pres then pureTail (dirname fname) else []) :=
  header_rule incroot sd pres fname hsd hdn

/-- **install_data**: `<install_dir>[/<directory of the source> with preserve_path]/<rename, else the basename>` -/
theorem glue_data_rule (installDir : Str) (rename : Option Str) (pres : Bool) (fname : Str)
    (hdn : isAbs (dirname fname) = false) (hren : isAbs (rename.getD (basename fname)) = false) :
    pureTail (dataInstallPath installDir rename pres fname) =
      pureTail installDir ++ (if pres then pureTail (dirname fname) else []) ++
        pureTail (rename.getD (basename fname)) :=
  data_rule installDir rename pres fname hdn hren

/-- **install_subdir**: `<prefix>/<install_dir>`, plus the directory's own name unless `strip_directory` -/
theorem glue_subdir_rule (pfx installDir srcDir : Str) (strip : Bool) (hd : isAbs installDir = false) :
    pureTail (subdirInstallPath pfx installDir srcDir strip) =
      pureTail pfx ++ pureTail installDir ++ (if strip then [] else pureTail (basename srcDir)) :=
  subdir_rule pfx installDir srcDir strip hd

/-- **install_symlink**: `<install_dir>/<name>` -/
theorem glue_symlink_rule (installDir name : Str) (hn : isAbs name = false) :
    pureTail (symlinkName installDir name) = pureTail installDir ++ pureTail name :=
  symlink_rule installDir name hn

/-- the glue on concrete inputs: section from the extension, locale directory and locale stripped from the name,
custom install dir, header sub-directories, rename -/
example :
    manInstallPath "share/man".toList none none "docs/foo bar.1".toList = "share/man/man1/foo bar.1".toList ∧
    manInstallPath "share/man".toList none (some "fr".toList) "foo.fr.8".toList = "share/man/fr/man8/foo.8".toList ∧
    manInstallPath "share/man".toList (some "opt/m".toList) none "a.3".toList = "opt/m/a.3".toList ∧
    hdrInstallPath "include".toList none (some "proj".toList) true "api/v1/x.h".toList = "include/proj/api/v1".toList ∧
    dataInstallPath "share/p".toList (some "r/n.txt".toList) false "d/a.txt".toList = "share/p/r/n.txt".toList ∧
    subdirInstallPath "/usr".toList "include".toList "/src/tree".toList true = "/usr/include".toList ∧
    subdirInstallPath "/usr".toList "include".toList "/src/tree".toList false = "/usr/include/tree".toList := by
  decide

/-! ### histories on a concrete plan (sanity instances of reversibility and idempotence) -/

def demoPlan : Plan :=
  { buildDir := "/b".toList, pfx := "/usr".toList, umask := some 0o022,
    subdirs := [], targets := [], man := [], emptydirs := [{ path := "var/e".toList, mode := none, subproject := [], tag := none }],
    headers := [{ path := "/s/a.h".toList, src := .file 0o600 7 3, installPath := "include".toList, mode := none,
                  subproject := [], tag := none, follow := none }],
    data := [{ path := "/s/t".toList, src := .file 0o755 9 4, installPath := "/opt/t o/t".toList,
               mode := some { perms := some 0o750, chown := false }, subproject := [], tag := none, follow := none }],
    symlinks := [{ target := "t".toList, name := "/opt/t o/l".toList, installPath := "/opt/t o".toList,
                   subproject := [], tag := none }] }

def demoOpts : Opts :=
  { destdir := some "/d".toList, dryRun := false, onlyChanged := false, tags := none, skipSubprojects := [], ambientUmask := 0o022 }

def demoFs : FS := [(["d"].map String.toList, .dir 0o755)]

def sameTree (a b : FS) (keys : List Key) : Bool := keys.all (fun k => a.get k == b.get k)

def demoKeys : List Key :=
  (install demoPlan demoOpts demoFs).written ++ [["d"].map String.toList]

/-- install, then uninstall, on a fresh DESTDIR gives the initial tree back; installing twice gives the tree
of installing once; nothing outside `/d` is touched -/
example :
    (install demoPlan demoOpts demoFs).err = none ∧
    sameTree (uninstall demoPlan.buildDir (install demoPlan demoOpts demoFs).log (install demoPlan demoOpts demoFs).fs)
      demoFs demoKeys = true ∧
    sameTree (install demoPlan demoOpts (install demoPlan demoOpts demoFs).fs).fs
      (install demoPlan demoOpts demoFs).fs demoKeys = true ∧
    (install demoPlan demoOpts demoFs).written.all (fun k => (["d"].map String.toList).isPrefixOf k) = true := by
  decide +kernel

/-- the hypotheses of `exact_with_symlinks_partial` are satisfiable (`demoPlan`: header, data, empty directory and a
symlink next to the data file), and the link is there with its target text -/
example :
    PlanOK demoPlan ∧ LinkFree { demoPlan with symlinks := [] } ∧ TargetsAreFiles demoPlan ∧
    (∀ e ∈ demoPlan.symlinks, SymOK (mkCfg demoPlan demoOpts) (symKeys (mkCfg demoPlan demoOpts) demoPlan) e) ∧
    (ruleKeys (mkCfg demoPlan demoOpts) demoPlan ++ symKeys (mkCfg demoPlan demoOpts) demoPlan).Nodup ∧
    (install demoPlan demoOpts demoFs).err = none ∧
    (install demoPlan demoOpts demoFs).fs.get (["d", "opt", "t o", "l"].map String.toList) = some (.link "t".toList) := by
  refine ⟨⟨by decide, by decide, by decide, by decide, by decide, by decide⟩,
    ⟨by decide, by decide, by decide, by decide, by decide, by decide⟩, by decide, by decide +kernel, by decide +kernel,
    by decide +kernel, by decide +kernel⟩

end MesonModel.Props.C11
