/-
C15 — the introspection files describe the build that was generated.

`MesonModel/Intro/Model.lean` defines, over flat string records extracted from the real files, what it means for
intro-targets.json to agree with build.ninja (`AgreesTargets`), intro-tests/benchmarks.json with the pickled test
records (`AgreesTests`), intro-install_plan.json / intro-installed.json with install.dat (`AgreesInstall`),
intro-buildoptions.json with the values `get_option()` returned (`AgreesOptions`) and
intro-buildsystem_files.json with the files that were read (`AgreesBuildFiles`).

Proved here, for all inputs:
* every Boolean checker the driver evaluates is sound and complete for its relation (`check…_iff`);
* the relations that speak about sets are invariant under permutation of their arguments;
* what agreement buys (no output unaccounted for, every installed record named with the destination used, …);
* the shape of intro-install_plan.json (one entry per source path) cannot describe a source that is installed
  twice (`plan_keyed_by_path_cannot_name_a_source_installed_twice`) — the model-level reason of a recorded finding.

* for the test files the producers themselves are modelled (`MesonModel/Intro/TestSer.lean`:
  `Backend.create_test_serialisation` over a heap of shared, mutable `EnvironmentVariables` objects, `mintro.get_test_list`)
  and the agreement is a theorem about every test table and every heap: the second serialisation (the one
  `mintro` makes) returns what the first (pickled for `meson test`) returned, and intro-tests.json describes
  exactly the pickled records (`intro_tests_describe_what_meson_test_unpickles`, `…_agrees`); with `copy.copy`
  instead of `copy.deepcopy` the same code does not have the property (`shallow_copy_*`).

The quantifier "for all projects and configurations" is discharged per instance by the harness for targets,
install data, options and build files (level translation_validation); for the test entries only the step from a
project to its test table is per instance.
-/
import MesonModel.Intro.Model
import MesonModel.Intro.TestSerLemmas

namespace MesonModel.Props.C15
open MesonModel.Intro

/-! ### helpers -/

theorem sameSetB_iff {α} [DecidableEq α] (a b : List α) : sameSetB a b = true ↔ SameSet a b := by
  unfold sameSetB SameSet
  simp only [Bool.and_eq_true, List.all_eq_true, decide_eq_true_eq]
  constructor
  · intro h x; exact ⟨h.1 x, h.2 x⟩
  · intro h; exact ⟨fun x hx => (h x).1 hx, fun x hx => (h x).2 hx⟩

theorem SameSet.perm_left {α} {a a' b : List α} (h : a.Perm a') : SameSet a b ↔ SameSet a' b := by
  unfold SameSet
  constructor
  · intro hs x; rw [← h.mem_iff]; exact hs x
  · intro hs x; rw [h.mem_iff]; exact hs x

theorem SameSet.perm_right {α} {a b b' : List α} (h : b.Perm b') : SameSet a b ↔ SameSet a b' := by
  unfold SameSet
  constructor
  · intro hs x; rw [← h.mem_iff]; exact hs x
  · intro hs x; rw [h.mem_iff]; exact hs x

theorem touches_iff (t : Target) (e : Edge) : touches t e = true ↔ ∃ o ∈ e.outs, o ∈ t.files := by
  unfold touches; simp

/-! ### targets -/

theorem checkFiles_iff (t : Target) (es : List Edge) : checkFiles t es = true ↔ FilesExact t es := by
  unfold checkFiles FilesExact
  simp only [Bool.and_eq_true, List.all_eq_true, List.any_eq_true, decide_eq_true_eq, Bool.or_eq_true,
    Bool.not_eq_true']
  constructor
  · rintro ⟨h1, h2⟩
    refine ⟨h1, ?_⟩
    intro e he hp ht
    rcases h2 e he with (h | h) | h
    · rw [hp] at h; cases h
    · have : touches t e = true := (touches_iff t e).2 ht
      rw [this] at h; cases h
    · exact h
  · rintro ⟨h1, h2⟩
    refine ⟨h1, ?_⟩
    intro e he
    cases hp : producesFor t e
    · exact Or.inl (Or.inl rfl)
    · cases ht : touches t e
      · exact Or.inl (Or.inr rfl)
      · exact Or.inr (h2 e he hp ((touches_iff t e).1 ht))

theorem checkSources_iff (t : Target) (es : List Edge) : checkSources t es = true ↔ SourcesExact t es :=
  sameSetB_iff _ _

/-- the per-group checker (language / compiler / parameters of every `target_sources` group against the rule, command
and ARGS of the compile statements that consume its sources) decides `GroupsExact` -/
theorem checkGroups_iff (t : Target) (es : List Edge) : checkGroups t es = true ↔ GroupsExact t es := by
  unfold checkGroups GroupsExact
  by_cases hk : t.kind = .build
  · simp only [hk, decide_true, Bool.not_true, Bool.false_or, Bool.and_eq_true, List.all_eq_true, List.any_eq_true,
      decide_eq_true_eq, Bool.or_eq_true, Bool.not_eq_true', forall_const]
    constructor
    · rintro ⟨h1, h2⟩
      refine ⟨fun g hg s hs => ?_, fun e he hc i hi => ?_⟩
      · obtain ⟨e, he, ⟨hc, hs'⟩, hm⟩ := h1 g hg s hs
        exact ⟨e, he, hc, hs', hm⟩
      · rcases h2 e he with h | h
        · rw [hc] at h; cases h
        · obtain ⟨g, hg, hi', hm⟩ := h i hi
          exact ⟨g, hg, hi', hm⟩
    · rintro ⟨h1, h2⟩
      refine ⟨fun g hg s hs => ?_, fun e he => ?_⟩
      · obtain ⟨e, he, hc, hs', hm⟩ := h1 g hg s hs
        exact ⟨e, he, ⟨hc, hs'⟩, hm⟩
      · cases hc : isCompileFor t e
        · exact Or.inl rfl
        · refine Or.inr (fun i hi => ?_)
          obtain ⟨g, hg, hi', hm⟩ := h2 e he hc i hi
          exact ⟨g, hg, hi', hm⟩
  · simp [hk]

theorem checkTarget_iff (t : Target) (es : List Edge) : checkTarget t es = true ↔ TargetOk t es := by
  unfold checkTarget TargetOk
  rw [Bool.and_eq_true, Bool.and_eq_true, checkFiles_iff, checkSources_iff, checkGroups_iff, and_assoc]

theorem checkClaimed_iff (ts : List Target) (es : List Edge) :
    checkClaimed ts es = true ↔ ∀ e ∈ es, isTargetEdge e = true → ∃ t ∈ ts, ∃ o ∈ e.outs, o ∈ t.files := by
  unfold checkClaimed
  simp only [List.all_eq_true, Bool.or_eq_true, Bool.not_eq_true', List.any_eq_true, touches_iff]
  constructor
  · intro h e he hte
    rcases h e he with h' | h'
    · rw [hte] at h'; cases h'
    · exact h'
  · intro h e he
    cases hte : isTargetEdge e
    · exact Or.inl rfl
    · exact Or.inr (h e he hte)

/-- the checker evaluated on intro-targets.json and build.ninja decides exactly `AgreesTargets` -/
theorem checkTargets_iff (ts : List Target) (es : List Edge) :
    checkTargets ts es = true ↔ AgreesTargets ts es := by
  unfold checkTargets AgreesTargets
  rw [Bool.and_eq_true, checkClaimed_iff, List.all_eq_true]
  constructor
  · rintro ⟨h1, h2⟩; exact ⟨fun t ht => (checkTarget_iff t es).1 (h1 t ht), h2⟩
  · rintro ⟨h1, h2⟩; exact ⟨fun t ht => (checkTarget_iff t es).2 (h1 t ht), h2⟩

theorem consumed_mem_perm (t : Target) {es es' : List Edge} (h : es.Perm es') (x : Str) :
    x ∈ consumed t es ↔ x ∈ consumed t es' := by
  unfold consumed
  cases t.kind with
  | build => simp only [List.mem_flatMap, List.mem_filter, h.mem_iff]
  | custom => simp only [List.mem_flatMap, List.mem_filter, h.mem_iff]
  | phony => exact Iff.rfl
  | other => exact Iff.rfl

theorem targetOk_perm_edges (t : Target) {es es' : List Edge} (h : es.Perm es') :
    TargetOk t es ↔ TargetOk t es' := by
  unfold TargetOk FilesExact SourcesExact GroupsExact SameSet
  simp only [h.mem_iff, consumed_mem_perm t h]

/-- build.ninja is a set of statements: agreement does not depend on their order … -/
theorem agreesTargets_perm_edges (ts : List Target) {es es' : List Edge} (h : es.Perm es') :
    AgreesTargets ts es ↔ AgreesTargets ts es' := by
  unfold AgreesTargets
  simp only [h.mem_iff, targetOk_perm_edges _ h]

/-- … nor on the order of the entries of intro-targets.json -/
theorem agreesTargets_perm_targets {ts ts' : List Target} (es : List Edge) (h : ts.Perm ts') :
    AgreesTargets ts es ↔ AgreesTargets ts' es := by
  unfold AgreesTargets
  simp only [h.mem_iff]

/-- agreement means: a statement that makes one file of a target makes no file the target does not report
(this is what the mutation "drop one output of a multi-output target" breaks) -/
theorem agreesTargets_no_unreported_output {ts : List Target} {es : List Edge} (h : AgreesTargets ts es)
    {t : Target} (ht : t ∈ ts) {e : Edge} (he : e ∈ es) (hp : producesFor t e = true)
    {f : Str} (hf : f ∈ e.outs) (hft : f ∈ t.files) : ∀ o ∈ e.outs, o ∈ t.files :=
  (h.1 t ht).1.2 e he hp ⟨f, hf, hft⟩

/-- agreement means: every reported file has a producing statement -/
theorem agreesTargets_every_file_produced {ts : List Target} {es : List Edge} (h : AgreesTargets ts es)
    {t : Target} (ht : t ∈ ts) {f : Str} (hf : f ∈ t.files) : ∃ e ∈ es, f ∈ e.outs := by
  obtain ⟨e, he, _, hfe⟩ := (h.1 t ht).1.1 f hf
  exact ⟨e, he, hfe⟩

/-- agreement means: a compile statement of the target consumes only reported sources -/
theorem agreesTargets_compile_input_reported {ts : List Target} {es : List Edge} (h : AgreesTargets ts es)
    {t : Target} (ht : t ∈ ts) (hk : t.kind = .build) {e : Edge} (he : e ∈ es) (hc : isCompileFor t e = true)
    {x : Str} (hx : x ∈ e.ins) : x ∈ t.srcs := by
  have hs := (h.1 t ht).2.1
  refine (hs x).2 ?_
  unfold consumed; rw [hk]
  simp only [List.mem_flatMap, List.mem_filter]
  exact ⟨e, ⟨he, hc⟩, hx⟩

/-- agreement means: a source listed in a group is compiled by a statement whose rule is the group's language -/
theorem agreesTargets_group_language {ts : List Target} {es : List Edge} (h : AgreesTargets ts es)
    {t : Target} (ht : t ∈ ts) (hk : t.kind = .build) {g : Group} (hg : g ∈ t.groups) {s : Str} (hs : s ∈ g.srcs) :
    ∃ e ∈ es, s ∈ e.ins ∧ startsWith e.rule (g.language ++ "_COMPILER".toList) = true ∧ e.exe = g.compiler ∧
      e.args = g.params := by
  obtain ⟨e, he, _, hse, hm⟩ := ((h.1 t ht).2.2 hk).1 g hg s hs
  unfold groupMatches at hm
  simp only [Bool.and_eq_true, decide_eq_true_eq] at hm
  exact ⟨e, he, hse, hm.1.1, hm.1.2, hm.2⟩

/-! ### tests -/

theorem checkTest_iff (i : IntroTest) (s : SerTest) : checkTest i s = true ↔ AgreesTest i s := by
  unfold checkTest AgreesTest
  simp only [Bool.and_eq_true, decide_eq_true_eq, sameSetB_iff, and_assoc]

theorem checkForall2_iff (is : List IntroTest) (ss : List SerTest) :
    checkForall2 is ss = true ↔ AllPairs AgreesTest is ss := by
  induction is generalizing ss with
  | nil =>
    cases ss with
    | nil => exact ⟨fun _ => .nil, fun _ => rfl⟩
    | cons s ss => exact ⟨fun h => by simp [checkForall2] at h, fun h => by cases h⟩
  | cons i is ih =>
    cases ss with
    | nil => exact ⟨fun h => by simp [checkForall2] at h, fun h => by cases h⟩
    | cons s ss =>
      unfold checkForall2
      rw [Bool.and_eq_true, checkTest_iff, ih]
      constructor
      · rintro ⟨h1, h2⟩; exact .cons h1 h2
      · intro h; cases h with | cons h1 h2 => exact ⟨h1, h2⟩

/-- the checker evaluated on intro-tests.json / intro-benchmarks.json and the pickled records decides `AgreesTests` -/
theorem checkTests_iff (is : List IntroTest) (ss : List SerTest) (ids : List Str) :
    checkTests is ss ids = true ↔ AgreesTests is ss ids := by
  unfold checkTests AgreesTests
  rw [Bool.and_eq_true, checkForall2_iff]
  simp only [List.all_eq_true, decide_eq_true_eq]

theorem allPairs_length {α β} {R : α → β → Prop} {l₁ : List α} {l₂ : List β} (h : AllPairs R l₁ l₂) :
    l₁.length = l₂.length := by
  induction h with
  | nil => rfl
  | cons _ _ ih => simp [ih]

/-- agreement means: as many entries as `meson test` has tests -/
theorem agreesTests_length {is : List IntroTest} {ss : List SerTest} {ids : List Str}
    (h : AgreesTests is ss ids) : is.length = ss.length := allPairs_length h.1

/-- agreement means: the reported command line is the program followed by the arguments `meson test` passes -/
theorem agreesTest_cmd {i : IntroTest} {s : SerTest} (h : AgreesTest i s) : i.cmd = s.fname ++ s.cmdArgs := h.2.1

/-- the dependency list is a set: its order is irrelevant -/
theorem agreesTest_perm_depends (i : IntroTest) (s : SerTest) (d' : List Str) (hd : i.depends.Perm d') :
    AgreesTest i s ↔ AgreesTest { i with depends := d' } s := by
  unfold AgreesTest
  simp only [SameSet.perm_left hd]

/-- `get_env` of a single `set` on an empty environment -/
theorem getEnv_set_single (n : Str) (vs : List Str) (sep : Str) :
    getEnv [⟨.set, n, vs, sep⟩] [] = [(n, joinSep sep vs)] := rfl

theorem lookup_assign_same (env : List (Str × Str)) (k v : Str) : lookup (assign env k v) k = some v := by
  induction env with
  | nil => simp [assign, lookup]
  | cons kv r ih =>
    obtain ⟨a, w⟩ := kv
    unfold assign
    by_cases h : a = k
    · simp [h, lookup]
    · simp [h, lookup, ih]

theorem getEnv_snoc (ops : List EnvOp) (op : EnvOp) (base : List (Str × Str)) :
    getEnv (ops ++ [op]) base = assign (getEnv ops base) op.name (applyOp (getEnv ops base) op) := by
  unfold getEnv
  rw [List.foldl_append]
  rfl

/-- the last operation on a variable decides its value (`set` discards what was there) -/
theorem getEnv_last_set (ops : List EnvOp) (base : List (Str × Str)) (n : Str) (vs : List Str) (sep : Str) :
    lookup (getEnv (ops ++ [⟨.set, n, vs, sep⟩]) base) n = some (joinSep sep vs) := by
  rw [getEnv_snoc]
  exact lookup_assign_same _ _ _

/-- `prepend` puts the new values in front of the current one -/
theorem getEnv_last_prepend (ops : List EnvOp) (base : List (Str × Str)) (n : Str) (vs : List Str) (sep cur : Str)
    (h : lookup (getEnv ops base) n = some cur) :
    lookup (getEnv (ops ++ [⟨.prepend, n, vs, sep⟩]) base) n = some (joinSep sep (vs ++ [cur])) := by
  rw [getEnv_snoc, lookup_assign_same]
  simp only [applyOp, h]

/-- `append` puts the new values behind the current one; on an unset variable it is `set` -/
theorem getEnv_last_append (ops : List EnvOp) (base : List (Str × Str)) (n : Str) (vs : List Str) (sep : Str) :
    lookup (getEnv (ops ++ [⟨.append, n, vs, sep⟩]) base) n =
      some (match lookup (getEnv ops base) n with
            | none => joinSep sep vs
            | some cur => joinSep sep (cur :: vs)) := by
  rw [getEnv_snoc, lookup_assign_same]
  simp only [applyOp]
  cases lookup (getEnv ops base) n <;> rfl

/-! ### test dependencies against build.ninja -/

theorem checkPrereq_iff (us : List TestUse) (ts : List TargetFiles) (prereq : List Str) :
    checkPrereq us ts prereq = true ↔ AgreesPrereq us ts prereq := sameSetB_iff _ _

theorem checkCmdCovered_iff (us : List TestUse) (ts : List TargetFiles) :
    checkCmdCovered us ts = true ↔ CmdCovered us ts := by
  unfold checkCmdCovered CmdCovered
  simp only [List.all_eq_true, Bool.or_eq_true, Bool.not_eq_true', decide_eq_false_iff_not, decide_eq_true_eq]
  constructor
  · intro h u hu p hp t ht hpt
    rcases h u hu p hp t ht with h' | h'
    · exact absurd hpt h'
    · exact h'
  · intro h u hu p hp t ht
    by_cases hpt : p ∈ t.files
    · exact Or.inr (h u hu p hp t ht hpt)
    · exact Or.inl hpt

/-- the checker of the independent witness for `depends` (prerequisites named by build.ninja, built files on the
command line) decides `AgreesTestDeps` -/
theorem checkTestDeps_iff (us : List TestUse) (ts : List TargetFiles) (prereq : List Str) :
    checkTestDeps us ts prereq = true ↔ AgreesTestDeps us ts prereq := by
  unfold checkTestDeps AgreesTestDeps
  rw [Bool.and_eq_true, checkPrereq_iff, checkCmdCovered_iff]

/-- the prerequisites are a set: their order in the phony statement is irrelevant -/
theorem agreesPrereq_perm (us : List TestUse) (ts : List TargetFiles) {p p' : List Str} (h : p.Perm p') :
    AgreesPrereq us ts p ↔ AgreesPrereq us ts p' := SameSet.perm_right h

/-- agreement means: a prerequisite of `meson test` in build.ninja is the first output of a target some test lists -/
theorem agreesPrereq_prereq_listed {us : List TestUse} {ts : List TargetFiles} {prereq : List Str}
    (h : AgreesPrereq us ts prereq) {x : Str} (hx : x ∈ prereq) :
    ∃ u ∈ us, ∃ d ∈ u.depends, firstOutput ts d = some x := by
  have hm := (h x).2 hx
  unfold dependsOutputs at hm
  simp only [List.mem_filterMap, List.mem_flatMap] at hm
  obtain ⟨d, ⟨u, hu, hd⟩, hf⟩ := hm
  exact ⟨u, hu, d, hd, hf⟩

/-! ### install -/

/-- the checker evaluated on intro-install_plan.json and install.dat decides `AgreesPlan` -/
theorem checkPlan_iff (dirs : List (Str × Str)) (pfx : Str) (plan : List PlanEntry) (recs : List InstRec) :
    checkPlan dirs pfx plan recs = true ↔ AgreesPlan dirs pfx plan recs := by
  unfold checkPlan AgreesPlan
  simp only [Bool.and_eq_true, List.all_eq_true, List.any_eq_true, decide_eq_true_eq]

/-- the checker evaluated on intro-installed.json and install.dat decides `AgreesInstalled` -/
theorem checkInstalled_iff (pfx : Str) (inst : List (Str × Str)) (recs : List InstRec) :
    checkInstalled pfx inst recs = true ↔ AgreesInstalled pfx inst recs := by
  unfold checkInstalled AgreesInstalled
  simp only [Bool.and_eq_true, List.all_eq_true, List.any_eq_true, decide_eq_true_eq]

theorem checkInstall_iff (dirs : List (Str × Str)) (pfx : Str) (plan : List PlanEntry) (inst : List (Str × Str))
    (planRecs instRecs : List InstRec) :
    checkInstall dirs pfx plan inst planRecs instRecs = true ↔ AgreesInstall dirs pfx plan inst planRecs instRecs := by
  unfold checkInstall AgreesInstall
  rw [Bool.and_eq_true, checkPlan_iff, checkInstalled_iff]

/-- neither the order of the JSON entries nor the order of the install.dat records matters -/
theorem agreesPlan_perm {dirs : List (Str × Str)} {pfx : Str} {plan plan' : List PlanEntry} {recs recs' : List InstRec}
    (hp : plan.Perm plan') (hr : recs.Perm recs') :
    AgreesPlan dirs pfx plan recs ↔ AgreesPlan dirs pfx plan' recs' := by
  unfold AgreesPlan
  simp only [hp.mem_iff, hr.mem_iff]

theorem agreesInstalled_perm {pfx : Str} {inst inst' : List (Str × Str)} {recs recs' : List InstRec}
    (hi : inst.Perm inst') (hr : recs.Perm recs') :
    AgreesInstalled pfx inst recs ↔ AgreesInstalled pfx inst' recs' := by
  unfold AgreesInstalled
  simp only [hi.mem_iff, hr.mem_iff]

/-- agreement means: every record `meson install` processes is named, with its section, the destination it is
written to, its tag and its subproject -/
theorem agreesPlan_names_every_record {dirs : List (Str × Str)} {pfx : Str} {plan : List PlanEntry}
    {recs : List InstRec} (h : AgreesPlan dirs pfx plan recs) {r : InstRec} (hr : r ∈ recs) :
    ∃ p ∈ plan, p.sect = sectionOf r ∧ p.path = r.path ∧
      (expandDest dirs pfx p.dest).map normDest = some (normDest (destUsed pfx r)) ∧ p.tag = r.tag ∧
      p.subproject = r.subproject := h.1 r hr

/-- agreement means: nothing is named that is not installed -/
theorem agreesPlan_names_nothing_else {dirs : List (Str × Str)} {pfx : Str} {plan : List PlanEntry}
    {recs : List InstRec} (h : AgreesPlan dirs pfx plan recs) {p : PlanEntry} (hp : p ∈ plan) :
    ∃ r ∈ recs, p.path = r.path ∧ p.tag = r.tag := by
  obtain ⟨r, hr, hm⟩ := h.2 p hp
  exact ⟨r, hr, hm.2.1, hm.2.2.2.1⟩

/-- A JSON object keyed by the source path holds one entry per (section, path).  When the same source is
installed to two different destinations, no such object agrees with install.dat. -/
theorem plan_keyed_by_path_cannot_name_a_source_installed_twice (dirs : List (Str × Str)) (pfx : Str)
    (r₁ r₂ : InstRec) (hs : sectionOf r₁ = sectionOf r₂) (hp : r₁.path = r₂.path)
    (hd : normDest (destUsed pfx r₁) ≠ normDest (destUsed pfx r₂))
    (plan : List PlanEntry) (hu : KeysUnique plan) (recs : List InstRec) (h₁ : r₁ ∈ recs) (h₂ : r₂ ∈ recs) :
    ¬ AgreesPlan dirs pfx plan recs := by
  intro h
  obtain ⟨p, hpm, m1⟩ := h.1 r₁ h₁
  obtain ⟨q, hqm, m2⟩ := h.1 r₂ h₂
  have hpq : p = q := hu p hpm q hqm (by rw [m1.1, m2.1, hs]) (by rw [m1.2.1, m2.2.1, hp])
  subst hpq
  have e1 := m1.2.2.1
  have e2 := m2.2.2.1
  rw [e1] at e2
  exact hd (Option.some.inj e2)

/-! ### options -/

theorem hasRow_iff (rows : List OptRow) (n : Str) : hasRow rows n = true ↔ ∃ r ∈ rows, r.name = n := by
  unfold hasRow; simp

theorem checkOption_iff (rows : List OptRow) (o : Observed) : checkOption rows o = true ↔ AgreesOption rows o := by
  unfold checkOption AgreesOption
  rw [Bool.and_eq_true, hasRow_iff]
  simp only [List.all_eq_true, Bool.or_eq_true, Bool.not_eq_true', decide_eq_false_iff_not, decide_eq_true_eq]
  constructor
  · rintro ⟨h1, h2⟩
    refine ⟨h1, fun r hr hn => ?_⟩
    rcases h2 r hr with h | h
    · exact absurd hn h
    · exact h
  · rintro ⟨h1, h2⟩
    refine ⟨h1, fun r hr => ?_⟩
    by_cases hn : r.name = rowNameFor rows o
    · exact Or.inr (h2 r hr hn)
    · exact Or.inl hn

/-- the checker evaluated on intro-buildoptions.json and the observed get_option() results decides `AgreesOptions` -/
theorem checkOptions_iff (rows : List OptRow) (obs : List Observed) :
    checkOptions rows obs = true ↔ AgreesOptions rows obs := by
  unfold checkOptions AgreesOptions
  rw [List.all_eq_true]
  exact ⟨fun h o ho => (checkOption_iff rows o).1 (h o ho), fun h o ho => (checkOption_iff rows o).2 (h o ho)⟩

theorem hasRow_perm {rows rows' : List OptRow} (h : rows.Perm rows') (n : Str) : hasRow rows n = hasRow rows' n := by
  rw [Bool.eq_iff_iff, hasRow_iff, hasRow_iff]
  simp only [h.mem_iff]

theorem rowNameFor_perm {rows rows' : List OptRow} (h : rows.Perm rows') (o : Observed) :
    rowNameFor rows o = rowNameFor rows' o := by
  unfold rowNameFor
  simp only [hasRow_perm h]

/-- the order of the rows and of the observations is irrelevant -/
theorem agreesOptions_perm {rows rows' : List OptRow} {obs obs' : List Observed} (hr : rows.Perm rows')
    (ho : obs.Perm obs') : AgreesOptions rows obs ↔ AgreesOptions rows' obs' := by
  unfold AgreesOptions AgreesOption
  simp only [hr.mem_iff, ho.mem_iff, rowNameFor_perm hr]

/-- agreement means: the value shown for a project option the top-level project read is the value it got -/
theorem agreesOptions_toplevel {rows : List OptRow} {obs : List Observed} (h : AgreesOptions rows obs)
    {o : Observed} (ho : o ∈ obs) (htop : o.sub = []) (hproj : o.builtin = false) :
    ∃ r ∈ rows, r.name = o.name ∧ r.value = o.value := by
  obtain ⟨⟨r, hr, hn⟩, hv⟩ := h o ho
  have : rowNameFor rows o = o.name := by unfold rowNameFor; simp [htop, hproj]
  exact ⟨r, hr, by rw [hn, this], hv r hr hn⟩

/-- a row that shows a subproject option's own value cannot agree once the subproject read another (e.g. a yielded)
value: the model-level form of the defect repaired in /repo ec2d585 (a row must show the effective value) -/
theorem stale_row_disagrees (rows : List OptRow) (r : OptRow) (o : Observed) (hr : r ∈ rows)
    (hn : r.name = rowNameFor rows o) (hv : r.value ≠ o.value) (obs : List Observed) (ho : o ∈ obs) :
    ¬ AgreesOptions rows obs := fun h => hv ((h o ho).2 r hr hn)

/-- native build (no rows for the build machine): reading `build.<opt>` is described by the same row as reading
`<opt>` -- the project's own row `P:<opt>` when there is one, else the global row (Builtin-options.md, "In native
builds, the build and host machines are the same, and the unprefixed option alone will suffice") -/
theorem rowNameFor_build_option_in_native_build (rows : List OptRow) (sub n value : Str)
    (hn : startsWith n "build.".toList = false)
    (h1 : hasRow rows ("build.".toList ++ n) = false) (h2 : hasRow rows (sub ++ ':' :: ("build.".toList ++ n)) = false) :
    rowNameFor rows ⟨sub, "build.".toList ++ n, true, value⟩ = rowNameFor rows ⟨sub, n, true, value⟩ := by
  have hp : startsWith ("build.".toList ++ n) "build.".toList = true := by
    simp [startsWith]
  have hd : ("build.".toList ++ n).drop 6 = n := by simp
  simp only [rowNameFor, hp, h1, h2, hn, hd, Bool.not_false, Bool.and_true, if_true, Bool.false_and]
  simp

/-! ### build-definition files -/

/-- the checker evaluated on intro-buildsystem_files.json and the traced files decides `AgreesBuildFiles` -/
theorem checkBuildFiles_iff (listed read : List Str) :
    checkBuildFiles listed read = true ↔ AgreesBuildFiles listed read := sameSetB_iff _ _

/-- set equality: order and repetition on either side are irrelevant -/
theorem agreesBuildFiles_perm {l l' r r' : List Str} (hl : l.Perm l') (hr : r.Perm r') :
    AgreesBuildFiles l r ↔ AgreesBuildFiles l' r' := by
  unfold AgreesBuildFiles
  rw [SameSet.perm_left hl, SameSet.perm_right hr]

theorem agreesBuildFiles_dedup_insensitive (x : Str) (l r : List Str) (hx : x ∈ l) :
    AgreesBuildFiles (x :: l) r ↔ AgreesBuildFiles l r := by
  unfold AgreesBuildFiles SameSet
  constructor
  · intro h y; rw [← h y]; simp only [List.mem_cons]
    exact ⟨fun hy => Or.inr hy, fun hy => hy.elim (fun e => e ▸ hx) id⟩
  · intro h y; rw [← h y]; simp only [List.mem_cons]
    exact ⟨fun hy => hy.elim (fun e => e ▸ hx) id, fun hy => Or.inr hy⟩

/-! ### the producers of the test files: `create_test_serialisation` twice, `get_test_list` -/

section producers
open MesonModel.Intro.TestSer

/-- the references of a test table are objects of the heap -/
def TableIn (tests : List Test) (h : Heap) : Prop := ∀ t ∈ tests, t.env < h.nObjs

theorem tableIn_sorted {tests : List Test} {h : Heap} (ht : TableIn tests h) : TableIn (byPriority tests) h :=
  fun t hm => ht t ((mem_sortBy _ t tests).1 hm)

/-- **`create_test_serialisation` is a function of values.**  Whatever the heap looks like (which objects are
shared between tests, what earlier calls allocated), the call raises exactly when the value-level reading `serPure`
raises, and otherwise returns records whose pickled form is what `serPure` computes from the values of the tests'
environments; every object that existed before the call still denotes what it denoted. -/
theorem create_test_serialisation_is_a_function_of_values (bd : Str) (darwin : Bool) (tests : List Test) (h : Heap)
    (hw : h.wf) (ht : TableIn tests h) :
    match mapE (serPure bd darwin h.envOf) (byPriority tests) with
    | .error e => createSer .deep bd darwin tests h = .error e
    | .ok vs => ∃ ss h', createSer .deep bd darwin tests h = .ok (ss, h') ∧ Frame h h' ∧ pickle h' ss = vs := by
  have := createAll_deep bd darwin (byPriority tests) h hw (tableIn_sorted ht)
  unfold createSer
  cases hm : mapE (serPure bd darwin h.envOf) (byPriority tests) with
  | error e => rw [hm] at this; exact this
  | ok vs =>
    rw [hm] at this
    obtain ⟨ss, h', e, fr, _, pv⟩ := this
    exact ⟨ss, h', e, fr, pv⟩

/-- the call does not change what the tests' own environments hold (no second-use aliasing) -/
theorem create_test_serialisation_leaves_the_table_alone (bd : Str) (darwin : Bool) (tests : List Test) (h : Heap)
    (hw : h.wf) (ht : TableIn tests h) {ss : List Ser} {h' : Heap}
    (hc : createSer .deep bd darwin tests h = .ok (ss, h')) :
    h'.wf ∧ TableIn tests h' ∧ ∀ t ∈ tests, h'.envOf t.env = h.envOf t.env := by
  have := create_test_serialisation_is_a_function_of_values bd darwin tests h hw ht
  cases hm : mapE (serPure bd darwin h.envOf) (byPriority tests) with
  | error e => rw [hm, hc] at this; cases this
  | ok vs =>
    rw [hm] at this
    obtain ⟨ss2, h2, e, fr, _⟩ := this
    rw [hc] at e
    cases e
    exact ⟨fr.1, fun t hm => Nat.lt_of_lt_of_le (ht t hm) fr.2.1, fun t hm => fr.2.2 t.env (ht t hm)⟩

/-- **idempotence**: serialising the same table again, on the heap the first call left behind, succeeds and gives
the same records (the class of the seeded change C15-c8) -/
theorem second_serialisation_equals_first (bd : Str) (darwin : Bool) (tests : List Test) (h : Heap)
    (hw : h.wf) (ht : TableIn tests h) {s1 : List Ser} {h1 : Heap}
    (hc : createSer .deep bd darwin tests h = .ok (s1, h1)) :
    ∃ s2 h2, createSer .deep bd darwin tests h1 = .ok (s2, h2) ∧ pickle h2 s2 = pickle h1 s1 := by
  have first := create_test_serialisation_is_a_function_of_values bd darwin tests h hw ht
  obtain ⟨w1, t1, same⟩ := create_test_serialisation_leaves_the_table_alone bd darwin tests h hw ht hc
  have second := create_test_serialisation_is_a_function_of_values bd darwin tests h1 w1 t1
  have hcongr : mapE (serPure bd darwin h1.envOf) (byPriority tests) = mapE (serPure bd darwin h.envOf) (byPriority tests) :=
    mapE_congr _ _ _ (fun t hm => serPure_congr bd darwin _ _ t (same t ((mem_sortBy _ t tests).1 hm)))
  rw [hcongr] at second
  cases hm : mapE (serPure bd darwin h.envOf) (byPriority tests) with
  | error e => rw [hm, hc] at first; cases first
  | ok vs =>
    rw [hm] at first second
    obtain ⟨sa, ha, ea, _, pa⟩ := first
    rw [hc] at ea
    cases ea
    obtain ⟨s2, h2, e2, _, p2⟩ := second
    exact ⟨s2, h2, e2, by rw [p2, pa]⟩

/-- when the first serialisation succeeds, so does the whole configuration -/
theorem configure_succeeds (bd : Str) (darwin : Bool) (tests : List Test) (h : Heap) (hw : h.wf) (ht : TableIn tests h)
    {s1 : List Ser} {h1 : Heap} (hc : createSer .deep bd darwin tests h = .ok (s1, h1)) :
    ∃ intro, configure .deep bd darwin tests h = .ok (pickle h1 s1, intro) := by
  obtain ⟨s2, h2, e2, _⟩ := second_serialisation_equals_first bd darwin tests h hw ht hc
  exact ⟨getTestList h2 s2, by simp [configure, hc, e2]⟩

/-- **the property's clause for tests, for every test table**: intro-tests.json (computed from the second
serialisation) lists, entry by entry, the command, arguments, environment, suites, dependencies and scheduling
fields of the records pickled for `meson test` (computed by the first) -/
theorem intro_tests_describe_what_meson_test_unpickles (bd : Str) (darwin : Bool) (tests : List Test) (h : Heap)
    (hw : h.wf) (ht : TableIn tests h) {pickled : List (SerTest × List Str)} {intro : List IntroTest}
    (hc : configure .deep bd darwin tests h = .ok (pickled, intro)) :
    intro = pickled.map introOfPickled := by
  unfold configure at hc
  cases h1 : createSer .deep bd darwin tests h with
  | error e => rw [h1] at hc; cases hc
  | ok r1 =>
    obtain ⟨s1, ha⟩ := r1
    obtain ⟨s2, h2, e2, p2⟩ := second_serialisation_equals_first bd darwin tests h hw ht h1
    rw [h1] at hc
    simp only [e2] at hc
    cases hc
    rw [getTestList_eq, p2]

theorem agreesTest_introOfPickled (p : SerTest × List Str) (hu : p.2 = []) : AgreesTest (introOfPickled p) p.1 := by
  unfold AgreesTest introOfPickled
  simp [hu, envUsed_nil, SameSet]

theorem allPairs_map_introOfPickled : ∀ (l : List (SerTest × List Str)), (∀ p ∈ l, p.2 = []) →
    AllPairs AgreesTest (l.map introOfPickled) (l.map Prod.fst)
  | [], _ => AllPairs.nil
  | p :: r, h => AllPairs.cons (agreesTest_introOfPickled p (h p (by simp)))
      (allPairs_map_introOfPickled r (fun q hq => h q (by simp [hq])))

/-- the same in the vocabulary of the per-instance relation: when no test environment unsets a variable, the
produced pair of files stands in `AgreesTest`, position by position -/
theorem intro_tests_agree (bd : Str) (darwin : Bool) (tests : List Test) (h : Heap)
    (hw : h.wf) (ht : TableIn tests h) {pickled : List (SerTest × List Str)} {intro : List IntroTest}
    (hc : configure .deep bd darwin tests h = .ok (pickled, intro)) (hu : ∀ p ∈ pickled, p.2 = []) :
    AllPairs AgreesTest intro (pickled.map Prod.fst) := by
  rw [intro_tests_describe_what_meson_test_unpickles bd darwin tests h hw ht hc]
  exact allPairs_map_introOfPickled pickled hu

/-- a variable unset in a test's environment is absent from the introspected environment -/
theorem unset_variable_absent (ops : List EnvOp) (unset : List Str) (k v : Str) (hk : k ∈ unset) :
    (k, v) ∉ envUsed ops unset := by
  simp [envUsed, hk]

/-- the order of the entries: what `sorted(key=-priority)` gives, a rearrangement of the table -/
theorem byPriority_mem (tests : List Test) (t : Test) : t ∈ byPriority tests ↔ t ∈ tests := mem_sortBy _ t tests

/-! the same code with `copy.copy` (seeded change C15-c8): a table of one test whose program links a shared library -/

def sLib : Tgt := ⟨1, "lib@sha".toList, .sharedLibrary, "sub".toList, "libl.so".toList, ["libl.so".toList], [(.sharedLibrary, "sub".toList)]⟩
def sExe : Tgt := ⟨2, "t@exe".toList, .executable, [], "t".toList, ["t".toList], [(.executable, []), (.sharedLibrary, "sub".toList)]⟩
def sTest (env : Nat) (name : String) : Test :=
  ⟨name.toList, ["p".toList], .target sExe, [.str "a".toList, .target sLib], [], env, "True".toList, "30".toList, none, "exitcode".toList, 0⟩
/-- a heap with one environment object holding `set A=1` -/
def sHeap : Heap := ⟨1, 1, fun _ => ⟨0, 0⟩, fun _ => [⟨.set, ['A'], [['1']], [':']⟩], fun _ => []⟩

def agreesB (r : Except Err (List (SerTest × List Str) × List IntroTest)) : Bool :=
  match r with
  | .ok (p, i) => decide (i = p.map introOfPickled)
  | .error _ => false

def ldOf (r : Except Err (List (SerTest × List Str) × List IntroTest)) : List (List (Option Str)) :=
  match r with
  | .ok (_, i) => i.map (fun e => [lookup e.env "LD_LIBRARY_PATH".toList])
  | .error _ => []

example : agreesB (configure .deep "/b".toList false [sTest 0 "one"] sHeap) = true := by decide
/-- with a shallow copy the introspected entry has the directory twice, `meson test` once -/
theorem shallow_copy_second_serialisation_differs :
    agreesB (configure .shallow "/b".toList false [sTest 0 "one"] sHeap) = false ∧
    ldOf (configure .shallow "/b".toList false [sTest 0 "one"] sHeap) = [[some "/b/sub:/b/sub".toList]] ∧
    ldOf (configure .deep "/b".toList false [sTest 0 "one"] sHeap) = [[some "/b/sub".toList]] := by decide
/-- … and two tests given one `environment()` object contaminate each other (all four prepends of the two calls land in the one shared list) -/
theorem shallow_copy_leaks_between_tests :
    ldOf (configure .shallow "/b".toList false [sTest 0 "one", sTest 0 "two"] sHeap)
      = [[some "/b/sub:/b/sub:/b/sub:/b/sub".toList], [some "/b/sub:/b/sub:/b/sub:/b/sub".toList]] ∧
    ldOf (configure .deep "/b".toList false [sTest 0 "one", sTest 0 "two"] sHeap)
      = [[some "/b/sub".toList], [some "/b/sub".toList]] := by decide

end producers

/-! ### the hypotheses are satisfiable, the checkers discriminate (samples; the theorems above are the claim) -/

section examples

private def s (x : String) : Str := x.toList

private def exe : Target :=
  { id := s "app@exe", kind := .build, files := [s "/b/app"], priv := s "/b/app.p/", srcs := [s "/s/main.c", s "/b/gen.c", s "/s/x.cpp"],
    groups := [⟨s "c", [s "cc"], [s "-O2"], [s "/s/main.c", s "/b/gen.c"]⟩, ⟨s "cpp", [s "c++"], [s "-O2"], [s "/s/x.cpp"]⟩] }
private def ct : Target :=
  { id := s "gen@cus", kind := .custom, files := [s "/b/gen.c", s "/b/gen.h"], priv := s "/b/gen.c.p/", srcs := [s "/s/in.txt"] }
private def edges : List Edge :=
  [ ⟨s "CUSTOM_COMMAND", [s "/b/gen.c", s "/b/gen.h"], [s "/s/in.txt"], [], []⟩,
    ⟨s "c_COMPILER", [s "/b/app.p/main.c.o"], [s "/s/main.c"], [s "cc"], [s "-O2"]⟩,
    ⟨s "c_COMPILER", [s "/b/app.p/gen.c.o"], [s "/b/gen.c"], [s "cc"], [s "-O2"]⟩,
    ⟨s "cpp_COMPILER", [s "/b/app.p/x.cpp.o"], [s "/s/x.cpp"], [s "c++"], [s "-O2"]⟩,
    ⟨s "cpp_LINKER", [s "/b/app"], [s "/b/app.p/main.c.o", s "/b/app.p/gen.c.o", s "/b/app.p/x.cpp.o"], [], []⟩,
    ⟨s "phony", [s "/b/all"], [s "/b/app"], [], []⟩ ]

example : AgreesTargets [exe, ct] edges := (checkTargets_iff _ _).1 (by decide)
/-- one output of the two-output target not reported -/
example : ¬ AgreesTargets [exe, { ct with files := [s "/b/gen.c"] }] edges :=
  fun h => absurd ((checkTargets_iff _ _).2 h) (by decide)
/-- the C++ source listed in the C group (same parameters, the C compiler): same source set, wrong group -/
example : ¬ AgreesTargets [{ exe with groups := [⟨s "c", [s "cc"], [s "-O2"], [s "/s/main.c", s "/b/gen.c", s "/s/x.cpp"]⟩] }, ct] edges :=
  fun h => absurd ((checkTargets_iff _ _).2 h) (by decide)
/-- parameters that are not the ARGS of the statement -/
example : ¬ AgreesTargets [{ exe with groups := [⟨s "c", [s "cc"], [s "-O0"], [s "/s/main.c", s "/b/gen.c"]⟩, ⟨s "cpp", [s "c++"], [s "-O2"], [s "/s/x.cpp"]⟩] }, ct] edges :=
  fun h => absurd ((checkTargets_iff _ _).2 h) (by decide)
/-- a source not reported -/
example : ¬ AgreesTargets [{ exe with srcs := [s "/s/main.c"] }, ct] edges :=
  fun h => absurd ((checkTargets_iff _ _).2 h) (by decide)
/-- a target missing from intro-targets.json -/
example : ¬ AgreesTargets [exe] edges := fun h => absurd ((checkTargets_iff _ _).2 h) (by decide)

private def ser : SerTest :=
  { name := s "t", fname := [s "/b/app"], cmdArgs := [s "--x"], env := [⟨.set, s "A", [s "1", s "2"], s ":"⟩, ⟨.prepend, s "A", [s "0"], s ":"⟩],
    workdir := s "None", timeout := s "30", suite := [s "p:fast"], isParallel := s "True", priority := s "0",
    protocol := s "exitcode", depends := [s "app@exe", s "gen@cus"], extraPaths := [] }
private def it : IntroTest :=
  { name := s "t", cmd := [s "/b/app", s "--x"], env := [(s "A", s "0:1:2")], workdir := s "None", timeout := s "30",
    suite := [s "p:fast"], isParallel := s "True", priority := s "0", protocol := s "exitcode",
    depends := [s "gen@cus", s "app@exe"], extraPaths := [] }

example : AgreesTests [it] [ser] [s "app@exe", s "gen@cus"] := (checkTests_iff _ _ _).1 (by decide)
example : ¬ AgreesTests [{ it with depends := [s "app@exe"] }] [ser] [s "app@exe", s "gen@cus"] :=
  fun h => absurd ((checkTests_iff _ _ _).2 h) (by decide)
example : ¬ AgreesTests [it] [ser] [s "app@exe"] := fun h => absurd ((checkTests_iff _ _ _).2 h) (by decide)

private def tfs : List TargetFiles := [⟨s "app@exe", [s "/b/app"]⟩, ⟨s "gen@cus", [s "/b/gen.c", s "/b/gen.h"]⟩]
example : AgreesTestDeps [⟨[s "app@exe", s "gen@cus"], [s "/b/app", s "--x", s "/b/gen.h"]⟩] tfs [s "/b/gen.c", s "/b/app"] :=
  (checkTestDeps_iff _ _ _).1 (by decide)
/-- the indexed output on the command line, its target not among `depends` -/
example : ¬ AgreesTestDeps [⟨[s "app@exe"], [s "/b/app", s "/b/gen.h"]⟩] tfs [s "/b/gen.c", s "/b/app"] :=
  fun h => absurd ((checkTestDeps_iff _ _ _).2 h) (by decide)
/-- a prerequisite of build.ninja that no test lists -/
example : ¬ AgreesTestDeps [⟨[s "app@exe"], [s "/b/app"]⟩] tfs [s "/b/gen.c", s "/b/app"] :=
  fun h => absurd ((checkTestDeps_iff _ _ _).2 h) (by decide)

private def dirs : List (Str × Str) := [(s "bindir", s "bin"), (s "includedir", s "include"), (s "datadir", s "share")]
private def recs : List InstRec :=
  [ ⟨.targets, [], s "/b/app", s "bin", s "runtime", []⟩,
    ⟨.headers, [], s "/s/a.h", s "include/", s "devel", s "sp"⟩,
    ⟨.data, s "configure", s "/b/conf.h", s "include/conf.h", s "devel", []⟩,
    ⟨.data, [], s "/s/d.txt", s "share/x/d.txt", [], []⟩ ]
private def plan : List PlanEntry :=
  [ ⟨s "targets", s "/b/app", s "{bindir}/app", s "runtime", []⟩,
    ⟨s "headers", s "/s/a.h", s "{includedir}/a.h", s "devel", s "sp"⟩,
    ⟨s "configure", s "/b/conf.h", s "{includedir}/conf.h", s "devel", []⟩,
    ⟨s "data", s "/s/d.txt", s "share/x/d.txt", [], []⟩ ]

example : AgreesPlan dirs (s "/usr") plan recs := (checkPlan_iff _ _ _ _).1 (by decide)
example : ¬ AgreesPlan dirs (s "/usr") (plan.take 3) recs := fun h => absurd ((checkPlan_iff _ _ _ _).2 h) (by decide)
example : ¬ AgreesPlan dirs (s "/usr") (⟨s "targets", s "/b/app", s "{bindir}/app", s "devel", []⟩ :: plan.drop 1) recs :=
  fun h => absurd ((checkPlan_iff _ _ _ _).2 h) (by decide)
example : AgreesInstalled (s "/usr") [(s "/b/app", s "/usr/bin/app"), (s "/s/a.h", s "/usr/include/a.h")] (recs.take 2) :=
  (checkInstalled_iff _ _ _).1 (by decide)

example : AgreesOptions [⟨s "c", s "c"⟩, ⟨s "sp:c", s "c"⟩, ⟨s "werror", s "false"⟩]
    [⟨[], s "c", false, s "c"⟩, ⟨s "sp", s "c", false, s "c"⟩, ⟨s "sp", s "werror", true, s "false"⟩] :=
  (checkOptions_iff _ _).1 (by decide)
/-- three addressing forms with pairwise different values: global row, top-level-only row `:name`, subproject row -/
example : AgreesOptions [⟨s "warning_level", s "2"⟩, ⟨s ":warning_level", s "3"⟩, ⟨s "sp:warning_level", s "0"⟩]
    [⟨[], s "warning_level", true, s "3"⟩, ⟨s "sp", s "warning_level", true, s "0"⟩, ⟨s "other", s "warning_level", true, s "2"⟩] :=
  (checkOptions_iff _ _).1 (by decide)
/-- the top-level-only row shows the global value although the top-level project read the override -/
example : ¬ AgreesOptions [⟨s "warning_level", s "2"⟩, ⟨s ":warning_level", s "2"⟩] [⟨[], s "warning_level", true, s "3"⟩] :=
  fun h => absurd ((checkOptions_iff _ _).2 h) (by decide)
/-- native build: `build.c_args` is described by the row `c_args`; cross build: by its own row -/
example : AgreesOptions [⟨s "c_args", s "['-DN']"⟩] [⟨[], s "build.c_args", true, s "['-DN']"⟩] := (checkOptions_iff _ _).1 (by decide)
example : ¬ AgreesOptions [⟨s "c_args", s "['-DX']"⟩, ⟨s "build.c_args", s "[]"⟩] [⟨[], s "build.c_args", true, s "['-DX']"⟩] :=
  fun h => absurd ((checkOptions_iff _ _).2 h) (by decide)
/-- the defect repaired in /repo ec2d585: the subproject read `c`, the row showed the option's own value `b` -/
example : ¬ AgreesOptions [⟨s "c", s "c"⟩, ⟨s "sp:c", s "b"⟩] [⟨s "sp", s "c", false, s "c"⟩] :=
  fun h => absurd ((checkOptions_iff _ _).2 h) (by decide)

example : AgreesBuildFiles [s "/s/meson.build", s "/s/sub/meson.build"] [s "/s/sub/meson.build", s "/s/meson.build", s "/s/meson.build"] :=
  (checkBuildFiles_iff _ _).1 (by decide)
example : ¬ AgreesBuildFiles [s "/s/meson.build"] [s "/s/sub/meson.build", s "/s/meson.build"] :=
  fun h => absurd ((checkBuildFiles_iff _ _).2 h) (by decide)

end examples

end MesonModel.Props.C15
