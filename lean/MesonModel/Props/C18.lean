/-
C18 — TAP streams are interpreted per the TAP specification.

Property theorems over the model `MesonModel.Tap` of `mtest.py` `TAPParser` / `TestRunTAP`.
Streams are arbitrary lists of arbitrary strings (`List (List Char)`): every theorem quantifies over all
of them; stream-level statements are proved by induction over the line list through the invariant
`Delta` (helper lemmas: `MesonModel/Tap/*Lemmas.lean`).  Vocabulary:

* `swallowed s l` — line `l` is consumed by YAML-block handling in state `s` (start marker right after a
  test under TAP ≥ 13, end marker, or a line carrying the block's indentation);
* `classify (rstrip l)` — which of the line regexes matches, with its groups;
* `countTests`, `maxNumber`, `planOf`, `hasBail`, `countPlans` — measures of an event list.

Totality ("no input makes the parser raise"): `parse_never_raises` over the exception-faithful layer (`int()`
partial beyond 4300 digits, `try/except` as in the source) plus the correspondence run.

Stream independence: the fresh parser is the explicit initial state `PState.init`, proved equal to the class
body of the live `TAPParser` (`fresh_parser_table`, regenerated on every run); `session_*` theorems say what
"the events of a stream depend on that stream only" means for sequences of streams in one process.

Consumer: `runTAP` is `TestRunTAP.parse` / `complete` / `TestRun._complete` as a state machine;
`verdict_classification` and its corollaries give the final result for every event list and exit status.
-/
import MesonModel.Tap.StepLemmas
import MesonModel.Tap.VerdictLemmas
import MesonModel.Tap.ConsumerLemmas
import MesonModel.Generated.TapTables

namespace MesonModel.Props.C18
open MesonModel.Tap MesonModel.Py

/-! ### Tables regenerated from the source on every run -/

/-- the model's `TestResult` has exactly the members of the enum in `mtest.py`, in order -/
theorem members_table : TestResult.all.map TestResult.name = MesonModel.Generated.TapTables.members := by
  decide

/-- `TestResult.is_bad` of the source is the model's `isBad` -/
theorem isBad_table :
    ∀ r ∈ TestResult.all, r.isBad = MesonModel.Generated.TapTables.isBad.contains r.name := by decide

theorem isOk_table :
    ∀ r ∈ TestResult.all, r.isOk = MesonModel.Generated.TapTables.isOk.contains r.name := by decide

/-! ### Each `ok` / `not ok` line yields one subtest: number, name, directive -/

/-- directive table: SKIP on a passing line is SKIP, on a failing line FAIL; TODO gives unexpected-pass /
expected-fail; no directive gives OK / FAIL (directive spellings are compared upper-cased; SKIP may carry
a suffix as in `SKIPPED`) -/
theorem directive_table (ok : Bool) (d : List Char) :
    directiveResult ok none = (if ok then .OK else .FAIL) ∧
    (startsWith (upper d) kSKIP = true → directiveResult ok (some d) = (if ok then .SKIP else .FAIL)) ∧
    (upper d = kTODO → directiveResult ok (some d) = (if ok then .UNEXPECTEDPASS else .EXPECTEDFAIL)) := by
  refine ⟨?_, ?_, ?_⟩
  · cases ok <;> rfl
  · intro h; simp [directiveResult, h]
  · intro h
    have h3 : startsWith kTODO kSKIP = false := by decide
    simp [directiveResult, h, h3]

/-- `parse_test` always yields exactly one subtest event carrying the given number, the stripped name, the
directive-adjusted status and the stripped explanation; an unknown directive adds an error in front and
leaves the plain status -/
theorem parse_test_event (ok : Bool) (n : Nat) (name : List Char) (dir expl : Option (List Char)) :
    (parseTest ok n name dir expl).filter isTestEvent =
      [.test n (strip name) (directiveResult ok dir) (normExpl expl)] ∧
    (∀ e ∈ parseTest ok n name dir expl, isTestEvent e = true ∨ ∃ d, e = .error (.invalidDirective d)) := by
  refine ⟨parseTest_filter .., ?_⟩
  intro e he
  rw [parseTest_eq] at he
  rcases List.mem_append.mp he with he | he
  · right
    cases dir with
    | none => simp at he
    | some d =>
      by_cases h : (startsWith (upper d) kSKIP ∨ upper d = kTODO) <;> simp [h] at he
      exact ⟨_, he⟩
  · left; simp at he; subst he; rfl

/-- **number, name and directive rules.** A test line that is not swallowed by a YAML block yields exactly
one subtest: its number is the explicit number, else the previous subtest's number plus one; its name is
the description stripped; its status follows the directive table; and the parser remembers the number -/
theorem test_line_event (s : PState) (line : List Char) (ok : Bool) (num : Option (List Char))
    (name : List Char) (dir expl : Option (List Char))
    (hv : swallowed s line = false) (hc : classify (rstrip line) = .test ok num name dir expl) :
    (step s line).2.filter isTestEvent =
      [.test (testNumber s num) (strip name) (directiveResult ok dir) (normExpl expl)] ∧
    (step s line).1.lastTest = testNumber s num ∧ (step s line).1.state = .afterTest := by
  rw [step_visible hv]
  have hm : mainLine (enter s) line = onTest (enter s) ok num name dir expl := by simp [mainLine, hc]
  have ht : testNumber (enter s) num = testNumber s num := rfl
  rw [hm]
  refine ⟨?_, ?_, ?_⟩
  · simp only [onTest, List.filter_append, parseTest_filter, ht]
    have h1 : (if s.state = Mode.yaml then [Event.error (Err.yamlNotTerminated s.yamlLineno)] else []).filter
        isTestEvent = [] := by split <;> simp [isTestEvent]
    have h2 : (if lateNow (enter s) = true then [Event.error Err.lateTest] else []).filter isTestEvent = [] := by
      split <;> simp [isTestEvent]
    have h3 : (if exceedsPlan (enter s) (testNumber s num) = true then [Event.error Err.exceedsPlan] else []).filter
        isTestEvent = [] := by split <;> simp [isTestEvent]
    have h4 : (if numTooLong num = true then [Event.error Err.testNumberTooLarge] else []).filter isTestEvent = [] := by
      split <;> simp [isTestEvent]
    simp [h1, h2, h3, h4]
  · simp [onTest, ht]
  · simp [onTest]

/-- the number is the previous one plus one when none is written (or when the written one is longer than
`int()` accepts), else the written number -/
theorem test_number_rule (s : PState) (d : List Char) :
    testNumber s none = s.lastTest + 1 ∧
    (tooLong d = false → testNumber s (some d) = natOfDigits d) ∧
    (tooLong d = true → testNumber s (some d) = s.lastTest + 1) := by
  refine ⟨rfl, ?_, ?_⟩ <;> intro h <;> simp [testNumber, h]

/-- **one subtest per test line**, per line … -/
theorem one_test_per_line (s : PState) (line : List Char) :
    countTests (step s line).2 = if visibleTest s line then 1 else 0 := step_countTests s line

/-- number of `ok`/`not ok` lines of a stream that are not inside a YAML block -/
def visibleTests (s : PState) : List (List Char) → Nat
  | [] => 0
  | l :: ls => (if visibleTest s l then 1 else 0) + visibleTests (step s l).1 ls

theorem run_countTests (s : PState) (lines : List (List Char)) :
    countTests (run s lines).2 = visibleTests s lines := by
  induction lines generalizing s with
  | nil => rfl
  | cons l ls ih => simp [run, visibleTests, step_countTests, ih]

/-- … and for every stream: the number of subtest events equals the number of test lines that are not
swallowed by a YAML block (the end-of-stream step adds none) -/
theorem one_test_per_test_line (lines : List (List Char)) :
    countTests (parse lines) = visibleTests PState.init lines := by
  have hf := (errors_inert _ (finish_errors (run PState.init lines).1)).1
  simp [parse, run_countTests, hf]

/-! ### Diagnostics and YAML blocks are ignored -/

/-- a diagnostic (`#…`) or blank line outside a YAML block produces no event and changes no counter -/
theorem diagnostics_ignored (s : PState) (line : List Char)
    (hv : swallowed s line = false) (hy : s.state ≠ .yaml) (hc : classify (rstrip line) = .skip) :
    (step s line).2 = [] ∧ sameCounters s (step s line).1 := by
  rw [step_visible hv]
  simp [mainLine, hc, hy, sameCounters, enter]

/-- `classify` says "skip" exactly for empty lines and lines starting with `#` -/
theorem classify_skip_iff (l : List Char) : classify l = .skip ↔ (l = [] ∨ l.head? = some '#') := by
  constructor
  · intro h
    match l, h with
    | [], _ => exact Or.inl rfl
    | c :: cs, h =>
      right
      by_cases hc : c = '#'
      · simp [hc]
      · exfalso
        unfold classify at h
        split at h
        · simp at *
        · simp_all
        · repeat' split at h
          all_goals simp [testTail] at h
  · rintro (h | h)
    · subst h; rfl
    · match l, h with
      | c :: cs, h =>
        simp at h; subst h; rfl

theorem dropPrefix?_isSome (p s : List Char) : (dropPrefix? p s).isSome = startsWith s p := by
  induction p generalizing s with
  | nil => simp [dropPrefix?, startsWith]
  | cons a p ih =>
    cases s with
    | nil => simp [dropPrefix?, startsWith]
    | cons c cs =>
      by_cases h : a = c
      · subst h; simp [dropPrefix?, startsWith, List.isPrefixOf] at ih ⊢; exact ih cs
      · simp [dropPrefix?, startsWith, List.isPrefixOf, h]

/-- a (right-stripped) line is a test line exactly when it starts with `ok` or `not ok` — whatever follows -/
theorem classify_test_iff (l : List Char) :
    isTestClass (classify l) = true ↔ (startsWith l kOk = true ∨ startsWith l kNotOk = true) := by
  rw [← dropPrefix?_isSome, ← dropPrefix?_isSome]
  unfold classify
  split
  · simp [isTestClass, dropPrefix?, kOk, kNotOk]
  · simp [isTestClass, dropPrefix?, kOk, kNotOk]
  · cases h1 : dropPrefix? kNotOk l with
    | some r => simp [testTail, isTestClass]
    | none =>
      cases h2 : dropPrefix? kOk l with
      | some r => simp [testTail, isTestClass]
      | none =>
        simp only [Option.isSome_none, Bool.false_eq_true, or_self, iff_false]
        repeat' split
        all_goals simp [isTestClass]

/-- the lines of a YAML block (start marker after a test under TAP 13, content lines, end marker) produce no
event and change no counter -/
theorem yaml_ignored (s : PState) (line : List Char) (h : swallowed s line = true) :
    (step s line).2 = [] ∧ sameCounters s (step s line).1 :=
  ⟨(step_swallowed h).1, (step_swallowed h).2.1⟩

/-! ### Error conditions -/

/-- the end-of-stream errors the TAP rules require for an event list -/
def dupMissSpec (n hi : Nat) : List Event :=
  if hi = n then [] else if hi < n then [.error (.duplicate n hi)] else [.error (.missing n hi)]

def expectedEnd (evs : List Event) : List Event :=
  if hasBail evs then []
  else match planOf evs with
    | some p =>
      if countTests evs = p.numTests then dupMissSpec (countTests evs) (maxNumber evs)
      else if countTests evs < p.numTests then [.error (.tooFew p.numTests (countTests evs))]
      else [.error (.tooMany p.numTests (countTests evs))]
    | none => dupMissSpec (countTests evs) (maxNumber evs)

/-- **plan/count mismatch, duplicate or missing numbers, suppression by bail-out** — for every stream, the
count/numbering errors in the output are exactly those that the plan event, the number of subtest events
and the highest subtest number of the *same output* call for -/
theorem end_of_stream_errors (lines : List (List Char)) :
    (parse lines).filter isFinalErr = expectedEnd (parse lines) := by
  have D := run_delta PState.init lines
  generalize hr : run PState.init lines = r at D
  have hin := errors_inert _ (finish_errors r.1)
  have hnum : r.1.numTests = countTests r.2 := by simpa [PState.init] using D.numTests
  have hhi : r.1.highestTest = maxNumber r.2 := by simpa [PState.init] using D.highest
  have hplan : r.1.plan = planOf r.2 := by simpa [PState.init] using D.plan
  have hbail : r.1.bailedOut = hasBail r.2 := by simpa [PState.init] using D.bailed
  have hnf : r.2.filter isFinalErr = [] := by
    rw [List.filter_eq_nil_iff]; intro e he; simp [D.noFinal e he]
  have e1 : countTests (parse lines) = countTests r.2 := by simp [parse, hr, hin.1]
  have e2 : maxNumber (parse lines) = maxNumber r.2 := by simp [parse, hr, hin.2.1]
  have e3 : planOf (parse lines) = planOf r.2 := by simp [parse, hr, planOf_append, hin.2.2.1]
  have e4 : hasBail (parse lines) = hasBail r.2 := by simp [parse, hr, hin.2.2.2.1]
  have e5 : (parse lines).filter isFinalErr = if r.1.bailedOut then [] else finalChecks r.1 := by
    simp only [parse, hr, List.filter_append, hnf, List.nil_append, finish_filter]
  rw [e5]
  unfold expectedEnd
  rw [e1, e2, e3, e4, ← hbail]
  cases hb : r.1.bailedOut
  · simp only [Bool.false_eq_true, if_false]
    unfold finalChecks dupMissing dupMissSpec
    rw [← hplan, ← hnum, ← hhi]
    cases r.1.plan <;> rfl
  · simp

theorem mem_of_final {evs : List Event} {e : Event} (h : isFinalErr e = true) :
    e ∈ evs ↔ e ∈ evs.filter isFinalErr := by simp [h]

theorem mem_dupMissSpec (e : Event) (n hi : Nat) :
    e ∈ dupMissSpec n hi ↔ (hi < n ∧ e = .error (.duplicate n hi)) ∨ (hi > n ∧ e = .error (.missing n hi)) := by
  unfold dupMissSpec
  by_cases h1 : hi = n
  · simp [h1]
  · by_cases h2 : hi < n
    · simp [h1, h2]; omega
    · simp [h1, h2]; omega

/-- membership of an end-of-stream error in the output of `parse` -/
theorem final_mem_iff (lines : List (List Char)) (e : Event) (h : isFinalErr e = true) :
    e ∈ parse lines ↔ e ∈ expectedEnd (parse lines) := by
  rw [← end_of_stream_errors]; simp [h]

/-- a plan that disagrees with the number of subtests is reported, and only then -/
theorem plan_count_mismatch_iff (lines : List (List Char)) (p : Plan)
    (hb : hasBail (parse lines) = false) (hp : planOf (parse lines) = some p) :
    (.error (.tooFew p.numTests (countTests (parse lines))) ∈ parse lines ↔ countTests (parse lines) < p.numTests) ∧
    (.error (.tooMany p.numTests (countTests (parse lines))) ∈ parse lines ↔ countTests (parse lines) > p.numTests) := by
  rw [final_mem_iff _ _ rfl, final_mem_iff _ _ rfl]
  generalize parse lines = evs at *
  unfold expectedEnd
  simp only [hb, hp, Bool.false_eq_true, if_false]
  by_cases h1 : countTests evs = p.numTests
  · simp [h1, mem_dupMissSpec]
  · by_cases h2 : countTests evs < p.numTests
    · simp [h1, h2]; omega
    · simp [h1, h2]; omega

/-- when the plan (if any) agrees with the count, duplicate / missing numbers are reported exactly when the
highest number differs from the count -/
theorem dup_or_missing_iff (lines : List (List Char))
    (hb : hasBail (parse lines) = false)
    (hp : ∀ p, planOf (parse lines) = some p → countTests (parse lines) = p.numTests) :
    (.error (.duplicate (countTests (parse lines)) (maxNumber (parse lines))) ∈ parse lines ↔
       maxNumber (parse lines) < countTests (parse lines)) ∧
    (.error (.missing (countTests (parse lines)) (maxNumber (parse lines))) ∈ parse lines ↔
       maxNumber (parse lines) > countTests (parse lines)) := by
  rw [final_mem_iff _ _ rfl, final_mem_iff _ _ rfl]
  generalize parse lines = evs at *
  unfold expectedEnd
  simp only [hb, Bool.false_eq_true, if_false]
  cases hpl : planOf evs with
  | none => simp [mem_dupMissSpec]
  | some p =>
    have := hp p hpl
    simp [this, mem_dupMissSpec]

/-- **`Bail out!`** produces a bail-out event with the message, sets the flag for good, … -/
theorem bailout_event (s : PState) (line msg : List Char)
    (hv : swallowed s line = false) (hy : s.state ≠ .yaml) (hc : classify (rstrip line) = .bailout msg) :
    (step s line).2 = [.bailout msg] ∧ (step s line).1.bailedOut = true := by
  rw [step_visible hv]
  simp [mainLine, hc, hy]

/-- … and suppresses every count / numbering error at the end of the stream -/
theorem bailout_suppresses (lines : List (List Char)) (hb : hasBail (parse lines) = true) :
    ∀ e ∈ parse lines, isFinalErr e = false := by
  intro e he
  cases hf : isFinalErr e with
  | false => rfl
  | true =>
    have := (final_mem_iff lines e hf).mp he
    simp [expectedEnd, hb] at this

/-- **number beyond the plan**: a visible test line is reported as exceeding the plan exactly when a plan is
known and the subtest's number is greater than the planned count -/
theorem beyond_plan (s : PState) (line : List Char) (ok : Bool) (num : Option (List Char))
    (name : List Char) (dir expl : Option (List Char))
    (hv : swallowed s line = false) (hc : classify (rstrip line) = .test ok num name dir expl) :
    .error .exceedsPlan ∈ (step s line).2 ↔ ∃ p, s.plan = some p ∧ testNumber s num > p.numTests := by
  rw [step_visible hv]
  have hm : mainLine (enter s) line = onTest (enter s) ok num name dir expl := by simp [mainLine, hc]
  have ht : testNumber (enter s) num = testNumber s num := rfl
  have hnp : .error .exceedsPlan ∉ parseTest ok (testNumber s num) name dir expl := by
    intro hmem
    rcases (parse_test_event ok (testNumber s num) name dir expl).2 _ hmem with h | ⟨d, h⟩
    · simp [isTestEvent] at h
    · simp at h
  rw [hm]
  simp only [onTest, ht, List.mem_append]
  have hx : exceedsPlan (enter s) (testNumber s num) = true ↔ ∃ p, s.plan = some p ∧ testNumber s num > p.numTests := by
    simp only [exceedsPlan, enter]
    cases s.plan <;> simp
  constructor
  · rintro (h | (h | h) | h)
    · split at h <;> simp at h
    · split at h <;> simp at h
    · split at h
      · exact hx.mp ‹_›
      · simp at h
    · exact absurd h hnp
  · intro h
    right; left; right
    simp [hx.mpr h]

/-- **test after a late plan**: reported exactly when a late plan is known and it has not been reported yet;
afterwards the flag is set -/
theorem test_after_late_plan (s : PState) (line : List Char) (ok : Bool) (num : Option (List Char))
    (name : List Char) (dir expl : Option (List Char))
    (hv : swallowed s line = false) (hc : classify (rstrip line) = .test ok num name dir expl) :
    (.error .lateTest ∈ (step s line).2 ↔ (∃ p, s.plan = some p ∧ p.late = true) ∧ s.foundLateTest = false) ∧
    ((∃ p, s.plan = some p ∧ p.late = true) → (step s line).1.foundLateTest = true) := by
  rw [step_visible hv]
  have hm : mainLine (enter s) line = onTest (enter s) ok num name dir expl := by simp [mainLine, hc]
  have hnp : .error .lateTest ∉ parseTest ok (testNumber (enter s) num) name dir expl := by
    intro hmem
    rcases (parse_test_event ok _ name dir expl).2 _ hmem with h | ⟨d, h⟩
    · simp [isTestEvent] at h
    · simp at h
  have hl : lateNow (enter s) = true ↔ (∃ p, s.plan = some p ∧ p.late = true) ∧ s.foundLateTest = false := by
    simp only [lateNow, enter]
    cases s.plan <;> simp
  rw [hm]
  constructor
  · simp only [onTest, List.mem_append]
    constructor
    · rintro (h | (h | h) | h)
      · split at h <;> simp at h
      · split at h
        · exact hl.mp ‹_›
        · simp at h
      · split at h <;> simp at h
      · exact absurd h hnp
    · intro h
      right; left; left
      simp [hl.mpr h]
  · rintro ⟨p, hp, hlate⟩
    simp only [onTest]
    cases hf : s.foundLateTest
    · have := hl.mpr ⟨⟨p, hp, hlate⟩, hf⟩
      simp [this]
    · simp [enter, hf]

/-- … hence at most once in any stream -/
theorem late_test_error_at_most_once (lines : List (List Char)) :
    (parse lines).countP isLateErr ≤ 1 := by
  have D := (run_delta PState.init lines).late
  have hf : (finish (run PState.init lines).1).countP isLateErr = 0 := by
    rw [List.countP_eq_zero]
    intro e he
    have h1 := finish_errors _ e he
    unfold finish at he
    rcases List.mem_append.mp he with h | h
    · split at h <;> simp at h; subst h; simp [isLateErr]
    · split at h
      · simp at h
      · have := finalChecks_final _ e h
        cases e <;> simp [isFinalErr] at this
        rename_i er; cases er <;> simp [isFinalErr] at this <;> simp [isLateErr]
  have h0 : lateSlot PState.init = 1 := rfl
  rw [h0] at D
  simp only [parse, List.countP_append, hf]
  omega

/-- **second plan**: a plan line when a plan is already known yields only the error and changes nothing -/
theorem second_plan (s : PState) (line ds : List Char) (dir expl : Option (List Char)) (p : Plan)
    (hv : swallowed s line = false) (hy : s.state ≠ .yaml)
    (hc : classify (rstrip line) = .plan ds dir expl) (hp : s.plan = some p) :
    (step s line).2 = [.error .secondPlan] ∧ (step s line).1.plan = some p := by
  rw [step_visible hv]
  simp [mainLine, hc, hy, onPlan, enter, hp]

/-- the first plan line yields the plan event: count, `late` iff subtests came first, `skipped` iff the count
is 0 or the directive is SKIP -/
theorem first_plan (s : PState) (line ds : List Char) (dir expl : Option (List Char))
    (hv : swallowed s line = false) (hc : classify (rstrip line) = .plan ds dir expl) (hp : s.plan = none)
    (hz : tooLong ds = false) :
    let p : Plan := { numTests := natOfDigits ds, late := decide (s.numTests > 0),
                      skipped := (natOfDigits ds == 0) || planIsSkip dir, explanation := expl }
    .plan p ∈ (step s line).2 ∧ (step s line).1.plan = some p := by
  rw [step_visible hv]
  simp [mainLine, hc, onPlan, enter, hp, hz]

/-- … hence at most one plan event in any stream -/
theorem at_most_one_plan (lines : List (List Char)) : countPlans (parse lines) ≤ 1 := by
  have D := (run_delta PState.init lines).plans
  have hf := (errors_inert _ (finish_errors (run PState.init lines).1)).2.2.2.2.1
  have h0 : planSlot PState.init = 1 := rfl
  rw [h0] at D
  simp only [parse, countPlans_append, hf]
  omega

/-- **unterminated YAML block** at end of stream: the error is yielded exactly when a block is open -/
theorem yaml_unterminated_iff (s : PState) (k : Option Nat) :
    .error (.yamlNotTerminated k) ∈ finish s ↔ (s.state = .yaml ∧ s.yamlLineno = k) := by
  unfold finish
  have hfc : .error (.yamlNotTerminated k) ∉ finalChecks s := by
    intro h; have := finalChecks_final s _ h; simp [isFinalErr] at this
  constructor
  · intro h
    rcases List.mem_append.mp h with h | h
    · split at h
      · simp at h; exact ⟨‹_›, h.symm⟩
      · simp at h
    · split at h
      · simp at h
      · exact absurd h hfc
  · rintro ⟨h1, h2⟩
    simp [h1, h2]

/-- … and inside a stream: a line that neither ends the block nor carries its indentation yields the error
first and is then processed as an ordinary line -/
theorem yaml_unterminated_inside (s : PState) (line : List Char) (hs : s.state = .yaml)
    (he : yamlEnd line = false) (hi : startsWith line s.yamlIndent = false) :
    (step s line).2 = .error (.yamlNotTerminated s.yamlLineno) :: (mainLine (enter s) line).2 ∧
    (step s line).1 = (mainLine (enter s) line).1 := by
  rw [step_yaml_break hs he hi]; exact ⟨rfl, rfl⟩

/-- **misplaced version line**: on any line but the first it yields only the error and changes nothing -/
theorem version_misplaced (s : PState) (line ds : List Char)
    (hv : swallowed s line = false) (hy : s.state ≠ .yaml)
    (hc : classify (rstrip line) = .version ds) (hl : s.lineno ≠ 0) :
    (step s line).2 = [.error .versionNotFirst] ∧ (step s line).1.version = s.version := by
  rw [step_visible hv]
  simp [mainLine, hc, hy, onVersion, enter, hl]

/-- … hence in any stream a version event can only come from the first line -/
theorem version_only_first_line (l : List Char) (ls : List (List Char)) (v : Nat) :
    .version v ∈ parse (l :: ls) → .version v ∈ (step PState.init l).2 := by
  intro h
  simp only [parse, run] at h
  rcases List.mem_append.mp h with h | h
  · rcases List.mem_append.mp h with h | h
    · exact h
    · have := run_noVersion (step PState.init l).1 ls (by rw [step_lineno]; omega) _ h
      simp [isVersionEvent] at this
  · have := finish_errors _ _ h
    simp [isErrorEvent] at this

/-! ### Numbers longer than `int()` accepts, and "no input makes the parser raise" -/

/-- a test line whose number has more than 4300 digits reports the error (and only such a line does); by
`test_line_event` / `test_number_rule` it still yields exactly one subtest, numbered previous + 1 -/
theorem overlong_test_number (s : PState) (line : List Char) (ok : Bool) (num : Option (List Char))
    (name : List Char) (dir expl : Option (List Char))
    (hv : swallowed s line = false) (hc : classify (rstrip line) = .test ok num name dir expl) :
    .error .testNumberTooLarge ∈ (step s line).2 ↔ numTooLong num = true := by
  rw [step_visible hv]
  have hm : mainLine (enter s) line = onTest (enter s) ok num name dir expl := by simp [mainLine, hc]
  have hnp : .error .testNumberTooLarge ∉ parseTest ok (testNumber (enter s) num) name dir expl := by
    intro hmem
    rcases (parse_test_event ok _ name dir expl).2 _ hmem with h | ⟨d, h⟩
    · simp [isTestEvent] at h
    · simp at h
  rw [hm]
  simp only [onTest, List.mem_append]
  constructor
  · rintro (h | ((h | h) | h) | h)
    · split at h <;> simp at h
    · split at h <;> simp at h
    · split at h
      · assumption
      · simp at h
    · split at h <;> simp at h
    · exact absurd h hnp
  · intro h
    right; left; left; right
    simp [h]

/-- a plan line whose count has more than 4300 digits is reported and otherwise ignored -/
theorem overlong_plan (s : PState) (line ds : List Char) (dir expl : Option (List Char))
    (hv : swallowed s line = false) (hy : s.state ≠ .yaml)
    (hc : classify (rstrip line) = .plan ds dir expl) (hp : s.plan = none) (hz : tooLong ds = true) :
    (step s line).2 = [.error .planCountTooLarge] ∧ (step s line).1.plan = none := by
  rw [step_visible hv]
  simp [mainLine, hc, hy, onPlan, enter, hp, hz]

/-- a version line (on line 1) whose number has more than 4300 digits is reported and otherwise ignored -/
theorem overlong_version (s : PState) (line ds : List Char)
    (hv : swallowed s line = false) (hy : s.state ≠ .yaml)
    (hc : classify (rstrip line) = .version ds) (hl : s.lineno = 0) (hz : tooLong ds = true) :
    (step s line).2 = [.error .versionTooLarge] ∧ (step s line).1.version = s.version := by
  rw [step_visible hv]
  simp [mainLine, hc, hy, onVersion, enter, hl, hz]

theorem onTestE_ok (s : PState) (ok : Bool) (num : Option (List Char)) (name : List Char)
    (dir expl : Option (List Char)) : onTestE s ok num name dir expl = .ok (onTest s ok num name dir expl) := by
  unfold onTestE onTest testNumber numTooLong pyInt
  cases num with
  | none => rfl
  | some d =>
    cases h : tooLong d
    · simp only [h]; rfl
    · simp only [h]; rfl

theorem onPlanE_ok (s : PState) (ds : List Char) (dir expl : Option (List Char)) :
    onPlanE s ds dir expl = .ok (onPlan s ds dir expl) := by
  unfold onPlanE onPlan pyInt
  cases s.plan with
  | some p => rfl
  | none => cases h : tooLong ds <;> rfl

theorem onVersionE_ok (s : PState) (ds : List Char) : onVersionE s ds = .ok (onVersion s ds) := by
  unfold onVersionE onVersion pyInt
  by_cases hl : s.lineno ≠ 1
  · simp [hl]; rfl
  · cases h : tooLong ds <;> simp [hl, h] <;> rfl

theorem mainLineE_ok (s : PState) (line : List Char) : mainLineE s line = .ok (mainLine s line) := by
  simp only [mainLineE, mainLine]
  cases classify (rstrip line) with
  | skip => rfl
  | test ok num name dir expl => exact onTestE_ok ..
  | plan ds dir expl => exact onPlanE_ok ..
  | bailout msg => rfl
  | version ds => exact onVersionE_ok ..
  | unknown => rfl

theorem stepE_ok (s : PState) (line : List Char) : stepE s line = .ok (step s line) := by
  simp only [stepE, step, mainLineE_ok]
  cases s.state with
  | main => rfl
  | afterTest =>
    by_cases hv : s.version ≥ 13
    · cases hy : yamlStart line <;> simp [hv, hy] <;> rfl
    · simp [hv]
  | yaml =>
    cases he : yamlEnd line
    · cases hi : startsWith line s.yamlIndent <;> simp [he, hi] <;> rfl
    · simp [he]; rfl

theorem runE_ok (s : PState) (lines : List (List Char)) : runE s lines = .ok (run s lines) := by
  induction lines generalizing s with
  | nil => rfl
  | cons l ls ih => simp only [runE, run, stepE_ok, ih]; rfl

/-- **no input makes the parser raise**: in the exception-faithful model — `int()` is partial (ValueError
beyond 4300 digits) and the `try/except` blocks are where the source has them — no exception escapes
`parse` for any line stream, and the result is the event list of the plain model -/
theorem parse_never_raises (lines : List (List Char)) : parseE lines = .ok (parse lines) := by
  simp only [parseE, parse, runE_ok]; rfl

/-! ### The line layer below the parser (specification of `read_decode`) -/

/-- no byte is lost or invented: the lines, joined, are the output -/
theorem splitLines_flatten (s : List Char) : (splitLines s).flatten = s := by
  induction s with
  | nil => rfl
  | cons c cs ih =>
    by_cases h : c = '\n'
    · simp [splitLines, h, ih]
    · simp only [splitLines, h, if_false]
      cases hs : splitLines cs with
      | nil => simp [hs] at ih; simp [← ih]
      | cons l ls => simp [hs] at ih; simp [← ih]

/-- every line is non-empty and a newline can only be its last character -/
theorem splitLines_shape (s : List Char) : ∀ l ∈ splitLines s, l ≠ [] ∧ '\n' ∉ l.dropLast := by
  induction s with
  | nil => simp [splitLines]
  | cons c cs ih =>
    by_cases h : c = '\n'
    · simp only [splitLines, h, if_true]
      intro l hl
      rcases List.mem_cons.mp hl with hl | hl
      · subst hl; simp
      · exact ih l hl
    · simp only [splitLines, h, if_false]
      cases hs : splitLines cs with
      | nil => intro l hl; simp at hl; subst hl; simp
      | cons l0 ls =>
        rw [hs] at ih
        intro l hl
        rcases List.mem_cons.mp hl with hl | hl
        · subst hl
          have h0 := ih l0 (List.mem_cons_self ..)
          refine ⟨by simp, ?_⟩
          cases l0 with
          | nil => exact absurd rfl h0.1
          | cons d ds =>
            simp only [List.dropLast_cons₂] at *
            intro hm
            rcases List.mem_cons.mp hm with hm | hm
            · exact h hm.symm
            · exact h0.2 hm
        · exact ih l (List.mem_cons_of_mem _ hl)

example : outputLines "ok 1\r\nnot ok 2\nBail out!".toList =
    ["ok 1\n".toList, "not ok 2\n".toList, "Bail out!".toList] := by decide

/-! ### Verdict -/

/-- **bad iff** — for a test that is neither `should_fail` nor run interactively, and for every event list:
the TAP test is reported bad exactly when some subtest is bad, an error or bail-out event occurred, or the
program exited non-zero -/
theorem verdict_bad_iff (evs : List Event) (rc : Int) :
    (verdict false false rc evs).isBad = true ↔
      (hasBadSubtest evs = true ∨ hasErrorOrBail evs = true ∨ rc ≠ 0) := by
  have hp := parseRes_running evs
  have ht := any_trigger evs
  unfold verdict completeRes
  cases htr : evs.any isTrigger
  · have hr := hp.2 htr
    rw [htr] at ht
    have h1 : hasBadSubtest evs = false := by
      cases h : hasBadSubtest evs <;> simp [h] at ht; rfl
    have h2 : hasErrorOrBail evs = false := by
      cases h : hasErrorOrBail evs <;> simp [h] at ht; rfl
    by_cases hrc : rc = 0
    · rcases hr with hr | hr <;> simp [hr, hrc, h1, h2, TestResult.isBad]
    · rcases hr with hr | hr <;> simp [hr, hrc, h1, h2, TestResult.isBad]
  · have hr := hp.1 htr
    rw [htr] at ht
    have h12 : hasBadSubtest evs = true ∨ hasErrorOrBail evs = true := by
      cases h : hasBadSubtest evs <;> simp [h] at ht ⊢; exact ht
    by_cases hrc : rc = 0
    · rcases hr with hr | hr <;> rcases h12 with h | h <;> simp [hr, hrc, h, TestResult.isBad]
    · rcases hr with hr | hr <;> rcases h12 with h | h <;> simp [hr, hrc, h, TestResult.isBad]

/-- the subtest statuses the parser can produce; among them "bad" means failed or unexpectedly passed -/
theorem directiveResult_range (ok : Bool) (dir : Option (List Char)) :
    directiveResult ok dir ∈ [TestResult.OK, .FAIL, .SKIP, .EXPECTEDFAIL, .UNEXPECTEDPASS] ∧
    ((directiveResult ok dir).isBad = true ↔
       (directiveResult ok dir = .FAIL ∨ directiveResult ok dir = .UNEXPECTEDPASS)) := by
  unfold directiveResult plainResult
  cases dir with
  | none => cases ok <;> simp [TestResult.isBad]
  | some d =>
    have h3 : startsWith kTODO kSKIP = false := by decide
    by_cases h2 : upper d = kTODO
    · cases ok <;> simp [h2, h3, TestResult.isBad]
    · by_cases h1 : startsWith (upper d) kSKIP = true <;> cases ok <;> simp [h1, h2, TestResult.isBad]

/-- `should_fail` TAP tests invert the verdict of the plain outcomes (so the bad-iff is stated without it) -/
theorem verdict_expected_fail (evs : List Event) (rc : Int) :
    (verdict false false rc evs = .OK → verdict true false rc evs = .UNEXPECTEDPASS) ∧
    (verdict false false rc evs = .FAIL → verdict true false rc evs = .EXPECTEDFAIL) := by
  unfold verdict completeRes
  constructor <;> intro h <;> simp_all

/-- interactive TAP runs are reported IGNORED unless `should_fail` rewrites … they never are: IGNORED is
neither OK nor FAIL -/
theorem verdict_interactive (ef : Bool) (evs : List Event) (rc : Int) :
    verdict ef true rc evs = .IGNORED := by
  unfold verdict completeRes
  cases ef <;> simp

/-! ### Non-vacuity: concrete streams walk through the hypotheses above -/

section Examples

def ex1 : List (List Char) :=
  ["TAP version 13".toList, "1..3".toList, "ok 1 first".toList, "  ---".toList, "  ok 9 hidden".toList,
   "  ...".toList, "not ok 2 second # TODO later".toList, "# diag".toList, "ok # SKIP: x".toList]

example : parse ex1 =
    [.version 13, .plan ⟨3, false, false, none⟩, .test 1 "first".toList .OK none,
     .test 2 "second".toList .EXPECTEDFAIL (some "later".toList),
     .test 3 [] .SKIP (some ": x".toList)] := by decide

example : visibleTests PState.init ex1 = 3 := by decide

example : parse ["ok 2".toList, "ok".toList, "1..2".toList, "ok 1".toList, "ok 1".toList] =
    [.test 2 [] .OK none, .test 3 [] .OK none, .plan ⟨2, true, false, none⟩, .error .lateTest,
     .test 1 [] .OK none, .test 1 [] .OK none, .error (.tooMany 2 4)] := by decide

example : parse ["1..1".toList, "1..1".toList, "ok 5".toList, "Bail out! stop".toList] =
    [.plan ⟨1, false, false, none⟩, .error .secondPlan, .error .exceedsPlan, .test 5 [] .OK none,
     .bailout "stop".toList] := by decide

example : parse ["TAP version 13".toList, "ok".toList, " ---".toList, " a: b".toList] =
    [.version 13, .test 1 [] .OK none, .error (.yamlNotTerminated (some 3))] := by decide

example : parse ["ok".toList, "TAP version 13".toList, "ok 3".toList] =
    [.test 1 [] .OK none, .error .versionNotFirst, .test 3 [] .OK none, .error (.missing 2 3)] := by decide

example : tooLong (List.replicate 4301 '1') = true ∧ tooLong (List.replicate 4300 '0') = false := by
  unfold tooLong intMaxStrDigits
  rw [List.length_replicate, List.length_replicate]
  constructor <;> decide
example : swallowed { PState.init with state := .afterTest, version := 13 } "  ---".toList = true := by decide
example : classify "ok 1 # SKIP:".toList = .test true (some ['1']) [] (some "SKIP".toList) (some [':']) := by decide
example : classify "ok 1 # TODOS".toList = .test true (some ['1']) [] none none := by decide
example : (verdict false false 0 (parse ["ok".toList, "not ok # TODO".toList])) = .OK := by decide
example : (verdict false false 0 (parse ["ok # TODO".toList])).isBad = true := by decide
example : (verdict false false 1 (parse ["ok".toList])).isBad = true := by decide

end Examples

/-! ### The events of a stream depend on that stream only (fresh parsers, sessions, second use)

`TAPParser` has no `__init__`; a fresh instance reads the class-body attributes.  They are re-extracted from
the live class on every run (`Generated.TapTables.parserClassAttrs`, `parserMutableClassAttrs`): the model's
initial state must be exactly those defaults, and none of them may be a mutable container (a set / list /
dict in the class body is shared by every instance and survives from one stream to the next). -/

def pyBool (b : Bool) : String := if b then "True" else "False"
def pyOptNat : Option Nat → String
  | none => "None"
  | some n => toString n
def pyMode : Mode → String
  | .main => "1" | .afterTest => "2" | .yaml => "3"

/-- the attributes of a parser object in state `s`, as Python would print them (sorted by name) -/
def attrsOf (s : PState) : List (String × String) :=
  [("_AFTER_TEST", pyMode .afterTest), ("_MAIN", pyMode .main), ("_YAML", pyMode .yaml),
   ("bailed_out", pyBool s.bailedOut), ("found_late_test", pyBool s.foundLateTest),
   ("highest_test", toString s.highestTest), ("last_test", toString s.lastTest), ("lineno", toString s.lineno),
   ("num_tests", toString s.numTests), ("plan", match s.plan with | none => "None" | some _ => "Plan"),
   ("state", pyMode s.state), ("version", toString s.version),
   ("yaml_indent", if s.yamlIndent.isEmpty then "''" else "str"), ("yaml_lineno", pyOptNat s.yamlLineno)]

/-- the model's fresh parser is the class body of the live `TAPParser`, attribute by attribute -/
theorem fresh_parser_table : attrsOf PState.init = MesonModel.Generated.TapTables.parserClassAttrs := by
  decide

/-- no class-body attribute of `TAPParser` / `TestRunTAP` (and bases) that the parser or the consumer mutates in
place: nothing a stream leaves behind can be seen by the next parser -/
theorem no_shared_mutable_parser_state : MesonModel.Generated.TapTables.parserMutableClassAttrs = [] := by
  decide

/-- `parse` is `parseFrom` the explicit initial state: the events are a function of (init, lines) only -/
theorem parse_eq_parseFrom_init (lines : List (List Char)) : parse lines = parseFrom PState.init lines := rfl

/-- using a parser never changes what the next fresh parser starts from -/
theorem session_keeps_class_state (p : Proc) (ss : List (List (List Char))) :
    (session p ss).1.cls = p.cls := session_fst_cls p ss

/-- **sessions**: parsing streams `s1 … sn` one after the other with fresh parsers in one process gives, for
every `sk`, the events of parsing `sk` alone -/
theorem session_events (ss : List (List (List Char))) : (session Proc.boot ss).2 = ss.map parse := by
  rw [session_snd]; rfl

/-- … whatever was parsed before and whatever is parsed afterwards -/
theorem stream_alone_in_session (pre post : List (List (List Char))) (s : List (List Char)) :
    (session Proc.boot (pre ++ s :: post)).2[pre.length]? = some (parse s) := by
  rw [session_events]; simp

/-- … and whatever the process did before the session started -/
theorem session_after_session (ss1 ss2 : List (List (List Char))) :
    (session (session Proc.boot ss1).1 ss2).2 = ss2.map parse := by
  rw [session_snd, session_fst_cls]; rfl

/-- … in any order: the (stream, events) pairs of two orders of the same streams are the same pairs -/
theorem session_order_irrelevant (ss ss' : List (List (List Char))) (h : ss.Perm ss') :
    (ss.zip (session Proc.boot ss).2).Perm (ss'.zip (session Proc.boot ss').2) := by
  have hz : ∀ l : List (List (List Char)), l.zip (l.map parse) = l.map (fun s => (s, parse s)) := by
    intro l; induction l with
    | nil => rfl
    | cons a l ih => simp [ih]
  rw [session_events, session_events, hz, hz]
  exact h.map _

/-- the same stream twice gives the same events twice (one-shot errors are one-shot per stream, not per process) -/
theorem second_use_same_events (s : List (List Char)) (between : List (List (List Char))) :
    (session Proc.boot (s :: between ++ [s])).2.head? = some (parse s) ∧
    (session Proc.boot (s :: between ++ [s])).2.getLast? = some (parse s) := by
  rw [session_events]
  refine ⟨by simp, ?_⟩
  have : (s :: between ++ [s]).map parse = (parse s :: between.map parse) ++ [parse s] := by simp
  rw [this, List.getLast?_append]
  simp

/-- a parser object that is used keeps its own record: every used instance is remembered, none is shared -/
theorem session_instances (ss : List (List (List Char))) : (session Proc.boot ss).1.used.length = ss.length := by
  rw [session_used_length]; simp [Proc.boot]

example : (session Proc.boot [["ok 1".toList, "1..2".toList, "ok 2".toList],
                              ["ok 1".toList, "1..2".toList, "ok 2".toList]]).2 =
    [[.test 1 [] .OK none, .plan ⟨2, true, false, none⟩, .error .lateTest, .test 2 [] .OK none],
     [.test 1 [] .OK none, .plan ⟨2, true, false, none⟩, .error .lateTest, .test 2 [] .OK none]] := by decide

/-! ### The consumer: `TestRunTAP.parse` / `complete` as a state machine, and the classification rule -/

/-- the state-machine model of the consumer computes the verdict of the fold model (`verdict_bad_iff` and the
classification below therefore speak about both) -/
theorem runTAP_res (ef inter : Bool) (rc : Int) (evs : List Event) :
    (runTAP ef inter rc .RUNNING evs).res = verdict ef inter rc evs := by
  unfold runTAP completeTAP parseTAP endParse verdict completeRes parseRes
  simp only [foldl_results, foldl_localRes, foldl_res, List.nil_append, all_isSkipTest_filter]
  cases hf : foldRes none evs with
  | none => cases allSkip evs <;> simp
  | some r =>
    cases allSkip evs
    · simp
    · by_cases hr : r = .ERROR <;> simp [hr]

/-- `self.results` is the list of subtest events, in order; `additional_error` gets one message per error event;
one warning per unknown line -/
theorem runTAP_records (ef inter : Bool) (rc : Int) (r0 : TestResult) (evs : List Event) :
    (runTAP ef inter rc r0 evs).results = evs.filter isTestEvent ∧
    (runTAP ef inter rc r0 evs).errs = evs.filterMap errOf ∧
    (runTAP ef inter rc r0 evs).warns = evs.filterMap unknownOf := by
  unfold runTAP completeTAP parseTAP endParse
  simp [foldl_results, foldl_errs, foldl_warns]

/-- **classification rule**, for every event list and every exit status: a failed / unexpectedly passed subtest
after which no error or bail-out follows ⇒ FAIL; an error or bail-out event after which no bad subtest follows ⇒
ERROR; neither: non-zero exit ⇒ ERROR, else every subtest skipped (or none at all) ⇒ SKIP, else OK -/
theorem verdict_classification (evs : List Event) (rc : Int) :
    verdict false false rc evs = specVerdict evs rc := by
  unfold verdict parseRes completeRes specVerdict
  rw [foldRes_eq_lastTrigger]
  cases ht : lastTrigger evs with
  | none =>
    by_cases hrc : rc = 0 <;> cases allSkip evs <;> simp [hrc, TestResult.isBad]
  | some t =>
    cases t with
    | error => cases allSkip evs <;> simp [Trigger.res, TestResult.isBad]
    | fail =>
      have hb := lastTrigger_fail_bad evs ht
      have hs : allSkip evs = false := by
        cases h : allSkip evs with
        | false => rfl
        | true => rw [allSkip_no_bad evs h] at hb; exact absurd hb (by simp)
      simp [hs, Trigger.res, TestResult.isBad]

/-- the result of an ordinary TAP test is one of OK, SKIP, FAIL, ERROR -/
theorem verdict_range (evs : List Event) (rc : Int) :
    verdict false false rc evs ∈ [TestResult.OK, .SKIP, .FAIL, .ERROR] := by
  rw [verdict_classification]; unfold specVerdict
  cases lastTrigger evs with
  | none => by_cases hrc : rc = 0 <;> cases allSkip evs <;> simp [hrc]
  | some t => cases t <;> simp

theorem no_trigger_iff (evs : List Event) :
    lastTrigger evs = none ↔ (hasBadSubtest evs = false ∧ hasErrorOrBail evs = false) := by
  rw [lastTrigger_none_iff, any_trigger]; simp

/-- **all subtests ok ⇒ OK** (and only then): OK iff no bad subtest, no error / bail-out, exit status 0 and at
least one subtest that is not skipped -/
theorem verdict_ok_iff (evs : List Event) (rc : Int) :
    verdict false false rc evs = .OK ↔
      (hasBadSubtest evs = false ∧ hasErrorOrBail evs = false ∧ rc = 0 ∧ allSkip evs = false) := by
  rw [verdict_classification, ← and_assoc, ← no_trigger_iff]; unfold specVerdict
  cases lastTrigger evs with
  | none => by_cases hrc : rc = 0 <;> cases allSkip evs <;> simp [hrc]
  | some t => cases t <;> simp

/-- **all-skip ⇒ SKIP** (and only then): SKIP iff nothing bad happened, exit status 0, and every subtest is
skipped — which includes a stream without subtests (`1..0 # SKIP`, or no output at all) -/
theorem verdict_skip_iff (evs : List Event) (rc : Int) :
    verdict false false rc evs = .SKIP ↔
      (hasBadSubtest evs = false ∧ hasErrorOrBail evs = false ∧ rc = 0 ∧ allSkip evs = true) := by
  rw [verdict_classification, ← and_assoc, ← no_trigger_iff]; unfold specVerdict
  cases lastTrigger evs with
  | none => by_cases hrc : rc = 0 <;> cases allSkip evs <;> simp [hrc]
  | some t => cases t <;> simp

/-- **any failure ⇒ FAIL** when the stream has no error / bail-out event (whatever the exit status) -/
theorem failures_only_is_fail (evs : List Event) (rc : Int)
    (hb : hasBadSubtest evs = true) (he : hasErrorOrBail evs = false) : verdict false false rc evs = .FAIL := by
  rw [verdict_classification]; unfold specVerdict
  cases ht : lastTrigger evs with
  | none => rw [no_trigger_iff] at ht; simp [hb] at ht
  | some t =>
    cases t with
    | fail => rfl
    | error => have := lastTrigger_error_has evs ht; simp [he] at this

/-- **error event, bail-out or bad exit ⇒ ERROR** when no subtest is bad -/
theorem errors_only_is_error (evs : List Event) (rc : Int)
    (hb : hasBadSubtest evs = false) (he : hasErrorOrBail evs = true ∨ rc ≠ 0) :
    verdict false false rc evs = .ERROR := by
  rw [verdict_classification]; unfold specVerdict
  cases ht : lastTrigger evs with
  | none =>
    rw [no_trigger_iff] at ht
    rcases he with he | he
    · simp [ht.2] at he
    · simp [he]
  | some t =>
    cases t with
    | error => rfl
    | fail => have := lastTrigger_fail_bad evs ht; simp [hb] at this

/-- FAIL needs a bad subtest, ERROR needs an error / bail-out event or a non-zero exit -/
theorem verdict_fail_error_causes (evs : List Event) (rc : Int) :
    (verdict false false rc evs = .FAIL → hasBadSubtest evs = true) ∧
    (verdict false false rc evs = .ERROR → (hasErrorOrBail evs = true ∨ rc ≠ 0)) := by
  rw [verdict_classification]; unfold specVerdict
  cases ht : lastTrigger evs with
  | none => by_cases hrc : rc = 0 <;> cases allSkip evs <;> simp [hrc]
  | some t =>
    cases t with
    | fail => simp [lastTrigger_fail_bad evs ht]
    | error => simp [lastTrigger_error_has evs ht]

/-- `lastTrigger` is what its name says: `fail` iff the list splits around a bad subtest after which nothing
sets the result any more -/
theorem lastTrigger_fail_iff (evs : List Event) :
    lastTrigger evs = some .fail ↔
      ∃ pre post n nm r ex, evs = pre ++ .test n nm r ex :: post ∧ r.isBad = true ∧ post.any isTrigger = false := by
  constructor
  · induction evs with
    | nil => simp [lastTrigger]
    | cons e es ih =>
      simp only [lastTrigger]
      cases h : lastTrigger es with
      | some t =>
        intro ht
        have : t = .fail := by simpa using ht
        subst this
        obtain ⟨pre, post, n, nm, r, ex, h1, h2, h3⟩ := ih h
        exact ⟨e :: pre, post, n, nm, r, ex, by simp [h1], h2, h3⟩
      | none =>
        intro ht
        cases e with
        | test n nm r ex =>
          cases hb : r.isBad <;> simp [triggerOf, hb] at ht
          exact ⟨[], es, n, nm, r, ex, rfl, hb, (lastTrigger_none_iff es).mp h⟩
        | _ => simp [triggerOf] at ht
  · rintro ⟨pre, post, n, nm, r, ex, h1, h2, h3⟩
    subst h1
    rw [lastTrigger_append]
    simp [lastTrigger, (lastTrigger_none_iff post).mpr h3, triggerOf, h2]

/-- **a plan/count mismatch or duplicate/missing numbers make the TAP test ERROR**: the end-of-stream errors
come last, so for every stream whose output contains one the result is ERROR whatever the exit status -/
theorem end_of_stream_error_is_error (lines : List (List Char)) (rc : Int)
    (h : expectedEnd (parse lines) ≠ []) : verdict false false rc (parse lines) = .ERROR := by
  rw [← end_of_stream_errors] at h
  have D := run_delta PState.init lines
  have hnf : (run PState.init lines).2.filter isFinalErr = [] := by
    rw [List.filter_eq_nil_iff]; intro e he; simp [D.noFinal e he]
  have hfin : finish (run PState.init lines).1 ≠ [] := by
    intro hc
    apply h
    simp [parse, List.filter_append, hnf, hc]
  have hl := lastTrigger_errors _ (finish_errors (run PState.init lines).1) hfin
  rw [verdict_classification]; unfold specVerdict
  have : lastTrigger (parse lines) = some .error := by
    simp only [parse]; rw [lastTrigger_append, hl]
  rw [this]

/-- an unterminated YAML block at the end of the stream makes the TAP test ERROR as well -/
theorem open_yaml_is_error (lines : List (List Char)) (rc : Int)
    (h : (run PState.init lines).1.state = .yaml) : verdict false false rc (parse lines) = .ERROR := by
  have hfin : finish (run PState.init lines).1 ≠ [] := by simp [finish, h]
  have hl := lastTrigger_errors _ (finish_errors (run PState.init lines).1) hfin
  rw [verdict_classification]; unfold specVerdict
  have : lastTrigger (parse lines) = some .error := by
    simp only [parse]; rw [lastTrigger_append, hl]
  rw [this]

/-- a test that was killed while its output was parsed (TIMEOUT / INTERRUPT set by `TestSubprocess.wait`) keeps
that result: neither the events nor the exit status can overwrite it -/
theorem killed_test_keeps_result (evs : List Event) (rc : Int) (r0 : TestResult)
    (h : r0 = .TIMEOUT ∨ r0 = .INTERRUPT) : (runTAP false false rc r0 evs).res = r0 := by
  have h1 : (parseTAP r0 evs).res = r0 := by
    unfold parseTAP endParse
    simp only [foldl_res]
    rcases h with h | h <;> subst h <;> (split <;> simp)
  unfold runTAP completeTAP
  rw [h1]
  rcases h with h | h <;> subst h <;> simp [TestResult.isBad]

example : verdict false false 0 [.error .secondPlan, .test 1 [] .FAIL none] = .FAIL := by decide
example : verdict false false 0 [.test 1 [] .FAIL none, .error .secondPlan] = .ERROR := by decide
example : verdict false false 0 [] = .SKIP := by decide
example : verdict false false 77 [.test 1 [] .SKIP none] = .ERROR := by decide
example : verdict false false 0 [.test 1 [] .SKIP none, .test 2 [] .EXPECTEDFAIL none] = .OK := by decide
example : (runTAP false false 0 .RUNNING (parse ["ok".toList, "garbage".toList])).warns = [("garbage".toList, 2)] := by
  decide
example : expectedEnd (parse ["1..2".toList, "ok".toList]) ≠ [] := by decide

end MesonModel.Props.C18
