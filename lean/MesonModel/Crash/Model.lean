/-
Crash model for C09 (a killed meson command never bricks the build directory).

Core Lean only.  What is modelled, construct by construct from the Python sources:

* a build directory as a map from path ids to `absent | ok content | torn | dir`
  (a torn file is any strict prefix of what was being written, the empty file included);
* the primitive file-system effects meson issues (`open(...,'w')`, `write`, `flush`, `fsync`, `close`,
  `os.replace`/`os.rename`, `shutil.copyfile`, `os.unlink`, `os.rmdir`, `os.mkdir`) — `step`;
* a crash at every effect boundary and inside every non-atomic effect — `crashStates`, `crashAt`;
* the write protocols of `coredata.save` (coredata.py:467-481), `build.save` (build.py:3670-3679),
  `cmdline._write_config_atomically` used by `write_cmd_line_file`/`update_cmd_line_file` (cmdline.py:81-121,
  since 550d77f), the `build.ninja~` rename (ninjabackend.py:713-776) — `atomicWrite`, `coredataSave`,
  `cmdlineSave`, `inPlaceWrite`;
* the readers a follow-up `meson setup [--reconfigure]` runs over the state files
  (`MesonApp.validate_dirs`, `Environment.__init__` → `coredata.load` → `pickle_load`,
  `cmdline.read_cmd_line_file`) as one total function `recover`.

The effect sequence of a whole command is not written down here: it is recorded from the real command on
every run and emitted as `MesonModel/Generated/CrashTraces.lean`.
-/
namespace MesonModel.Crash

abbrev Path := Nat

/-- fixed ids of the state files the readers look at (all other paths get ids ≥ 10 per trace) -/
def pCoredata : Path := 0      -- meson-private/coredata.dat
def pCmdline : Path := 1       -- meson-private/cmd_line.txt
def pCoredataTmp : Path := 2   -- meson-private/coredata.dat~
def pCoredataPrev : Path := 3  -- meson-private/coredata.dat.prev
def pBuildDat : Path := 4      -- meson-private/build.dat
def pBuildNinja : Path := 5    -- build.ninja
def pBuildNinjaTmp : Path := 6 -- build.ninja~
def pPrivate : Path := 7       -- meson-private (directory)
def pCmdlineTmp : Path := 8    -- meson-private/cmd_line.txt~

inductive FileSt (α : Type) where
  | absent
  | ok (a : α)
  | torn
  | dir
  deriving DecidableEq, Repr

/-- a directory tree, flattened: path id ↦ state -/
abbrev FS (α : Type) := Path → FileSt α

def FS.set {α} (fs : FS α) (p : Path) (s : FileSt α) : FS α :=
  fun q => if q = p then s else fs q

def FS.ofList {α} (l : List (Path × FileSt α)) : FS α :=
  fun q => match l.lookup q with
    | some s => s
    | none => .absent

inductive Effect (α : Type) where
  | openW (p : Path)            -- open(p, 'w'|'wb'|'x'): create or truncate; nothing written yet
  | openA (p : Path)            -- open(p, 'a'|'r+'): existing bytes kept
  | write (p : Path)            -- one or more write() calls on the handle (non-atomic)
  | flush (p : Path)
  | fsync (p : Path)
  | close (p : Path) (c : α)    -- handle closed: the complete content `c` is in the file
  | replace (src dst : Path)    -- os.replace / os.rename (atomic)
  | copyfile (src dst : Path)   -- shutil.copyfile (non-atomic)
  | unlink (p : Path)
  | rmdir (p : Path)
  | mkdir (p : Path)
  | other (p : Path)            -- chmod/utime: no content change
  deriving DecidableEq, Repr

/-- the directory after the effect has completed -/
def step {α} (fs : FS α) : Effect α → FS α
  | .openW p => fs.set p .torn
  | .openA _ => fs
  | .write p => match fs p with
      | .absent => fs            -- handle of an already renamed/unlinked file
      | _ => fs.set p .torn
  | .flush _ => fs
  | .fsync _ => fs
  | .close p c => match fs p with
      | .absent => fs
      | _ => fs.set p (.ok c)
  | .replace s d => match fs s with
      | .absent => fs            -- os.replace raises, nothing changes
      | st => (fs.set d st).set s .absent
  | .copyfile s d => match fs s with
      | .absent => fs
      | st => fs.set d st
  | .unlink p => fs.set p .absent
  | .rmdir p => fs.set p .absent
  | .mkdir p => match fs p with
      | .absent => fs.set p .dir
      | _ => fs
  | .other _ => fs

/-- the directory when the process dies *inside* the effect (only non-atomic effects have such a state) -/
def mid {α} (fs : FS α) : Effect α → Option (FS α)
  | .write p => match fs p with
      | .absent => none
      | _ => some (fs.set p .torn)
  | .copyfile s d => match fs s with
      | .absent => none
      | _ => some (fs.set d .torn)
  | _ => none

def run {α} (fs : FS α) : List (Effect α) → FS α
  | [] => fs
  | e :: es => run (step fs e) es

/-- every directory state a kill can leave: before each effect, inside each non-atomic effect, after the last -/
def crashStates {α} (fs : FS α) : List (Effect α) → List (FS α)
  | [] => [fs]
  | e :: es =>
    match mid fs e with
    | some m => fs :: m :: crashStates (step fs e) es
    | none => fs :: crashStates (step fs e) es

/-- the state when the process is killed right before effect `k` (`torn = false`)
    or inside effect `k` (`torn = true`; equals the former when effect `k` is atomic) -/
def crashAt {α} (fs : FS α) (t : List (Effect α)) (k : Nat) (torn : Bool) : FS α :=
  let s := run fs (t.take k)
  if torn then
    match t[k]? with
    | some e => (mid s e).getD s
    | none => s
  else s

/-! ### write protocols -/

/-- temp file + flush + fsync + close + `os.replace` (coredata.save without the `.prev` copy;
    build.ninja~ → build.ninja; mintro tmp_dump.json → intro-*.json) -/
def atomicWrite {α} (tmp dst : Path) (c : α) : List (Effect α) :=
  [.openW tmp, .write tmp, .flush tmp, .fsync tmp, .close tmp c, .replace tmp dst]

/-- coredata.save (coredata.py:467-481) when `coredata.dat` exists -/
def coredataSave {α} (c : α) : List (Effect α) :=
  .copyfile pCoredata pCoredataPrev :: atomicWrite pCoredataTmp pCoredata c

/-- `cmdline._write_config_atomically` (cmdline.py:81-89): cmd_line.txt~, flush, fsync, close, `os.replace` -/
def cmdlineSave {α} (c : α) : List (Effect α) :=
  atomicWrite pCmdlineTmp pCmdline c

/-- the rollback of `MesonApp._generate`'s `except` handler (msetup.py:348-353) when a configuration fails after
    coredata was dumped and `coredata.dat.prev` exists: one `os.replace(.prev, coredata.dat)` -/
def restorePrev {α} : List (Effect α) :=
  [.replace pCoredataPrev pCoredata]

/-- `with open(p, 'w') as f: dump(f)` — build.save (build.dat); any in-place writer -/
def inPlaceWrite {α} (p : Path) (c : α) : List (Effect α) :=
  [.openW p, .write p, .close p c]

/-! ### readers run by the follow-up `meson setup [--reconfigure]` -/

/-- where the option values of the recovered configuration come from -/
inductive Src (α : Type) where
  | coredata (a : α)   -- `coredata.load` succeeded: the stored option state is used as is
  | cmdline (a : α)    -- coredata corrupt or missing: `read_cmd_line_file` is applied to the command-line options
                       -- *before* the new coredata is created: -D options and the machine files of [properties]
                       -- are re-read (Environment.__init__ for a corrupt file; MesonApp.generate for a missing one)
  | fresh              -- neither: a first-time configuration from the command line alone
  deriving DecidableEq, Repr

inductive Verdict (α : Type) where
  | usable (s : Src α)
  | rejectedCleanly    -- MesonException (exit 1, "... Try regenerating using meson setup --wipe")
  | internalError      -- an exception that is not a MesonException (exit 2, Python traceback)
  deriving DecidableEq, Repr

/-- which command the user re-runs: `--reconfigure` iff `validate_dirs` would see a valid build
    (`os.path.exists(coredata.dat)`, msetup.py:173) -/
def needsReconfigure {α} (fs : FS α) : Bool :=
  match fs pCoredata with
  | .absent => false
  | _ => true

/-- `Environment.__init__` (environment.py:128-147) followed by `MesonApp._generate`'s
    `read_cmd_line_file` (msetup.py:229, cmdline.py:61-85) -/
def recover {α} (fs : FS α) : Verdict α :=
  match fs pCoredata with
  | .ok a =>
    -- coredata.load succeeds (first_invocation = False); _generate then parses cmd_line.txt
    match fs pCmdline with
    | .torn => .internalError            -- config['options'] / config['properties']: KeyError
    | _ => .usable (.coredata a)
  | .torn =>
    -- pickle_load: UnpicklingError/EOFError → MesonException, caught in Environment.__init__
    match fs pCmdline with
    | .ok w => .usable (.cmdline w)      -- "Regenerating configuration from scratch"
    | .torn => .internalError
    | _ => .rejectedCleanly              -- isfile(cmd_line.txt) false: re-raised with the --wipe hint
  | _ =>
    -- no coredata.dat: a partial build directory.  `MesonApp.generate` applies `read_cmd_line_file` to the
    -- command-line options before `Environment.__init__` (FileNotFoundError → create_new_coredata) builds the
    -- configuration from them (msetup.py generate)
    match fs pCmdline with
    | .ok w => .usable (.cmdline w)
    | .torn => .internalError
    | _ => .usable .fresh

/-! ### the recorded scenarios -/

/-- generations of content: what `coredata.dat.prev` held before the command, what the state files held
    before the command, what the command writes -/
inductive Gen where
  | older | old | new
  deriving DecidableEq, Repr

inductive Cmd where
  | setup | reconfigure | wipe | configure
  deriving DecidableEq, Repr

/-- the property's acceptance condition on a recovery verdict: recovery works and every option has its
    pre-command value or the one the command was setting.  `co`: some option values of the directory live only in
    coredata.dat — they came from the environment of the first setup (PKG_CONFIG_PATH) — so a configuration rebuilt
    from cmd_line.txt (-D options and machine files) loses them.  For a first `setup` there is no pre-command
    state: the user re-issues the same command line, so a fresh configuration *is* the new one; for `--wipe` a
    configuration rebuilt from cmd_line.txt is what the command itself produces. -/
def acceptable (c : Cmd) (co : Bool) : Verdict Gen → Bool
  | .usable (.coredata g) => g == .old || g == .new
  | .usable (.cmdline g) => (g == .old || g == .new) && (!co || c == .setup || c == .wipe)
  | .usable .fresh => c == .setup
  | _ => false

structure Scenario where
  name : String
  cmd : Cmd
  coredataOnly : Bool := false
  init : List (Path × FileSt Gen)
  trace : List (Effect Gen)
  /-- paths that no meson command ever reads (.gitignore, .hgignore, CACHEDIR.TAG, the lock file) -/
  ignored : List Path := []
  /-- the recorded effect trace of the follow-up `meson setup --reconfigure` on the directory the command leaves -/
  recovery : List (Effect Gen) := []
  /-- for a file written in place that the follow-up run leaves alone when it finds it whole: the recorded effect trace
      of the follow-up run on the directory left by a kill right after that file was opened (it is empty there) -/
  tornRecovery : List (Path × List (Effect Gen)) := []

def Scenario.fs0 (sc : Scenario) : FS Gen := FS.ofList sc.init

/-- crash states of the scenario whose recovery is not acceptable, as (index in `crashStates`, verdict) -/
def badPoints (sc : Scenario) : List (Nat × Verdict Gen) :=
  ((crashStates sc.fs0 sc.trace).zipIdx.filterMap
    (fun (s, i) => let v := recover s; if acceptable sc.cmd sc.coredataOnly v then none else some (i, v)))

/-! ### leftover bytes: temp files must be opened truncating

A killed run may leave any file behind at a path that a clean directory does not have (`build.ninja~`,
`coredata.dat~`, `cmd_line.txt~`, `meson-info/tmp_dump.json`, `conf.h~`).  The next run re-uses these names.
`stale p` = "`p` may still hold bytes that this run did not put there". -/

abbrev Stale := Path → Bool

def Stale.set (st : Stale) (p : Path) (b : Bool) : Stale := fun q => if q = p then b else st q

/-- how each effect changes which files may hold leftover bytes: `open(p,'w')` truncates, `open(p,'a')` does not,
    a rename/copy carries the source's bytes (copyfile truncates its destination first), unlink removes them -/
def staleStep {α} (st : Stale) : Effect α → Stale
  | .openW p => st.set p false
  | .replace s d => (st.set d (st s)).set s false
  | .copyfile s d => st.set d (st s)
  | .unlink p => st.set p false
  | .rmdir p => st.set p false
  | _ => st

/-- every file renamed into place was produced by this run from scratch: no `os.replace` source may hold
    leftover bytes -/
def replacesFresh {α} : Stale → List (Effect α) → Bool
  | _, [] => true
  | st, .replace s d :: es => !st s && replacesFresh (staleStep st (.replace s d : Effect α)) es
  | st, e :: es => replacesFresh (staleStep st e) es

/-- the worst directory a killed run can have left for a scenario: every path that the clean pre-command
    directory does not have may exist and hold anything -/
def Scenario.stale0 (sc : Scenario) : Stale := fun p =>
  match sc.fs0 p with
  | .absent => true
  | _ => false

/-! #### the same at the level of bytes, for the temp-file protocol of build.ninja (ninjabackend.py:709-776) -/

/-- file contents as lists of chunks -/
abbrev CFS (β : Type) := Path → Option (List β)

def CFS.set {β} (fs : CFS β) (p : Path) (c : Option (List β)) : CFS β := fun q => if q = p then c else fs q

inductive CEffect (β : Type) where
  | openTrunc (p : Path)             -- open(p, 'w')
  | openAppend (p : Path)            -- open(p, 'a')
  | write (p : Path) (d : List β)    -- data appended at the end of the file
  | replace (src dst : Path)

def cstep {β} (fs : CFS β) : CEffect β → CFS β
  | .openTrunc p => fs.set p (some [])
  | .openAppend p => match fs p with
      | none => fs.set p (some [])
      | some _ => fs
  | .write p d => match fs p with
      | none => fs
      | some c => fs.set p (some (c ++ d))
  | .replace s d => match fs s with
      | none => fs
      | some c => (fs.set d (some c)).set s none

def crun {β} (fs : CFS β) : List (CEffect β) → CFS β
  | [] => fs
  | e :: es => crun (cstep fs e) es

/-- `NinjaBackend.generate`: `open(tmp,'w')` + preamble, re-open in append mode (detect_vs_dep_prefix) + body,
    `os.replace(tmp, build.ninja)` -/
def ninjaTempTruncating {β} (tmp dst : Path) (pre body : List β) : List (CEffect β) :=
  [.openTrunc tmp, .write tmp pre, .openAppend tmp, .write tmp body, .replace tmp dst]

/-- the same without the truncating open: everything goes through append-mode handles -/
def ninjaTempAppending {β} (tmp dst : Path) (pre body : List β) : List (CEffect β) :=
  [.openAppend tmp, .write tmp pre, .openAppend tmp, .write tmp body, .replace tmp dst]

/-! ### every written file: torn copies must be repaired by the follow-up run

A file that is written in place can be left torn by a kill.  That is acceptable only if the follow-up run rewrites
it unconditionally — whatever it finds there.  `repairs p rt`: after the effects `rt`, from *any* directory, `p` is
not torn.  Decided by an abstract run that knows nothing about the starting directory. -/

/-- what is known about a file whatever the starting directory was -/
inductive Abs where
  | unk      -- anything
  | open_    -- exists and is being written (torn)
  | good     -- exists and is complete (ok, or a directory)
  | gone     -- does not exist
  deriving DecidableEq, Repr

abbrev AFS := Path → Abs

def AFS.set (a : AFS) (p : Path) (v : Abs) : AFS := fun q => if q = p then v else a q

def absStep {α} (a : AFS) : Effect α → AFS
  | .openW p => a.set p .open_
  | .openA _ => a
  | .write p => match a p with
      | .gone => a
      | .unk => a
      | _ => a.set p .open_
  | .flush _ => a
  | .fsync _ => a
  | .close p _ => match a p with
      | .open_ => a.set p .good
      | _ => a
  | .replace s d => match a s with
      | .gone => a
      | .good => (a.set d .good).set s .gone
      | .open_ => (a.set d .open_).set s .gone
      | .unk => (a.set d .unk).set s .unk
  | .copyfile s d => match a s with
      | .gone => a
      | .good => a.set d .good
      | .open_ => a.set d .open_
      | .unk => a.set d .unk
  | .unlink p => a.set p .gone
  | .rmdir p => a.set p .gone
  | .mkdir p => match a p with
      | .gone => a.set p .good
      | _ => a
  | .other _ => a

def absRun {α} (a : AFS) : List (Effect α) → AFS
  | [] => a
  | e :: es => absRun (absStep a e) es

/-- the abstract value describes the concrete state -/
def Abs.describes {α} : Abs → FileSt α → Prop
  | .unk, _ => True
  | .open_, s => s = .torn
  | .good, s => (∃ c, s = .ok c) ∨ s = .dir
  | .gone, s => s = .absent

/-- after `rt`, from any directory described by `a0`, `p` is complete or absent -/
def repairs {α} (a0 : AFS) (p : Path) (rt : List (Effect α)) : Bool :=
  match absRun a0 rt p with
  | .good => true
  | .gone => true
  | _ => false

/-- nothing is known about the directory -/
def AFS.top : AFS := fun _ => .unk

/-- sources of a rename: temp files (their leftovers are covered by `replacesFresh`) -/
def replaceSources {α} : List (Effect α) → List Path
  | [] => []
  | .replace s _ :: es => s :: replaceSources es
  | _ :: es => replaceSources es

/-- every path the trace creates or writes -/
def writeSet {α} : List (Effect α) → List Path
  | [] => []
  | .openW p :: es => p :: writeSet es
  | .openA p :: es => p :: writeSet es
  | .replace _ d :: es => d :: writeSet es
  | .copyfile _ d :: es => d :: writeSet es
  | _ :: es => writeSet es

end MesonModel.Crash
