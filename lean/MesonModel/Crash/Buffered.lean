/-
C09, the buffered dimension: a `write()` into a Python file object reaches the file only at `flush`/`close`
(or when the buffer spills on its own).

Core Lean only.  A finer model than `Crash/Model.lean`:

* a directory maps a path to the bytes that are *in the file* (what a killed process leaves behind);
* a handle (keyed by the path it was opened with, which is what the recorder logs) knows where the inode it
  writes to is linked *now* — `os.replace` moves the inode, the handle follows it — and holds the bytes accepted
  by `write()` that have not been handed to the kernel yet; a kill loses them;
* `open`, `write`, `spill` (the buffered writer emptying part of its buffer by itself: large writes), `flush`,
  `fsync` (`os.fsync(fd)`: does *not* flush the Python buffer), `close`, `replace`, `unlink` are separate effects.

The atomic-replace protocol `open(tmp,'w'); <handle ops>; os.replace(tmp, dst); <handle ops>` is analysed for
every sequence of handle operations on both sides of the rename.
-/
import MesonModel.Crash.Model

namespace MesonModel.Crash.Buf
open MesonModel.Crash

variable {β : Type}

def upd {γ : Type} (f : Path → γ) (p : Path) (v : γ) : Path → γ := fun q => if q = p then v else f q

@[simp] theorem upd_same {γ : Type} (f : Path → γ) (p : Path) (v : γ) : upd f p v p = v := by simp [upd]
@[simp] theorem upd_other {γ : Type} (f : Path → γ) (p q : Path) (v : γ) (h : q ≠ p) : upd f p v q = f q := by
  simp [upd, h]

/-- bytes in the files of the directory -/
abbrev Files (β : Type) := Path → Option (List β)

structure Hnd (β : Type) where
  /-- where the inode this handle writes to is linked now (`none`: unlinked or replaced) -/
  loc : Option Path
  /-- accepted by `write()`, not yet handed to the kernel -/
  buf : List β

structure St (β : Type) where
  file : Files β
  hnd : Path → Option (Hnd β)

inductive Eff (β : Type) where
  | openW (p : Path)
  | openA (p : Path)
  | write (p : Path) (d : List β)
  | spill (p : Path) (n : Nat)
  | flush (p : Path)
  | fsync (p : Path)
  | close (p : Path)
  | replace (s d : Path)
  | unlink (p : Path)
  | copy (s d : Path)           -- shutil.copyfile, completed

/-- the kernel appends `d` to the inode linked at `loc` -/
def push (f : Files β) : Option Path → List β → Files β
  | none, _ => f
  | some q, d => fun r => if r = q then (f r).map (· ++ d) else f r

def reloc (a b : Path) (l : Option Path) : Option Path :=
  if l = some a then some b else if l = some b then none else l

def step (s : St β) : Eff β → St β
  | .openW p => { file := upd s.file p (some []), hnd := upd s.hnd p (some ⟨some p, []⟩) }
  | .openA p => { file := upd s.file p (some ((s.file p).getD [])), hnd := upd s.hnd p (some ⟨some p, []⟩) }
  | .write p d => match s.hnd p with
      | none => s
      | some h => { s with hnd := upd s.hnd p (some ⟨h.loc, h.buf ++ d⟩) }
  | .spill p n => match s.hnd p with
      | none => s
      | some h => { file := push s.file h.loc (h.buf.take n), hnd := upd s.hnd p (some ⟨h.loc, h.buf.drop n⟩) }
  | .flush p => match s.hnd p with
      | none => s
      | some h => { file := push s.file h.loc h.buf, hnd := upd s.hnd p (some ⟨h.loc, []⟩) }
  | .fsync _ => s
  | .close p => match s.hnd p with
      | none => s
      | some h => { file := push s.file h.loc h.buf, hnd := upd s.hnd p none }
  | .replace a b => match s.file a with
      | none => s
      | some c => { file := upd (upd s.file b (some c)) a none,
                    hnd := fun q => (s.hnd q).map (fun h => ⟨reloc a b h.loc, h.buf⟩) }
  | .unlink p => { file := upd s.file p none,
                   hnd := fun q => (s.hnd q).map (fun h => ⟨if h.loc = some p then none else h.loc, h.buf⟩) }
  | .copy a b => match s.file a with
      | none => s
      | some c => { s with file := upd s.file b (some c) }

def runS (s : St β) : List (Eff β) → St β
  | [] => s
  | e :: es => runS (step s e) es

/-- what a kill leaves: the files at every effect boundary (buffers are lost).  A kill inside a `write(2)` of the
    kernel is the boundary after a shorter `spill`; the theorems quantify over all spills. -/
def crashFiles (s : St β) : List (Eff β) → List (Files β)
  | [] => [s.file]
  | e :: es => s.file :: crashFiles (step s e) es

/-- the same trace when the buffered writer hands every write to the kernel at once (write-through): the upper
    bound of what can be in a file at a kill; the trace as it is (no spill) is the lower bound -/
def writeThrough : List (Eff β) → List (Eff β)
  | [] => []
  | .write p d :: es => .write p d :: .spill p d.length :: writeThrough es
  | e :: es => e :: writeThrough es

theorem head_mem_crashFiles (s : St β) (t : List (Eff β)) : s.file ∈ crashFiles s t := by
  cases t <;> simp [crashFiles]

theorem crashFiles_tail (s : St β) (e : Eff β) (es : List (Eff β)) :
    ∀ f ∈ crashFiles (step s e) es, f ∈ crashFiles s (e :: es) := by
  intro f hf; simp [crashFiles, hf]

theorem runS_append (s : St β) (a b : List (Eff β)) : runS s (a ++ b) = runS (runS s a) b := by
  induction a generalizing s with
  | nil => rfl
  | cons e es ih => simp [runS, ih]

theorem crashFiles_append_right (s : St β) (a b : List (Eff β)) :
    ∀ f ∈ crashFiles (runS s a) b, f ∈ crashFiles s (a ++ b) := by
  induction a generalizing s with
  | nil => intro f hf; simpa [runS] using hf
  | cons e es ih =>
    intro f hf
    exact crashFiles_tail s e (es ++ b) f (ih (step s e) f hf)

/-! ### one handle on one inode -/

inductive HOp (β : Type) where
  | write (d : List β)
  | spill (n : Nat)
  | flush
  | fsync
  | close

def HOp.eff (h : Path) : HOp β → Eff β
  | .write d => .write h d
  | .spill n => .spill h n
  | .flush => .flush h
  | .fsync => .fsync h
  | .close => .close h

/-- the inode's bytes and the handle's buffer (`none`: the handle is closed) -/
structure One (β : Type) where
  c : List β
  h : Option (List β)

def One.step (o : One β) : HOp β → One β
  | .write d => match o.h with
      | none => o
      | some b => ⟨o.c, some (b ++ d)⟩
  | .spill n => match o.h with
      | none => o
      | some b => ⟨o.c ++ b.take n, some (b.drop n)⟩
  | .flush => match o.h with
      | none => o
      | some b => ⟨o.c ++ b, some []⟩
  | .fsync => o
  | .close => match o.h with
      | none => o
      | some b => ⟨o.c ++ b, none⟩

def One.run (o : One β) : List (HOp β) → One β
  | [] => o
  | op :: ops => One.run (o.step op) ops

/-- the inode's bytes at every boundary -/
def One.trail (o : One β) : List (HOp β) → List (List β)
  | [] => [o.c]
  | op :: ops => o.c :: One.trail (o.step op) ops

def One.pending (o : One β) : List β := o.h.getD []

/-- everything the program has handed over so far -/
def One.total (o : One β) : List β := o.c ++ o.pending

theorem One.run_append (o : One β) (a b : List (HOp β)) : One.run o (a ++ b) = One.run (One.run o a) b := by
  induction a generalizing o with
  | nil => rfl
  | cons e es ih => simp [One.run, ih]

theorem One.run_c_mem_trail (o : One β) (ops : List (HOp β)) : (o.run ops).c ∈ o.trail ops := by
  induction ops generalizing o with
  | nil => simp [One.trail, One.run]
  | cons op ops ih => simp [One.trail, One.run, ih (o.step op)]

/-- state `s` has the inode at `q` with handle `h` on it as `o` describes; every other path is as in `f0` -/
structure Rep (s : St β) (h q : Path) (o : One β) (f0 : Files β) : Prop where
  fq : s.file q = some o.c
  fr : ∀ r, r ≠ q → s.file r = f0 r
  hh : s.hnd h = o.h.map (fun b => ⟨some q, b⟩)

theorem sim_step (s : St β) (h q : Path) (o : One β) (f0 : Files β) (R : Rep s h q o f0) (op : HOp β) :
    Rep (step s (op.eff h)) h q (o.step op) f0 := by
  obtain ⟨fq, fr, hh⟩ := R
  cases op with
  | fsync => exact ⟨by simpa [HOp.eff, step, One.step] using fq, by simpa [HOp.eff, step] using fr,
                    by simpa [HOp.eff, step, One.step] using hh⟩
  | write d =>
    cases hb : o.h with
    | none =>
      simp only [hb, Option.map_none] at hh
      refine ⟨?_, ?_, ?_⟩ <;> simp [HOp.eff, step, One.step, hh, hb, fq] <;> exact fr
    | some b =>
      simp only [hb, Option.map_some] at hh
      refine ⟨?_, ?_, ?_⟩ <;> simp [HOp.eff, step, One.step, hh, hb, fq] <;> exact fr
  | spill n =>
    cases hb : o.h with
    | none =>
      simp only [hb, Option.map_none] at hh
      refine ⟨?_, ?_, ?_⟩ <;> simp [HOp.eff, step, One.step, hh, hb, fq] <;> exact fr
    | some b =>
      simp only [hb, Option.map_some] at hh
      refine ⟨?_, ?_, ?_⟩
      · simp [HOp.eff, step, One.step, hh, hb, push, fq]
      · intro r hr; simp [HOp.eff, step, hh, push, hr, fr r hr]
      · simp [HOp.eff, step, One.step, hh, hb]
  | flush =>
    cases hb : o.h with
    | none =>
      simp only [hb, Option.map_none] at hh
      refine ⟨?_, ?_, ?_⟩ <;> simp [HOp.eff, step, One.step, hh, hb, fq] <;> exact fr
    | some b =>
      simp only [hb, Option.map_some] at hh
      refine ⟨?_, ?_, ?_⟩
      · simp [HOp.eff, step, One.step, hh, hb, push, fq]
      · intro r hr; simp [HOp.eff, step, hh, push, hr, fr r hr]
      · simp [HOp.eff, step, One.step, hh, hb]
  | close =>
    cases hb : o.h with
    | none =>
      simp only [hb, Option.map_none] at hh
      refine ⟨?_, ?_, ?_⟩ <;> simp [HOp.eff, step, One.step, hh, hb, fq] <;> exact fr
    | some b =>
      simp only [hb, Option.map_some] at hh
      refine ⟨?_, ?_, ?_⟩
      · simp [HOp.eff, step, One.step, hh, hb, push, fq]
      · intro r hr; simp [HOp.eff, step, hh, push, hr, fr r hr]
      · simp [HOp.eff, step, One.step, hh, hb]

theorem sim_run (s : St β) (h q : Path) (o : One β) (f0 : Files β) (R : Rep s h q o f0) (ops : List (HOp β)) :
    Rep (runS s (ops.map (HOp.eff h))) h q (o.run ops) f0 := by
  induction ops generalizing s o with
  | nil => simpa [runS, One.run] using R
  | cons op ops ih => simpa [runS, One.run] using ih _ _ (sim_step s h q o f0 R op)

/-- every crash state while the handle operations run: the inode holds one of the trail's contents, every other
    path is untouched — or the crash happens in what follows -/
theorem sim_crash (s : St β) (h q : Path) (o : One β) (f0 : Files β) (R : Rep s h q o f0) (ops : List (HOp β))
    (rest : List (Eff β)) :
    ∀ f ∈ crashFiles s (ops.map (HOp.eff h) ++ rest),
      (∃ c ∈ o.trail ops, f q = some c ∧ ∀ r, r ≠ q → f r = f0 r) ∨
      f ∈ crashFiles (runS s (ops.map (HOp.eff h))) rest := by
  induction ops generalizing s o with
  | nil => intro f hf; right; simpa [runS] using hf
  | cons op ops ih =>
    intro f hf
    simp only [List.map_cons, List.cons_append, crashFiles, List.mem_cons] at hf
    rcases hf with rfl | hf
    · left; exact ⟨o.c, by simp [One.trail], R.fq, R.fr⟩
    · rcases ih _ _ (sim_step s h q o f0 R op) f hf with ⟨c, hc, h1, h2⟩ | h'
      · left; exact ⟨c, by simp [One.trail, hc], h1, h2⟩
      · right; simpa [runS] using h'

/-! ### facts about one handle -/

theorem One.total_step (o : One β) (op : HOp β) : ∃ y, (o.step op).total = o.total ++ y := by
  cases op with
  | spill n =>
    cases hb : o.h with
    | none => exact ⟨[], by simp [One.step, One.total, One.pending, hb]⟩
    | some b => exact ⟨[], by simp [One.step, One.total, One.pending, hb, List.append_assoc]⟩
  | write d => cases hb : o.h <;> simp [One.step, One.total, One.pending, hb]
  | flush => cases hb : o.h <;> simp [One.step, One.total, One.pending, hb]
  | fsync => exact ⟨[], by simp [One.step]⟩
  | close => cases hb : o.h <;> simp [One.step, One.total, One.pending, hb]

theorem One.total_run (o : One β) (ops : List (HOp β)) : ∃ y, (o.run ops).total = o.total ++ y := by
  induction ops generalizing o with
  | nil => exact ⟨[], by simp [One.run]⟩
  | cons op ops ih =>
    obtain ⟨y1, h1⟩ := o.total_step op
    obtain ⟨y2, h2⟩ := ih (o.step op)
    exact ⟨y1 ++ y2, by simp [One.run, h2, h1, List.append_assoc]⟩

def HOp.isWrite : HOp β → Bool
  | .write _ => true
  | _ => false

/-- with nothing pending and no further `write`, the inode's bytes never change -/
theorem One.trail_const (o : One β) (ops : List (HOp β)) (hp : o.pending = [])
    (hw : ops.all (fun op => !op.isWrite) = true) :
    (∀ c ∈ o.trail ops, c = o.c) ∧ (o.run ops).c = o.c ∧ (o.run ops).pending = [] := by
  induction ops generalizing o with
  | nil => simp [One.trail, One.run, hp]
  | cons op ops ih =>
    simp only [List.all_cons, Bool.and_eq_true] at hw
    have hs : (o.step op).c = o.c ∧ (o.step op).pending = [] := by
      cases op <;> cases hb : o.h <;> simp_all [One.step, One.pending, HOp.isWrite]
    obtain ⟨i1, i2, i3⟩ := ih (o.step op) hs.2 hw.2
    refine ⟨?_, ?_, ?_⟩
    · intro c hc
      simp only [One.trail, List.mem_cons] at hc
      rcases hc with rfl | hc
      · rfl
      · rw [i1 c hc, hs.1]
    · simp [One.run, i2, hs.1]
    · simp [One.run, i3]

/-! ### the syntactic discipline: every write is followed by a flush or a close before the rename -/

/-- may the buffer hold something after these operations?  (`spill` empties only part of it) -/
def dirtyAfter : Bool → List (HOp β) → Bool
  | d, [] => d
  | _, .write _ :: ops => dirtyAfter true ops
  | _, .flush :: ops => dirtyAfter false ops
  | _, .close :: ops => dirtyAfter false ops
  | d, _ :: ops => dirtyAfter d ops

theorem clean_pending (o : One β) (d : Bool) (ops : List (HOp β)) (h0 : d = false → o.pending = [])
    (hc : dirtyAfter d ops = false) : (o.run ops).pending = [] := by
  induction ops generalizing o d with
  | nil => simpa [One.run] using h0 (by simpa [dirtyAfter] using hc)
  | cons op ops ih =>
    cases op with
    | write x => exact ih (o.step _) true (by simp) (by simpa [dirtyAfter] using hc)
    | flush =>
      refine ih (o.step _) false (fun _ => ?_) (by simpa [dirtyAfter] using hc)
      cases hb : o.h <;> simp [One.step, One.pending, hb]
    | close =>
      refine ih (o.step _) false (fun _ => ?_) (by simpa [dirtyAfter] using hc)
      cases hb : o.h <;> simp [One.step, One.pending, hb]
    | fsync =>
      exact ih (o.step _) d (by simpa [One.step] using h0) (by simpa [dirtyAfter] using hc)
    | spill n =>
      refine ih (o.step _) d (fun hd => ?_) (by simpa [dirtyAfter] using hc)
      have := h0 hd
      cases hb : o.h <;> simp_all [One.step, One.pending]

/-! ### the protocol -/

/-- `open(tmp,'w')`, handle operations, `os.replace(tmp, dst)`, more handle operations (the handle may still be
    open: the `with` block may end after the rename) -/
def proto (tmp dst : Path) (ops1 ops2 : List (HOp β)) : List (Eff β) :=
  .openW tmp :: (ops1.map (HOp.eff tmp) ++ .replace tmp dst :: ops2.map (HOp.eff tmp))

def One.init : One β := ⟨[], some []⟩

/-- the handle at the moment of the rename -/
def atReplace (ops1 : List (HOp β)) : One β := One.init.run ops1

/-- what the target holds once the program is through and the handle is closed -/
def finalContent (ops1 ops2 : List (HOp β)) : List β := ((atReplace ops1).run (ops2 ++ [.close])).c

theorem rep_open (s : St β) (tmp : Path) : Rep (step s (.openW tmp)) tmp tmp One.init (upd s.file tmp (some [])) :=
  ⟨by simp [step, One.init], fun r hr => by simp [step, hr], by simp [step, One.init]⟩

theorem rep_replace (s : St β) (tmp dst : Path) (o : One β) (f0 : Files β) (hne : tmp ≠ dst)
    (R : Rep s tmp tmp o f0) :
    Rep (step s (.replace tmp dst)) tmp dst o (upd f0 tmp none) := by
  obtain ⟨fq, fr, hh⟩ := R
  have hne' : dst ≠ tmp := fun e => hne e.symm
  refine ⟨?_, ?_, ?_⟩
  · simp [step, fq, hne']
  · intro r hr
    by_cases hrt : r = tmp
    · subst hrt; simp [step, fq]
    · simp [step, fq, hr, hrt, fr r hrt]
  · cases hb : o.h <;> simp [step, fq, hh, hb, reloc]

/-- the target at every crash point of the protocol: what it was, or what the temp file's inode holds at some
    boundary at or after the rename -/
theorem proto_crash_dst (s : St β) (tmp dst : Path) (ops1 ops2 : List (HOp β)) (hne : tmp ≠ dst) :
    ∀ f ∈ crashFiles s (proto tmp dst ops1 ops2),
      f dst = s.file dst ∨ ∃ c ∈ (atReplace ops1).trail ops2, f dst = some c := by
  have hne' : dst ≠ tmp := fun e => hne e.symm
  intro f hf
  simp only [proto, crashFiles, List.mem_cons] at hf
  rcases hf with rfl | hf
  · exact Or.inl rfl
  · have R1 := rep_open s tmp
    rcases sim_crash _ tmp tmp One.init _ R1 ops1 _ f hf with ⟨c, _, _, h2⟩ | hf
    · left; rw [h2 dst hne']; simp [hne']
    · have R2 := sim_run _ tmp tmp One.init _ R1 ops1
      simp only [crashFiles, List.mem_cons] at hf
      rcases hf with rfl | hf
      · left; rw [R2.fr dst hne']; simp [hne']
      · have R3 := rep_replace _ tmp dst _ _ hne R2
        have := sim_crash _ tmp dst _ _ R3 ops2 [] f (by simpa using hf)
        rcases this with ⟨c, hc, h1, _⟩ | hf'
        · right; exact ⟨c, hc, h1⟩
        · have R4 := sim_run _ tmp dst _ _ R3 ops2
          simp only [crashFiles, List.mem_singleton] at hf'
          subst hf'
          right
          refine ⟨((atReplace ops1).run ops2).c, ?_, R4.fq⟩
          exact One.run_c_mem_trail _ _

/-- the crash point right after the rename exists, and there the target holds exactly what had reached the temp
    file — the buffer's content is not in it -/
theorem proto_crash_after_replace (s : St β) (tmp dst : Path) (ops1 ops2 : List (HOp β)) (hne : tmp ≠ dst) :
    ∃ f ∈ crashFiles s (proto tmp dst ops1 ops2), f dst = some (atReplace ops1).c := by
  have R1 := rep_open s tmp
  have R2 := sim_run _ tmp tmp One.init _ R1 ops1
  have R3 := rep_replace _ tmp dst _ _ hne R2
  refine ⟨(step (runS (step s (.openW tmp)) (ops1.map (HOp.eff tmp))) (.replace tmp dst)).file, ?_, R3.fq⟩
  simp only [proto]
  apply crashFiles_tail
  apply crashFiles_append_right
  apply crashFiles_tail
  exact head_mem_crashFiles _ _

theorem One.pending_after_close (o : One β) (ops : List (HOp β)) : (o.run (ops ++ [.close])).pending = [] := by
  rw [One.run_append]
  generalize o.run ops = o'
  cases hb : o'.h <;> simp [One.run, One.step, One.pending, hb]

/-! ### the discipline on recorded traces (alphabet of `Crash/Model.lean`: a `write` carries no data)

`dirty`: handles (by the path they were opened with) that accepted a `write` and were not flushed or closed since;
`moved`: paths renamed away since they were last opened — a handle opened before that still points at the inode
that now sits at the destination.  Demanded: (i) no `os.replace` of a path whose handle is dirty, (ii) no `write`
through a handle whose inode has been renamed into place. -/

def flushedReplaces {α : Type} : (dirty moved : List Path) → List (Effect α) → Bool
  | _, _, [] => true
  | d, m, .openW p :: es => flushedReplaces (d.filter (· != p)) (m.filter (· != p)) es
  | d, m, .openA p :: es => flushedReplaces (d.filter (· != p)) (m.filter (· != p)) es
  | d, m, .write p :: es => !m.contains p && flushedReplaces (p :: d) m es
  | d, m, .flush p :: es => flushedReplaces (d.filter (· != p)) m es
  | d, m, .close p _ :: es => flushedReplaces (d.filter (· != p)) m es
  | d, m, .replace s _ :: es => !d.contains s && flushedReplaces d (s :: m) es
  | d, m, _ :: es => flushedReplaces d m es

/-- the recorder's view of a handle operation (a spill is not visible to it) -/
def HOp.coarse (h : Path) : HOp β → Effect Unit
  | .write _ => .write h
  | .spill _ => .other h
  | .flush => .flush h
  | .fsync => .fsync h
  | .close => .close h ()

def protoCoarse (tmp dst : Path) (ops1 ops2 : List (HOp β)) : List (Effect Unit) :=
  .openW tmp :: (ops1.map (HOp.coarse tmp) ++ .replace tmp dst :: ops2.map (HOp.coarse tmp))

theorem contains_filter_ne (l : List Path) (p : Path) : (l.filter (· != p)).contains p = false := by
  induction l with
  | nil => rfl
  | cons a l ih =>
    by_cases h : a = p
    · simp [List.filter, h]
    · have h' : (a != p) = true := by simpa using h
      have : ¬ (p = a) := fun e => h e.symm
      simp only [List.filter, h', List.contains_cons, ih, Bool.or_false]
      simpa using this

theorem flushed_ops1 (tmp : Path) (ops : List (HOp β)) (d m : List Path) (rest : List (Effect Unit))
    (h : flushedReplaces d m (ops.map (HOp.coarse tmp) ++ rest) = true) :
    ∃ d', d'.contains tmp = dirtyAfter (d.contains tmp) ops ∧ flushedReplaces d' m rest = true := by
  induction ops generalizing d with
  | nil => exact ⟨d, by simp [dirtyAfter], by simpa using h⟩
  | cons op ops ih =>
    cases op with
    | write x =>
      simp only [List.map_cons, HOp.coarse, List.cons_append, flushedReplaces, Bool.and_eq_true] at h
      obtain ⟨d', h1, h2⟩ := ih (tmp :: d) h.2
      exact ⟨d', by simpa [dirtyAfter] using h1, h2⟩
    | flush =>
      simp only [List.map_cons, HOp.coarse, List.cons_append, flushedReplaces] at h
      obtain ⟨d', h1, h2⟩ := ih _ h
      exact ⟨d', by simpa [dirtyAfter, contains_filter_ne] using h1, h2⟩
    | close =>
      simp only [List.map_cons, HOp.coarse, List.cons_append, flushedReplaces] at h
      obtain ⟨d', h1, h2⟩ := ih _ h
      exact ⟨d', by simpa [dirtyAfter, contains_filter_ne] using h1, h2⟩
    | fsync =>
      simp only [List.map_cons, HOp.coarse, List.cons_append, flushedReplaces] at h
      obtain ⟨d', h1, h2⟩ := ih _ h
      exact ⟨d', by simpa [dirtyAfter] using h1, h2⟩
    | spill n =>
      simp only [List.map_cons, HOp.coarse, List.cons_append, flushedReplaces] at h
      obtain ⟨d', h1, h2⟩ := ih _ h
      exact ⟨d', by simpa [dirtyAfter] using h1, h2⟩

theorem flushed_ops2 (tmp : Path) (ops : List (HOp β)) (d m : List Path)
    (hm : m.contains tmp = true)
    (h : flushedReplaces d m (ops.map (HOp.coarse tmp)) = true) :
    ops.all (fun op => !op.isWrite) = true := by
  induction ops generalizing d with
  | nil => rfl
  | cons op ops ih =>
    cases op with
    | write x =>
      simp [HOp.coarse, flushedReplaces] at h
      exact absurd (by simpa using hm) h.1
    | flush => simpa [HOp.isWrite] using ih _ (by simpa [HOp.coarse, flushedReplaces] using h)
    | close => simpa [HOp.isWrite] using ih _ (by simpa [HOp.coarse, flushedReplaces] using h)
    | fsync => simpa [HOp.isWrite] using ih _ (by simpa [HOp.coarse, flushedReplaces] using h)
    | spill n => simpa [HOp.isWrite] using ih _ (by simpa [HOp.coarse, flushedReplaces] using h)

/-- a protocol instance whose recorded form passes the discipline has nothing pending at the rename and writes
    nothing afterwards -/
theorem flushed_proto (tmp dst : Path) (ops1 ops2 : List (HOp β))
    (h : flushedReplaces [] [] (protoCoarse tmp dst ops1 ops2) = true) :
    dirtyAfter false ops1 = false ∧ ops2.all (fun op => !op.isWrite) = true := by
  simp only [protoCoarse, flushedReplaces, List.filter_nil] at h
  obtain ⟨d', h1, h2⟩ := flushed_ops1 tmp ops1 [] [] _ h
  simp only [flushedReplaces, Bool.and_eq_true, Bool.not_eq_true'] at h2
  refine ⟨?_, flushed_ops2 tmp ops2 d' [tmp] (by simp) h2.2⟩
  have : ([] : List Path).contains tmp = false := rfl
  rw [this] at h1
  rw [← h1]; exact h2.1

end MesonModel.Crash.Buf
