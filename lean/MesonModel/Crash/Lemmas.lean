/-
Helper lemmas for C09: crash-state algebra (`crashStates` vs `crashAt`, append), the static
"never torn" discipline and its soundness, characterisation of `recover`.
-/
import MesonModel.Crash.Model

namespace MesonModel.Crash

variable {α : Type}

@[simp] theorem FS.set_same (fs : FS α) (p : Path) (s : FileSt α) : (fs.set p s) p = s := by
  simp [FS.set]

@[simp] theorem FS.set_other (fs : FS α) (p q : Path) (s : FileSt α) (h : q ≠ p) : (fs.set p s) q = fs q := by
  simp [FS.set, h]

theorem step_copyfile_other (fs : FS α) (s d q : Path) (h : q ≠ d) : (step fs (.copyfile s d)) q = fs q := by
  cases hs : fs s <;> simp [step, hs, FS.set, h]

theorem mid_copyfile_other (fs m : FS α) (s d q : Path) (h : q ≠ d) (hm : mid fs (.copyfile s d) = some m) :
    m q = fs q := by
  cases hs : fs s <;> simp [mid, hs] at hm <;> subst hm <;> simp [FS.set, h]

/-! ### crash states -/

theorem start_mem_crashStates (fs : FS α) (t : List (Effect α)) : fs ∈ crashStates fs t := by
  cases t with
  | nil => simp [crashStates]
  | cons e es =>
    simp only [crashStates]
    split <;> simp

theorem crashStates_tail_subset (fs : FS α) (e : Effect α) (es : List (Effect α)) :
    ∀ s ∈ crashStates (step fs e) es, s ∈ crashStates fs (e :: es) := by
  intro s hs
  simp only [crashStates]
  split <;> simp [hs]

theorem mid_mem_crashStates (fs : FS α) (e : Effect α) (es : List (Effect α)) (m : FS α)
    (h : mid fs e = some m) : m ∈ crashStates fs (e :: es) := by
  simp only [crashStates, h]
  simp

/-- the state after any prefix of the trace is a crash state -/
theorem run_take_mem (fs : FS α) (t : List (Effect α)) (k : Nat) :
    run fs (t.take k) ∈ crashStates fs t := by
  induction t generalizing fs k with
  | nil => simp [run, crashStates]
  | cons e es ih =>
    cases k with
    | zero => simpa [run] using start_mem_crashStates fs (e :: es)
    | succ k =>
      simp only [List.take_succ_cons, run]
      exact crashStates_tail_subset fs e es _ (ih (step fs e) k)

/-- the state inside effect `k` (when it has one) is a crash state -/
theorem mid_at_mem (fs : FS α) (t : List (Effect α)) (k : Nat) (e : Effect α) (m : FS α)
    (hk : t[k]? = some e) (hm : mid (run fs (t.take k)) e = some m) : m ∈ crashStates fs t := by
  induction t generalizing fs k with
  | nil => simp at hk
  | cons e' es ih =>
    cases k with
    | zero =>
      simp at hk
      subst hk
      simp [run] at hm
      exact mid_mem_crashStates fs e' es m hm
    | succ k =>
      simp only [List.getElem?_cons_succ] at hk
      simp only [List.take_succ_cons, run] at hm
      exact crashStates_tail_subset fs e' es _ (ih (step fs e') k hk hm)

/-- the index-based view used by the driver and the harness lands in the list-based view used by the theorems -/
theorem crashAt_mem_crashStates (fs : FS α) (t : List (Effect α)) (k : Nat) (torn : Bool) :
    crashAt fs t k torn ∈ crashStates fs t := by
  unfold crashAt
  cases torn with
  | false => simpa using run_take_mem fs t k
  | true =>
    simp only [if_true]
    cases hk : t[k]? with
    | none => simpa using run_take_mem fs t k
    | some e =>
      simp only
      cases hm : mid (run fs (t.take k)) e with
      | none => simpa using run_take_mem fs t k
      | some m => simpa using mid_at_mem fs t k e m hk hm

/-- crash states of a suffix, started from the state the prefix leaves, are crash states of the whole trace -/
theorem crashStates_append_right (fs : FS α) (pre post : List (Effect α)) :
    ∀ s ∈ crashStates (run fs pre) post, s ∈ crashStates fs (pre ++ post) := by
  induction pre generalizing fs with
  | nil => intro s hs; simpa [run] using hs
  | cons e es ih =>
    intro s hs
    simp only [run] at hs
    exact crashStates_tail_subset fs e (es ++ post) s (ih (step fs e) s hs)

/-! ### the "never torn" discipline -/

def FileSt.isTorn : FileSt α → Bool
  | .torn => true
  | _ => false

def FileSt.isAbsent : FileSt α → Bool
  | .absent => true
  | _ => false

theorem isTorn_false_iff (s : FileSt α) : s.isTorn = false ↔ s ≠ .torn := by
  cases s <;> simp [FileSt.isTorn]

/-- effect `e`, issued in state `fs`, cannot leave `p` torn — neither when it completes nor when the process
    dies inside it: `p` is never opened for writing, written or copied onto, and is only ever replaced by a
    file that is itself not torn -/
def safeFor (p : Path) (fs : FS α) : Effect α → Bool
  | .openW q => q != p
  | .write q => q != p
  | .copyfile _ d => d != p
  | .replace s d => if d = p then !(fs s).isTorn else true
  | _ => true

def neverTornCheck (p : Path) : FS α → List (Effect α) → Bool
  | _, [] => true
  | fs, e :: es => safeFor p fs e && neverTornCheck p (step fs e) es

theorem safeFor_openW (p q : Path) (fs : FS α) (hs : safeFor p fs (.openW q) = true) : p ≠ q := by
  intro h; subst h; simp [safeFor] at hs

theorem safeFor_write (p q : Path) (fs : FS α) (hs : safeFor p fs (.write q) = true) : p ≠ q := by
  intro h; subst h; simp [safeFor] at hs

theorem safeFor_copyfile (p s d : Path) (fs : FS α) (hs : safeFor p fs (.copyfile s d) = true) : p ≠ d := by
  intro h; subst h; simp [safeFor] at hs

theorem step_preserves_not_torn (p : Path) (fs : FS α) (e : Effect α)
    (hs : safeFor p fs e = true) (h : fs p ≠ .torn) : (step fs e) p ≠ .torn := by
  cases e with
  | openW q =>
    have := safeFor_openW p q fs hs
    simpa [step, FS.set, this] using h
  | openA q => simpa [step] using h
  | write q =>
    have := safeFor_write p q fs hs
    cases hq : fs q <;> simp [step, hq, FS.set, this, h]
  | flush q => simpa [step] using h
  | fsync q => simpa [step] using h
  | close q c =>
    by_cases hpq : p = q
    · cases hq : fs q <;> simp_all [step, FS.set]
    · cases hq : fs q <;> simp [step, hq, FS.set, hpq, h]
  | replace s d =>
    by_cases hps : p = s
    · cases hst : fs s <;> simp_all [step, FS.set]
    · by_cases hpd : p = d
      · subst hpd
        simp only [safeFor, if_true] at hs
        cases hst : fs s <;> simp_all [step, FS.set, FileSt.isTorn]
      · cases hst : fs s <;> simp [step, hst, FS.set, hps, hpd, h]
  | copyfile s d =>
    have := safeFor_copyfile p s d fs hs
    cases hst : fs s <;> simp [step, hst, FS.set, this, h]
  | unlink q =>
    by_cases hq : p = q <;> simp [step, FS.set, hq, h]
  | rmdir q =>
    by_cases hq : p = q <;> simp [step, FS.set, hq, h]
  | mkdir q =>
    by_cases hpq : p = q
    · cases hq : fs q <;> simp_all [step, FS.set]
    · cases hq : fs q <;> simp [step, hq, FS.set, hpq, h]
  | other q => simpa [step] using h

theorem mid_preserves_not_torn (p : Path) (fs : FS α) (e : Effect α) (m : FS α)
    (hs : safeFor p fs e = true) (h : fs p ≠ .torn) (hm : mid fs e = some m) : m p ≠ .torn := by
  cases e with
  | write q =>
    have hpq := safeFor_write p q fs hs
    cases hq : fs q <;> simp [mid, hq] at hm <;> subst hm <;> simp [FS.set, hpq, h]
  | copyfile s d =>
    have hpd := safeFor_copyfile p s d fs hs
    cases hq : fs s <;> simp [mid, hq] at hm <;> subst hm <;> simp [FS.set, hpd, h]
  | openW q => simp [mid] at hm
  | openA q => simp [mid] at hm
  | flush q => simp [mid] at hm
  | fsync q => simp [mid] at hm
  | close q c => simp [mid] at hm
  | replace s d => simp [mid] at hm
  | unlink q => simp [mid] at hm
  | rmdir q => simp [mid] at hm
  | mkdir q => simp [mid] at hm
  | other q => simp [mid] at hm

/-- soundness of the static discipline, for every trace and every starting directory -/
theorem neverTornCheck_sound (p : Path) (fs : FS α) (t : List (Effect α))
    (hc : neverTornCheck p fs t = true) (h0 : fs p ≠ .torn) :
    ∀ s ∈ crashStates fs t, s p ≠ .torn := by
  induction t generalizing fs with
  | nil => intro s hs; simp [crashStates] at hs; subst hs; exact h0
  | cons e es ih =>
    simp only [neverTornCheck, Bool.and_eq_true] at hc
    obtain ⟨hsafe, hrest⟩ := hc
    have hstep := step_preserves_not_torn p fs e hsafe h0
    intro s hs
    simp only [crashStates] at hs
    split at hs
    · rename_i m hm
      simp only [List.mem_cons] at hs
      rcases hs with rfl | rfl | hs
      · exact h0
      · exact mid_preserves_not_torn p fs e _ hsafe h0 hm
      · exact ih (step fs e) hrest hstep s hs
    · simp only [List.mem_cons] at hs
      rcases hs with rfl | hs
      · exact h0
      · exact ih (step fs e) hrest hstep s hs

/-! ### the "always present" discipline -/

/-- effect `e` cannot make `p` disappear: `p` is never unlinked, removed or renamed away -/
def keepsPresent (p : Path) : Effect α → Bool
  | .unlink q => q != p
  | .rmdir q => q != p
  | .replace s _ => s != p
  | _ => true

def alwaysPresentCheck (p : Path) (t : List (Effect α)) : Bool := t.all (keepsPresent p)

theorem step_preserves_present (p : Path) (fs : FS α) (e : Effect α)
    (hs : keepsPresent p e = true) (h : fs p ≠ .absent) : (step fs e) p ≠ .absent := by
  cases e with
  | openW q => by_cases hq : p = q <;> simp [step, FS.set, hq, h]
  | openA q => simpa [step] using h
  | write q =>
    by_cases hpq : p = q
    · cases hq : fs q <;> simp_all [step, FS.set]
    · cases hq : fs q <;> simp [step, hq, FS.set, hpq, h]
  | flush q => simpa [step] using h
  | fsync q => simpa [step] using h
  | close q c =>
    by_cases hpq : p = q
    · cases hq : fs q <;> simp_all [step, FS.set]
    · cases hq : fs q <;> simp [step, hq, FS.set, hpq, h]
  | replace s d =>
    have hps : p ≠ s := by intro h'; subst h'; simp [keepsPresent] at hs
    by_cases hpd : p = d
    · cases hst : fs s <;> simp_all [step, FS.set]
    · cases hst : fs s <;> simp [step, hst, FS.set, hps, hpd, h]
  | copyfile s d =>
    by_cases hpd : p = d
    · cases hst : fs s <;> simp_all [step, FS.set]
    · cases hst : fs s <;> simp [step, hst, FS.set, hpd, h]
  | unlink q =>
    have hpq : p ≠ q := by intro h'; subst h'; simp [keepsPresent] at hs
    simp [step, FS.set, hpq, h]
  | rmdir q =>
    have hpq : p ≠ q := by intro h'; subst h'; simp [keepsPresent] at hs
    simp [step, FS.set, hpq, h]
  | mkdir q =>
    by_cases hpq : p = q
    · cases hq : fs q <;> simp_all [step, FS.set]
    · cases hq : fs q <;> simp [step, hq, FS.set, hpq, h]
  | other q => simpa [step] using h

theorem mid_preserves_present (p : Path) (fs : FS α) (e : Effect α) (m : FS α)
    (h : fs p ≠ .absent) (hm : mid fs e = some m) : m p ≠ .absent := by
  cases e with
  | write q =>
    by_cases hpq : p = q
    · cases hq : fs q <;> simp [mid, hq] at hm <;> subst hm <;> simp [FS.set, hpq]
    · cases hq : fs q <;> simp [mid, hq] at hm <;> subst hm <;> simp [FS.set, hpq, h]
  | copyfile s d =>
    by_cases hpd : p = d
    · cases hq : fs s <;> simp [mid, hq] at hm <;> subst hm <;> simp [FS.set, hpd]
    · cases hq : fs s <;> simp [mid, hq] at hm <;> subst hm <;> simp [FS.set, hpd, h]
  | openW q => simp [mid] at hm
  | openA q => simp [mid] at hm
  | flush q => simp [mid] at hm
  | fsync q => simp [mid] at hm
  | close q c => simp [mid] at hm
  | replace s d => simp [mid] at hm
  | unlink q => simp [mid] at hm
  | rmdir q => simp [mid] at hm
  | mkdir q => simp [mid] at hm
  | other q => simp [mid] at hm

/-- soundness, for every trace and starting directory: a file that exists and is never unlinked or renamed away
    exists at every crash point -/
theorem alwaysPresentCheck_sound (p : Path) (fs : FS α) (t : List (Effect α))
    (hc : alwaysPresentCheck p t = true) (h0 : fs p ≠ .absent) :
    ∀ s ∈ crashStates fs t, s p ≠ .absent := by
  induction t generalizing fs with
  | nil => intro s hs; simp [crashStates] at hs; subst hs; exact h0
  | cons e es ih =>
    simp only [alwaysPresentCheck, List.all_cons, Bool.and_eq_true] at hc
    obtain ⟨hsafe, hrest⟩ := hc
    have hstep := step_preserves_present p fs e hsafe h0
    intro s hs
    simp only [crashStates] at hs
    split at hs
    · rename_i m hm
      simp only [List.mem_cons] at hs
      rcases hs with rfl | rfl | hs
      · exact h0
      · exact mid_preserves_present p fs e _ h0 hm
      · exact ih (step fs e) hrest hstep s hs
    · simp only [List.mem_cons] at hs
      rcases hs with rfl | hs
      · exact h0
      · exact ih (step fs e) hrest hstep s hs

/-! ### leftover bytes -/

/-- `replacesFresh` is monotone: a trace that renames only fresh files into place when every doubtful path is
    assumed stale does so for every directory a killed run can actually have left -/
theorem replacesFresh_mono (t : List (Effect α)) (st st' : Stale)
    (hle : ∀ p, st' p = true → st p = true) (h : replacesFresh st t = true) : replacesFresh st' t = true := by
  induction t generalizing st st' with
  | nil => simp [replacesFresh]
  | cons e es ih =>
    have hstep : ∀ e : Effect α, ∀ p, staleStep st' e p = true → staleStep st e p = true := by
      intro e p
      cases e <;> simp only [staleStep, Stale.set] <;>
        (try exact hle p) <;> (repeat' split) <;> simp_all
    cases e with
    | replace s d =>
      simp only [replacesFresh, Bool.and_eq_true, Bool.not_eq_true'] at h ⊢
      refine ⟨?_, ih _ _ (hstep (.replace s d)) h.2⟩
      cases hs : st' s with
      | false => rfl
      | true => have := hle s hs; simp [this] at h
    | openW p => exact ih _ _ (hstep (.openW p)) (by simpa [replacesFresh] using h)
    | openA p => exact ih _ _ (hstep (.openA p)) (by simpa [replacesFresh] using h)
    | write p => exact ih _ _ (hstep (.write p)) (by simpa [replacesFresh] using h)
    | flush p => exact ih _ _ (hstep (.flush p)) (by simpa [replacesFresh] using h)
    | fsync p => exact ih _ _ (hstep (.fsync p)) (by simpa [replacesFresh] using h)
    | close p c => exact ih _ _ (hstep (.close p c)) (by simpa [replacesFresh] using h)
    | copyfile s d => exact ih _ _ (hstep (.copyfile s d)) (by simpa [replacesFresh] using h)
    | unlink p => exact ih _ _ (hstep (.unlink p)) (by simpa [replacesFresh] using h)
    | rmdir p => exact ih _ _ (hstep (.rmdir p)) (by simpa [replacesFresh] using h)
    | mkdir p => exact ih _ _ (hstep (.mkdir p)) (by simpa [replacesFresh] using h)
    | other p => exact ih _ _ (hstep (.other p)) (by simpa [replacesFresh] using h)

/-! ### repair of torn files by the follow-up run -/

def AFS.describes (a : AFS) (fs : FS α) : Prop := ∀ p, (a p).describes (fs p)

theorem AFS.describes_set (a : AFS) (fs : FS α) (h : a.describes fs) (p : Path) (v : Abs) (s : FileSt α)
    (hv : v.describes s) : (a.set p v).describes (fs.set p s) := by
  intro q
  by_cases hq : q = p
  · simp [AFS.set, FS.set, hq, hv]
  · simpa [AFS.set, FS.set, hq] using h q

theorem absStep_sound (a : AFS) (fs : FS α) (h : a.describes fs) (e : Effect α) :
    (absStep a e).describes (step fs e) := by
  cases e with
  | openW p => exact AFS.describes_set a fs h p .open_ .torn rfl
  | openA p => simpa [absStep, step] using h
  | flush p => simpa [absStep, step] using h
  | fsync p => simpa [absStep, step] using h
  | other p => simpa [absStep, step] using h
  | unlink p => exact AFS.describes_set a fs h p .gone .absent rfl
  | rmdir p => exact AFS.describes_set a fs h p .gone .absent rfl
  | write p =>
    have hp := h p
    cases ha : a p <;> cases hf : fs p <;> simp [Abs.describes, ha, hf] at hp <;>
      simp only [absStep, step, ha, hf] <;>
      first
        | exact h
        | exact AFS.describes_set a fs h p .open_ .torn rfl
        | (intro q; by_cases hq : q = p
           · subst hq; simp [FS.set, ha, Abs.describes]
           · simpa [FS.set, hq] using h q)
  | close p c =>
    have hp := h p
    cases ha : a p <;> cases hf : fs p <;> simp [Abs.describes, ha, hf] at hp <;>
      simp only [absStep, step, ha, hf] <;>
      first
        | exact h
        | exact AFS.describes_set a fs h p .good (.ok c) (Or.inl ⟨c, rfl⟩)
        | (intro q; by_cases hq : q = p
           · subst hq; simp [FS.set, ha, Abs.describes]
           · simpa [FS.set, hq] using h q)
  | mkdir p =>
    have hp := h p
    cases ha : a p <;> cases hf : fs p <;> simp [Abs.describes, ha, hf] at hp <;>
      simp only [absStep, step, ha, hf] <;>
      first
        | exact h
        | exact AFS.describes_set a fs h p .good .dir (Or.inr rfl)
        | (intro q; by_cases hq : q = p
           · subst hq; simp [FS.set, ha, Abs.describes]
           · simpa [FS.set, hq] using h q)
  | copyfile s d =>
    have hs := h s
    cases ha : a s <;> cases hf : fs s <;> simp [Abs.describes, ha, hf] at hs <;>
      simp only [absStep, step, ha, hf] <;>
      first
        | exact h
        | exact AFS.describes_set a fs h d .unk _ trivial
        | exact AFS.describes_set a fs h d .open_ .torn rfl
        | exact AFS.describes_set a fs h d .good (.ok _) (Or.inl ⟨_, rfl⟩)
        | exact AFS.describes_set a fs h d .good .dir (Or.inr rfl)
        | (intro q; by_cases hq : q = d
           · subst hq; simp [AFS.set, Abs.describes]
           · simpa [AFS.set, hq] using h q)
  | replace s d =>
    have hs := h s
    cases ha : a s <;> cases hf : fs s <;> simp [Abs.describes, ha, hf] at hs <;>
      simp only [absStep, step, ha, hf] <;>
      first
        | exact h
        | exact AFS.describes_set _ _ (AFS.describes_set a fs h d .unk _ trivial) s .unk _ trivial
        | (intro q; by_cases hq : q = s
           · subst hq; simp [AFS.set, Abs.describes]
           · by_cases hq2 : q = d
             · subst hq2; simp [AFS.set, hq, Abs.describes]
             · simpa [AFS.set, hq, hq2] using h q)
        | exact AFS.describes_set _ _ (AFS.describes_set a fs h d .open_ .torn rfl) s .gone .absent rfl
        | exact AFS.describes_set _ _ (AFS.describes_set a fs h d .good (.ok _) (Or.inl ⟨_, rfl⟩)) s .gone .absent rfl
        | exact AFS.describes_set _ _ (AFS.describes_set a fs h d .good .dir (Or.inr rfl)) s .gone .absent rfl

theorem absRun_sound (a : AFS) (fs : FS α) (h : a.describes fs) (t : List (Effect α)) :
    (absRun a t).describes (run fs t) := by
  induction t generalizing a fs with
  | nil => simpa [absRun, run] using h
  | cons e es ih => exact ih _ _ (absStep_sound a fs h e)

/-- soundness of `repairs`: whatever the killed command left (within `a0`), after the follow-up run the file is
    not torn -/
theorem repairs_sound (a0 : AFS) (p : Path) (rt : List (Effect α)) (h : repairs a0 p rt = true) (fs : FS α)
    (h0 : a0.describes fs) : (run fs rt) p ≠ .torn := by
  have hd := absRun_sound a0 fs h0 rt p
  unfold repairs at h
  cases ha : absRun a0 rt p <;> simp [ha] at h <;> simp [Abs.describes, ha] at hd
  · rcases hd with ⟨c, hc⟩ | hc <;> simp [hc]
  · simp [hd]

theorem AFS.top_describes (fs : FS α) : AFS.top.describes fs := fun _ => trivial

def FileSt.isWhole : FileSt α → Bool
  | .ok _ => true
  | .dir => true
  | _ => false

/-- what the two static disciplines establish about a scenario's crash states: a file that exists beforehand, is
    never opened/written/copied onto and never unlinked or renamed away is whole at every crash point -/
def Scenario.known (sc : Scenario) : AFS := fun p =>
  if neverTornCheck p sc.fs0 sc.trace && alwaysPresentCheck p sc.trace && (sc.fs0 p).isWhole then .good else .unk

theorem Scenario.known_describes (sc : Scenario) :
    ∀ s ∈ crashStates sc.fs0 sc.trace, sc.known.describes s := by
  intro s hs p
  unfold Scenario.known
  split
  · rename_i h
    simp only [Bool.and_eq_true] at h
    obtain ⟨⟨h1, h2⟩, h3⟩ := h
    have w0 : sc.fs0 p ≠ .torn ∧ sc.fs0 p ≠ .absent := by
      cases hf : sc.fs0 p <;> simp [hf, FileSt.isWhole] at h3 <;> simp
    have nt := neverTornCheck_sound p sc.fs0 sc.trace h1 w0.1 s hs
    have na := alwaysPresentCheck_sound p sc.fs0 sc.trace h2 w0.2 s hs
    cases hsp : s p <;> simp_all [Abs.describes]
  · trivial

/-! ### the readers -/

theorem recover_internal_iff (fs : FS α) : recover fs = .internalError ↔ fs pCmdline = .torn := by
  unfold recover
  cases h0 : fs pCoredata <;> cases h1 : fs pCmdline <;> simp

theorem recover_rejected_iff (fs : FS α) :
    recover fs = .rejectedCleanly ↔
      fs pCoredata = .torn ∧ (fs pCmdline = .absent ∨ fs pCmdline = .dir) := by
  unfold recover
  cases h0 : fs pCoredata <;> cases h1 : fs pCmdline <;> simp

theorem recover_usable_of_not_torn (fs : FS α) (h0 : fs pCoredata ≠ .torn) (h1 : fs pCmdline ≠ .torn) :
    ∃ src, recover fs = .usable src := by
  unfold recover
  cases h0' : fs pCoredata <;> cases h1' : fs pCmdline <;> simp_all

end MesonModel.Crash
