/-
C14 — template substitution (`configure_file`).  Executable model of
`mesonbuild/utils/universal.py`: `get_variable_regex('meson')` + `do_replacement_meson` (one `re.sub`
pass), `do_define_meson`, `do_conf_str_meson`, `do_replacement_cmake` (index scanner, explicit fuel),
`do_define_cmake`, `do_conf_str_cmake`, the `readlines()`/`writelines()` file layer of `do_conf_file`
(`newline=''`) and `_dump_c_header`.

Strings are `List Char`; the configuration data is an association list (a Python dict: keys unique,
lookup = first match).  Values are `str | int | bool` (what `configuration_data()` accepts).
Core Lean only.
-/
import MesonModel.Py.Str

namespace MesonModel.Template
open MesonModel.Py

/-! ### data -/

inductive Val where
  | str (s : List Char)
  | int (i : Int)
  | bool (b : Bool)
  deriving Repr, DecidableEq

abbrev Name := List Char
abbrev Data := List (Name × Val)

def Data.get? (d : Data) (k : Name) : Option Val := List.lookup k d

/-- Python `str(v)` : `True`/`False` for bool, decimal for int -/
def Val.pyStr : Val → List Char
  | .str s => s
  | .int i => (toString i).toList
  | .bool true => "True".toList
  | .bool false => "False".toList

/-- value as the cmake scanner renders it: bool → `1`/`0` -/
def Val.cmakeStr : Val → List Char
  | .str s => s
  | .int i => (toString i).toList
  | .bool true => ['1']
  | .bool false => ['0']

/-- Python truthiness -/
def Val.truthy : Val → Bool
  | .str s => !s.isEmpty
  | .int i => i != 0
  | .bool b => b

inductive Err where
  | defineTokens   -- '#mesondefine does not contain exactly two tokens'
  | formatError    -- 'Format error in …'
  | invalidChar    -- 'Found invalid character …'
  | incomplete     -- 'Found incomplete variable …'
  | indexError     -- IndexError escaping do_define_cmake (`arr[1]`)
  | fuel           -- the scanner did not finish within the fuel (implementation: does not return)
  deriving Repr, DecidableEq

/-! ### meson format: the three-branch regex as a scanner -/

/-- `[-a-zA-Z0-9_]` -/
def isNameChar (c : Char) : Bool := c == '-' || isAlnum c || c == '_'

def isBs (c : Char) : Bool := c == '\\'

/-- one item of the partition of a line that `re.sub` induces: an unmatched character, or one match -/
inductive Seg where
  | lit (c : Char)              -- character outside every match, copied
  | esc (n : Nat)               -- branch 1: `2n` backslashes in front of `@` / `\@`  (n ≥ 1)
  | var (name : Name)           -- branch 2: `@name@` not preceded by a backslash
  | escaped (name : Name)       -- branch 3: `\@name\@`
  deriving Repr, DecidableEq

/-- the source text a segment stands for -/
def Seg.src : Seg → List Char
  | .lit c => [c]
  | .esc n => List.replicate (2 * n) '\\'
  | .var nm => '@' :: (nm ++ ['@'])
  | .escaped nm => '\\' :: '@' :: (nm ++ ['\\', '@'])

/-- does the source text of the segment end in a backslash (for the look-behind of the next match) -/
def Seg.endsBs : Seg → Bool
  | .lit c => isBs c
  | .esc _ => true
  | _ => false

/-- `[-a-zA-Z0-9_]+` followed by the literal `close` : (name, text after `close`) -/
def nameThen (close : List Char) (r : List Char) : Option (Name × List Char) :=
  let nm := r.takeWhile isNameChar
  let after := r.dropWhile isNameChar
  if nm.isEmpty then none
  else if close.isPrefixOf after then some (nm, after.drop close.length) else none

/-- branch 1 : `(?:\\\\)+(?=\\?@)` — with `k` backslashes at the head, the greedy `+` takes `k/2` pairs; the
look-ahead (optional backslash, then `@`) holds for that choice iff the run is followed by `@`, and
for no shorter choice otherwise -/
def matchEsc (s : List Char) : Option (Seg × List Char) :=
  let k := (s.takeWhile isBs).length
  if 2 ≤ k && (s.dropWhile isBs).head? == some '@' then some (.esc (k / 2), s.drop (2 * (k / 2))) else none

/-- branch 2 : `(?<!\\)@(?P<variable>[-a-zA-Z0-9_]+)@` -/
def matchVar (prevBs : Bool) (s : List Char) : Option (Seg × List Char) :=
  match s with
  | '@' :: r => if prevBs then none else (nameThen ['@'] r).map fun (nm, r') => (.var nm, r')
  | _ => none

/-- branch 3 : `(?P<escaped>\\@[-a-zA-Z0-9_]+\\@)` -/
def matchEscaped (s : List Char) : Option (Seg × List Char) :=
  match s with
  | '\\' :: '@' :: r => (nameThen ['\\', '@'] r).map fun (nm, r') => (.escaped nm, r')
  | _ => none

/-- Try the alternation (in order) at the head of `s`; `prevBs` = the character before `s` is a
backslash (look-behind of branch 2).  Returns the match and the text after it. -/
def matchAt (prevBs : Bool) (s : List Char) : Option (Seg × List Char) :=
  match matchEsc s with
  | some x => some x
  | none =>
    match matchVar prevBs s with
    | some x => some x
    | none => matchEscaped s

/-- leftmost, non-overlapping matches: the loop of `re.sub` (fuel = length of the text suffices) -/
def scan : Nat → Bool → List Char → List Seg
  | 0, _, _ => []
  | _ + 1, _, [] => []
  | f + 1, p, c :: r =>
    match matchAt p (c :: r) with
    | some (sg, rest) => sg :: scan f sg.endsBs rest
    | none => .lit c :: scan f (isBs c) r

def segments (s : List Char) : List Seg := scan s.length false s

/-- `variable_replace` : what each match is replaced by -/
def render (d : Data) : Seg → List Char
  | .lit c => [c]
  | .esc n => List.replicate n '\\'
  | .var nm => match d.get? nm with
    | some v => v.pyStr
    | none => []
  | .escaped nm => '@' :: (nm ++ ['@'])

def segMissing (d : Data) : Seg → Option Name
  | .var nm => if (d.get? nm).isNone then some nm else none
  | _ => none

/-- `do_replacement_meson` : text -/
def substMeson (d : Data) (s : List Char) : List Char := (segments s).flatMap (render d)

/-- `do_replacement_meson` : missing variables (in order of occurrence; a set in Python) -/
def missingMeson (d : Data) (s : List Char) : List Name := (segments s).filterMap (segMissing d)

/-! ### `str.split()` and friends -/

def splitWsAux : List Char → List Char → List (List Char)
  | [], cur => if cur.isEmpty then [] else [cur.reverse]
  | c :: r, cur =>
    if isSpace c then
      (if cur.isEmpty then splitWsAux r [] else cur.reverse :: splitWsAux r [])
    else splitWsAux r (c :: cur)

/-- `s.split()` -/
def splitWs (s : List Char) : List (List Char) := splitWsAux s []

/-- `p in s` for strings -/
def hasSub (p : List Char) : List Char → Bool
  | [] => p.isEmpty
  | c :: r => p.isPrefixOf (c :: r) || hasSub p r

def joinSp : List (List Char) → List Char
  | [] => []
  | [x] => x
  | x :: y :: r => x ++ ' ' :: joinSp (y :: r)

def sMesondefine : List Char := "#mesondefine".toList
def sCmakedefine : List Char := "cmakedefine".toList
def sCmakedefine01 : List Char := "cmakedefine01".toList
def sDefine : List Char := "#define ".toList
def sUndef : List Char := "#undef ".toList
def sUndefOpen : List Char := "/* #undef ".toList
def sUndefClose : List Char := " */\n".toList

/-- `re.search(r'#\s*cmakedefine', line)` -/
def hasCmakeDefine : List Char → Bool
  | [] => false
  | c :: r => (c == '#' && startsWith (r.dropWhile isSpace) sCmakedefine) || hasCmakeDefine r

/-! ### `#mesondefine` -/

/-- `do_define_meson` -/
def defineMeson (d : Data) (line : List Char) : Except Err (List Char) :=
  match splitWs line with
  | [_, nm] =>
    match d.get? nm with
    | none => .ok (sUndefOpen ++ nm ++ sUndefClose)
    | some (.str v) => .ok (substMeson d (strip (sDefine ++ nm ++ ' ' :: v) ++ ['\n']))
    | some (.bool true) => .ok (sDefine ++ nm ++ ['\n'])
    | some (.bool false) => .ok (sUndef ++ nm ++ ['\n'])
    | some (.int i) => .ok (sDefine ++ nm ++ ' ' :: (toString i).toList ++ ['\n'])
  | _ => .error .defineTokens

/-- result of one template line -/
structure LineOut where
  text : List Char
  missing : List Name
  isDefine : Bool
  deriving Repr, DecidableEq

def isMesonDefineLine (line : List Char) : Bool := startsWith (lstrip line) sMesondefine

/-- body of the loop of `do_conf_str_meson` -/
def lineMeson (d : Data) (line : List Char) : Except Err LineOut :=
  if isMesonDefineLine line then
    (defineMeson d line).map fun t => ⟨t, [], true⟩
  else if hasCmakeDefine line then .error .formatError
  else .ok ⟨substMeson d line, missingMeson d line, false⟩

def mapLines (f : List Char → Except Err LineOut) : List (List Char) → Except Err (List LineOut)
  | [] => .ok []
  | l :: ls =>
    match f l with
    | .error e => .error e
    | .ok o =>
      match mapLines f ls with
      | .error e => .error e
      | .ok os => .ok (o :: os)

/-- what `do_conf_str` returns: lines, missing variables, `confdata_useless` -/
structure ConfOut where
  lines : List (List Char)
  missing : List Name
  useless : Bool
  deriving Repr, DecidableEq

def collect (d : Data) (os : List LineOut) : ConfOut :=
  ⟨os.map (·.text), os.flatMap (·.missing),
   d.isEmpty && os.all (fun o => !o.isDefine && o.missing.isEmpty)⟩

/-- `do_conf_str_meson` -/
def confStrMeson (d : Data) (ls : List (List Char)) : Except Err ConfOut :=
  (mapLines (lineMeson d) ls).map (collect d)

/-! ### cmake formats -/

/-- complement of `character_regex = [^a-zA-Z0-9_/.+\-]` -/
def isCmakeChar (c : Char) : Bool :=
  isAlnum c || c == '_' || c == '/' || c == '.' || c == '+' || c == '-'

/-- `variable_get` : value text and updated missing list -/
def varGet (d : Data) (nm : Name) (m : List Name) : List Char × List Name :=
  match d.get? nm with
  | some v => (v.cmakeStr, m)
  | none => ([], nm :: m)

/-- `line.find('@')` on the text after the opening `@` : (text before, text after) -/
def splitAt : List Char → Option (List Char × List Char)
  | [] => none
  | c :: r => if c == '@' then some ([], r) else (splitAt r).map fun (a, b) => (c :: a, b)

/-- the `while bracket_count > 0` loop: text after `${` ↦ (text up to the matching `}`, text after it) -/
def bracket : Nat → List Char → List Char → Except Err (List Char × List Char)
  | _, [], _ => .error .incomplete
  | cnt, '$' :: '{' :: r, acc => bracket (cnt + 1) r ('{' :: '$' :: acc)
  | cnt, '}' :: r, acc => if cnt ≤ 1 then .ok (acc.reverse, r) else bracket (cnt - 1) r ('}' :: acc)
  | cnt, c :: r, acc =>
    if c == '@' || c == '\n' then bracket cnt r (c :: acc)
    else if !isCmakeChar c then .error .invalidChar
    else bracket cnt r (c :: acc)

/-- `parse_line` of `do_replacement_cmake`: `pre` is `line[:index]` reversed, `rest` is `line[index:]`.
One unit of fuel per loop iteration (and per nesting level); after a substitution the scan resumes
behind the substituted text, so `rest.length + 1` fuel always suffices (`Props.C14.cmake_terminates`). -/
def parseLine (atOnly : Bool) (d : Data) :
    Nat → List Char → List Char → List Name → Except Err (List Char × List Name)
  | 0, _, _, _ => .error .fuel
  | _ + 1, pre, [], m => .ok (pre.reverse, m)
  | f + 1, pre, '@' :: r, m =>
    match splitAt r with
    | some (nm, after) =>
      if !nm.isEmpty && nm.all isCmakeChar then
        let (v, m') := varGet d nm m
        -- line = line[:index] + value + line[next_at+1:]; index += len(value); continue
        parseLine atOnly d f (v.reverse ++ pre) after m'
      else parseLine atOnly d f ('@' :: pre) r m
    | none => parseLine atOnly d f ('@' :: pre) r m
  | f + 1, pre, '$' :: '{' :: r, m =>
    if atOnly then parseLine atOnly d f ('$' :: pre) ('{' :: r) m
    else
      match bracket 1 r [] with
      | .error e => .error e
      | .ok (inner, after) =>
        match parseLine atOnly d f [] inner m with
        | .error e => .error e
        | .ok (nm, m1) =>
          if nm.any (fun c => !isCmakeChar c) then .error .invalidChar
          else
            let (v, m2) := varGet d nm m1
            -- line = line[:index] + value + line[end_bracket:]; index += len(value); continue
            parseLine atOnly d f (v.reverse ++ pre) after m2
  | f + 1, pre, c :: r, m => parseLine atOnly d f (c :: pre) r m

/-- `do_replacement_cmake` -/
def substCmake (atOnly : Bool) (d : Data) (fuel : Nat) (line : List Char) :
    Except Err (List Char × List Name) :=
  parseLine atOnly d fuel [] line []

/-- `do_define_cmake` -/
def defineCmake (atOnly : Bool) (d : Data) (fuel : Nat) (line : List Char) : Except Err (List Char) :=
  let bool01 := hasSub sCmakedefine01 line
  match splitWs ((lstrip line).drop 1) with
  | _ :: nm :: extra =>
    match d.get? nm with
    | none =>
      if bool01 then .ok (sDefine ++ nm ++ " 0\n".toList) else .ok (sUndefOpen ++ nm ++ sUndefClose)
    | some v =>
      if !bool01 && !v.truthy then .ok (sUndefOpen ++ nm ++ sUndefClose)
      else
        let result :=
          if bool01 then (if v.truthy then ['1'] else ['0'])
          else joinSp (extra.map fun tok => match d.get? tok with
            | some w => w.pyStr
            | none => tok)
        let text := strip (sDefine ++ nm ++ ' ' :: result) ++ ['\n']
        (substCmake atOnly d fuel text).map (·.1)
  | _ => .error .indexError

def isCmakeDefineLine (line : List Char) : Bool :=
  match lstrip line with
  | '#' :: t => startsWith (lstrip t) sCmakedefine
  | _ => false

/-- body of the loop of `do_conf_str_cmake` -/
def lineCmake (atOnly : Bool) (d : Data) (fuel : Nat) (line : List Char) : Except Err LineOut :=
  if isCmakeDefineLine line then
    (defineCmake atOnly d fuel line).map fun t => ⟨t, [], true⟩
  else if hasSub sMesondefine line then .error .formatError
  else (substCmake atOnly d fuel line).map fun (t, m) => ⟨t, m, false⟩

/-- `do_conf_str_cmake` -/
def confStrCmake (atOnly : Bool) (d : Data) (fuel : Nat) (ls : List (List Char)) : Except Err ConfOut :=
  (mapLines (lineCmake atOnly d fuel) ls).map (collect d)

inductive Format where
  | meson | cmake | cmakeAt
  deriving Repr, DecidableEq

/-- `do_conf_str` -/
def confStr (fmt : Format) (d : Data) (fuel : Nat) (ls : List (List Char)) : Except Err ConfOut :=
  match fmt with
  | .meson => confStrMeson d ls
  | .cmake => confStrCmake false d fuel ls
  | .cmakeAt => confStrCmake true d fuel ls

/-! ### file layer of `do_conf_file` : `open(newline='').readlines()` and `writelines` -/

def splitLinesAux : List Char → List Char → List (List Char)
  | [], cur => if cur.isEmpty then [] else [cur.reverse]
  | '\r' :: '\n' :: r, cur => ('\n' :: '\r' :: cur).reverse :: splitLinesAux r []
  | c :: r, cur =>
    if c == '\n' || c == '\r' then (c :: cur).reverse :: splitLinesAux r []
    else splitLinesAux r (c :: cur)

/-- `readlines()` with `newline=''` : lines keep their `\n`, `\r\n` or `\r` -/
def splitLines (s : List Char) : List (List Char) := splitLinesAux s []

/-- `do_conf_file` : content of the output file -/
def confFile (fmt : Format) (d : Data) (fuel : Nat) (text : List Char) : Except Err (List Char × List Name × Bool) :=
  (confStr fmt d fuel (splitLines text)).map fun o => (o.lines.flatten, o.missing, o.useless)

/-! ### byte layer of `do_conf_file` : `open(src, encoding=…)` … `open(dst, 'w', encoding=…)` -/

abbrev Bytes := List UInt8

/-- a text encoding as the file layer uses it: `decode` fails on invalid input (`UnicodeDecodeError`),
`encode` fails on characters the encoding lacks (`UnicodeEncodeError`) -/
structure Codec where
  decode : Bytes → Option (List Char)
  encode : List Char → Option Bytes

inductive FileErr where
  | read            -- MesonException 'Could not read input file …'
  | write           -- MesonException 'Could not write output file …'
  | conf (e : Err)  -- error of the substitution itself
  deriving Repr, DecidableEq

/-- `do_conf_file` on bytes: decode with `encoding`, `readlines`, substitute, `writelines`, encode with the
*same* `encoding` -/
def confFileBytes (c : Codec) (fmt : Format) (d : Data) (fuel : Nat) (src : Bytes) : Except FileErr Bytes :=
  match c.decode src with
  | none => .error .read
  | some text =>
    match confFile fmt d fuel text with
    | .error e => .error (.conf e)
    | .ok (out, _, _) =>
      match c.encode out with
      | none => .error .write
      | some b => .ok b

/-- iso-8859-1 : byte = code point -/
def latin1 : Codec where
  decode b := some (b.map fun x => Char.ofNat x.toNat)
  encode t := t.mapM fun c => if c.toNat < 256 then some c.toNat.toUInt8 else none

/-- utf-8 (strict, no BOM handling) -/
def utf8 : Codec where
  decode b := (String.fromUTF8? (ByteArray.mk b.toArray)).map String.toList
  encode t := some (String.ofList t).toUTF8.toList

/-! ### header without a template : `_dump_c_header` -/

structure Entry where
  key : Name
  val : Val
  desc : Option (List Char)
  deriving Repr, DecidableEq

/-- code-point lexicographic `<=` on strings (Python `str` order) -/
def strLe : List Char → List Char → Bool
  | [], _ => true
  | _ :: _, [] => false
  | a :: as, b :: bs => a.toNat < b.toNat || (a == b && strLe as bs)

def insertEntry (e : Entry) : List Entry → List Entry
  | [] => [e]
  | x :: xs => if strLe e.key x.key then e :: x :: xs else x :: insertEntry e xs

/-- `sorted(cdata.keys())` -/
def sortEntries : List Entry → List Entry
  | [] => []
  | e :: es => insertEntry e (sortEntries es)

/-- line boundaries of `str.splitlines()` -/
def isLineBreak (c : Char) : Bool :=
  let n := c.toNat
  n == 10 || n == 11 || n == 12 || n == 13 || n == 28 || n == 29 || n == 30 || n == 0x85 || n == 0x2028 || n == 0x2029

def splitlinesAux : List Char → List Char → List (List Char)
  | [], cur => if cur.isEmpty then [] else [cur.reverse]
  | '\r' :: '\n' :: r, cur => cur.reverse :: splitlinesAux r []
  | c :: r, cur =>
    if isLineBreak c then cur.reverse :: splitlinesAux r []
    else splitlinesAux r (c :: cur)

/-- `desc.splitlines()` (line breaks dropped) -/
def pySplitlines (s : List Char) : List (List Char) := splitlinesAux s []

def joinWith (sep : List Char) : List (List Char) → List Char
  | [] => []
  | [x] => x
  | x :: y :: r => x ++ sep ++ joinWith sep (y :: r)

inductive HdrFormat where
  | c | nasm
  deriving Repr, DecidableEq

def hdrPrefix : HdrFormat → Char
  | .c => '#'
  | .nasm => '%'

def formatDesc : HdrFormat → List Char → List Char
  | .c, desc => "/* ".toList ++ desc ++ " */\n".toList
  | .nasm, desc => "; ".toList ++ joinWith "\n; ".toList (pySplitlines desc) ++ ['\n']

/-- the directive written for one key -/
def directive (f : HdrFormat) (k : Name) : Val → List Char
  | .bool true => hdrPrefix f :: "define ".toList ++ k ++ "\n\n".toList
  | .bool false => hdrPrefix f :: "undef ".toList ++ k ++ "\n\n".toList
  | v => hdrPrefix f :: "define ".toList ++ k ++ ' ' :: v.pyStr ++ "\n\n".toList

def entryText (f : HdrFormat) (e : Entry) : List Char :=
  (match e.desc with
   | some ds => if ds.isEmpty then [] else formatDesc f ds
   | none => []) ++ directive f e.key e.val

def hdrPrelude (f : HdrFormat) (guard : Option (List Char)) : List Char :=
  match f with
  | .c =>
    let mid := match guard with
      | some m => if m.isEmpty then "#pragma once".toList
                  else "#ifndef ".toList ++ m ++ "\n#define ".toList ++ m
      | none => "#pragma once".toList
    "/*\n * Autogenerated by the Meson build system.\n * Do not edit, your changes will be lost.\n */\n\n".toList
      ++ mid ++ "\n\n".toList
  | .nasm => "; Autogenerated by the Meson build system.\n; Do not edit, your changes will be lost.\n\n".toList

def hdrEpilogue (f : HdrFormat) (guard : Option (List Char)) : List Char :=
  match f, guard with
  | .c, some m => if m.isEmpty then [] else "#endif\n".toList
  | _, _ => []

/-- `_dump_c_header` -/
def dumpHeader (f : HdrFormat) (guard : Option (List Char)) (es : List Entry) : List Char :=
  hdrPrelude f guard ++ (sortEntries es).flatMap (entryText f) ++ hdrEpilogue f guard

end MesonModel.Template
