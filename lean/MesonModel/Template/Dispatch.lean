/-
C14 — the glue between the interpreter function and the substitution core: executable model of the action
dispatch of `Interpreter.func_configure_file` (`mesonbuild/interpreter/interpreter.py`).

Inputs of the model = what the call site decides: which of the three action keywords are given
(`configuration:` as a dict or as a `configuration_data()` object — with *any* data, the empty one included —,
`command:`, `copy:`), `capture:`, the input files (their bytes), `format:`, `output_format:`, `macro_name:`,
the codec of `encoding:`.  What a `command:` prints / writes is an external effect and therefore a parameter.

The code counts the actions with `kwargs[x] not in [None, False]` and then selects the branch with the chain
`kwargs['configuration'] is not None` / `elif kwargs['command'] is not None` / `elif kwargs['copy']`;
both are modelled literally (`presentActions`, `cfBranch`) so that their agreement is a theorem, not a definition.
Core Lean only.
-/
import MesonModel.Template.Model

namespace MesonModel.Template

/-- value of the `configuration:` keyword -/
inductive ConfKw where
  | absent                      -- `None`
  | dict (es : List Entry)      -- `configuration: {…}`; wrapped into `ConfigurationData(conf)` (no descriptions)
  | cdata (es : List Entry)     -- a `configuration_data()` object
  deriving Repr, DecidableEq

/-- `kwargs['configuration'] is not None`, and the `ConfigurationData` the branch works with -/
def ConfKw.entries? : ConfKw → Option (List Entry)
  | .absent => none
  | .dict es => some (es.map fun e => ⟨e.key, e.val, none⟩)
  | .cdata es => some es

def dataOf (es : List Entry) : Data := es.map fun e => (e.key, e.val)

inductive Action where
  | command | configuration | copy
  deriving Repr, DecidableEq

inductive OutFmt where
  | c | nasm | json
  deriving Repr, DecidableEq

structure CfArgs where
  configuration : ConfKw
  command : Bool                 -- `command:` given (the type check rejects an empty list, so given = non-empty)
  copy : Bool                    -- `copy:` (default false)
  capture : Bool
  inputs : List Bytes            -- contents of the `input:` files, in order
  format : Format
  outputFormat : OutFmt
  macroName : Option (List Char)
  cmdStdout : List Char          -- external: what the command prints
  cmdWrites : Option Bytes       -- external: what the command leaves at `@OUTPUT@`

inductive CfErr where
  | noAction                     -- 'Must specify an action with one of these keyword arguments'
  | twoActions (a b : Action)    -- 'Must not specify both {a} and {b}' (sorted)
  | threeActions
  | captureNeedsCommand
  | configManyInputs             -- 'At most one input file can given in configuration mode'
  | copyNeedsOneInput
  | file (e : FileErr)           -- error of `do_conf_file`
  | captureEncode                -- captured output not representable in `encoding:`
  deriving Repr, DecidableEq

/-- content of the output file after the call -/
inductive OutFile where
  | untouched                    -- meson itself wrote nothing
  | bytes (b : Bytes)
  | json (es : List Entry)       -- `json.dump({k: v}, sort_keys=True)`: these entries, in this order
  deriving Repr, DecidableEq

structure CfOut where
  action : Action
  out : OutFile
  missing : List Name            -- names listed in the "not present in the given configuration data" warning (a set)
  useless : Bool                 -- `confdata_useless` (empty data and nothing to substitute)
  used : Bool                    -- `conf.used = True` was executed
  deriving Repr, DecidableEq

/-- `sorted(x for x in ('configuration', 'command', 'copy') if kwargs[x] not in [None, False])` -/
def presentActions (a : CfArgs) : List Action :=
  (if a.command then [Action.command] else []) ++
  (if a.configuration.entries?.isSome then [Action.configuration] else []) ++
  (if a.copy then [Action.copy] else [])

/-- `do_conf_file` with everything it returns: bytes written, missing variables, `confdata_useless` -/
def confFileFull (c : Codec) (fmt : Format) (d : Data) (fuel : Nat) (src : Bytes) :
    Except FileErr (Bytes × List Name × Bool) :=
  match c.decode src with
  | none => .error .read
  | some text =>
    match confFile fmt d fuel text with
    | .error e => .error (.conf e)
    | .ok (out, miss, useless) =>
      match c.encode out with
      | none => .error .write
      | some b => .ok (b, miss, useless)

/-- `dump_conf_header` : always written as utf-8 -/
def headerFile (ofmt : OutFmt) (guard : Option (List Char)) (es : List Entry) : OutFile :=
  match ofmt with
  | .json => .json (sortEntries es)
  | .c => .bytes ((String.ofList (dumpHeader .c guard es)).toUTF8.toList)
  | .nasm => .bytes ((String.ofList (dumpHeader .nasm guard es)).toUTF8.toList)

/-- the `if … is not None / elif … is not None / elif kwargs['copy']` chain ("Perform the appropriate action") -/
def cfBranch (c : Codec) (fuel : Nat) (a : CfArgs) : Except CfErr CfOut :=
  match a.configuration.entries? with
  | some es =>
    if a.inputs.length > 1 then .error .configManyInputs
    else
      match a.inputs with
      | src :: _ =>
        match confFileFull c a.format (dataOf es) fuel src with
        | .error e => .error (.file e)
        | .ok (b, miss, useless) => .ok ⟨.configuration, .bytes b, miss, useless, true⟩
      | [] => .ok ⟨.configuration, headerFile a.outputFormat a.macroName es, [], false, true⟩
  | none =>
    if a.command then
      if a.capture then
        match c.encode a.cmdStdout with
        | some b => .ok ⟨.command, .bytes b, [], false, false⟩
        | none => .error .captureEncode
      else
        .ok ⟨.command, (match a.cmdWrites with | some b => .bytes b | none => .untouched), [], false, false⟩
    else if a.copy then
      match a.inputs with
      | [src] => .ok ⟨.copy, .bytes src, [], false, false⟩
      | _ => .error .copyNeedsOneInput
    else
      -- no branch of the chain taken: the function falls through and writes nothing
      .ok ⟨.copy, .untouched, [], false, false⟩

/-- `func_configure_file` up to (not including) the install bookkeeping -/
def cfRun (c : Codec) (fuel : Nat) (a : CfArgs) : Except CfErr CfOut :=
  match presentActions a with
  | [] => .error .noAction
  | [_] =>
    if a.capture && !a.command then .error .captureNeedsCommand
    else cfBranch c fuel a
  | [x, y] => .error (.twoActions x y)
  | _ => .error .threeActions

end MesonModel.Template
