/-
C14 — the cmake formats without carve-out: a data-independent *top-level* segmentation of a line
(literal character / `@name@` / `${inner}` up to its matching brace / a position where the scanner raises) and the
proof that the index scanner `parseLine` is, for every line, data and fuel, the left-to-right rendering of it.
For a `${inner}` segment the variable *name* is the result of the same scanner on `inner` (that is the documented
nesting `${${X}}`); the value of that name goes to the output and is never read again.
-/
import MesonModel.Template.CmakeSegs

namespace MesonModel.Template
open MesonModel.Py

inductive TSeg where
  | lit (c : Char)
  | atVar (nm : Name)
  | brace (inner : List Char)     -- `${inner}` ; `inner` may itself contain placeholders
  | bad (e : Err)                 -- the scanner raises `e` when it reaches this position
  deriving Repr, DecidableEq

def TSeg.src : TSeg → List Char
  | .lit c => [c]
  | .atVar nm => '@' :: (nm ++ ['@'])
  | .brace inner => '$' :: '{' :: (inner ++ ['}'])
  | .bad _ => []

/-- top-level segmentation; takes no data.  Same fuel discipline as `parseLine` (one unit per segment). -/
def cmakeTop (atOnly : Bool) : Nat → List Char → List TSeg
  | 0, _ => [.bad .fuel]
  | _ + 1, [] => []
  | f + 1, '@' :: r =>
    match splitAt r with
    | some (nm, after) =>
      if !nm.isEmpty && nm.all isCmakeChar then .atVar nm :: cmakeTop atOnly f after
      else .lit '@' :: cmakeTop atOnly f r
    | none => .lit '@' :: cmakeTop atOnly f r
  | f + 1, '$' :: '{' :: r =>
    if atOnly then .lit '$' :: cmakeTop atOnly f ('{' :: r)
    else
      match bracket 1 r [] with
      | .error e => [.bad e]
      | .ok (inner, after) => .brace inner :: cmakeTop atOnly f after
  | f + 1, c :: r => .lit c :: cmakeTop atOnly f r

/-- left-to-right rendering of a top-level segmentation: `pre` is the output so far (reversed; only ever
prepended to), `m` the names reported so far.  The name of a `${inner}` segment is what the scanner makes of
`inner`; it must consist of name characters; its value is appended to the output. -/
def runTop (atOnly : Bool) (d : Data) : Nat → List TSeg → List Char → List Name → Except Err (List Char × List Name)
  | 0, _, _, _ => .error .fuel
  | _ + 1, [], pre, m => .ok (pre.reverse, m)
  | f + 1, .lit c :: t, pre, m => runTop atOnly d f t (c :: pre) m
  | f + 1, .atVar nm :: t, pre, m => runTop atOnly d f t ((varVal d nm).reverse ++ pre) (varMiss d nm ++ m)
  | f + 1, .brace inner :: t, pre, m =>
    match parseLine atOnly d f [] inner m with
    | .error e => .error e
    | .ok (nm, m1) =>
      if nm.any (fun c => !isCmakeChar c) then .error .invalidChar
      else runTop atOnly d f t ((varVal d nm).reverse ++ pre) (varMiss d nm ++ m1)
  | _ + 1, .bad e :: _, _, _ => .error e

/-- **the scanner is the rendering of the top-level segmentation** — every line, every data, every fuel -/
theorem parseLine_eq_runTop (atOnly : Bool) (d : Data) (f : Nat) (pre rest : List Char) (m : List Name) :
    parseLine atOnly d f pre rest m = runTop atOnly d f (cmakeTop atOnly f rest) pre m := by
  fun_induction parseLine atOnly d f pre rest m
  case case1 => simp [cmakeTop, runTop]
  case case2 => simp [cmakeTop, runTop]
  case case3 f pre r m nm after hs hc v m' hv ih =>
    rw [varGet_eq] at hv
    simp only [Prod.mk.injEq] at hv
    obtain ⟨rfl, rfl⟩ := hv
    simp only [cmakeTop, hs, hc, if_true, runTop]
    exact ih
  case case4 f pre r m nm after hs hc ih =>
    simp only [cmakeTop, hs, hc, if_false, Bool.false_eq_true, runTop]
    exact ih
  case case5 f pre r m hs ih =>
    simp only [cmakeTop, hs, runTop]
    exact ih
  case case6 f pre r m hat ih =>
    subst hat
    simp only [cmakeTop, if_true, runTop]
    exact ih
  case case7 f pre r m hat e hb =>
    have : atOnly = false := by simpa using hat
    subst this
    simp [cmakeTop, hb, runTop]
  case case8 f pre r m hat inner after hb e hn ih =>
    have : atOnly = false := by simpa using hat
    subst this
    simp [cmakeTop, hb, runTop, hn]
  case case9 f pre r m hat inner after hb nm m1 hn hinv ih =>
    have : atOnly = false := by simpa using hat
    subst this
    simp [cmakeTop, hb, runTop, hn, hinv]
  case case10 f pre r m hat inner after hb nm m1 hn hinv v m' hv ih2 ih1 =>
    have : atOnly = false := by simpa using hat
    subst this
    rw [varGet_eq] at hv
    simp only [Prod.mk.injEq] at hv
    obtain ⟨rfl, rfl⟩ := hv
    simp only [cmakeTop, Bool.false_eq_true, if_false, hb, runTop, hn, hinv]
    exact ih1
  case case11 f pre c r m hc1 hc2 ih =>
    rw [cmakeTop]
    · simp only [runTop]
      exact ih
    · exact fun e => hc1 e
    · intro r' e1 e2; exact hc2 r' e1 e2

/-- the output accumulated so far is never read: rendering with a prefix = the prefix, then the rendering -/
theorem runTop_append (atOnly : Bool) (d : Data) (f : Nat) (segs : List TSeg) (pre : List Char) (m : List Name) :
    ∀ pre2, runTop atOnly d f segs (pre ++ pre2) m =
      (runTop atOnly d f segs pre m).map fun (t, mm) => (pre2.reverse ++ t, mm) := by
  fun_induction runTop atOnly d f segs pre m
  all_goals intro pre2
  case case1 => simp [runTop, Except.map]
  case case2 => simp [runTop, Except.map]
  case case3 f c t pre m ih =>
    have := ih pre2
    simp only [runTop, ← List.cons_append]
    exact this
  case case4 f nm t pre m ih =>
    have := ih pre2
    simp only [runTop, ← List.append_assoc]
    exact this
  case case5 f inner t pre m e hn =>
    simp [runTop, hn, Except.map]
  case case6 f inner t pre m nm m1 hn hinv =>
    simp [runTop, hn, hinv, Except.map]
  case case7 f inner t pre m nm m1 hn hinv ih =>
    have := ih pre2
    simp only [runTop, hn, hinv, ← List.append_assoc]
    exact this
  case case8 => simp [runTop, Except.map]

theorem runTop_pre (atOnly : Bool) (d : Data) (f : Nat) (segs : List TSeg) (pre : List Char) (m : List Name) :
    runTop atOnly d f segs pre m =
      (runTop atOnly d f segs [] m).map fun (t, mm) => (pre.reverse ++ t, mm) := by
  simpa using runTop_append atOnly d f segs [] m pre

/-- the top-level segments partition the scanned part of the line -/
theorem cmakeTop_partition (atOnly : Bool) (f : Nat) (line : List Char) :
    (∀ e, TSeg.bad e ∉ cmakeTop atOnly f line) → (cmakeTop atOnly f line).flatMap TSeg.src = line := by
  fun_induction cmakeTop atOnly f line
  all_goals intro h
  case case1 => exact absurd (by simp) (h .fuel)
  case case2 => rfl
  case case3 f r nm after hs hc ih =>
    have := (splitAt_some hs).1
    simp [TSeg.src, ih (fun e he => h e (List.mem_cons_of_mem _ he)), this]
  case case4 f r nm after hs hc ih =>
    simp [TSeg.src, ih (fun e he => h e (List.mem_cons_of_mem _ he))]
  case case5 f r hs ih =>
    simp [TSeg.src, ih (fun e he => h e (List.mem_cons_of_mem _ he))]
  case case6 f r hat ih =>
    simp [TSeg.src, ih (fun e he => h e (List.mem_cons_of_mem _ he))]
  case case7 f r hat e hb => exact absurd (by simp) (h e)
  case case8 f r hat inner after hb ih =>
    have := bracket_some 1 r [] hb
    simp at this
    simp [TSeg.src, ih (fun e he => h e (List.mem_cons_of_mem _ he)), this]
  case case9 f c r hc1 hc2 ih =>
    simp [TSeg.src, ih (fun e he => h e (List.mem_cons_of_mem _ he))]

/-- with enough fuel the segmentation never runs out of it -/
theorem cmakeTop_fuel (atOnly : Bool) (f : Nat) (line : List Char) :
    line.length < f → TSeg.bad .fuel ∉ cmakeTop atOnly f line := by
  fun_induction cmakeTop atOnly f line
  all_goals intro hlen
  all_goals try (simp at hlen)
  case case2 => simp
  case case3 f r nm after hs hc ih =>
    have hl := congrArg List.length (splitAt_some hs).1
    simp at hl
    simp only [List.mem_cons, reduceCtorEq, false_or]
    exact ih (by omega)
  case case4 f r nm after hs hc ih =>
    simp only [List.mem_cons, reduceCtorEq, false_or]; exact ih hlen
  case case5 f r hs ih =>
    simp only [List.mem_cons, reduceCtorEq, false_or]; exact ih hlen
  case case6 f r hat ih =>
    simp only [List.mem_cons, reduceCtorEq, false_or]; exact ih (by simp; omega)
  case case7 f r hat e hb =>
    simp only [List.mem_singleton, TSeg.bad.injEq]
    intro he; subst he
    exact bracket_ne_fuel _ _ _ hb
  case case8 f r hat inner after hb ih =>
    have hl := bracket_length hb
    simp only [List.mem_cons, reduceCtorEq, false_or]; exact ih (by omega)
  case case9 f c r hc1 hc2 ih =>
    simp only [List.mem_cons, reduceCtorEq, false_or]; exact ih hlen

end MesonModel.Template
