/-
C14 — helper lemmas for the dispatch model (`Dispatch.lean`) and for the `#cmakedefine` table.
-/
import MesonModel.Template.Dispatch
import MesonModel.Template.CmakeSegs

namespace MesonModel.Template
open MesonModel.Py

/-! ### whole texts without define directives -/

theorem lineMeson_nohash (d : Data) {l : List Char} (h : '#' ∉ l) :
    lineMeson d l = .ok ⟨substMeson d l, missingMeson d l, false⟩ := by
  simp [lineMeson, isMesonDefineLine_false h, hasCmakeDefine_false h]

theorem lineCmake_nohash (atOnly : Bool) (d : Data) (fuel : Nat) {l : List Char} (h : '#' ∉ l) :
    lineCmake atOnly d fuel l = (substCmake atOnly d fuel l).map fun (t, m) => ⟨t, m, false⟩ := by
  simp [lineCmake, isCmakeDefineLine_false h, hasSub_false (p := sMesondefine) (c := '#') (by decide) h]

/-- meson format, text without `#`: every line is `substMeson` of the line, the report is the union of the
lines' reports -/
theorem confFile_meson_nohash (d : Data) (fuel : Nat) (text : List Char) (h : '#' ∉ text) :
    confFile .meson d fuel text =
      .ok ((splitLines text).flatMap (substMeson d), (splitLines text).flatMap (missingMeson d),
           d.isEmpty && (splitLines text).all (fun l => (missingMeson d l).isEmpty)) := by
  have hl : ∀ l ∈ splitLines text, lineMeson d l = .ok ⟨substMeson d l, missingMeson d l, false⟩ := by
    intro l hl
    exact lineMeson_nohash d (fun hh => h (mem_of_mem_splitLines _ _ hl _ hh))
  simp only [confFile, confStr, confStrMeson, mapLines_ok _ _ _ hl, Except.map, collect, List.map_map,
    List.flatMap_map, List.all_map]
  simp [Function.comp_def, List.flatMap_def]

/-! ### the dispatch -/

theorem cfRun_single (c : Codec) (fuel : Nat) (a : CfArgs) (x : Action) (h : presentActions a = [x]) :
    cfRun c fuel a = if a.capture && !a.command then .error .captureNeedsCommand else cfBranch c fuel a := by
  simp [cfRun, h]

/-- configuration given, the other two not -/
theorem presentActions_conf (a : CfArgs) (es : List Entry) (hconf : a.configuration.entries? = some es)
    (hcmd : a.command = false) (hcopy : a.copy = false) : presentActions a = [Action.configuration] := by
  simp [presentActions, hconf, hcmd, hcopy]

theorem strip_of_ends (a z : Char) (mid : List Char) (ha : isSpace a = false) (hz : isSpace z = false) :
    strip (a :: (mid ++ [z])) = a :: (mid ++ [z]) := by
  have h1 : lstrip (a :: (mid ++ [z])) = a :: (mid ++ [z]) := by
    simp [lstrip, List.dropWhile, ha]
  unfold strip
  rw [h1]
  unfold rstrip
  have : (a :: (mid ++ [z])).reverse = z :: (mid.reverse ++ [a]) := by simp
  rw [this]
  simp [List.dropWhile, hz]

/-- `"define "` (the text of `sDefine` after the `#`), opaque to `simp` -/
def sDefineTail : List Char := ['d', 'e', 'f', 'i', 'n', 'e', ' ']

theorem sDefine_cons : sDefine = '#' :: sDefineTail := by decide

/-- `'#define NAME X'.strip()` when X does not end in a blank: nothing to strip -/
theorem strip_define (nm tail : List Char) (z : Char) (hz : isSpace z = false) :
    strip (sDefine ++ nm ++ ' ' :: (tail ++ [z])) = sDefine ++ nm ++ ' ' :: (tail ++ [z]) := by
  have : sDefine ++ nm ++ ' ' :: (tail ++ [z]) = '#' :: ((sDefineTail ++ nm ++ ' ' :: tail) ++ [z]) := by
    rw [sDefine_cons]; simp only [List.cons_append, List.append_assoc]
  rw [this]
  exact strip_of_ends '#' z _ (by decide) hz

/-- `'#define NAME '.strip()` = `'#define NAME'` for a non-empty NAME whose last character is not blank -/
theorem strip_define_empty (nm0 : List Char) (z : Char) (hz : isSpace z = false) :
    strip (sDefine ++ (nm0 ++ [z]) ++ [' ']) = sDefine ++ (nm0 ++ [z]) := by
  have e1 : sDefine ++ (nm0 ++ [z]) ++ [' '] = '#' :: ((sDefineTail ++ nm0) ++ [z] ++ [' ']) := by
    rw [sDefine_cons]; simp only [List.cons_append, List.append_assoc]
  have e2 : sDefine ++ (nm0 ++ [z]) = '#' :: ((sDefineTail ++ nm0) ++ [z]) := by
    rw [sDefine_cons]; simp only [List.cons_append, List.append_assoc]
  have h1 : lstrip ('#' :: ((sDefineTail ++ nm0) ++ [z] ++ [' '])) = '#' :: ((sDefineTail ++ nm0) ++ [z] ++ [' ']) := by
    simp [lstrip, List.dropWhile, show isSpace '#' = false by decide]
  rw [e1, e2]
  unfold strip
  rw [h1]
  unfold rstrip
  have : ('#' :: ((sDefineTail ++ nm0) ++ [z] ++ [' '])).reverse
      = ' ' :: z :: ((sDefineTail ++ nm0).reverse ++ ['#']) := by simp
  rw [this]
  have hs : isSpace ' ' = true := by decide
  simp [List.dropWhile, hz, hs]

/-! ### `#cmakedefine` / `#cmakedefine01` -/

theorem at_not_mem_sDefine : '@' ∉ sDefine := by decide
theorem dollar_not_mem_sDefine : '$' ∉ sDefine := by decide

/-- the text `#define NAME <bit>` + newline holds no placeholder: the final replacement pass copies it -/
theorem define_bit_text (atOnly : Bool) (d : Data) (fuel : Nat) (nm : List Char) (bit : Char)
    (hb : bit = '1' ∨ bit = '0') (h1 : '@' ∉ nm) (h2 : '$' ∉ nm) (hf : nm.length + 12 ≤ fuel) :
    (substCmake atOnly d fuel (strip (sDefine ++ nm ++ ' ' :: [bit]) ++ ['\n'])).map (·.1) =
      .ok (sDefine ++ nm ++ [' ', bit, '\n']) := by
  have hsp : isSpace bit = false := by rcases hb with rfl | rfl <;> decide
  have hs := strip_define nm [] bit hsp
  simp only [List.nil_append] at hs
  rw [hs]
  have hb1 : bit ≠ '@' := by rcases hb with rfl | rfl <;> decide
  have hb2 : bit ≠ '$' := by rcases hb with rfl | rfl <;> decide
  have hlen : sDefine.length = 8 := by decide
  have m1 : '@' ∉ sDefine ++ nm ++ ' ' :: [bit] ++ ['\n'] := by
    simp only [List.mem_append, List.mem_cons, List.mem_nil_iff, or_false, not_or]
    exact ⟨⟨⟨at_not_mem_sDefine, h1⟩, by decide, fun e => hb1 e.symm⟩, by decide⟩
  have m2 : '$' ∉ sDefine ++ nm ++ ' ' :: [bit] ++ ['\n'] := by
    simp only [List.mem_append, List.mem_cons, List.mem_nil_iff, or_false, not_or]
    exact ⟨⟨⟨dollar_not_mem_sDefine, h2⟩, by decide, fun e => hb2 e.symm⟩, by decide⟩
  have := parseLine_plain atOnly d fuel [] (sDefine ++ nm ++ ' ' :: [bit] ++ ['\n']) [] m1 m2
    (by simp [hlen]; omega)
  unfold substCmake
  rw [this]
  simp [Except.map]

/-- `#define NAME` + newline (no value text) -/
theorem define_bare_text (atOnly : Bool) (d : Data) (fuel : Nat) (nm0 : List Char) (z : Char)
    (hz : isSpace z = false) (h1 : '@' ∉ nm0 ++ [z]) (h2 : '$' ∉ nm0 ++ [z]) (hf : (nm0 ++ [z]).length + 12 ≤ fuel) :
    (substCmake atOnly d fuel (strip (sDefine ++ (nm0 ++ [z]) ++ ' ' :: []) ++ ['\n'])).map (·.1) =
      .ok (sDefine ++ (nm0 ++ [z]) ++ ['\n']) := by
  rw [strip_define_empty nm0 z hz]
  have hlen : sDefine.length = 8 := by decide
  have m1 : '@' ∉ sDefine ++ (nm0 ++ [z]) ++ ['\n'] := by
    simp only [List.mem_append, List.mem_cons, List.mem_nil_iff, or_false, not_or] at h1 ⊢
    exact ⟨⟨at_not_mem_sDefine, h1⟩, by decide⟩
  have m2 : '$' ∉ sDefine ++ (nm0 ++ [z]) ++ ['\n'] := by
    simp only [List.mem_append, List.mem_cons, List.mem_nil_iff, or_false, not_or] at h2 ⊢
    exact ⟨⟨dollar_not_mem_sDefine, h2⟩, by decide⟩
  have := parseLine_plain atOnly d fuel [] (sDefine ++ (nm0 ++ [z]) ++ ['\n']) [] m1 m2
    (by simp [hlen] at hf ⊢; omega)
  unfold substCmake
  rw [this]
  simp [Except.map]

end MesonModel.Template
