/-
C14 — data-independent segmentation of a line for the cmake formats (specification side), and the proof
that the repaired index scanner `parseLine` computes exactly "render the segments": one pass, for all data.
-/
import MesonModel.Template.Lemmas

namespace MesonModel.Template
open MesonModel.Py

/-- one item of a cmake-format line: an unmatched character, `@name@`, or `${name}` -/
inductive CSeg where
  | lit (c : Char)
  | atVar (nm : Name)
  | braceVar (nm : Name)
  deriving Repr, DecidableEq

def CSeg.src : CSeg → List Char
  | .lit c => [c]
  | .atVar nm => '@' :: (nm ++ ['@'])
  | .braceVar nm => '$' :: '{' :: (nm ++ ['}'])

/-- what a segment is replaced by -/
def CSeg.text (d : Data) : CSeg → List Char
  | .lit c => [c]
  | .atVar nm => varVal d nm
  | .braceVar nm => varVal d nm

/-- what a segment adds to the missing variables -/
def CSeg.miss (d : Data) : CSeg → List Name
  | .lit _ => []
  | .atVar nm => varMiss d nm
  | .braceVar nm => varMiss d nm

/-- outcome of the data-independent segmentation: segments, an error the scanner raises for every data
(unterminated `${`, character that cannot be part of a name), or `nested`: some `${…}` has `$` or `@`
between its braces, so the variable *name* is itself computed from the data (`${${X}}`, `${a@X@}`) — the
one place where the structure of a cmake-format line depends on the data, by design -/
inductive Skel where
  | ok (segs : List CSeg)
  | err (e : Err)
  | nested
  deriving Repr, DecidableEq

def Skel.cons (s : CSeg) : Skel → Skel
  | .ok l => .ok (s :: l)
  | x => x

def isSpecial (c : Char) : Bool := c == '@' || c == '$'

/-- the segmentation; takes no data.  Same fuel discipline as `parseLine` (length + 1 suffices). -/
def cmakeSegs (atOnly : Bool) : Nat → List Char → Skel
  | 0, _ => .err .fuel
  | _ + 1, [] => .ok []
  | f + 1, '@' :: r =>
    match splitAt r with
    | some (nm, after) =>
      if !nm.isEmpty && nm.all isCmakeChar then (cmakeSegs atOnly f after).cons (.atVar nm)
      else (cmakeSegs atOnly f r).cons (.lit '@')
    | none => (cmakeSegs atOnly f r).cons (.lit '@')
  | f + 1, '$' :: '{' :: r =>
    if atOnly then (cmakeSegs atOnly f ('{' :: r)).cons (.lit '$')
    else
      match bracket 1 r [] with
      | .error e => .err e
      | .ok (inner, after) =>
        if inner.any isSpecial then .nested
        else if inner.any (fun c => !isCmakeChar c) then .err .invalidChar
        else (cmakeSegs atOnly f after).cons (.braceVar inner)
  | f + 1, c :: r => (cmakeSegs atOnly f r).cons (.lit c)

/-- the result the scanner must produce from a skeleton, given the output so far (`pre`, reversed) and the
missing names so far -/
def Skel.run (d : Data) (pre : List Char) (m : List Name) : Skel → Option (Except Err (List Char × List Name))
  | .ok segs => some (.ok (pre.reverse ++ segs.flatMap (CSeg.text d), (segs.flatMap (CSeg.miss d)).reverse ++ m))
  | .err e => some (.error e)
  | .nested => none

theorem varMiss_reverse (d : Data) (nm : Name) : (varMiss d nm).reverse = varMiss d nm := by
  unfold varMiss; split <;> rfl

theorem CSeg.miss_reverse (d : Data) (s : CSeg) : (s.miss d).reverse = s.miss d := by
  cases s <;> simp [CSeg.miss, varMiss_reverse]

theorem Skel.run_cons (d : Data) (s : CSeg) (x : Skel) (pre : List Char) (m : List Name) :
    (x.cons s).run d pre m = x.run d ((s.text d).reverse ++ pre) (s.miss d ++ m) := by
  cases x with
  | ok segs => simp [Skel.cons, Skel.run, CSeg.miss_reverse]
  | err e => rfl
  | nested => rfl

theorem not_special_iff {l : List Char} : l.any isSpecial = false ↔ ('@' ∉ l ∧ '$' ∉ l) := by
  induction l with
  | nil => simp
  | cons c r ih =>
    simp only [List.any_cons, Bool.or_eq_false_iff, ih, List.mem_cons, not_or]
    constructor
    · rintro ⟨h, h1, h2⟩
      simp only [isSpecial, Bool.or_eq_false_iff, beq_eq_false_iff_ne] at h
      exact ⟨⟨fun e => h.1 e.symm, h1⟩, ⟨fun e => h.2 e.symm, h2⟩⟩
    · rintro ⟨⟨h1, h2⟩, ⟨h3, h4⟩⟩
      refine ⟨?_, h2, h4⟩
      simp only [isSpecial, Bool.or_eq_false_iff, beq_eq_false_iff_ne]
      exact ⟨fun e => h1 e.symm, fun e => h3 e.symm⟩


/-- **the repaired scanner is "render the data-independent segments"** (with output / missing accumulators) -/
theorem parseLine_eq_run (atOnly : Bool) (d : Data) (f : Nat) (pre rest : List Char) (m : List Name) :
    rest.length < f → ∀ res, (cmakeSegs atOnly f rest).run d pre m = some res →
      parseLine atOnly d f pre rest m = res := by
  fun_induction parseLine atOnly d f pre rest m
  all_goals intro hlen res hres
  all_goals try (simp at hlen)
  case case2 => simpa [cmakeSegs, Skel.run] using hres
  case case3 f pre r m nm after hs hc v m' hv ih =>
    have hl := congrArg List.length (splitAt_some hs).1
    simp at hl
    rw [varGet_eq] at hv
    simp only [Prod.mk.injEq] at hv
    obtain ⟨rfl, rfl⟩ := hv
    simp only [cmakeSegs, hs, hc, if_true, Skel.run_cons, CSeg.text, CSeg.miss] at hres
    exact ih (by omega) res hres
  case case4 f pre r m nm after hs hc ih =>
    simp only [cmakeSegs, hs, hc, if_false, ite_false, Bool.false_eq_true, Skel.run_cons, CSeg.text, CSeg.miss] at hres
    exact ih hlen res (by simpa using hres)
  case case5 f pre r m hs ih =>
    simp only [cmakeSegs, hs, Skel.run_cons, CSeg.text, CSeg.miss] at hres
    exact ih hlen res (by simpa using hres)
  case case6 f pre r m hat ih =>
    subst hat
    simp only [cmakeSegs, if_true, Skel.run_cons, CSeg.text, CSeg.miss] at hres
    exact ih (by simp; omega) res (by simpa using hres)
  case case7 f pre r m hat e hb =>
    have : atOnly = false := by simpa using hat
    subst this
    simp only [cmakeSegs, Bool.false_eq_true, if_false, hb, Skel.run] at hres
    simpa using hres
  case case8 f pre r m hat inner after hb e hn ih =>
    have : atOnly = false := by simpa using hat
    subst this
    have hl := bracket_length hb
    simp only [cmakeSegs, Bool.false_eq_true, if_false, hb] at hres
    split at hres
    · simp [Skel.run] at hres
    · rename_i hsp
      obtain ⟨h1, h2⟩ := not_special_iff.mp (by simpa using hsp)
      rw [parseLine_plain false d f [] inner m h1 h2 (by omega)] at hn
      cases hn
  case case9 f pre r m hat inner after hb nm m1 hn hinv ih =>
    have : atOnly = false := by simpa using hat
    subst this
    have hl := bracket_length hb
    simp only [cmakeSegs, Bool.false_eq_true, if_false, hb] at hres
    split at hres
    · simp [Skel.run] at hres
    · rename_i hsp
      obtain ⟨h1, h2⟩ := not_special_iff.mp (by simpa using hsp)
      rw [parseLine_plain false d f [] inner m h1 h2 (by omega)] at hn
      simp only [List.reverse_nil, List.nil_append, Except.ok.injEq, Prod.mk.injEq] at hn
      obtain ⟨rfl, rfl⟩ := hn
      simp only [hinv, if_true, Skel.run] at hres
      simpa using hres
  case case10 f pre r m hat inner after hb nm m1 hn hinv v m' hv ih2 ih1 =>
    have : atOnly = false := by simpa using hat
    subst this
    have hl := bracket_length hb
    simp only [cmakeSegs, Bool.false_eq_true, if_false, hb] at hres
    split at hres
    · simp [Skel.run] at hres
    · rename_i hsp
      obtain ⟨h1, h2⟩ := not_special_iff.mp (by simpa using hsp)
      rw [parseLine_plain false d f [] inner m h1 h2 (by omega)] at hn
      simp only [List.reverse_nil, List.nil_append, Except.ok.injEq, Prod.mk.injEq] at hn
      obtain ⟨rfl, rfl⟩ := hn
      rw [varGet_eq] at hv
      simp only [Prod.mk.injEq] at hv
      obtain ⟨rfl, rfl⟩ := hv
      simp only [hinv, if_false, ite_false, Bool.false_eq_true, Skel.run_cons, CSeg.text, CSeg.miss] at hres
      exact ih1 (by omega) res hres
  case case11 f pre c r m hc1 hc2 ih =>
    rw [cmakeSegs] at hres
    · simp only [Skel.run_cons, CSeg.text, CSeg.miss] at hres
      exact ih hlen res (by simpa using hres)
    · exact fun e => hc1 e
    · intro r' e1 e2; exact hc2 r' e1 e2



theorem Skel.cons_eq_ok {s : CSeg} {x : Skel} {segs : List CSeg} (h : x.cons s = .ok segs) :
    ∃ t, x = .ok t ∧ segs = s :: t := by
  cases x with
  | ok t => simp only [Skel.cons, Skel.ok.injEq] at h; exact ⟨t, rfl, h.symm⟩
  | err e => cases h
  | nested => cases h

theorem Skel.cons_ne_nested {s : CSeg} {x : Skel} (h : x ≠ .nested) : x.cons s ≠ .nested := by
  cases x <;> simp_all [Skel.cons]

/-- the cmake segments partition the line -/
theorem cmakeSegs_partition (atOnly : Bool) (f : Nat) (line : List Char) :
    ∀ segs, cmakeSegs atOnly f line = .ok segs → segs.flatMap CSeg.src = line := by
  fun_induction cmakeSegs atOnly f line
  all_goals intro segs h
  case case1 => cases h
  case case2 => cases h; rfl
  case case3 f r nm after hs hc ih =>
    obtain ⟨t, ht, rfl⟩ := Skel.cons_eq_ok h
    have := (splitAt_some hs).1
    simp [CSeg.src, ih t ht, this]
  case case4 f r nm after hs hc ih =>
    obtain ⟨t, ht, rfl⟩ := Skel.cons_eq_ok h
    simp [CSeg.src, ih t ht]
  case case5 f r hs ih =>
    obtain ⟨t, ht, rfl⟩ := Skel.cons_eq_ok h
    simp [CSeg.src, ih t ht]
  case case6 f r hat ih =>
    obtain ⟨t, ht, rfl⟩ := Skel.cons_eq_ok h
    simp [CSeg.src, ih t ht]
  case case7 => cases h
  case case8 => cases h
  case case9 => cases h
  case case10 f r hat inner after hb hsp hinv ih =>
    obtain ⟨t, ht, rfl⟩ := Skel.cons_eq_ok h
    have := bracket_some 1 r [] hb
    simp at this
    simp [CSeg.src, ih t ht, this]
  case case11 f c r hc1 hc2 ih =>
    obtain ⟨t, ht, rfl⟩ := Skel.cons_eq_ok h
    simp [CSeg.src, ih t ht]

/-- with `cmake@` (`${` is not a placeholder) the structure never depends on the data -/
theorem cmakeSegs_atOnly_ne_nested (f : Nat) (line : List Char) : cmakeSegs true f line ≠ .nested := by
  fun_induction cmakeSegs true f line
  all_goals try (exact Skel.cons_ne_nested ‹_›)
  all_goals simp_all

/-- a segment that is looked up carries a well-formed name -/
theorem cmakeSegs_name_wf (atOnly : Bool) (f : Nat) (line : List Char) :
    ∀ segs, cmakeSegs atOnly f line = .ok segs → ∀ nm, (CSeg.atVar nm ∈ segs ∨ CSeg.braceVar nm ∈ segs) →
      ∀ c ∈ nm, isCmakeChar c = true := by
  fun_induction cmakeSegs atOnly f line
  all_goals intro segs h nm hm
  case case1 => cases h
  case case2 => cases h; simp at hm
  case case3 f r nm' after hs hc ih =>
    obtain ⟨t, ht, rfl⟩ := Skel.cons_eq_ok h
    simp only [List.mem_cons, CSeg.atVar.injEq, reduceCtorEq, false_or] at hm
    rcases hm with (rfl | hm) | hm
    · simp only [Bool.and_eq_true, List.all_eq_true] at hc; exact hc.2
    · exact ih t ht nm (Or.inl hm)
    · exact ih t ht nm (Or.inr hm)
  case case10 f r hat inner after hb hsp hinv ih =>
    obtain ⟨t, ht, rfl⟩ := Skel.cons_eq_ok h
    simp only [List.mem_cons, CSeg.braceVar.injEq, reduceCtorEq, false_or] at hm
    rcases hm with hm | rfl | hm
    · exact ih t ht nm (Or.inl hm)
    · intro c hc
      have := hinv
      simp only [List.any_eq_true, not_exists, not_and, Bool.not_eq_true, Bool.not_eq_false'] at this
      simpa using this c hc
    · exact ih t ht nm (Or.inr hm)
  all_goals try (cases h; done)
  all_goals
    obtain ⟨t, ht, rfl⟩ := Skel.cons_eq_ok h
    simp only [List.mem_cons, reduceCtorEq, false_or] at hm
    rename_i ih
    exact ih t ht nm hm



/-- a stateless encoder: the encoding of a concatenation is the concatenation of the encodings
(single-byte code pages, utf-8, BOM-less utf-16/32; *not* codecs that emit a BOM or keep shift state) -/
structure Codec.Stateless (c : Codec) : Prop where
  nil : c.encode [] = some []
  app : ∀ a b x y, c.encode a = some x → c.encode b = some y → c.encode (a ++ b) = some (x ++ y)

theorem encode_flatMap {α : Type} (c : Codec) (hc : c.Stateless) (g : α → List Char) (b : α → Bytes) :
    ∀ l : List α, (∀ x ∈ l, c.encode (g x) = some (b x)) → c.encode (l.flatMap g) = some (l.flatMap b) := by
  intro l
  induction l with
  | nil => intro _; simpa using hc.nil
  | cons x xs ih =>
    intro h
    simp only [List.flatMap_cons]
    exact hc.app _ _ _ _ (h x (by simp)) (ih (fun y hy => h y (List.mem_cons_of_mem _ hy)))

theorem latin1_stateless : latin1.Stateless := by
  refine ⟨rfl, ?_⟩
  intro a b x y ha hb
  simp only [latin1] at ha hb ⊢
  rw [List.mapM_append, ha, hb]
  rfl


end MesonModel.Template
