/- helper lemmas for C14 (meson-format scanner): every match is a prefix of the text, scan partitions the line -/
import MesonModel.Template.Model
namespace MesonModel.Template
open MesonModel.Py

theorem take_bs (s : List Char) : ∀ n, n ≤ (s.takeWhile isBs).length → s.take n = List.replicate n '\\' := by
  induction s with
  | nil => intro n h; simp at h; subst h; rfl
  | cons c r ih =>
    intro n h
    cases n with
    | zero => rfl
    | succ n =>
      simp only [List.takeWhile_cons] at h
      by_cases hc : isBs c = true
      · simp only [hc, if_true, List.length_cons] at h
        have : c = '\\' := by simpa [isBs] using hc
        subst this
        simp [List.replicate_succ, ih n (by omega)]
      · simp [hc] at h

theorem mem_takeWhile_imp {p : Char → Bool} {c : Char} : ∀ {l : List Char}, c ∈ l.takeWhile p → p c = true := by
  intro l
  induction l with
  | nil => simp
  | cons a l ih =>
    simp only [List.takeWhile_cons]
    split
    · rename_i ha
      intro h
      rcases List.mem_cons.mp h with rfl | h
      · exact ha
      · exact ih h
    · simp

theorem nameThen_some {close r nm r'} (h : nameThen close r = some (nm, r')) :
    r = nm ++ close ++ r' ∧ nm ≠ [] ∧ (∀ c ∈ nm, isNameChar c = true) := by
  unfold nameThen at h
  simp only at h
  split at h
  · cases h
  · rename_i hne
    split at h
    · rename_i hp
      simp only [Option.some.injEq, Prod.mk.injEq] at h
      obtain ⟨rfl, rfl⟩ := h
      refine ⟨?_, by simpa using hne, fun c hc => mem_takeWhile_imp hc⟩
      have h1 := List.takeWhile_append_dropWhile (p := isNameChar) (l := r)
      have h2 : close ++ (List.dropWhile isNameChar r).drop close.length = List.dropWhile isNameChar r := by
        have := List.isPrefixOf_iff_prefix.mp hp
        obtain ⟨t, ht⟩ := this
        rw [← ht]; simp
      rw [List.append_assoc, h2, h1]
    · cases h

theorem matchEsc_some {s sg r} (h : matchEsc s = some (sg, r)) :
    s = sg.src ++ r ∧ ∃ n, sg = .esc n ∧ 1 ≤ n := by
  unfold matchEsc at h
  simp only at h
  split at h
  · rename_i hc
    simp only [Bool.and_eq_true, decide_eq_true_eq] at hc
    simp only [Option.some.injEq, Prod.mk.injEq] at h
    obtain ⟨rfl, rfl⟩ := h
    refine ⟨?_, _, rfl, by omega⟩
    simp only [Seg.src]
    rw [← take_bs s _ (by omega)]
    exact (List.take_append_drop _ _).symm
  · cases h

theorem matchVar_some {p s sg r} (h : matchVar p s = some (sg, r)) :
    s = sg.src ++ r ∧ p = false ∧ ∃ nm, sg = .var nm ∧ nm ≠ [] ∧ (∀ c ∈ nm, isNameChar c = true) := by
  unfold matchVar at h
  split at h
  · rename_i r0
    split at h
    · cases h
    · rename_i hp
      simp only [Option.map_eq_some_iff] at h
      obtain ⟨⟨nm, r'⟩, hn, he⟩ := h
      simp only [Prod.mk.injEq, Option.some.injEq] at he
      obtain ⟨rfl, rfl⟩ := he
      obtain ⟨h1, h2, h3⟩ := nameThen_some hn
      refine ⟨by simp [Seg.src, h1], by simpa using hp, nm, rfl, h2, h3⟩
  · cases h

theorem matchEscaped_some {s sg r} (h : matchEscaped s = some (sg, r)) :
    s = sg.src ++ r ∧ ∃ nm, sg = .escaped nm ∧ nm ≠ [] ∧ (∀ c ∈ nm, isNameChar c = true) := by
  unfold matchEscaped at h
  split at h
  · rename_i r0
    simp only [Option.map_eq_some_iff] at h
    obtain ⟨⟨nm, r'⟩, hn, he⟩ := h
    simp only [Prod.mk.injEq, Option.some.injEq] at he
    obtain ⟨rfl, rfl⟩ := he
    obtain ⟨h1, h2, h3⟩ := nameThen_some hn
    refine ⟨by simp [Seg.src, h1], nm, rfl, h2, h3⟩
  · cases h

theorem matchAt_cases {p s sg r} (h : matchAt p s = some (sg, r)) :
    matchEsc s = some (sg, r) ∨ matchVar p s = some (sg, r) ∨ matchEscaped s = some (sg, r) := by
  unfold matchAt at h
  split at h
  · left; simpa using h ▸ ‹_›
  · split at h
    · right; left; simpa using h ▸ ‹_›
    · right; right; exact h

theorem matchAt_src {p s sg r} (h : matchAt p s = some (sg, r)) : s = sg.src ++ r := by
  rcases matchAt_cases h with h | h | h
  · exact (matchEsc_some h).1
  · exact (matchVar_some h).1
  · exact (matchEscaped_some h).1

theorem src_length_pos (sg : Seg) (h : ∀ n, sg = .esc n → 1 ≤ n) : 1 ≤ sg.src.length := by
  cases sg with
  | lit c => simp [Seg.src]
  | esc n => have := h n rfl; simp [Seg.src]; omega
  | var nm => simp [Seg.src]
  | escaped nm => simp [Seg.src]

theorem matchAt_shorter {p s sg r} (h : matchAt p s = some (sg, r)) : r.length < s.length := by
  have hs := matchAt_src h
  have : 1 ≤ sg.src.length := by
    apply src_length_pos
    intro n hn
    rcases matchAt_cases h with h | h | h
    · obtain ⟨_, m, hm, h1⟩ := matchEsc_some h
      rw [hn] at hm; cases hm; exact h1
    · obtain ⟨_, _, nm, hm, _⟩ := matchVar_some h; rw [hn] at hm; cases hm
    · obtain ⟨_, nm, hm, _⟩ := matchEscaped_some h; rw [hn] at hm; cases hm
  rw [hs, List.length_append]; omega

theorem scan_partition : ∀ (f : Nat) (p : Bool) (s : List Char), s.length ≤ f →
    (scan f p s).flatMap Seg.src = s := by
  intro f
  induction f with
  | zero => intro p s h; have : s = [] := by simpa using h
            subst this; simp [scan]
  | succ f ih =>
    intro p s h
    cases s with
    | nil => simp [scan]
    | cons c r =>
      simp only [scan]
      split
      · rename_i sg rest hm
        have h1 := matchAt_src hm
        have h2 := matchAt_shorter hm
        simp only [List.flatMap_cons]
        rw [ih _ _ (by simp at h h2; omega), ← h1]
      · simp only [List.flatMap_cons, Seg.src]
        rw [ih _ _ (by simpa using h)]; rfl


theorem matchEsc_none_of_no_at {s : List Char} (h : '@' ∉ s) : matchEsc s = none := by
  unfold matchEsc
  simp only
  split
  · rename_i hc
    simp only [Bool.and_eq_true, decide_eq_true_eq, beq_iff_eq] at hc
    exfalso
    have : '@' ∈ s.dropWhile isBs := List.mem_of_mem_head? hc.2
    exact h ((List.dropWhile_sublist _).subset this)
  · rfl

theorem matchAt_none_of_no_at {p : Bool} {s : List Char} (h : '@' ∉ s) : matchAt p s = none := by
  unfold matchAt
  rw [matchEsc_none_of_no_at h]
  have h2 : matchVar p s = none := by
    unfold matchVar
    split
    · simp at h
    · rfl
  have h3 : matchEscaped s = none := by
    unfold matchEscaped
    split
    · simp at h
    · rfl
  simp [h2, h3]

theorem scan_no_at : ∀ (f : Nat) (p : Bool) (s : List Char), '@' ∉ s → s.length ≤ f →
    scan f p s = s.map Seg.lit := by
  intro f
  induction f with
  | zero => intro p s _ h; have : s = [] := by simpa using h
            subst this; simp [scan]
  | succ f ih =>
    intro p s hat h
    cases s with
    | nil => simp [scan]
    | cons c r =>
      simp only [scan, matchAt_none_of_no_at hat, List.map_cons]
      rw [ih _ _ (fun hh => hat (List.mem_cons_of_mem _ hh)) (by simpa using h)]

theorem flatMap_render_lit (d : Data) (s : List Char) : (s.map Seg.lit).flatMap (render d) = s := by
  induction s with
  | nil => rfl
  | cons c r ih => simp [List.flatMap_cons, render, ih]

theorem filterMap_missing_lit (d : Data) (s : List Char) : (s.map Seg.lit).filterMap (segMissing d) = [] := by
  induction s with
  | nil => rfl
  | cons c r ih => simp [segMissing, ih]

theorem substMeson_no_at (d : Data) (s : List Char) (h : '@' ∉ s) : substMeson d s = s := by
  simp [substMeson, segments, scan_no_at _ _ _ h (Nat.le_refl _), flatMap_render_lit]

theorem missingMeson_no_at (d : Data) (s : List Char) (h : '@' ∉ s) : missingMeson d s = [] := by
  simp only [missingMeson, segments, scan_no_at _ _ _ h (Nat.le_refl _)]
  exact filterMap_missing_lit d s

/-! file layer -/
theorem splitLinesAux_flatten (s cur : List Char) : (splitLinesAux s cur).flatten = cur.reverse ++ s := by
  fun_induction splitLinesAux s cur <;> simp_all

theorem splitLines_flatten (s : List Char) : (splitLines s).flatten = s := by
  simp [splitLines, splitLinesAux_flatten]

theorem mem_of_mem_splitLinesAux (s cur l : List Char) (h : l ∈ splitLinesAux s cur) : ∀ c ∈ l, c ∈ cur ∨ c ∈ s := by
  fun_induction splitLinesAux s cur <;> simp_all <;> grind

theorem mem_of_mem_splitLines (s l : List Char) (h : l ∈ splitLines s) : ∀ c ∈ l, c ∈ s := by
  intro c hc
  have := mem_of_mem_splitLinesAux s [] l h c hc
  simpa using this



theorem not_startsWith_of_head_not_mem {p s : List Char} {c : Char} (hp : p.head? = some c) (h : c ∉ s) :
    startsWith s p = false := by
  cases p with
  | nil => simp at hp
  | cons a p =>
    simp at hp; subst hp
    cases s with
    | nil => simp [startsWith, List.isPrefixOf]
    | cons b s =>
      have : a ≠ b := fun e => h (by simp [e])
      simp [startsWith, List.isPrefixOf, this]

theorem isMesonDefineLine_false {l : List Char} (h : '#' ∉ l) : isMesonDefineLine l = false := by
  unfold isMesonDefineLine
  apply not_startsWith_of_head_not_mem (c := '#') (by decide)
  intro hh
  exact h ((List.dropWhile_sublist _).subset hh)

theorem hasCmakeDefine_false {l : List Char} (h : '#' ∉ l) : hasCmakeDefine l = false := by
  induction l with
  | nil => rfl
  | cons c r ih =>
    have hc : c ≠ '#' := fun e => h (by simp [e])
    simp only [hasCmakeDefine, Bool.or_eq_false_iff, Bool.and_eq_false_iff]
    exact ⟨Or.inl (by simpa using hc), ih (fun hh => h (List.mem_cons_of_mem _ hh))⟩

theorem hasSub_false {p l : List Char} {c : Char} (hp : p.head? = some c) (h : c ∉ l) : hasSub p l = false := by
  induction l with
  | nil => cases p <;> simp_all [hasSub]
  | cons a r ih =>
    simp only [hasSub, Bool.or_eq_false_iff]
    refine ⟨?_, ih (fun hh => h (List.mem_cons_of_mem _ hh))⟩
    exact not_startsWith_of_head_not_mem hp h

theorem isCmakeDefineLine_false {l : List Char} (h : '#' ∉ l) : isCmakeDefineLine l = false := by
  unfold isCmakeDefineLine
  split
  · rename_i t ht
    exfalso
    have : '#' ∈ lstrip l := by rw [ht]; simp
    exact h ((List.dropWhile_sublist _).subset this)
  · rfl

theorem lineMeson_plain (d : Data) {l : List Char} (h1 : '@' ∉ l) (h2 : '#' ∉ l) :
    lineMeson d l = .ok ⟨l, [], false⟩ := by
  simp [lineMeson, isMesonDefineLine_false h2, hasCmakeDefine_false h2, substMeson_no_at d l h1,
    missingMeson_no_at d l h1]

theorem mapLines_ok (f : List Char → Except Err LineOut) (g : List Char → LineOut) :
    ∀ ls : List (List Char), (∀ l ∈ ls, f l = .ok (g l)) → mapLines f ls = .ok (ls.map g) := by
  intro ls
  induction ls with
  | nil => intro _; rfl
  | cons l ls ih =>
    intro h
    simp only [mapLines, h l (by simp), ih (fun x hx => h x (List.mem_cons_of_mem _ hx)), List.map_cons]

/-- cmake scanner on a text without `@` and `$` : plain copy (fuel: one unit per character + 1) -/
theorem parseLine_plain (atOnly : Bool) (d : Data) : ∀ (f : Nat) (pre rest : List Char) (m : List Name),
    '@' ∉ rest → '$' ∉ rest → rest.length < f →
    parseLine atOnly d f pre rest m = .ok (pre.reverse ++ rest, m) := by
  intro f
  induction f with
  | zero => intro _ _ _ _ _ h; omega
  | succ f ih =>
    intro pre rest m h1 h2 h3
    cases rest with
    | nil => simp [parseLine]
    | cons c r =>
      have hc1 : c ≠ '@' := fun e => h1 (by simp [e])
      have hc2 : c ≠ '$' := fun e => h2 (by simp [e])
      have := ih (c :: pre) r m (fun hh => h1 (List.mem_cons_of_mem _ hh)) (fun hh => h2 (List.mem_cons_of_mem _ hh))
        (by simp at h3; omega)
      unfold parseLine
      split
      · omega
      · simp_all
      · simp_all
      · simp_all
      · simp_all

theorem lineCmake_plain (atOnly : Bool) (d : Data) (fuel : Nat) {l : List Char}
    (h1 : '@' ∉ l) (h2 : '#' ∉ l) (h3 : '$' ∉ l) (hf : l.length < fuel) :
    lineCmake atOnly d fuel l = .ok ⟨l, [], false⟩ := by
  simp [lineCmake, isCmakeDefineLine_false h2, hasSub_false (p := sMesondefine) (c := '#') (by decide) h2,
    substCmake, parseLine_plain atOnly d fuel [] l [] h1 h3 hf, Except.map]

theorem all_plain (os : List (List Char)) :
    (os.map fun l => (⟨l, [], false⟩ : LineOut)).all (fun o => !o.isDefine && o.missing.isEmpty) = true := by
  induction os <;> simp_all

theorem collect_plain (d : Data) (ls : List (List Char)) :
    collect d (ls.map fun l => (⟨l, [], false⟩ : LineOut)) = ⟨ls, [], d.isEmpty⟩ := by
  simp only [collect, all_plain, Bool.and_true]
  congr 1
  · simp [Function.comp_def]
  · induction ls <;> simp_all



theorem char_eq_of_toNat {a b : Char} (h : a.toNat = b.toNat) : a = b := by
  apply Char.ext
  apply UInt32.toNat_inj.mp
  exact h

theorem strLe_total : ∀ a b : List Char, strLe a b = true ∨ strLe b a = true := by
  intro a
  induction a with
  | nil => intro b; left; simp [strLe]
  | cons x xs ih =>
    intro b
    cases b with
    | nil => right; simp [strLe]
    | cons y ys =>
      simp only [strLe, Bool.or_eq_true, decide_eq_true_eq, Bool.and_eq_true, beq_iff_eq]
      rcases Nat.lt_trichotomy x.toNat y.toNat with h | h | h
      · left; left; exact h
      · have := char_eq_of_toNat h; subst this
        rcases ih ys with h' | h'
        · left; right; exact ⟨rfl, h'⟩
        · right; right; exact ⟨rfl, h'⟩
      · right; left; exact h

theorem strLe_trans : ∀ a b c : List Char, strLe a b = true → strLe b c = true → strLe a c = true := by
  intro a
  induction a with
  | nil => intros; simp [strLe]
  | cons x xs ih =>
    intro b c h1 h2
    cases b with
    | nil => simp [strLe] at h1
    | cons y ys =>
      cases c with
      | nil => simp [strLe] at h2
      | cons z zs =>
        simp only [strLe, Bool.or_eq_true, decide_eq_true_eq, Bool.and_eq_true, beq_iff_eq] at *
        rcases h1 with h1 | ⟨rfl, h1⟩ <;> rcases h2 with h2 | ⟨rfl, h2⟩
        · left; omega
        · left; exact h1
        · left; exact h2
        · right; exact ⟨rfl, ih _ _ h1 h2⟩

theorem strLe_antisymm : ∀ a b : List Char, strLe a b = true → strLe b a = true → a = b := by
  intro a
  induction a with
  | nil => intro b h1 h2; cases b <;> simp_all [strLe]
  | cons x xs ih =>
    intro b h1 h2
    cases b with
    | nil => simp [strLe] at h1
    | cons y ys =>
      simp only [strLe, Bool.or_eq_true, decide_eq_true_eq, Bool.and_eq_true, beq_iff_eq] at *
      rcases h1 with h1 | ⟨rfl, h1⟩ <;> rcases h2 with h2 | ⟨h2e, h2⟩
      · omega
      · subst h2e; omega
      · omega
      · rw [ih _ h1 h2]

def KeyLe (a b : Entry) : Prop := strLe a.key b.key = true

theorem insertEntry_perm (e : Entry) (l : List Entry) : (insertEntry e l).Perm (e :: l) := by
  induction l with
  | nil => exact List.Perm.refl _
  | cons x xs ih =>
    simp only [insertEntry]
    split
    · exact List.Perm.refl _
    · exact (List.Perm.cons x ih).trans (List.Perm.swap e x xs)

theorem sortEntries_perm (l : List Entry) : (sortEntries l).Perm l := by
  induction l with
  | nil => exact List.Perm.refl _
  | cons e es ih => exact (insertEntry_perm e _).trans (List.Perm.cons e ih)

theorem insertEntry_sorted (e : Entry) (l : List Entry) (h : l.Pairwise KeyLe) :
    (insertEntry e l).Pairwise KeyLe := by
  induction l with
  | nil => simp [insertEntry]
  | cons x xs ih =>
    simp only [insertEntry]
    have hx := List.pairwise_cons.mp h
    split
    · rename_i hle
      refine List.pairwise_cons.mpr ⟨?_, h⟩
      intro y hy
      rcases List.mem_cons.mp hy with rfl | hy
      · exact hle
      · exact strLe_trans _ _ _ hle (hx.1 y hy)
    · rename_i hnle
      have hxe : KeyLe x e := by
        rcases strLe_total e.key x.key with h' | h'
        · exact absurd h' hnle
        · exact h'
      refine List.pairwise_cons.mpr ⟨?_, ih hx.2⟩
      intro y hy
      have := (insertEntry_perm e xs).subset hy
      rcases List.mem_cons.mp this with rfl | hy
      · exact hxe
      · exact hx.1 y hy

theorem sortEntries_sorted (l : List Entry) : (sortEntries l).Pairwise KeyLe := by
  induction l with
  | nil => simp [sortEntries]
  | cons e es ih => exact insertEntry_sorted e _ ih



theorem scan_fuel : ∀ (f g : Nat) (p : Bool) (s : List Char), s.length ≤ f → s.length ≤ g →
    scan f p s = scan g p s := by
  intro f
  induction f with
  | zero =>
    intro g p s h _
    have : s = [] := by simpa using h
    subst this
    cases g <;> simp [scan]
  | succ f ih =>
    intro g p s hf hg
    cases s with
    | nil => cases g <;> simp [scan]
    | cons c r =>
      cases g with
      | zero => simp at hg
      | succ g =>
        simp only [scan]
        split
        · rename_i sg rest hm
          have := matchAt_shorter hm
          rw [ih g _ rest (by simp at hf this; omega) (by simp at hg this; omega)]
        · rw [ih g _ r (by simpa using hf) (by simpa using hg)]

theorem scan_eq_segments (f : Nat) (s : List Char) (h : s.length ≤ f) : scan f false s = segments s :=
  scan_fuel f s.length false s h (Nat.le_refl _)

theorem matchEsc_none_of_head {c : Char} {r : List Char} (h : c ≠ '\\') : matchEsc (c :: r) = none := by
  have : isBs c = false := by simpa [isBs] using h
  simp [matchEsc, List.takeWhile_cons, this]

theorem matchAt_none_of_plain {p : Bool} {c : Char} {r : List Char} (h1 : c ≠ '@') (h2 : c ≠ '\\') :
    matchAt p (c :: r) = none := by
  unfold matchAt
  rw [matchEsc_none_of_head h2]
  have h3 : matchVar p (c :: r) = none := by
    unfold matchVar; split
    · rename_i heq; simp at heq; exact absurd heq.1 h1
    · rfl
  have h4 : matchEscaped (c :: r) = none := by
    unfold matchEscaped; split
    · rename_i heq; simp at heq; exact absurd heq.1 h2
    · rfl
  simp [h3, h4]

/-- a prefix free of `@` and backslash is copied, and scanning resumes behind it with a clean look-behind -/
theorem scan_plain_prefix : ∀ (pre : List Char) (f : Nat) (p : Bool) (rest : List Char),
    (∀ c ∈ pre, c ≠ '@' ∧ c ≠ '\\') → (pre ++ rest).length ≤ f →
    scan f p (pre ++ rest) = pre.map Seg.lit ++ scan (f - pre.length) (if pre.isEmpty then p else false) rest := by
  intro pre
  induction pre with
  | nil => intro f p rest _ _; simp
  | cons c pre ih =>
    intro f p rest hp hf
    cases f with
    | zero => simp at hf
    | succ f =>
      have hc := hp c (by simp)
      have hbs : isBs c = false := by simpa [isBs] using hc.2
      simp only [List.cons_append, scan, matchAt_none_of_plain hc.1 hc.2, List.map_cons]
      rw [ih f _ rest (fun x hx => hp x (List.mem_cons_of_mem _ hx)) (by simpa using hf)]
      have e1 : f + 1 - (c :: pre).length = f - pre.length := by simp
      have e2 : (if pre.isEmpty then isBs c else false) = (if (c :: pre).isEmpty then p else false) := by
        cases pre <;> simp [hbs]
      rw [e1, e2]

theorem nameThen_exact (close : List Char) (name post : List Char) (hn : name ≠ [])
    (hnc : ∀ c ∈ name, isNameChar c = true) (hc : ∀ x, close.head? = some x → isNameChar x = false)
    (hcl : close ≠ []) :
    nameThen close (name ++ close ++ post) = some (name, post) := by
  unfold nameThen
  have h1 : (name ++ close ++ post).takeWhile isNameChar = name := by
    rw [List.append_assoc, List.takeWhile_append_of_pos hnc]
    cases close with
    | nil => exact absurd rfl hcl
    | cons x xs => simp [List.takeWhile_cons, hc x rfl]
  have h2 : (name ++ close ++ post).dropWhile isNameChar = close ++ post := by
    rw [List.append_assoc, List.dropWhile_append_of_pos hnc]
    cases close with
    | nil => exact absurd rfl hcl
    | cons x xs => simp [List.dropWhile_cons, hc x rfl]
  simp only [h1, h2]
  have : name.isEmpty = false := by cases name <;> simp_all
  simp [this, List.isPrefixOf_iff_prefix]

theorem matchAt_var (name post : List Char) (hn : name ≠ []) (hnc : ∀ c ∈ name, isNameChar c = true) :
    matchAt false ('@' :: (name ++ '@' :: post)) = some (.var name, post) := by
  unfold matchAt
  rw [matchEsc_none_of_head (by decide)]
  have := nameThen_exact ['@'] name post hn hnc (by intro x hx; simp at hx; subst hx; decide) (by simp)
  simp only [List.append_assoc, List.singleton_append] at this
  simp [matchVar, this]

theorem matchAt_escaped (p : Bool) (name post : List Char) (hn : name ≠ []) (hnc : ∀ c ∈ name, isNameChar c = true) :
    matchAt p ('\\' :: '@' :: (name ++ '\\' :: '@' :: post)) = some (.escaped name, post) := by
  unfold matchAt
  have h1 : matchEsc ('\\' :: '@' :: (name ++ '\\' :: '@' :: post)) = none := by
    simp [matchEsc, List.takeWhile_cons, isBs]
  have h2 : matchVar p ('\\' :: '@' :: (name ++ '\\' :: '@' :: post)) = none := by
    simp [matchVar]
  have := nameThen_exact ['\\', '@'] name post hn hnc (by intro x hx; simp at hx; subst hx; decide) (by simp)
  simp only [List.append_assoc, List.cons_append, List.nil_append] at this
  simp [h1, h2, matchEscaped, this]


theorem mem_of_mem_strip {c : Char} {s : List Char} (h : c ∈ strip s) : c ∈ s := by
  unfold strip rstrip lstrip at h
  have h1 := List.mem_reverse.mp h
  have h2 := (List.dropWhile_sublist _).subset h1
  have h3 := List.mem_reverse.mp h2
  exact (List.dropWhile_sublist _).subset h3

instance instDecEqExcept {ε α : Type} [DecidableEq ε] [DecidableEq α] : DecidableEq (Except ε α) := fun a b =>
  match a, b with
  | .ok x, .ok y => if h : x = y then isTrue (by rw [h]) else isFalse (by intro e; cases e; exact h rfl)
  | .error x, .error y => if h : x = y then isTrue (by rw [h]) else isFalse (by intro e; cases e; exact h rfl)
  | .ok _, .error _ => isFalse (by intro e; cases e)
  | .error _, .ok _ => isFalse (by intro e; cases e)


theorem splitAt_some : ∀ {r nm after : List Char}, splitAt r = some (nm, after) →
    r = nm ++ '@' :: after ∧ '@' ∉ nm := by
  intro r
  induction r with
  | nil => intro nm after h; simp [splitAt] at h
  | cons c r ih =>
    intro nm after h
    simp only [splitAt] at h
    split at h
    · rename_i hc
      simp only [Option.some.injEq, Prod.mk.injEq] at h
      obtain ⟨rfl, rfl⟩ := h
      have : c = '@' := by simpa using hc
      subst this; simp
    · rename_i hc
      simp only [Option.map_eq_some_iff] at h
      obtain ⟨⟨a, b⟩, hab, he⟩ := h
      simp only [Prod.mk.injEq] at he
      obtain ⟨rfl, rfl⟩ := he
      obtain ⟨h1, h2⟩ := ih hab
      refine ⟨by rw [h1]; simp, ?_⟩
      intro hm
      rcases List.mem_cons.mp hm with h3 | h3
      · exact hc (by simp [← h3])
      · exact h2 h3

theorem bracket_some (cnt : Nat) (r acc : List Char) : ∀ {inner after : List Char},
    bracket cnt r acc = .ok (inner, after) → inner ++ '}' :: after = acc.reverse ++ r := by
  fun_induction bracket cnt r acc <;> intro inner after h
  · cases h
  · rename_i ih; have := ih h; simpa using this
  · simp only [Except.ok.injEq, Prod.mk.injEq] at h
    obtain ⟨rfl, rfl⟩ := h; rfl
  · rename_i ih; have := ih h; simpa using this
  · rename_i ih; have := ih h; simpa using this
  · cases h
  · rename_i ih; have := ih h; simpa using this

theorem bracket_length {cnt : Nat} {r inner after : List Char} (h : bracket cnt r [] = .ok (inner, after)) :
    inner.length + 1 + after.length = r.length := by
  have := congrArg List.length (bracket_some cnt r [] h)
  simp at this; omega

theorem bracket_ne_fuel (cnt : Nat) (r acc : List Char) : bracket cnt r acc ≠ .error .fuel := by
  fun_induction bracket cnt r acc <;> simp_all

/-- after the repair every iteration consumes template text, so `rest.length + 1` fuel is enough -/
theorem fuel_suffices (atOnly : Bool) (d : Data) (f : Nat) (pre rest : List Char) (m : List Name) :
    rest.length < f → parseLine atOnly d f pre rest m ≠ .error .fuel := by
  fun_induction parseLine atOnly d f pre rest m
  all_goals intro hlen
  all_goals try (simp at hlen)
  case case2 => simp
  case case3 nm after hs _ _ _ _ ih =>
    have hl := congrArg List.length (splitAt_some hs).1
    simp at hl; exact ih (by omega)
  case case4 ih => exact ih hlen
  case case5 ih => exact ih hlen
  case case6 ih => exact ih (by simp; omega)
  case case7 e hb =>
    intro he; simp only [Except.error.injEq] at he; subst he
    exact bracket_ne_fuel _ _ _ hb
  case case8 inner after hb e hn ih =>
    have hl := bracket_length hb
    intro he; simp only [Except.error.injEq] at he; subst he
    exact ih (by omega) hn
  case case9 => simp
  case case10 inner after hb _ _ _ _ _ _ _ ih2 ih1 =>
    have hl := bracket_length hb
    exact ih1 (by omega)
  case case11 ih => exact ih hlen



theorem cmakeChar_ne {c : Char} (h : isCmakeChar c = true) : c ≠ '$' ∧ c ≠ '}' ∧ c ≠ '@' ∧ c ≠ '\n' ∧ c ≠ '{' := by
  refine ⟨?_, ?_, ?_, ?_, ?_⟩ <;> (intro e; subst e; revert h; decide)

theorem bracket_name (post : List Char) : ∀ (name acc : List Char), (∀ c ∈ name, isCmakeChar c = true) →
    bracket 1 (name ++ '}' :: post) acc = .ok (acc.reverse ++ name, post) := by
  intro name
  induction name with
  | nil => intro acc _; simp [bracket]
  | cons c name ih =>
    intro acc h
    have hc := h c (by simp)
    obtain ⟨h1, h2, h3, h4, _⟩ := cmakeChar_ne hc
    have := ih (c :: acc) (fun x hx => h x (List.mem_cons_of_mem _ hx))
    rw [List.cons_append, bracket]
    · simp [h3, h4, hc, this]
    · intro r hh _; exact h1 hh
    · intro hh; exact h2 hh

theorem name_no_special {name : List Char} (h : ∀ c ∈ name, isCmakeChar c = true) : '@' ∉ name ∧ '$' ∉ name :=
  ⟨fun hm => (cmakeChar_ne (h _ hm)).2.2.1 rfl, fun hm => (cmakeChar_ne (h _ hm)).1 rfl⟩

theorem any_not_cmake_false {name : List Char} (h : ∀ c ∈ name, isCmakeChar c = true) :
    (name.any fun c => !isCmakeChar c) = false := by
  simp only [List.any_eq_false]
  intro c hc; simp [h c hc]

/-- one step of the repaired scanner at `${name}`: the value goes to the output accumulator and the
scan continues with the text *after* the placeholder, whatever the value contains -/
theorem parseLine_var_step (d : Data) (f : Nat) (pre name post : List Char) (m : List Name)
    (hn : ∀ c ∈ name, isCmakeChar c = true) (hf : name.length < f) :
    parseLine false d (f + 1) pre ('$' :: '{' :: (name ++ '}' :: post)) m =
      parseLine false d f ((varGet d name m).1.reverse ++ pre) post (varGet d name m).2 := by
  obtain ⟨h1, h2⟩ := name_no_special hn
  rw [parseLine]
  simp only [Bool.false_eq_true, if_false, bracket_name post name [] hn, List.reverse_nil, List.nil_append,
    parseLine_plain false d f [] name m h1 h2 hf, any_not_cmake_false hn]

theorem splitAt_name (post : List Char) : ∀ (name : List Char), '@' ∉ name →
    splitAt (name ++ '@' :: post) = some (name, post) := by
  intro name
  induction name with
  | nil => intro _; simp [splitAt]
  | cons c name ih =>
    intro h
    have hc : c ≠ '@' := fun e => h (by simp [e])
    simp [splitAt, hc, ih (fun hh => h (List.mem_cons_of_mem _ hh))]

/-- one step at `@name@` (both cmake formats) -/
theorem parseLine_at_step (atOnly : Bool) (d : Data) (f : Nat) (pre name post : List Char) (m : List Name)
    (hne : name ≠ []) (hn : ∀ c ∈ name, isCmakeChar c = true) :
    parseLine atOnly d (f + 1) pre ('@' :: (name ++ '@' :: post)) m =
      parseLine atOnly d f ((varGet d name m).1.reverse ++ pre) post (varGet d name m).2 := by
  obtain ⟨h1, _⟩ := name_no_special hn
  have hall : name.all isCmakeChar = true := by simpa [List.all_eq_true] using hn
  have hemp : name.isEmpty = false := by cases name <;> simp_all
  rw [parseLine]
  simp [splitAt_name post name h1, hall, hemp]

/-- plain text in front of the scan position is moved to the output accumulator unchanged -/
theorem parseLine_plain_prefix (atOnly : Bool) (d : Data) : ∀ (p : List Char) (f : Nat) (pre rest : List Char)
    (m : List Name), (∀ c ∈ p, c ≠ '@' ∧ c ≠ '$') →
    parseLine atOnly d (f + p.length) pre (p ++ rest) m = parseLine atOnly d f (p.reverse ++ pre) rest m := by
  intro p
  induction p with
  | nil => intros; simp
  | cons c p ih =>
    intro f pre rest m h
    have hc := h c (by simp)
    have e : f + (c :: p).length = (f + p.length) + 1 := by simp; omega
    rw [e, List.cons_append, parseLine]
    · rw [ih f (c :: pre) rest m (fun x hx => h x (List.mem_cons_of_mem _ hx))]; simp
    · exact hc.1
    · intro r hh; exact absurd hh hc.2


/-- text substituted by the cmake scanner for a name (empty when undefined) -/
def varVal (d : Data) (nm : Name) : List Char := match d.get? nm with | some v => v.cmakeStr | none => []
/-- what a look-up adds to the missing list -/
def varMiss (d : Data) (nm : Name) : List Name := match d.get? nm with | some _ => [] | none => [nm]

theorem varGet_eq (d : Data) (nm : Name) (m : List Name) : varGet d nm m = (varVal d nm, varMiss d nm ++ m) := by
  unfold varGet varVal varMiss; split <;> simp_all


theorem scan_var_wf : ∀ (f : Nat) (p : Bool) (s : List Char) (nm : Name), Seg.var nm ∈ scan f p s →
    nm ≠ [] ∧ (∀ c ∈ nm, isNameChar c = true) := by
  intro f
  induction f with
  | zero => intro p s nm h; simp [scan] at h
  | succ f ih =>
    intro p s nm h
    cases s with
    | nil => simp [scan] at h
    | cons c r =>
      simp only [scan] at h
      split at h
      · rename_i sg rest hm
        rcases List.mem_cons.mp h with h | h
        · rcases matchAt_cases hm with h' | h' | h'
          · obtain ⟨_, n, hn, _⟩ := matchEsc_some h'; rw [← h] at hn; cases hn
          · obtain ⟨_, _, nm', hn, h1, h2⟩ := matchVar_some h'; rw [← h] at hn; cases hn; exact ⟨h1, h2⟩
          · obtain ⟨_, nm', hn, _⟩ := matchEscaped_some h'; rw [← h] at hn; cases hn
        · exact ih _ _ _ h
      · rcases List.mem_cons.mp h with h | h
        · cases h
        · exact ih _ _ _ h

theorem src_infix_of_mem {sg : Seg} : ∀ {l : List Seg}, sg ∈ l → sg.src <:+: l.flatMap Seg.src := by
  intro l
  induction l with
  | nil => intro h; cases h
  | cons x xs ih =>
    intro h
    simp only [List.flatMap_cons]
    rcases List.mem_cons.mp h with rfl | h
    · exact (List.prefix_append _ _).isInfix
    · exact (ih h).trans (List.suffix_append _ _).isInfix



/-- look-behind state of the scanner after having produced `segs` (starting from state `p`) -/
def stateAfter (p : Bool) (segs : List Seg) : Bool :=
  match segs.getLast? with
  | none => p
  | some sg => sg.endsBs

theorem stateAfter_cons (p : Bool) (sg : Seg) (t : List Seg) : stateAfter p (sg :: t) = stateAfter sg.endsBs t := by
  cases t with
  | nil => simp [stateAfter]
  | cons x xs =>
    simp only [stateAfter, List.getLast?_cons_cons]
    cases h : (x :: xs).getLast? with
    | none => simp at h
    | some y => rfl

/-- the scan is a left-to-right machine: what follows a prefix of the segment list is the scan of the
remaining text, started in the look-behind state left by the prefix -/
theorem scan_split : ∀ (segs1 : List Seg) (f : Nat) (p : Bool) (s : List Char) (segs2 : List Seg),
    s.length ≤ f → scan f p s = segs1 ++ segs2 →
    scan f (stateAfter p segs1) (s.drop (segs1.flatMap Seg.src).length) = segs2 := by
  intro segs1
  induction segs1 with
  | nil => intro f p s segs2 _ h; simpa [stateAfter] using h
  | cons sg t ih =>
    intro f p s segs2 hf h
    cases f with
    | zero => simp [scan] at h
    | succ f =>
      cases s with
      | nil => simp [scan] at h
      | cons c r =>
        simp only [scan] at h
        split at h
        · rename_i sg' rest hm
          simp only [List.cons_append, List.cons.injEq] at h
          obtain ⟨rfl, h⟩ := h
          have hsrc := matchAt_src hm
          have hlt := matchAt_shorter hm
          have := ih f sg'.endsBs rest segs2 (by simp at hf hlt; omega) h
          rw [stateAfter_cons, List.flatMap_cons, List.length_append, hsrc, ← List.drop_drop]
          simp only [List.drop_left]
          rw [← this]
          exact scan_fuel _ _ _ _ (by simp at hf hlt ⊢; omega) (by simp at hf hlt ⊢; omega)
        · simp only [List.cons_append, List.cons.injEq] at h
          obtain ⟨rfl, h⟩ := h
          have := ih f (isBs c) r segs2 (by simpa using hf) h
          rw [stateAfter_cons, List.flatMap_cons]
          simp only [Seg.src, Seg.endsBs, List.length_append, List.length_cons, List.length_nil]
          rw [show 0 + 1 + (List.flatMap Seg.src t).length = (List.flatMap Seg.src t).length + 1 by omega,
            List.drop_succ_cons, ← this]
          exact scan_fuel _ _ _ _ (by simp at hf ⊢; omega) (by simp at hf ⊢; omega)

theorem scan_esc_pos : ∀ (f : Nat) (p : Bool) (s : List Char) (n : Nat), Seg.esc n ∈ scan f p s → 1 ≤ n := by
  intro f
  induction f with
  | zero => intro p s n h; simp [scan] at h
  | succ f ih =>
    intro p s n h
    cases s with
    | nil => simp [scan] at h
    | cons c r =>
      simp only [scan] at h
      split at h
      · rename_i sg rest hm
        rcases List.mem_cons.mp h with h | h
        · rcases matchAt_cases hm with h' | h' | h'
          · obtain ⟨_, k, hk, h1⟩ := matchEsc_some h'; rw [← h] at hk; cases hk; exact h1
          · obtain ⟨_, _, nm', hn, _⟩ := matchVar_some h'; rw [← h] at hn; cases hn
          · obtain ⟨_, nm', hn, _⟩ := matchEscaped_some h'; rw [← h] at hn; cases hn
        · exact ih _ _ _ h
      · rcases List.mem_cons.mp h with h | h
        · cases h
        · exact ih _ _ _ h

theorem src_last_bs (sg : Seg) (h : ∀ n, sg = .esc n → 1 ≤ n) :
    sg.src ≠ [] ∧ (sg.src.getLast? = some '\\' ↔ sg.endsBs = true) := by
  cases sg with
  | lit c => simp [Seg.src, Seg.endsBs, isBs]
  | esc n =>
    have := h n rfl
    obtain ⟨k, rfl⟩ : ∃ k, n = k + 1 := ⟨n - 1, by omega⟩
    refine ⟨by simp [Seg.src, Nat.mul_succ, List.replicate_succ], ?_⟩
    simp [Seg.src, Seg.endsBs, List.getLast?_replicate]
  | var nm =>
    have e : ('@' :: (nm ++ ['@'])) = ('@' :: nm) ++ ['@'] := by simp
    simp only [Seg.src, Seg.endsBs, e, List.getLast?_concat]
    simp
  | escaped nm =>
    have e : ('\\' :: '@' :: (nm ++ ['\\', '@'])) = ('\\' :: '@' :: (nm ++ ['\\'])) ++ ['@'] := by simp
    simp only [Seg.src, Seg.endsBs, e, List.getLast?_concat]
    simp

/-- the look-behind state is exactly "the text produced so far ends in a backslash" -/
theorem stateAfter_iff (segs : List Seg) (h : ∀ n, Seg.esc n ∈ segs → 1 ≤ n) :
    stateAfter false segs = true ↔ (segs.flatMap Seg.src).getLast? = some '\\' := by
  rcases List.eq_nil_or_concat segs with rfl | ⟨l, x, rfl⟩
  · simp [stateAfter]
  · have hx := src_last_bs x (fun n hn => h n (by simp [hn, List.concat_eq_append]))
    have e1 : stateAfter false (l ++ [x]) = x.endsBs := by simp [stateAfter]
    have e2 : ((l ++ [x]).flatMap Seg.src).getLast? = x.src.getLast? := by
      rw [List.flatMap_append, List.getLast?_append]
      cases hsrc : x.src.getLast? with
      | none => exact absurd (List.getLast?_eq_none_iff.mp hsrc) hx.1
      | some c => simp [hsrc]
    rw [List.concat_eq_append, e1, e2, hx.2]



theorem var_segment_iff_aux (pre nm post : List Char) (segs1 segs2 : List Seg)
    (hsplit : segments (pre ++ '@' :: (nm ++ '@' :: post)) = segs1 ++ segs2)
    (hpre : segs1.flatMap Seg.src = pre) :
    (∃ segs3, segs2 = Seg.var nm :: segs3) ↔
      (nm ≠ [] ∧ (∀ c ∈ nm, isNameChar c = true) ∧ pre.getLast? ≠ some '\\') := by
  have hesc : ∀ n, Seg.esc n ∈ segs1 → 1 ≤ n := fun n hn =>
    scan_esc_pos _ _ _ n (by unfold segments at hsplit; rw [hsplit]; exact List.mem_append_left _ hn)
  have hst := stateAfter_iff segs1 hesc
  rw [hpre] at hst
  have h2 := scan_split segs1 _ false _ segs2 (Nat.le_refl _) hsplit
  rw [hpre, List.drop_left] at h2
  -- one step of the scan at the `@`
  obtain ⟨g, hg⟩ : ∃ g, (pre ++ '@' :: (nm ++ '@' :: post)).length = g + 1 := ⟨_, by simp; rfl⟩
  rw [hg] at h2
  simp only [scan] at h2
  constructor
  · rintro ⟨segs3, rfl⟩
    split at h2
    · rename_i sg rest hm
      simp only [List.cons.injEq] at h2
      obtain ⟨rfl, _⟩ := h2
      rcases matchAt_cases hm with h' | h' | h'
      · obtain ⟨_, k, hk, _⟩ := matchEsc_some h'; cases hk
      · obtain ⟨_, hp, nm', hn, h1, h3⟩ := matchVar_some h'
        cases hn
        refine ⟨h1, h3, ?_⟩
        intro hl
        have := hst.mpr hl
        rw [hp] at this; cases this
      · obtain ⟨_, nm', hn, _⟩ := matchEscaped_some h'; cases hn
    · simp at h2
  · rintro ⟨h1, h3, hl⟩
    have hp : stateAfter false segs1 = false := by
      cases hs : stateAfter false segs1 with
      | false => rfl
      | true => exact absurd (hst.mp hs) hl
    rw [hp, matchAt_var nm post h1 h3] at h2
    exact ⟨_, h2.symm⟩


end MesonModel.Template
