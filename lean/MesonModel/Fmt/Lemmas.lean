import MesonModel.Fmt.Tree
/- helper lemmas for C16 (core Lean only) -/
namespace MesonModel.Fmt

/-! ### escape decoding on backslash-free text -/

theorem decodeAux_no_backslash (f : Nat) (s : List Char) (h : '\\' ∉ s) : decodeAux f s = s := by
  induction f generalizing s with
  | zero => rfl
  | succ f ih =>
    cases s with
    | nil => rfl
    | cons c rest =>
      have hc : c ≠ '\\' := fun e => h (by simp [e])
      have hr : '\\' ∉ rest := fun m => h (List.mem_cons_of_mem _ m)
      simp [decodeAux, hc, ih rest hr]

theorem decodeEscapes_no_backslash (s : List Char) (h : '\\' ∉ s) : decodeEscapes s = s :=
  decodeAux_no_backslash _ _ h

theorem plainLexable_of_clean (s : List Char) (hq : '\'' ∉ s) (hb : '\\' ∉ s) : plainLexable s = true := by
  induction s with
  | nil => rfl
  | cons c rest ih =>
    have hc1 : c ≠ '\\' := fun e => hb (by simp [e])
    have hc2 : c ≠ '\'' := fun e => hq (by simp [e])
    have ih' := ih (fun m => hq (List.mem_cons_of_mem _ m)) (fun m => hb (List.mem_cons_of_mem _ m))
    unfold plainLexable
    split
    · rfl
    · rename_i heq; simp at heq; exact absurd heq.1 hc1
    · rename_i heq
      simp at heq
      obtain ⟨h1, h2⟩ := heq
      subst h1; subst h2
      simp [hc1, hc2, ih']

/-! ### f-string substitution sites -/

theorem substAt_no_at (s : List Char) (h : '@' ∉ s) : substAt s = false := by
  cases s with
  | nil => rfl
  | cons c rest =>
    have hc : c ≠ '@' := fun e => h (by simp [e])
    unfold substAt
    split
    · rename_i heq; simp at heq; exact absurd heq.1 hc
    · rfl

theorem hasSubst_no_at (s : List Char) (h : '@' ∉ s) : hasSubst s = false := by
  induction s with
  | nil => rfl
  | cons c rest ih =>
    simp [hasSubst, substAt_no_at _ h, ih (fun m => h (List.mem_cons_of_mem _ m))]

/-- `any(x in value for x in l)` is false → no member of `l` occurs in `value` -/
theorem not_mem_of_any_false (l v : List Char) (c : Char) (hc : c ∈ l)
    (h : (l.any (fun x => v.contains x)) = false) : c ∉ v := by
  intro hm
  have h' : ∀ x, x ∈ l → ¬ x ∈ v := by simpa using h
  exact h' c hc hm

/-! ### erase ignores trivia -/

mutual
theorem erase_mapWs (f : List Char → List Char) : ∀ t : Tree, erase (mapWs f t) = erase t
  | .node k fl tx kids ws => by
    simp only [mapWs, erase]
    rw [eraseList_mapWs f kids]
theorem eraseList_mapWs (f : List Char → List Char) : ∀ ts : List Tree, eraseList (mapWsList f ts) = eraseList ts
  | [] => by simp [mapWsList, eraseList]
  | t :: ts => by
    simp only [mapWsList, eraseList]
    rw [erase_mapWs f t, eraseList_mapWs f ts]
end

theorem eraseList_append (a b : List Tree) : eraseList (a ++ b) = eraseList a ++ eraseList b := by
  induction a with
  | nil => simp [eraseList]
  | cons t ts ih => simp [eraseList, ih]

theorem erase_symbol (fl : Nat) (tx : List Char) (kids : List Tree) (ws : List Char) :
    erase (.node .symbol fl tx kids ws) = [] := by
  simp [erase]

/-! ### the sort order -/

theorem keyLe_trans (a b c : List Nat) (h1 : keyLe a b = true) (h2 : keyLe b c = true) : keyLe a c = true := by
  simp only [keyLe, decide_eq_true_eq] at *
  exact List.le_trans h1 h2

theorem keyLe_total (a b : List Nat) : (keyLe a b || keyLe b a) = true := by
  simp only [keyLe, Bool.or_eq_true, decide_eq_true_eq]
  exact List.le_total a b

end MesonModel.Fmt

namespace MesonModel.Fmt

/-! ### the two simplification rules -/

/-- value of the literal obtained by printing a node and lexing it again -/
def reVal (n : StrNode) : List Char := if n.multi then n.value else decodeEscapes n.raw

theorem denote_reparse (n : StrNode) : denote (reparse n) = (reVal n, n.fstr && hasSubst (reVal n)) := by
  cases n with
  | mk raw value multi fstr => cases multi <;> simp [reparse, parseStr, denote, reVal]

/-- a node whose `value` is what its printed form denotes (true of every parsed node and kept by rule 1) -/
def Consistent (n : StrNode) : Prop := n.value = reVal n

theorem consistent_parseStr (raw : List Char) (multi fstr : Bool) : Consistent (parseStr raw multi fstr) := by
  cases multi <;> simp [Consistent, parseStr, reVal]

theorem consistent_simplifyMulti (excl : List Char) (n : StrNode) (h : Consistent n) :
    Consistent (simplifyMulti excl n) := by
  unfold simplifyMulti
  split
  · simp [Consistent, reVal]
  · exact h

/-- rule 2 never changes what the literal denotes, for EVERY recogniser that accepts at least the values the
interpreter substitutes into (`hasSubst`, the regex of `InterpreterBase.evaluate_fstring`) -/
theorem simplifyFWith_denote (keep : List Char → Bool) (hk : ∀ v, hasSubst v = true → keep v = true)
    (n : StrNode) (h : Consistent n) :
    denote (reparse (simplifyFWith keep n)) = denote (reparse n) ∧
    (simplifyFWith keep n).multi = n.multi ∧ (simplifyFWith keep n).raw = n.raw := by
  unfold simplifyFWith
  split
  · rename_i hc
    have hkeep : keep n.value = false := by
      cases hh : keep n.value with
      | false => rfl
      | true => rw [hh] at hc; simp at hc
    have hno : hasSubst n.value = false := by
      cases hs : hasSubst n.value with
      | false => rfl
      | true => rw [hk _ hs] at hkeep; exact absurd hkeep (by simp)
    rw [h] at hno
    refine ⟨?_, rfl, rfl⟩
    rw [denote_reparse, denote_reparse]
    have e : reVal { n with fstr := false } = reVal n := by simp [reVal]
    simp [e, hno]
  · exact ⟨rfl, rfl, rfl⟩

/-- a substitution site contains an `@` -/
theorem mem_at_of_hasSubst (v : List Char) (h : hasSubst v = true) : '@' ∈ v := by
  cases hm : decide ('@' ∈ v) with
  | true => simpa using hm
  | false =>
    have : '@' ∉ v := by simpa using hm
    rw [hasSubst_no_at v this] at h
    exact absurd h (by simp)

/-- the coded recogniser (`'@' in value`) accepts everything the interpreter substitutes into -/
theorem markerKeep_of_hasSubst (fmark : List Char) (hat : '@' ∈ fmark) (v : List Char)
    (h : hasSubst v = true) : markerKeep fmark v = true := by
  have hm := mem_at_of_hasSubst v h
  simp only [markerKeep, List.any_eq_true]
  exact ⟨'@', hat, by simp [hm]⟩

theorem simplifyF_denote (fmark : List Char) (hat : '@' ∈ fmark) (n : StrNode) (h : Consistent n) :
    denote (reparse (simplifyF fmark n)) = denote (reparse n) ∧
    (simplifyF fmark n).multi = n.multi ∧ (simplifyF fmark n).raw = n.raw :=
  simplifyFWith_denote (markerKeep fmark) (markerKeep_of_hasSubst fmark hat) n h

/-- rule 1 on a parsed node, when the excluded list holds quote and backslash -/
theorem simplifyMulti_denote (excl : List Char) (hq : '\'' ∈ excl) (hb : '\\' ∈ excl)
    (raw : List Char) (multi fstr : Bool) (hlex : multi = false → plainLexable raw = true) :
    denote (reparse (simplifyMulti excl (parseStr raw multi fstr))) = denote (parseStr raw multi fstr) ∧
    ((simplifyMulti excl (parseStr raw multi fstr)).multi = false →
      plainLexable (simplifyMulti excl (parseStr raw multi fstr)).raw = true) := by
  cases multi with
  | false =>
    have e : simplifyMulti excl (parseStr raw false fstr) = parseStr raw false fstr := by
      simp only [simplifyMulti, parseStr, Bool.false_and, Bool.false_eq_true, ↓reduceIte]
    rw [e]
    refine ⟨?_, fun _ => hlex rfl⟩
    rw [denote_reparse]
    simp [parseStr, reVal, denote]
  | true =>
    cases hx : (excl.any fun x => raw.contains x) with
    | true =>
      have e : simplifyMulti excl (parseStr raw true fstr) = parseStr raw true fstr := by
        simp only [simplifyMulti, parseStr, ↓reduceIte, hx, Bool.not_true, Bool.and_false, Bool.false_eq_true]
      rw [e]
      refine ⟨?_, fun h => by simp [parseStr] at h⟩
      rw [denote_reparse]
      simp [parseStr, reVal, denote]
    | false =>
      have hnq := not_mem_of_any_false excl raw '\'' hq hx
      have hnb := not_mem_of_any_false excl raw '\\' hb hx
      have hdec := decodeEscapes_no_backslash raw hnb
      have e : simplifyMulti excl (parseStr raw true fstr) =
          { raw := raw, value := raw, multi := false, fstr := fstr } := by
        simp only [simplifyMulti, parseStr, ↓reduceIte, hx, Bool.not_false, Bool.and_self, hdec]
      rw [e]
      refine ⟨?_, fun _ => plainLexable_of_clean raw hnq hnb⟩
      rw [denote_reparse]
      simp [parseStr, reVal, denote, hdec]

end MesonModel.Fmt
