import MesonModel.Rewrite.SrcCommand
/-
`pathname_sort_key` (mesonbuild/utils/universal.py) as the key of `sort_files`: does comparing two keys ever fail?

The key is a tuple of `(bool, tuple of int | str)`.  Python compares tuples element by element with `==` (which
never raises) up to the first difference and applies `<` there: `int < str` raises TypeError.  The construct-by-
construct model of the key is the one of C17 (`MesonModel.Rewrite.pathKey`, `alphanumKey`: `re.split('([0-9]+)', x)`
gives text, digits, text, …, text); here the comparison is modelled with its failure (`none`), and it is proved
that no two keys of the function as coded ever reach it: text and number pieces alternate from a text in EVERY
key, so the pieces at the first difference have the same type.  (A chunking that drops the empty texts —
`re.findall('[0-9]+|[^0-9]+')` — breaks exactly this: `'7zip'` starts with a number, `'main'` with a text.)
-/
namespace MesonModel.Fmt.SortKey
open MesonModel.Rewrite

/-- `<` between two pieces; `none` = TypeError ('<' not supported between 'int' and 'str') -/
def partLt? : KeyPart → KeyPart → Option Bool
  | .txt a, .txt b => some (strLt a b)
  | .num a, .num b => some (decide (a < b))
  | _, _ => none

/-- tuple `<` on `alphanum_key` tuples -/
def tupLt? : List KeyPart → List KeyPart → Option Bool
  | [], [] => some false
  | [], _ :: _ => some true
  | _ :: _, [] => some false
  | a :: as, b :: bs => if a = b then tupLt? as bs else partLt? a b

/-- `<` on the pairs `(is last component, alphanum_key)` -/
def compLt? (a b : Bool × List KeyPart) : Option Bool :=
  if a.1 == b.1 then tupLt? a.2 b.2 else some (!a.1 && b.1)

/-- tuple `<` on whole keys -/
def keyLt? : List (Bool × List KeyPart) → List (Bool × List KeyPart) → Option Bool
  | [], [] => some false
  | [], _ :: _ => some true
  | _ :: _, [] => some false
  | a :: as, b :: bs => if a = b then keyLt? as bs else compLt? a b

/-- `pathname_sort_key(a) < pathname_sort_key(b)` with its failure -/
def pathLt? (a b : List Char) : Option Bool := keyLt? (pathKey a) (pathKey b)

/-- pieces alternate: text, number, text, … (`p`: a text is expected next) -/
def Alt : Bool → List KeyPart → Prop
  | _, [] => True
  | true, .txt _ :: r => Alt false r
  | false, .num _ :: r => Alt true r
  | _, _ => False

theorem alphanumKeyF_alt (f : Nat) (s : List Char) : Alt true (alphanumKeyF f s) := by
  induction f generalizing s with
  | zero => simp [alphanumKeyF, Alt]
  | succ f ih =>
    simp only [alphanumKeyF]
    split
    · simp [Alt]
    · simp only [Alt]; exact ih _

theorem alphanumKey_alt (s : List Char) : Alt true (alphanumKey s) := alphanumKeyF_alt _ s

theorem tupLt?_isSome (p : Bool) (a b : List KeyPart) (ha : Alt p a) (hb : Alt p b) : (tupLt? a b).isSome = true := by
  induction a generalizing b p with
  | nil => cases b <;> simp [tupLt?]
  | cons x as ih =>
    cases b with
    | nil => simp [tupLt?]
    | cons y bs =>
      simp only [tupLt?]
      cases p <;> cases x <;> cases y <;> simp only [Alt] at ha hb <;> first
        | (split
           · exact ih _ _ ha hb
           · simp [partLt?])
        | exact ha.elim
        | exact hb.elim

/-- every component of a key carries an alternating tuple -/
def AllAlt (k : List (Bool × List KeyPart)) : Prop := ∀ c ∈ k, Alt true c.2

theorem flagComps_alt (l : List (List Char)) : AllAlt (flagComps l) := by
  induction l with
  | nil => intro c hc; simp [flagComps] at hc
  | cons x r ih =>
    cases r with
    | nil =>
      intro c hc
      simp only [flagComps, List.mem_singleton] at hc
      subst hc; exact alphanumKey_alt x
    | cons y r' =>
      intro c hc
      simp only [flagComps, List.mem_cons] at hc
      rcases hc with rfl | hc
      · exact alphanumKey_alt x
      · exact ih c (by simpa [flagComps] using hc)

theorem keyLt?_isSome (a b : List (Bool × List KeyPart)) (ha : AllAlt a) (hb : AllAlt b) :
    (keyLt? a b).isSome = true := by
  induction a generalizing b with
  | nil => cases b <;> simp [keyLt?]
  | cons x as ih =>
    cases b with
    | nil => simp [keyLt?]
    | cons y bs =>
      simp only [keyLt?]
      split
      · exact ih bs (fun c hc => ha c (List.mem_cons_of_mem _ hc)) (fun c hc => hb c (List.mem_cons_of_mem _ hc))
      · simp only [compLt?]
        split
        · exact tupLt?_isSome true _ _ (ha x (List.mem_cons_self ..)) (hb y (List.mem_cons_self ..))
        · simp

/-- **comparing the sort keys of two names never fails**, whatever the names -/
theorem pathLt?_never_fails (a b : List Char) : (pathLt? a b).isSome = true :=
  keyLt?_isSome _ _ (flagComps_alt _) (flagComps_alt _)

/-! ### agreement with the order of the C17 model (`pathKeyLt`, which leaves the mixed case unspecified) -/

theorem tupLt?_eq (a b : List KeyPart) (v : Bool) (h : tupLt? a b = some v) :
    lexLt (fun x y => decide (x = y)) partLt a b = v := by
  induction a generalizing b with
  | nil => cases b <;> simp_all [tupLt?, lexLt]
  | cons x as ih =>
    cases b with
    | nil => simp_all [tupLt?, lexLt]
    | cons y bs =>
      simp only [tupLt?] at h
      simp only [lexLt]
      split at h
      · rename_i he; simp only [he, decide_true, if_true]; exact ih bs h
      · rename_i he
        simp only [he, decide_false]
        cases x <;> cases y <;> simp_all [partLt?, partLt]

theorem keyLt?_eq (a b : List (Bool × List KeyPart)) (v : Bool) (h : keyLt? a b = some v) :
    lexLt (fun x y => decide (x = y)) compLt a b = v := by
  induction a generalizing b with
  | nil => cases b <;> simp_all [keyLt?, lexLt]
  | cons x as ih =>
    cases b with
    | nil => simp_all [keyLt?, lexLt]
    | cons y bs =>
      simp only [keyLt?] at h
      simp only [lexLt]
      split at h
      · rename_i he; simp only [he, decide_true, if_true]; exact ih bs h
      · rename_i he
        simp only [he, decide_false]
        simp only [compLt?] at h
        simp only [compLt]
        split at h
        · rename_i hf; simp only [hf, if_true]; exact tupLt?_eq _ _ _ h
        · rename_i hf; simp only [hf]; simpa using h

/-- the comparison always succeeds and yields the order of the C17 model -/
theorem pathLt?_eq (a b : List Char) : pathLt? a b = some (pathKeyLt a b) := by
  have h := pathLt?_never_fails a b
  cases hv : pathLt? a b with
  | none => simp [hv] at h
  | some v => rw [← keyLt?_eq _ _ v hv]; rfl

/-- `<` on keys is irreflexive: equal keys keep their order (the sort is stable), so sorting is a function of the keys -/
theorem keyLt?_irrefl (a : List (Bool × List KeyPart)) : keyLt? a a = some false := by
  induction a with
  | nil => simp [keyLt?]
  | cons x as ih => simp [keyLt?, ih]

theorem pathLt?_irrefl (a : List Char) : pathLt? a a = some false := keyLt?_irrefl _

end MesonModel.Fmt.SortKey
