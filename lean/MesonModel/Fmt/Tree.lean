import MesonModel.Fmt.Rewrite
/-
C16 — the tree the formatter works on and what the property compares.

`Tree` is a rose tree mirroring the node classes of `mparser.py` with their symbol and whitespace children in
`FullAstVisitor` visiting order (the harness serialises the trees built by the real parser):
every node carries its trailing `whitespaces` value `ws` (spaces, newlines, comments, continuations);
`Kind.pre` is a code block's `pre_whitespaces`; `Kind.kw` groups `key : value` of an argument list.

* `erase`    : the program skeleton — whitespace, comments, every punctuation symbol (hence redundant trailing
               commas) and `ParenthesizedNode`s are dropped, string literals are replaced by what they denote,
               numbers by their value.
* `comments` : the comments of a tree in source order.
* `canon`    : quotient by the documented rewrites: `files([...])` ≡ `files(...)`; with `sort_files` the
               positional arguments of `files()` are compared as a multiset.
-/
namespace MesonModel.Fmt
open MesonModel.Py

inductive Kind where
  | empty | boolean | id | number | string | continue_ | break_ | symbol | args | kw | array | dict
  | or_ | and_ | cmp | arith | not_ | uminus | block | pre | index | method | func | assign | plusAssign
  | foreach_ | ifClause | if_ | else_ | ternary | paren
  deriving DecidableEq, Repr, Inhabited

def Kind.all : List Kind :=
  [.empty, .boolean, .id, .number, .string, .continue_, .break_, .symbol, .args, .kw, .array, .dict,
   .or_, .and_, .cmp, .arith, .not_, .uminus, .block, .pre, .index, .method, .func, .assign, .plusAssign,
   .foreach_, .ifClause, .if_, .else_, .ternary, .paren]

def Kind.ofIdx (n : Nat) : Kind := Kind.all.getD n .empty
def Kind.toIdx (k : Kind) : Nat := Kind.all.idxOf k

/-- `flags` of a string node: bit 0 = triple-quoted, bit 1 = f-string -/
inductive Tree where
  | node (kind : Kind) (flags : Nat) (text : List Char) (kids : List Tree) (ws : List Char)
  deriving Repr, Inhabited

inductive Skel where
  | node (kind : Kind) (flag : Bool) (text : List Char) (kids : List Skel)
  deriving Repr, Inhabited

/-! ### numbers -/

def digitOfBase (c : Char) : Nat := (hexVal c).getD 0

def natOfBase (b : Nat) (s : List Char) : Nat := s.foldl (fun acc c => acc * b + digitOfBase c) 0

/-- `int(raw, base=0)` on a `number` token (`0x…`, `0o…`, `0b…`, decimal) -/
def numValue : List Char → Nat
  | '0' :: p :: rest =>
    if p = 'x' ∨ p = 'X' then natOfBase 16 rest
    else if p = 'o' ∨ p = 'O' then natOfBase 8 rest
    else if p = 'b' ∨ p = 'B' then natOfBase 2 rest
    else natOfBase 10 ('0' :: p :: rest)
  | s => natOfBase 10 s

/-! ### erase -/

def strSkel (flags : Nat) (raw : List Char) : Skel :=
  let n := parseStr raw (flags % 2 == 1) (flags / 2 % 2 == 1)
  .node .string (denote n).2 (denote n).1 []

mutual
def erase : Tree → List Skel
  | .node k fl tx kids _ =>
    if k = .symbol ∨ k = .pre then []
    else if k = .paren then eraseList kids
    else if k = .string then [strSkel fl tx]
    else if k = .number then [.node .number false (toString (numValue tx)).toList []]
    else [.node k false tx (eraseList kids)]
def eraseList : List Tree → List Skel
  | [] => []
  | t :: ts => erase t ++ eraseList ts
end

/-! ### comments -/

/-- text of the comments in a whitespace value: each `#` up to the end of its line, right-stripped -/
def commentsOfAux : List Char → Option (List Char) → List (List Char)
  | [], none => []
  | [], some cur => [rstrip cur.reverse]
  | c :: rest, none => if c = '#' then commentsOfAux rest (some ['#']) else commentsOfAux rest none
  | c :: rest, some cur =>
    if c = '\n' then rstrip cur.reverse :: commentsOfAux rest none else commentsOfAux rest (some (c :: cur))

def commentsOf (s : List Char) : List (List Char) := commentsOfAux s none

mutual
def comments : Tree → List (List Char)
  | .node k _ tx kids ws =>
    (if k = .symbol then commentsOf tx else []) ++ commentsList kids ++ commentsOf ws
def commentsList : List Tree → List (List Char)
  | [] => []
  | t :: ts => comments t ++ commentsList ts
end

/-! ### trivia -/

mutual
/-- replace every whitespace value (the `ws` of every node, `pre_whitespaces` included) -/
def mapWs (f : List Char → List Char) : Tree → Tree
  | .node k fl tx kids ws => .node k fl tx (mapWsList f kids) (f ws)
def mapWsList (f : List Char → List Char) : List Tree → List Tree
  | [] => []
  | t :: ts => mapWs f t :: mapWsList f ts
end

def isSymbol : Tree → Bool
  | .node k _ _ _ _ => k == .symbol

/-! ### canonical form modulo the documented rewrites -/

mutual
def Skel.encode : Skel → List Nat
  | .node k f tx kids =>
    k.toIdx :: (if f then 1 else 0) :: tx.length :: tx.map Char.toNat ++ (Skel.encodeList kids)
def Skel.encodeList : List Skel → List Nat
  | [] => [0]
  | s :: ss => 1 :: (Skel.encode s ++ Skel.encodeList ss)
end

def Skel.kind : Skel → Kind
  | .node k _ _ _ => k

def Skel.isFilesName : Skel → Bool
  | .node k _ tx _ => k == .id && tx == "files".toList

/-- `files([[…]])` → `files(…)`: while the argument list is exactly one array; fuel = nesting bound -/
def flattenArgs : Nat → Skel → Skel
  | 0, s => s
  | f + 1, .node .args fl tx [.node .array _ _ [inner]] =>
    if inner.kind == .args then flattenArgs f inner else .node .args fl tx [.node .array false [] [inner]]
  | _ + 1, s => s

def sortArgs (sortOn : Bool) : Skel → Skel
  | .node .args fl tx kids =>
    if sortOn then
      .node .args fl tx (sortByKey Skel.encode (kids.filter (fun s => s.kind != .kw)) ++
                         kids.filter (fun s => s.kind == .kw))
    else .node .args fl tx kids
  | s => s

mutual
def canon (sortOn : Bool) : Skel → Skel
  | .node k f tx kids =>
    let kids' := canonList sortOn kids
    if k = .func then
      match kids' with
      | [nm, a] => if nm.isFilesName then .node k f tx [nm, sortArgs sortOn (flattenArgs 64 a)] else .node k f tx kids'
      | _ => .node k f tx kids'
    else .node k f tx kids'
def canonList (sortOn : Bool) : List Skel → List Skel
  | [] => []
  | s :: ss => canon sortOn s :: canonList sortOn ss
end

/-- the check of one (input, output) pair -/
def sameProgram (sortOn : Bool) (tin tout : Tree) : Bool :=
  Skel.encodeList (canonList sortOn (erase tin)) == Skel.encodeList (canonList sortOn (erase tout))

def sameComments (tin tout : Tree) : Bool := comments tin == comments tout

/-! ### `files([...])` flattening as coded (`TrimWhitespaces.visit_FunctionNode`, mformat.py) -/

def Tree.kind : Tree → Kind
  | .node k _ _ _ _ => k

def Tree.ws : Tree → List Char
  | .node _ _ _ _ w => w

/-- positional arguments (`node.arguments`) of an argument-list node -/
def positional (kids : List Tree) : List Tree := kids.filter (fun t => t.kind != .symbol && t.kind != .kw)
def keywords (kids : List Tree) : List Tree := kids.filter (fun t => t.kind == .kw)
/-- the commas of an argument-list node -/
def commasOf (kids : List Tree) : List Tree := kids.filter (fun t => t.kind == .symbol)

/-- `not (n.whitespaces and '#' in n.whitespaces.value)` -/
def noComment (w : List Char) : Bool := !(w.contains '#')
def blankWs (t : Tree) : Bool := noComment t.ws

/-- an empty inner argument list must not hold a comment either (the whitespaces of `[` are moved there when the
array is empty) -/
def emptyArgsNoComment : Tree → Bool
  | .node _ _ _ kids w => !(positional kids).isEmpty || !(keywords kids).isEmpty || noComment w

/-- one turn of the `while` loop: the call `files(<one array, no keywords>)` gets the array's own argument list,
unless one of the whitespace nodes that would be dropped (of the two brackets, of the array, of the outer
argument list and of its commas) holds a comment -/
def flattenStep : Tree → Option Tree
  | .node .func fl tx [nm, lp, .node .args afl atx akids aws, rp] ws =>
    match nm with
    | .node .id _ name _ _ =>
      if name = "files".toList ∧ (keywords akids).isEmpty then
        match positional akids with
        | [.node .array afl2 atx2 [lb, inner, rb] arrws] =>
          if blankWs lb && blankWs rb && noComment arrws && noComment aws &&
             (commasOf akids).all blankWs && inner.kind == .args && emptyArgsNoComment inner then
            some (.node .func fl tx [nm, lp, inner, rp] ws)
          else none
        | _ => none
      else none
    | _ => none
  | _ => none

/-- the loop (fuel = nesting bound): the flattened call and the number of array levels removed -/
def flattenFiles : Nat → Tree → Tree × Nat
  | 0, t => (t, 0)
  | f + 1, t =>
    match flattenStep t with
    | some t' => let r := flattenFiles f t'; (r.1, r.2 + 1)
    | none => (t, 0)

end MesonModel.Fmt
