import MesonModel.Fmt.Layout
/- lemmas about the argument-list layout model (`MesonModel/Fmt/Layout.lean`) -/
namespace MesonModel.Fmt.Layout

/-! ### lists -/

theorem isEmpty_of_length_eq {α β : Type} (a : List α) (b : List β) (h : a.length = b.length) :
    a.isEmpty = b.isEmpty := by
  cases a <;> cases b <;> simp_all

theorem hasCmtL_eq_any (l : List Node) : hasCmtL l = l.any hasCmt := by
  induction l with
  | nil => simp [hasCmtL]
  | cons n r ih => simp [hasCmtL, ih]

theorem detL_eq_any (cfg : Cfg) (ch : Bool) (l : List Node) : detL cfg ch l = l.any (det cfg ch) := by
  induction l with
  | nil => simp [detL]
  | cons n r ih => simp [detL, ih]

theorem fmtL_eq_map (cfg : Cfg) (l : List Node) : fmtL cfg l = l.map (fmt cfg) := by
  induction l with
  | nil => simp [fmtL]
  | cons n r ih => simp [fmtL, ih]

theorem leavesL_eq (l : List Node) : leavesL l = (l.map leaves).flatten := by
  induction l with
  | nil => simp [leavesL]
  | cons n r ih => simp [leavesL, ih]

theorem sortNodes_perm (l : List Node) : (sortNodes l).Perm l := List.mergeSort_perm l _

theorem sortIf_perm (b : Bool) (l : List Node) : (sortIf b l).Perm l := by
  unfold sortIf; split
  · exact sortNodes_perm l
  · exact List.Perm.refl _

theorem sortIf_length (b : Bool) (l : List Node) : (sortIf b l).length = l.length := (sortIf_perm b l).length_eq

theorem any_sortIf (b : Bool) (l : List Node) (p : Node → Bool) : (sortIf b l).any p = l.any p :=
  (sortIf_perm b l).any_eq

theorem sortIf_singleton (b : Bool) (n : Node) : sortIf b [n] = [n] := by
  unfold sortIf sortNodes; split <;> simp

theorem sortIf_nil (b : Bool) : sortIf b [] = [] := by
  unfold sortIf sortNodes; split <;> simp

/-! ### the order of `sort_arguments` -/

theorem nodeLe_trans (a b c : Node) (h1 : nodeLe a b = true) (h2 : nodeLe b c = true) : nodeLe a c = true := by
  unfold nodeLe at *
  cases ha : isKw a <;> cases hb : isKw b <;> cases hc : isKw c <;> simp_all
  omega

theorem nodeLe_total (a b : Node) : (nodeLe a b || nodeLe b a) = true := by
  unfold nodeLe
  cases ha : isKw a <;> cases hb : isKw b <;> simp
  omega

theorem sortNodes_sorted (l : List Node) : (sortNodes l).Pairwise (fun a b => nodeLe a b = true) :=
  List.pairwise_mergeSort (fun a b c => nodeLe_trans a b c) (fun a b => nodeLe_total a b) l

theorem sortNodes_of_sorted (l : List Node) (h : l.Pairwise (fun a b => nodeLe a b = true)) : sortNodes l = l :=
  List.mergeSort_of_pairwise h

/-! ### unfolding `fmtArgs` -/

/-- what `continues` reads of a node -/
def arrInfo : Node → Option (Bool × Bool × Bool)
  | .coll .array its _ ci' co' => some (its.isEmpty, ci', co')
  | _ => none

theorem continues_eq (items : List Node) (ci : Bool) :
    continues items ci = (match items with
      | [n] => (match arrInfo n with
        | some (e, ci', co') => !ci && !co' && !(e && ci')
        | none => false)
      | _ => false) := by
  unfold continues
  split
  · simp [arrInfo]
  · rename_i h
    split
    · rename_i n
      cases n with
      | coll c its tr' ci' co' =>
        cases c <;> simp [arrInfo]
        exact absurd rfl (h its tr' ci' co')
      | _ => simp [arrInfo]
    · rfl

theorem fmtArgs_chain (cfg : Cfg) (co : Bool) (its : List Node) (tr' ci' co' tr ci : Bool)
    (h : continues [.coll .array its tr' ci' co'] ci = true) :
    fmtArgs cfg .files co [.coll .array its tr' ci' co'] tr ci = fmtArgs cfg .files co its tr' ci' := by
  simp only [continues] at h
  rw [fmtArgs, if_pos]
  rw [h]; rfl

theorem fmtArgs_final (cfg : Cfg) (c : Cont) (co : Bool) (items : List Node) (tr ci : Bool)
    (h : (c == .files && continues items ci) = false) :
    fmtArgs cfg c co items tr ci = build cfg c co items tr ci (fmtL cfg items) := by
  unfold fmtArgs
  split
  · rename_i its tr' ci' co'
    simp only [continues] at h
    rw [if_neg (by rw [h]; simp)]
    simp [fmtL, fmt]
  · rfl

theorem decided_chain (cfg : Cfg) (co : Bool) (its : List Node) (tr' ci' co' tr ci : Bool)
    (h : continues [.coll .array its tr' ci' co'] ci = true) :
    decided cfg .files co [.coll .array its tr' ci' co'] tr ci = decided cfg .files co its tr' ci' := by
  simp only [continues] at h
  rw [decided, if_pos]
  rw [h]; rfl

theorem decided_final (cfg : Cfg) (c : Cont) (co : Bool) (items : List Node) (tr ci : Bool)
    (h : (c == .files && continues items ci) = false) :
    decided cfg c co items tr ci = det cfg false (.coll c items tr ci co) := by
  unfold decided
  split
  · simp only [continues] at h
    rw [if_neg (by rw [h]; simp)]
  · rfl

/-! ### the end of the `files([...])` chain -/

/-- the argument list the container has after the `while` loop of the `files([...])` rewrite -/
def finalList (c : Cont) : List Node → Bool → Bool → List Node × Bool × Bool
  | [.coll .array its tr' ci' co'], tr, ci =>
    if c == .files && (!ci && !co' && !(its.isEmpty && ci')) then finalList .files its tr' ci'
    else ([.coll .array its tr' ci' co'], tr, ci)
  | items, tr, ci => (items, tr, ci)

theorem finalList_stops (c : Cont) (items : List Node) (tr ci : Bool) :
    (c == .files && continues (finalList c items tr ci).1 (finalList c items tr ci).2.2) = false := by
  fun_induction finalList c items tr ci with
  | case1 c its tr' ci' co' tr ci h ih =>
    have hc : c = .files := by
      cases c <;> simp_all
    subst hc; exact ih
  | case2 c its tr' ci' co' tr ci h =>
    simp only [continues]
    cases hh : (c == Cont.files && (!ci && !co' && !(its.isEmpty && ci'))) with
    | true => exact absurd hh h
    | false => rfl
  | case3 c items tr ci h =>
    have : continues items ci = false := by
      unfold continues; split
      · rename_i its tr' ci' co'; exact absurd rfl (h its tr' ci' co')
      · rfl
    simp [this]

theorem fmtArgs_eq_build (cfg : Cfg) (c : Cont) (co : Bool) (items : List Node) (tr ci : Bool) :
    fmtArgs cfg c co items tr ci =
      build cfg c co (finalList c items tr ci).1 (finalList c items tr ci).2.1 (finalList c items tr ci).2.2
        (fmtL cfg (finalList c items tr ci).1) := by
  fun_induction finalList c items tr ci with
  | case1 c its tr' ci' co' tr ci h ih =>
    have hc : c = .files := by
      cases c <;> simp_all
    subst hc
    rw [fmtArgs, if_pos h]; exact ih
  | case2 c its tr' ci' co' tr ci h =>
    apply fmtArgs_final
    simp only [continues]
    cases hh : (c == Cont.files && (!ci && !co' && !(its.isEmpty && ci'))) with
    | true => exact absurd hh h
    | false => rfl
  | case3 c items tr ci h =>
    apply fmtArgs_final
    have : continues items ci = false := by
      unfold continues; split
      · rename_i its tr' ci' co'; exact absurd rfl (h its tr' ci' co')
      · rfl
    simp [this]

theorem decided_eq_det (cfg : Cfg) (c : Cont) (co : Bool) (items : List Node) (tr ci : Bool) :
    decided cfg c co items tr ci =
      det cfg false (.coll c (finalList c items tr ci).1 (finalList c items tr ci).2.1 (finalList c items tr ci).2.2 co) := by
  fun_induction finalList c items tr ci with
  | case1 c its tr' ci' co' tr ci h ih =>
    have hc : c = .files := by
      cases c <;> simp_all
    subst hc
    rw [decided, if_pos h]; exact ih
  | case2 c its tr' ci' co' tr ci h =>
    rw [decided, if_neg h]
  | case3 c items tr ci h =>
    unfold decided; split
    · rename_i its tr' ci' co'; exact absurd rfl (h its tr' ci' co')
    · rfl

/-- the form of a formatted container: same kind, same comment after the opening bracket -/
theorem fmtArgs_shape (cfg : Cfg) (c : Cont) (co : Bool) (items : List Node) (tr ci : Bool) :
    ∃ S t i, fmtArgs cfg c co items tr ci = .coll c S t i co := by
  rw [fmtArgs_eq_build]; exact ⟨_, _, _, rfl⟩

theorem arrInfo_fmt (cfg : Cfg) (n : Node) : arrInfo (fmt cfg n) = arrInfo n := by
  cases n with
  | leaf k => simp [fmt, arrInfo]
  | mstr k p => simp only [fmt]; split <;> simp [arrInfo]
  | kw k v => simp [fmt, arrInfo]
  | coll c items tr ci co =>
    cases hc : c with
    | array =>
      simp only [fmt]
      rw [fmtArgs_final cfg .array co items tr ci (by simp)]
      simp only [build, arrInfo]
      have : (sortIf (Cont.array == Cont.files && cfg.sortFiles && !(ci || hasCmtL items)) (fmtL cfg items)).isEmpty
          = items.isEmpty := by
        apply isEmpty_of_length_eq
        rw [sortIf_length, fmtL_eq_map, List.length_map]
      rw [this]
    | _ =>
      obtain ⟨S, t, i, h⟩ := fmtArgs_shape cfg c co items tr ci
      simp only [fmt]; rw [← hc, h]; subst hc; simp [arrInfo]

theorem isKw_fmt (cfg : Cfg) (n : Node) : isKw (fmt cfg n) = isKw n := by
  cases n with
  | leaf k => simp [fmt, isKw]
  | mstr k p => simp only [fmt]; split <;> simp [isKw]
  | kw k v => simp [fmt, isKw]
  | coll c items tr ci co =>
    obtain ⟨S, t, i, h⟩ := fmtArgs_shape cfg c co items tr ci
    simp [fmt, h, isKw]

theorem rank_fmt (cfg : Cfg) (n : Node) : rank (fmt cfg n) = rank n := by
  cases n with
  | leaf k => simp [fmt, rank]
  | mstr k p => simp only [fmt]; split <;> simp [rank]
  | kw k v => simp [fmt, rank]
  | coll c items tr ci co =>
    obtain ⟨S, t, i, h⟩ := fmtArgs_shape cfg c co items tr ci
    simp [fmt, h, rank]

theorem hasKw_fmtL (cfg : Cfg) (l : List Node) : hasKw (fmtL cfg l) = hasKw l := by
  simp [hasKw, fmtL_eq_map, List.any_map, Function.comp_def, isKw_fmt]

theorem continues_fmt (cfg : Cfg) (b : Bool) (items : List Node) (ci : Bool) :
    continues (sortIf b (fmtL cfg items)) ci = continues items ci := by
  match items with
  | [] => simp [fmtL, sortIf_nil]
  | [n] => simp [fmtL, sortIf_singleton, continues_eq, arrInfo_fmt]
  | a :: b' :: r =>
    have hl : (sortIf b (fmtL cfg (a :: b' :: r))).length = r.length + 2 := by
      simp [sortIf_length, fmtL_eq_map]
    rw [continues_eq, continues_eq]
    match hS : sortIf b (fmtL cfg (a :: b' :: r)) with
    | [] => simp [hS] at hl
    | [x] => simp [hS] at hl
    | x :: y :: z => rfl

/-- the Boolean core of "the layout decided is the layout the formatted text shows" -/
theorem layout_core (co ci tr kwf noS fn e one dI dS : Bool)
    (hA : dS = true → dI = true) (hB : noS = true → dI = true → dS = true)
    (hE : e = true → dI = false ∧ dS = false) :
    (co || ci || (((co || ci || (tr && (!e && !(noS && one && fn))) || kwf || dI) && (!e && !(noS && one && fn)))
        && (!e && !(noS && one && fn))) || kwf || dS)
      = (co || ci || (tr && (!e && !(noS && one && fn))) || kwf || dI) := by
  revert hA hB hE
  revert co ci tr kwf noS fn e one dI dS
  decide

/-! ### detection before and after formatting -/

/-- formatting a node creates no reason for a multi-line layout of the enclosing list -/
def DetA (cfg : Cfg) (n : Node) : Prop := det cfg false (fmt cfg n) = true → det cfg false n = true
/-- with `no_single_comma_function` it loses none either (without the option the trailing comma of a list that
`files([...])` flattening removes is such a reason: the enclosing list is then pinned by its own trailing comma) -/
def DetB (cfg : Cfg) (n : Node) : Prop :=
  cfg.noSingle = true → det cfg false n = true → det cfg false (fmt cfg n) = true

theorem length_ne_zero_eq (l : List Node) : (l.length != 0) = !l.isEmpty := by
  cases l <;> simp

theorem any_imp (l : List Node) (p q : Node → Bool) (h : ∀ n ∈ l, p n = true → q n = true) :
    l.any p = true → l.any q = true := by
  simp only [List.any_eq_true]
  rintro ⟨x, hx, hp⟩
  exact ⟨x, hx, h x hx hp⟩

set_option synthInstance.maxSize 4096 in
set_option synthInstance.maxHeartbeats 400000 in
theorem build_stable (cfg : Cfg) (c : Cont) (co : Bool) (items : List Node) (tr ci : Bool)
    (hstop : (c == .files && continues items ci) = false)
    (hA : ∀ n ∈ items, DetA cfg n) (hB : ∀ n ∈ items, DetB cfg n) :
    det cfg false (build cfg c co items tr ci (fmtL cfg items)) = det cfg false (.coll c items tr ci co) := by
  have h1 : ∀ b, (sortIf b (fmtL cfg items)).isEmpty = items.isEmpty := fun b =>
    isEmpty_of_length_eq _ _ (by rw [sortIf_length, fmtL_eq_map, List.length_map])
  have h2 : ∀ b, (sortIf b (fmtL cfg items)).length = items.length := fun b => by
    rw [sortIf_length, fmtL_eq_map, List.length_map]
  have h3 : ∀ b, hasKw (sortIf b (fmtL cfg items)) = hasKw items := fun b => by
    unfold hasKw; rw [any_sortIf]; exact hasKw_fmtL cfg items
  have h4 : ∀ b, detL cfg false (sortIf b (fmtL cfg items)) = items.any (fun x => det cfg false (fmt cfg x)) := fun b => by
    rw [detL_eq_any, any_sortIf, fmtL_eq_map, List.any_map]; rfl
  have hdA : items.any (fun x => det cfg false (fmt cfg x)) = true → items.any (det cfg false) = true :=
    any_imp items _ _ (fun n hn => hA n hn)
  have hdB : cfg.noSingle = true → items.any (det cfg false) = true →
      items.any (fun x => det cfg false (fmt cfg x)) = true :=
    fun hn => any_imp items _ _ (fun n hm => hB n hm hn)
  have hE : items.isEmpty = true → items.any (det cfg false) = false ∧
      items.any (fun x => det cfg false (fmt cfg x)) = false := by
    intro h; cases items <;> simp_all
  have hc1 : ∀ b, (c == Cont.files && continues (sortIf b (fmtL cfg items)) ci) = false := by
    intro b; rw [continues_fmt]; exact hstop
  have hc2 : (c == Cont.files && continues items ci) = false := hstop
  simp only [build, det, trailingAfter, h1, h2, h3, hc1, hc2, h4, detL_eq_any, length_ne_zero_eq, Bool.and_false, Bool.or_false]
  generalize items.any (det cfg false) = dI at hdA hdB hE ⊢
  generalize (items.any fun x => det cfg false (fmt cfg x)) = dS at hdA hdB hE ⊢
  generalize items.isEmpty = e at hE ⊢
  generalize cfg.noSingle = noS at hdB ⊢
  generalize (items.length == 1) = one
  generalize isFn c = fn
  generalize (cfg.kwargsForce && hasKw items) = kwf
  clear hstop hc1 hc2 h1 h2 h3 h4 hA hB
  revert hdA hdB hE
  revert co ci tr e noS one fn kwf dI dS
  decide


theorem det_chain_step (cfg : Cfg) (co : Bool) (its : List Node) (tr' ci' co' tr ci : Bool)
    (h : (!ci && !co' && !(its.isEmpty && ci')) = true) :
    det cfg false (.coll .files [.coll .array its tr' ci' co'] tr ci co) =
      ((tr && !cfg.noSingle) || det cfg false (.coll .files its tr' ci' co)) := by
  have hci : ci = false := by revert h; cases ci <;> simp
  have hco : co' = false := by revert h; cases ci <;> cases co' <;> simp
  subst hci; subst hco
  have hcont : continues [.coll .array its tr' ci' false] false = true := by
    simp only [continues]; exact h
  simp only [det, detL, hcont, hasKw, isKw, isFn, List.any_cons, List.any_nil, List.length_singleton,
    List.isEmpty_cons, BEq.rfl, Bool.and_true, Bool.true_and, Bool.or_false, Bool.false_or, Bool.and_false,
    Bool.not_false, Bool.true_or, Bool.or_true, Bool.not_true, Bool.false_and]
  generalize detL cfg (continues its ci') its = d
  generalize (cfg.kwargsForce && its.any isKw) = k
  generalize (its.length == 1) = one
  generalize its.isEmpty = e
  generalize cfg.noSingle = noS
  clear h hcont
  revert co tr tr' ci' d k one e noS
  decide

theorem det_fmt_both (cfg : Cfg) :
    (∀ n, DetA cfg n ∧ DetB cfg n) ∧
    (∀ c co items tr ci,
      (det cfg false (fmtArgs cfg c co items tr ci) = true → det cfg false (.coll c items tr ci co) = true) ∧
      (cfg.noSingle = true → det cfg false (.coll c items tr ci co) = true →
        det cfg false (fmtArgs cfg c co items tr ci) = true)) ∧
    (∀ l : List Node, ∀ n ∈ l, DetA cfg n ∧ DetB cfg n) := by
  apply fmt.mutual_induct cfg
    (motive1 := fun n => DetA cfg n ∧ DetB cfg n)
    (motive2 := fun c co items tr ci =>
      (det cfg false (fmtArgs cfg c co items tr ci) = true → det cfg false (.coll c items tr ci co) = true) ∧
      (cfg.noSingle = true → det cfg false (.coll c items tr ci co) = true →
        det cfg false (fmtArgs cfg c co items tr ci) = true))
    (motive3 := fun l => ∀ n ∈ l, DetA cfg n ∧ DetB cfg n)
  · intro k; simp [DetA, DetB, fmt]
  · intro k p h; simp [DetA, DetB, fmt, h, det]
  · intro k p h; simp [DetA, DetB, fmt, h]
  · intro k v ih
    simpa [DetA, DetB, fmt, det] using ih
  · intro c items tr ci co ih
    simpa [DetA, DetB, fmt] using ih
  · intro c co its tr' ci' co' tr ci h ih
    have hc : c = .files := by
      cases c <;> simp_all
    subst hc
    have hcond : (!ci && !co' && !(its.isEmpty && ci')) = true := by simpa using h
    have hcont : continues [.coll .array its tr' ci' co'] ci = true := by
      simp only [continues]; exact hcond
    rw [fmtArgs_chain cfg co its tr' ci' co' tr ci hcont, det_chain_step cfg co its tr' ci' co' tr ci hcond]
    refine ⟨fun hd => ?_, fun hn hd => ?_⟩
    · simp [ih.1 hd]
    · apply ih.2 hn
      simpa [hn] using hd
  · intro c co its tr' ci' co' tr ci h ih
    have hstop : (c == .files && continues [.coll .array its tr' ci' co'] ci) = false := by
      simp only [continues]
      cases hh : (c == Cont.files && (!ci && !co' && !(its.isEmpty && ci'))) with
      | true => exact absurd hh h
      | false => rfl
    have hel : ∀ n ∈ [Node.coll .array its tr' ci' co'], DetA cfg n ∧ DetB cfg n := by
      intro n hn
      simp only [List.mem_singleton] at hn
      subst hn
      simpa [DetA, DetB, fmt] using ih
    rw [fmtArgs_final cfg c co _ tr ci hstop,
      build_stable cfg c co _ tr ci hstop (fun n hn => (hel n hn).1) (fun n hn => (hel n hn).2)]
    exact ⟨id, fun _ => id⟩
  · intro c co items tr ci h ih
    have hstop : (c == .files && continues items ci) = false := by
      have : continues items ci = false := by
        unfold continues; split
        · rename_i its tr' ci' co'; exact absurd rfl (h its tr' ci' co')
        · rfl
      simp [this]
    rw [fmtArgs_final cfg c co _ tr ci hstop,
      build_stable cfg c co _ tr ci hstop (fun n hn => (ih n hn).1) (fun n hn => (ih n hn).2)]
    exact ⟨id, fun _ => id⟩
  · intro n hn; simp at hn
  · intro n r ihn ihr m hm
    simp only [List.mem_cons] at hm
    rcases hm with rfl | hm
    · exact ihn
    · exact ihr m hm

theorem detA (cfg : Cfg) (n : Node) : DetA cfg n := ((det_fmt_both cfg).1 n).1
theorem detB (cfg : Cfg) (n : Node) : DetB cfg n := ((det_fmt_both cfg).1 n).2

/-- **the layout decided in the run that formats the text is the layout the formatted text shows** (what a second
run reads back): for every container, argument list and configuration -/
theorem decided_eq_readback (cfg : Cfg) (c : Cont) (co : Bool) (items : List Node) (tr ci : Bool) :
    decided cfg c co items tr ci = det cfg false (fmtArgs cfg c co items tr ci) := by
  rw [decided_eq_det, fmtArgs_eq_build]
  exact (build_stable cfg c co _ _ _ (finalList_stops c items tr ci) (fun n _ => detA cfg n) (fun n _ => detB cfg n)).symm

theorem not_continues_of (items : List Node) (ci : Bool)
    (h : ∀ (its : List Node) (tr' ci' co' : Bool), items = [Node.coll Cont.array its tr' ci' co'] → False) :
    continues items ci = false := by
  unfold continues; split
  · rename_i its tr' ci' co'; exact absurd rfl (h its tr' ci' co')
  · rfl

theorem stop_of_not (c : Cont) (its : List Node) (tr' ci' co' ci : Bool)
    (h : ¬(c == Cont.files && (!ci && !co' && !(its.isEmpty && ci'))) = true) :
    (c == .files && continues [.coll .array its tr' ci' co'] ci) = false := by
  simp only [continues]
  cases hh : (c == Cont.files && (!ci && !co' && !(its.isEmpty && ci'))) with
  | true => exact absurd hh h
  | false => rfl

/-! ### comments -/

theorem hasCmt_fmt_both (cfg : Cfg) :
    (∀ n, hasCmt (fmt cfg n) = hasCmt n) ∧
    (∀ c co items tr ci, hasCmt (fmtArgs cfg c co items tr ci) = hasCmt (.coll c items tr ci co)) ∧
    (∀ l : List Node, hasCmtL (fmtL cfg l) = hasCmtL l) := by
  apply fmt.mutual_induct cfg
    (motive1 := fun n => hasCmt (fmt cfg n) = hasCmt n)
    (motive2 := fun c co items tr ci => hasCmt (fmtArgs cfg c co items tr ci) = hasCmt (.coll c items tr ci co))
    (motive3 := fun l => hasCmtL (fmtL cfg l) = hasCmtL l)
  · intro k; simp [fmt]
  · intro k p h; simp [fmt, h, hasCmt]
  · intro k p h; simp [fmt, h]
  · intro k v ih; simpa [fmt, hasCmt] using ih
  · intro c items tr ci co ih; simpa [fmt] using ih
  · intro c co its tr' ci' co' tr ci h ih
    have hc : c = .files := by
      cases c <;> simp_all
    subst hc
    have hcond : (!ci && !co' && !(its.isEmpty && ci')) = true := by simpa using h
    have hcont : continues [.coll .array its tr' ci' co'] ci = true := by
      simp only [continues]; exact hcond
    rw [fmtArgs_chain cfg co its tr' ci' co' tr ci hcont, ih]
    have hci : ci = false := by revert hcond; cases ci <;> simp
    have hco : co' = false := by revert hcond; cases ci <;> cases co' <;> simp
    subst hci; subst hco
    simp only [hasCmt, hasCmtL, Bool.or_false, Bool.false_or]
    cases co <;> cases ci' <;> simp
  · intro c co its tr' ci' co' tr ci h ih
    rw [fmtArgs_final cfg c co _ tr ci (stop_of_not c its tr' ci' co' ci h)]
    simp only [build, hasCmt, hasCmtL_eq_any, any_sortIf, fmtL_eq_map, List.any_map]
    simp only [List.any_cons, List.any_nil, Function.comp, fmt, ih, hasCmt, hasCmtL_eq_any]
  · intro c co items tr ci h ih
    rw [fmtArgs_final cfg c co _ tr ci (by simp [not_continues_of items ci h])]
    simp only [build, hasCmt]
    rw [hasCmtL_eq_any, any_sortIf, ← hasCmtL_eq_any, ih]
  · simp [fmtL]
  · intro n r ihn ihr; simp [fmtL, hasCmtL, ihn, ihr]

theorem hasCmtL_fmtL (cfg : Cfg) (l : List Node) : hasCmtL (fmtL cfg l) = hasCmtL l := (hasCmt_fmt_both cfg).2.2 l

/-! ### normal form -/

mutual
/-- a formatted node: no string left to simplify, `files([...])` flattened, `files()` arguments sorted when asked,
and the trailing comma the layout read off the node asks for -/
def NF (cfg : Cfg) : Node → Prop
  | .leaf _ => True
  | .mstr _ p => (cfg.simplify && p) = false
  | .kw _ v => NF cfg v
  | .coll c items tr ci co =>
    NFL cfg items ∧ tr = trailingAfter cfg c items.length (det cfg false (.coll c items tr ci co)) ∧
    (c == .files && continues items ci) = false ∧
    ((c == .files && cfg.sortFiles && !(ci || hasCmtL items)) = true →
      items.Pairwise (fun a b => nodeLe a b = true))
def NFL (cfg : Cfg) : List Node → Prop
  | [] => True
  | n :: r => NF cfg n ∧ NFL cfg r
end

theorem NFL_iff (cfg : Cfg) (l : List Node) : NFL cfg l ↔ ∀ n ∈ l, NF cfg n := by
  induction l with
  | nil => simp [NFL]
  | cons n r ih => simp [NFL, ih]

theorem build_fix (cfg : Cfg) (c : Cont) (co : Bool) (items : List Node) (tr ci : Bool)
    (h : NF cfg (.coll c items tr ci co)) : build cfg c co items tr ci items = .coll c items tr ci co := by
  simp only [NF] at h
  obtain ⟨_, htr, _, hs⟩ := h
  simp only [build]
  rw [← htr]
  have : sortIf (c == .files && cfg.sortFiles && !(ci || hasCmtL items)) items = items := by
    unfold sortIf; split
    · rename_i hb; exact sortNodes_of_sorted items (hs hb)
    · rfl
  rw [this]

/-- a node in normal form is a fixed point -/
theorem fmt_of_NF_both (cfg : Cfg) :
    (∀ n, NF cfg n → fmt cfg n = n) ∧
    (∀ c co items tr ci, NF cfg (.coll c items tr ci co) → fmtArgs cfg c co items tr ci = .coll c items tr ci co) ∧
    (∀ l : List Node, NFL cfg l → fmtL cfg l = l) := by
  apply fmt.mutual_induct cfg
    (motive1 := fun n => NF cfg n → fmt cfg n = n)
    (motive2 := fun c co items tr ci => NF cfg (.coll c items tr ci co) → fmtArgs cfg c co items tr ci = .coll c items tr ci co)
    (motive3 := fun l => NFL cfg l → fmtL cfg l = l)
  · intro k _; simp [fmt]
  · intro k p h hn; simp only [NF] at hn; rw [hn] at h; exact absurd h (by simp)
  · intro k p h _; simp [fmt, h]
  · intro k v ih hn; simp only [NF] at hn; simp [fmt, ih hn]
  · intro c items tr ci co ih hn; simpa [fmt] using ih hn
  · intro c co its tr' ci' co' tr ci h ih hn
    simp only [NF, continues] at hn
    rw [hn.2.2.1] at h; exact absurd h (by simp)
  · intro c co its tr' ci' co' tr ci h ih hn
    rw [fmtArgs_final cfg c co _ tr ci (stop_of_not c its tr' ci' co' ci h)]
    have hel : NF cfg (.coll .array its tr' ci' co') := by
      have := hn; simp only [NF, NFL] at this; exact this.1.1
    have : fmtL cfg [Node.coll .array its tr' ci' co'] = [Node.coll .array its tr' ci' co'] := by
      simp [fmtL, fmt, ih hel]
    rw [this]; exact build_fix cfg c co _ tr ci hn
  · intro c co items tr ci h ih hn
    rw [fmtArgs_final cfg c co _ tr ci (by simp [not_continues_of items ci h])]
    have : fmtL cfg items = items := ih (by have := hn; simp only [NF] at this; exact this.1)
    rw [this]; exact build_fix cfg c co _ tr ci hn
  · intro _; simp [fmtL]
  · intro n r ihn ihr hn
    simp only [NFL] at hn
    simp [fmtL, ihn hn.1, ihr hn.2]

theorem NF_build (cfg : Cfg) (c : Cont) (co : Bool) (items : List Node) (tr ci : Bool)
    (hstop : (c == .files && continues items ci) = false) (hl : NFL cfg (fmtL cfg items)) :
    NF cfg (build cfg c co items tr ci (fmtL cfg items)) := by
  have hst := build_stable cfg c co items tr ci hstop (fun n _ => detA cfg n) (fun n _ => detB cfg n)
  simp only [build] at hst ⊢
  simp only [NF]
  refine ⟨?_, ?_, ?_, ?_⟩
  · rw [NFL_iff] at hl ⊢
    intro n hn
    exact hl n ((sortIf_perm _ _).mem_iff.mp hn)
  · rw [hst, sortIf_length, fmtL_eq_map, List.length_map]
  · rw [continues_fmt]; exact hstop
  · intro hb
    have hc : hasCmtL (sortIf (c == .files && cfg.sortFiles && !(ci || hasCmtL items)) (fmtL cfg items)) = hasCmtL items := by
      rw [hasCmtL_eq_any, any_sortIf, ← hasCmtL_eq_any, hasCmtL_fmtL]
    rw [hc] at hb
    unfold sortIf; rw [if_pos hb]
    exact sortNodes_sorted _

/-- formatting yields a normal form -/
theorem NF_fmt_both (cfg : Cfg) :
    (∀ n, NF cfg (fmt cfg n)) ∧
    (∀ c co items tr ci, NF cfg (fmtArgs cfg c co items tr ci)) ∧
    (∀ l : List Node, NFL cfg (fmtL cfg l)) := by
  apply fmt.mutual_induct cfg
    (motive1 := fun n => NF cfg (fmt cfg n))
    (motive2 := fun c co items tr ci => NF cfg (fmtArgs cfg c co items tr ci))
    (motive3 := fun l => NFL cfg (fmtL cfg l))
  · intro k; simp [fmt, NF]
  · intro k p h; simp [fmt, h, NF]
  · intro k p h; simp [fmt, h, NF]
  · intro k v ih; simpa [fmt, NF] using ih
  · intro c items tr ci co ih; simpa [fmt] using ih
  · intro c co its tr' ci' co' tr ci h ih
    have hc : c = .files := by
      cases c <;> simp_all
    subst hc
    have hcond : (!ci && !co' && !(its.isEmpty && ci')) = true := by simpa using h
    have hcont : continues [.coll .array its tr' ci' co'] ci = true := by
      simp only [continues]; exact hcond
    rw [fmtArgs_chain cfg co its tr' ci' co' tr ci hcont]; exact ih
  · intro c co its tr' ci' co' tr ci h ih
    have hstop := stop_of_not c its tr' ci' co' ci h
    rw [fmtArgs_final cfg c co _ tr ci hstop]
    apply NF_build cfg c co _ tr ci hstop
    simp [fmtL, fmt, NFL, ih]
  · intro c co items tr ci h ih
    have hstop : (c == .files && continues items ci) = false := by simp [not_continues_of items ci h]
    rw [fmtArgs_final cfg c co _ tr ci hstop]
    exact NF_build cfg c co _ tr ci hstop ih
  · simp [fmtL, NFL]
  · intro n r ihn ihr; simp [fmtL, NFL, ihn, ihr]

/-- **formatting a formatted argument list changes nothing**, for every node and every configuration -/
theorem fmt_idempotent (cfg : Cfg) (n : Node) : fmt cfg (fmt cfg n) = fmt cfg n :=
  (fmt_of_NF_both cfg).1 _ ((NF_fmt_both cfg).1 n)


/-! ### the argument sequence -/

theorem leavesL_flatMap (l : List Node) : leavesL l = l.flatMap leaves := by
  induction l with
  | nil => simp [leavesL]
  | cons n r ih => simp [leavesL, ih]

theorem leavesL_perm (a b : List Node) (h : a.Perm b) : (leavesL a).Perm (leavesL b) := by
  rw [leavesL_flatMap, leavesL_flatMap]; exact h.flatMap_right _

theorem sortIf_off (b : Bool) (l : List Node) (h : b = false) : sortIf b l = l := by
  subst h; simp [sortIf]

/-- formatting keeps the leaves of a node: the same sequence when `sort_files` is off, a permutation of it (only the
positional arguments of `files()` move) when it is on -/
theorem leaves_fmt_both (cfg : Cfg) :
    (∀ n, (leaves (fmt cfg n)).Perm (leaves n) ∧ (cfg.sortFiles = false → leaves (fmt cfg n) = leaves n)) ∧
    (∀ c co items tr ci, (leaves (fmtArgs cfg c co items tr ci)).Perm (leavesL items) ∧
      (cfg.sortFiles = false → leaves (fmtArgs cfg c co items tr ci) = leavesL items)) ∧
    (∀ l : List Node, (leavesL (fmtL cfg l)).Perm (leavesL l) ∧ (cfg.sortFiles = false → leavesL (fmtL cfg l) = leavesL l)) := by
  apply fmt.mutual_induct cfg
    (motive1 := fun n => (leaves (fmt cfg n)).Perm (leaves n) ∧ (cfg.sortFiles = false → leaves (fmt cfg n) = leaves n))
    (motive2 := fun c co items tr ci => (leaves (fmtArgs cfg c co items tr ci)).Perm (leavesL items) ∧
      (cfg.sortFiles = false → leaves (fmtArgs cfg c co items tr ci) = leavesL items))
    (motive3 := fun l => (leavesL (fmtL cfg l)).Perm (leavesL l) ∧ (cfg.sortFiles = false → leavesL (fmtL cfg l) = leavesL l))
  · intro k; simp [fmt]
  · intro k p h; simp [fmt, h, leaves]
  · intro k p h; simp [fmt, h]
  · intro k v ih
    simp only [fmt, leaves]
    exact ⟨ih.1.cons k, fun hs => by rw [ih.2 hs]⟩
  · intro c items tr ci co ih; simpa [fmt, leaves] using ih
  · intro c co its tr' ci' co' tr ci h ih
    have hc : c = .files := by
      cases c <;> simp_all
    subst hc
    have hcond : (!ci && !co' && !(its.isEmpty && ci')) = true := by simpa using h
    have hcont : continues [.coll .array its tr' ci' co'] ci = true := by
      simp only [continues]; exact hcond
    rw [fmtArgs_chain cfg co its tr' ci' co' tr ci hcont]
    simpa [leavesL, leaves] using ih
  · intro c co its tr' ci' co' tr ci h ih
    have hstop : (c == .files && continues [.coll .array its tr' ci' co'] ci) = false := by
      simp only [continues]
      cases hh : (c == Cont.files && (!ci && !co' && !(its.isEmpty && ci'))) with
      | true => exact absurd hh h
      | false => rfl
    rw [fmtArgs_final cfg c co _ tr ci hstop]
    simp only [build, leaves]
    have hl : (leavesL (fmtL cfg [Node.coll .array its tr' ci' co'])).Perm (leavesL [Node.coll .array its tr' ci' co']) ∧
        (cfg.sortFiles = false → leavesL (fmtL cfg [Node.coll .array its tr' ci' co']) = leavesL [Node.coll .array its tr' ci' co']) := by
      simpa [fmtL, fmt, leavesL, leaves] using ih
    refine ⟨(leavesL_perm _ _ (sortIf_perm _ _)).trans hl.1, fun hs => ?_⟩
    rw [sortIf_off _ _ (by simp [hs]), hl.2 hs]
  · intro c co items tr ci h ih
    have hstop : (c == .files && continues items ci) = false := by
      have : continues items ci = false := by
        unfold continues; split
        · rename_i its tr' ci' co'; exact absurd rfl (h its tr' ci' co')
        · rfl
      simp [this]
    rw [fmtArgs_final cfg c co _ tr ci hstop]
    simp only [build, leaves]
    refine ⟨(leavesL_perm _ _ (sortIf_perm _ _)).trans ih.1, fun hs => ?_⟩
    rw [sortIf_off _ _ (by simp [hs]), ih.2 hs]
  · simp [fmtL]
  · intro n r ihn ihr
    simp only [fmtL, leavesL]
    exact ⟨ihn.1.append ihr.1, fun hs => by rw [ihn.2 hs, ihr.2 hs]⟩

end MesonModel.Fmt.Layout
