import MesonModel.Fmt.Rewrite
/-
Argument-list layout of `meson format` (mesonbuild/mformat.py) on abstract argument lists.

What the three passes decide about an argument list — call, method call, array or dict — is a function of
* the kind of container (`FunctionNode` named `files`, other function, method, array, dict),
* its items (positional ones first, then keyword arguments / dict entries),
* whether the source has a trailing comma (`len(node) == len(node.commas)`),
* whether a whitespace node directly in the list holds a comment (`ci`: an item's or a comma's whitespace) or
  the whitespace after the opening bracket does (`co`),
* the configuration (`kwargs_force_multiline`, `no_single_comma_function`, `sort_files`,
  `simplify_string_literals`).
The result is again such a list: the items after `files([...])` flattening and `sort_files`, each formatted,
and the trailing comma the formatted text has.  "Multi-line" is not stored: the formatted text is multi-line
exactly when the detector says so on it — that is what a second run reads.

Code modelled, construct by construct:
* `MultilineArgumentDetector` (`det`, `detL`): comment, triple-quoted string that stays triple-quoted, trailing
  comma except the one `no_single_comma_function` removes (one argument, function arguments),
  `kwargs_force_multiline` with a keyword argument; function arguments are those of a `FunctionNode` /
  `MethodNode` and every argument list `flattened_files_arguments` goes through (repairs e587c4a, f78386e);
* `TrimWhitespaces.visit_FunctionNode` (`fmtArgs`: the `while` loop of the `files([...])` rewrite,
  `sort_arguments` with its comment guard), `visit_ArgumentNode` (detector on the not yet formatted items),
  `visit_StringNode` (`.mstr` that can be plain becomes a leaf);
* `ArgumentFormatter.visit_ArgumentNode` (`trailingAfter`): multi-line lists get a trailing comma unless
  `no_single_comma_function` and one function argument, other lists lose it.
Line-length splitting (`ComputeLineLengths`) is outside this model: it applies to texts in which no line is
longer than `max_line_length` (the correspondence stream generates such texts; the recorded finding
`idempotence:no_single_comma_function:line-length-split` lives in that pass).
-/
namespace MesonModel.Fmt.Layout

structure Cfg where
  kwargsForce : Bool
  noSingle : Bool
  sortFiles : Bool
  simplify : Bool
  deriving DecidableEq, Repr, Inhabited

inductive Cont where
  | func | files | method | array | dict
  deriving DecidableEq, Repr, Inhabited

def isFn : Cont → Bool
  | .func | .files | .method => true
  | _ => false

/-- `key` identifies a leaf: for a string its rank in `pathname_sort_key` order relative to the empty string
(negative: sorts before `''`, e.g. every path with a directory); 0 for anything that is not a string —
`sort_arguments` gives those the key of `''` -/
inductive Node where
  | leaf (key : Int)
  | mstr (key : Int) (plain : Bool)
  | kw (key : Int) (v : Node)
  | coll (c : Cont) (items : List Node) (tr ci co : Bool)
  deriving Repr, Inhabited

def isKw : Node → Bool
  | .kw _ _ => true
  | _ => false

def hasKw (items : List Node) : Bool := items.any isKw

/-- `sort_arguments`' key: strings by their rank, everything else like `''` -/
def rank : Node → Int
  | .leaf k => k
  | .mstr k _ => k
  | _ => 0

/-- the order `node.arguments.sort(key=sort_key)` sorts by; keyword arguments are not sorted (they live in
`node.kwargs`) and stay behind the positional ones -/
def nodeLe (a b : Node) : Bool :=
  if isKw a then isKw b else (isKw b || decide (rank a ≤ rank b))

/-- Python's `list.sort` is stable, and so is `List.mergeSort` -/
def sortNodes (l : List Node) : List Node := l.mergeSort nodeLe

mutual
/-- `CommentDetector` -/
def hasCmt : Node → Bool
  | .leaf _ => false
  | .mstr _ _ => false
  | .kw _ v => hasCmt v
  | .coll _ items _ ci co => ci || co || hasCmtL items
def hasCmtL : List Node → Bool
  | [] => false
  | n :: r => hasCmt n || hasCmtL r
end

/-- the condition of one turn of the `files([...])` loop on the argument list `(items, ci)` -/
def continues (items : List Node) (ci : Bool) : Bool :=
  match items with
  | [.coll .array its _ ci' co'] => !ci && !co' && !(its.isEmpty && ci')
  | _ => false

mutual
/-- what `MultilineArgumentDetector` finds below a node; `chain`: the node is the array of a `files([...])` that is
going to be flattened (its argument list is registered as function arguments) -/
def det (cfg : Cfg) (chain : Bool) : Node → Bool
  | .leaf _ => false
  | .mstr _ p => !(cfg.simplify && p)
  | .kw _ v => det cfg false v
  | .coll c items tr ci co =>
    co || ci ||
    (tr && !items.isEmpty && !(cfg.noSingle && items.length == 1 && (isFn c || (c == .array && chain)))) ||
    (cfg.kwargsForce && hasKw items) ||
    detL cfg ((c == .files || (c == .array && chain)) && continues items ci) items
def detL (cfg : Cfg) (chain : Bool) : List Node → Bool
  | [] => false
  | n :: r => det cfg chain n || detL cfg chain r
end

/-- `ArgumentFormatter.visit_ArgumentNode`: the trailing comma of the formatted list -/
def trailingAfter (cfg : Cfg) (c : Cont) (n : Nat) (ml : Bool) : Bool :=
  ml && n != 0 && !(cfg.noSingle && n == 1 && isFn c)

def sortIf (b : Bool) (l : List Node) : List Node := if b then sortNodes l else l

/-- the formatted list from the final argument list `(items, tr, ci)` of the container and its formatted items -/
def build (cfg : Cfg) (c : Cont) (co : Bool) (items : List Node) (tr ci : Bool) (fitems : List Node) : Node :=
  let ml := det cfg false (.coll c items tr ci co)
  .coll c (sortIf (c == .files && cfg.sortFiles && !(ci || hasCmtL items)) fitems)
    (trailingAfter cfg c items.length ml) ci co

mutual
def fmt (cfg : Cfg) : Node → Node
  | .leaf k => .leaf k
  | .mstr k p => if cfg.simplify && p then .leaf k else .mstr k p
  | .kw k v => .kw k (fmt cfg v)
  | .coll c items tr ci co => fmtArgs cfg c co items tr ci
/-- the argument list `(items, tr, ci)` of a container: one turn of the `while` loop of
`TrimWhitespaces.visit_FunctionNode` when it is `files(<one array>)`, else the list is final -/
def fmtArgs (cfg : Cfg) (c : Cont) (co : Bool) : List Node → Bool → Bool → Node
  | [.coll .array its tr' ci' co'], tr, ci =>
    if c == .files && (!ci && !co' && !(its.isEmpty && ci')) then fmtArgs cfg .files co its tr' ci'
    else build cfg c co [.coll .array its tr' ci' co'] tr ci [fmtArgs cfg .array co' its tr' ci']
  | items, tr, ci => build cfg c co items tr ci (fmtL cfg items)
def fmtL (cfg : Cfg) : List Node → List Node
  | [] => []
  | n :: r => fmt cfg n :: fmtL cfg r
end

/-- `node.args.is_multiline` as `TrimWhitespaces` decides it in the run that formats the text: the detector on
the final argument list of the container, its items not yet formatted -/
def decided (cfg : Cfg) (c : Cont) (co : Bool) : List Node → Bool → Bool → Bool
  | [.coll .array its tr' ci' co'], tr, ci =>
    if c == .files && (!ci && !co' && !(its.isEmpty && ci')) then decided cfg .files co its tr' ci'
    else det cfg false (.coll c [.coll .array its tr' ci' co'] tr ci co)
  | items, tr, ci => det cfg false (.coll c items tr ci co)

mutual
/-- the leaves (identifiers, numbers, strings) of a node in source order -/
def leaves : Node → List Int
  | .leaf k => [k]
  | .mstr k _ => [k]
  | .kw k v => k :: leaves v
  | .coll _ items _ _ _ => leavesL items
def leavesL : List Node → List Int
  | [] => []
  | n :: r => leaves n ++ leavesL r
end

/-- is the formatted list laid out one item per line -/
def multiline (cfg : Cfg) (n : Node) : Bool := det cfg false n

end MesonModel.Fmt.Layout
