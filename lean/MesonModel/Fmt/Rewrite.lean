import MesonModel.Py.Str
/-
C16 — the pure rewriting decisions of `mesonbuild/mformat.py` and what a string literal denotes.

* `decodeEscapes`  : `StringNode.escape` (`ESCAPE_SEQUENCE_SINGLE_RE.sub(decode_match, raw)`), mparser.py:23-34,333
* `parseStr`       : `StringNode.__init__` (value = raw for '''…''', escape(raw) for '…')
* `simplify`       : `TrimWhitespaces.visit_StringNode`, mformat.py:366-377 — the excluded-character list of the
                     triple-quote rule and the marker list of the f-string rule are parameters (the live values
                     are regenerated into `Generated/FmtTables.lean` on every run)
* `printStr`       : `RawPrinter.visit_StringNode`, ast/printer.py:294-302
* `plainLexable`   : the lexer's `string` / `fstring` token body  `([^'\\]|(\\.))*`
* `hasSubst`       : `re.search('@([_a-zA-Z][_0-9a-zA-Z]*)@', value)` — when an f-string differs from a plain one
* `pathKey`, `sortByKey` : `pathname_sort_key` (utils/universal.py:2828) and `list.sort(key=…)` (stable)
-/
namespace MesonModel.Fmt
open MesonModel.Py

/-! ### escape decoding -/

def hexVal (c : Char) : Option Nat :=
  let n := c.toNat
  if 48 ≤ n ∧ n ≤ 57 then some (n - 48)
  else if 97 ≤ n ∧ n ≤ 102 then some (n - 87)
  else if 65 ≤ n ∧ n ≤ 70 then some (n - 55)
  else none

def octVal (c : Char) : Option Nat :=
  let n := c.toNat
  if 48 ≤ n ∧ n ≤ 55 then some (n - 48) else none

/-- value of exactly `k` hex digits at the head of `s` -/
def hexN : Nat → List Char → Option Nat
  | 0, _ => some 0
  | _ + 1, [] => none
  | k + 1, c :: rest =>
    match hexVal c, hexN k rest with
    | some d, some v => some (d * 16 ^ k + v)
    | _, _ => none

/-- the single-character escapes `\\ \' \a \b \f \n \r \t \v` -/
def singleEsc (c : Char) : Option Char :=
  if c = '\\' then some '\\' else if c = '\'' then some '\''
  else if c = 'a' then some (Char.ofNat 7) else if c = 'b' then some (Char.ofNat 8)
  else if c = 'f' then some (Char.ofNat 12) else if c = 'n' then some '\n'
  else if c = 'r' then some '\r' else if c = 't' then some '\t'
  else if c = 'v' then some (Char.ofNat 11) else none

/-- one match of `ESCAPE_SEQUENCE_SINGLE_RE` at the head of `s` (which starts with a backslash):
the decoded character and the number of characters consumed.  Alternatives in the order of the
pattern: `\U` 8 hex, `\u` 4 hex, `\x` 2 hex, 1–3 octal digits (greedy), [`\N{…}` is outside the model and
left undecoded], single-character escapes. -/
def escStep : List Char → Option (Char × Nat)
  | '\\' :: c :: rest =>
    if c = 'U' then (hexN 8 rest).map (fun v => (Char.ofNat v, 10))
    else if c = 'u' then (hexN 4 rest).map (fun v => (Char.ofNat v, 6))
    else if c = 'x' then (hexN 2 rest).map (fun v => (Char.ofNat v, 4))
    else match octVal c with
      | some d1 =>
        match rest with
        | c2 :: rest2 =>
          match octVal c2 with
          | some d2 =>
            match rest2 with
            | c3 :: _ =>
              match octVal c3 with
              | some d3 => some (Char.ofNat (d1 * 64 + d2 * 8 + d3), 4)
              | none => some (Char.ofNat (d1 * 8 + d2), 3)
            | [] => some (Char.ofNat (d1 * 8 + d2), 3)
          | none => some (Char.ofNat d1, 2)
        | [] => some (Char.ofNat d1, 2)
      | none => (singleEsc c).map (fun d => (d, 2))
  | _ => none

/-- `re.sub` scanning left to right; fuel = remaining length -/
def decodeAux : Nat → List Char → List Char
  | 0, s => s
  | _ + 1, [] => []
  | f + 1, c :: rest =>
    if c = '\\' then
      match escStep (c :: rest) with
      | some (d, n) => d :: decodeAux f ((c :: rest).drop n)
      | none => c :: decodeAux f rest
    else c :: decodeAux f rest

def decodeEscapes (s : List Char) : List Char := decodeAux s.length s

/-! ### string nodes -/

structure StrNode where
  raw : List Char
  value : List Char
  multi : Bool
  fstr : Bool
  deriving DecidableEq, Repr

/-- `StringNode.__init__` on a token of kind string / fstring / multiline_string / multiline_fstring -/
def parseStr (raw : List Char) (multi fstr : Bool) : StrNode :=
  { raw := raw, value := if multi then raw else decodeEscapes raw, multi := multi, fstr := fstr }

/-- body of a `'…'` token: `([^'\\]|(\\.))*` where `.` is any character but newline -/
def plainLexable : List Char → Bool
  | [] => true
  | '\\' :: c :: rest => c != '\n' && plainLexable rest
  | c :: rest => c != '\'' && c != '\\' && plainLexable rest

def identStart (c : Char) : Bool := isAlpha c || c == '_'
def identChar (c : Char) : Bool := isAlnum c || c == '_'

def substAt : List Char → Bool
  | '@' :: c :: rest =>
    identStart c && (match rest.dropWhile identChar with
                     | '@' :: _ => true
                     | _ => false)
  | _ => false

/-- `re.search('@([_a-zA-Z][_0-9a-zA-Z]*)@', s)` succeeds -/
def hasSubst : List Char → Bool
  | [] => false
  | c :: rest => substAt (c :: rest) || hasSubst rest

/-- what a string node denotes: its value, and whether evaluation substitutes variables into it -/
def denote (n : StrNode) : List Char × Bool := (n.value, n.fstr && hasSubst n.value)

/-- first rule of `TrimWhitespaces.visit_StringNode`: `excl` is the list in
`not any(x in node.value for x in [...])` -/
def simplifyMulti (excl : List Char) (n : StrNode) : StrNode :=
  if n.multi && !(excl.any (fun x => n.value.contains x)) then
    { n with multi := false, value := decodeEscapes n.raw }
  else n

/-- second rule, parametric in the formatter's placeholder recogniser `keep` ("this value may be substituted
into, keep the `f`"): `if node.is_fstring and not keep(node.value): node.is_fstring = False` -/
def simplifyFWith (keep : List Char → Bool) (n : StrNode) : StrNode :=
  if n.fstr && !(keep n.value) then { n with fstr := false } else n

/-- the recogniser as coded: `'@' in node.value` — some member of the marker list occurs in the value -/
def markerKeep (fmark : List Char) (v : List Char) : Bool := fmark.any (fun x => v.contains x)

/-- second rule as coded: `fmark` is the marker list of the f-string test (`'@'`) -/
def simplifyF (fmark : List Char) (n : StrNode) : StrNode := simplifyFWith (markerKeep fmark) n

/-- `TrimWhitespaces.visit_StringNode` with an arbitrary placeholder recogniser -/
def simplifyWith (excl : List Char) (keep : List Char → Bool) (on : Bool) (n : StrNode) : StrNode :=
  if !on then n else simplifyFWith keep (simplifyMulti excl n)

/-- `TrimWhitespaces.visit_StringNode` (mformat.py:366-377) -/
def simplify (excl fmark : List Char) (on : Bool) (n : StrNode) : StrNode :=
  if !on then n else simplifyF fmark (simplifyMulti excl n)

/-- `RawPrinter.visit_StringNode` -/
def printStr (n : StrNode) : List Char :=
  (if n.fstr then ['f'] else []) ++
  (if n.multi then '\''::'\''::'\'':: n.value ++ ['\'', '\'', '\''] else '\'' :: n.raw ++ ['\''])

/-- the node obtained by lexing and parsing the printed literal again (defined when it lexes) -/
def reparse (n : StrNode) : StrNode :=
  if n.multi then parseStr n.value true n.fstr else parseStr n.raw false n.fstr

/-- the same for an arbitrary placeholder recogniser -/
def PreservesWith (excl : List Char) (keep : List Char → Bool) (n : StrNode) : Prop :=
  ((simplifyWith excl keep true n).multi = false → plainLexable (simplifyWith excl keep true n).raw = true) ∧
  denote (reparse (simplifyWith excl keep true n)) = denote n

/-- the simplified literal still lexes as one string token and denotes the same string -/
def Preserves (excl fmark : List Char) (n : StrNode) : Prop :=
  ((simplify excl fmark true n).multi = false → plainLexable (simplify excl fmark true n).raw = true) ∧
  denote (reparse (simplify excl fmark true n)) = denote n

instance (excl fmark : List Char) (n : StrNode) : Decidable (Preserves excl fmark n) := by
  unfold Preserves; infer_instance

/-! ### natural path sort -/

def lowerAscii (c : Char) : Char :=
  if 65 ≤ c.toNat ∧ c.toNat ≤ 90 then Char.ofNat (c.toNat + 32) else c

/-- split on `/` (Python `str.split('/')`, never empty) -/
def splitSlash : List Char → List (List Char)
  | [] => [[]]
  | c :: rest =>
    match splitSlash rest with
    | [] => [[c]]
    | p :: ps => if c = '/' then [] :: p :: ps else (c :: p) :: ps

/-- `alphanum_key`: `re.split('([0-9]+)', x)` alternates text, digit run, text, …; texts are lowered and compared
as strings, digit runs as integers.  The tuple is encoded as a `List Nat` whose lexicographic order is the
tuple order: a text is its code points `+ 1` followed by `0`, a number is `n + 1`, the tuple ends with `0`.
`inDigits` tells whether the previous character was a digit; `acc` is the current run's value. -/
def alnumKeyAux : List Char → Bool → Nat → List Nat
  | [], inDigits, acc => if inDigits then [acc + 1, 0, 0] else [0, 0]
  | c :: rest, inDigits, acc =>
    if isDigit c then
      if inDigits then alnumKeyAux rest true (acc * 10 + digitVal c)
      else 0 :: alnumKeyAux rest true (digitVal c)
    else
      if inDigits then (acc + 1) :: ((lowerAscii c).toNat + 1) :: alnumKeyAux rest false 0
      else ((lowerAscii c).toNat + 1) :: alnumKeyAux rest false 0

def alnumKey (s : List Char) : List Nat := alnumKeyAux s false 0

/-- `pathname_sort_key`: one pair `(is last component, alphanum_key)` per path component; booleans are
encoded `1`/`2`, the outer tuple ends with `0` -/
def pathKeyParts : List (List Char) → List Nat
  | [] => [0]
  | [p] => 2 :: alnumKey p ++ [0]
  | p :: q :: ps => 1 :: alnumKey p ++ pathKeyParts (q :: ps)

def pathKey (s : List Char) : List Nat := pathKeyParts (splitSlash s)

def keyLe (a b : List Nat) : Bool := decide (a ≤ b)

/-- `list.sort(key=key)` : stable sort by key -/
def sortByKey {α : Type} (key : α → List Nat) (l : List α) : List α :=
  l.mergeSort (fun a b => keyLe (key a) (key b))

/-- sort key of an argument of `files()`: `raw_value` for a string node, `''` for anything else
(`sort_arguments` reads `getattr(node, 'value', '')` from the *argument list* node, which has none) -/
def argKey (a : Option (List Char)) : List Nat :=
  match a with
  | some raw => pathKey raw
  | none => pathKey []

end MesonModel.Fmt
