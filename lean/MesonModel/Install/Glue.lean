/-
Model of the glue that *produces* the install data from the build definition
(`Interpreter.func_install_headers/install_data_impl`, `Backend.generate_header_install`,
`generate_man_install`, `generate_data_install`, `generate_subdir_install`, `generate_emptydir_install`,
`generate_symlink_install`): the destination strings stored in `InstallData`.  Core Lean only.
-/
import MesonModel.Install.Path

namespace MesonModel.Install

/-- `s.split(c)[-1]` -/
def lastField (c : Char) (s : Str) : Str := (splitOn c s).getLast?.getD []

/-- `s.replace(pat, rep)` for a non-empty pattern `p0 :: pt` (left to right, non-overlapping) -/
def replaceGo (p0 : Char) (pt rep : Str) : Nat → Str → Str
  | 0, s => s
  | _ + 1, [] => []
  | f + 1, c :: t =>
    if (p0 :: pt).isPrefixOf (c :: t) then rep ++ replaceGo p0 pt rep f (t.drop pt.length)
    else c :: replaceGo p0 pt rep f t

def replaceAll (p0 : Char) (pt rep s : Str) : Str := replaceGo p0 pt rep (s.length + 1) s

def mandirVar : Str := ['{', 'm', 'a', 'n', 'd', 'i', 'r', '}']

def manStr : Str := ['m', 'a', 'n']

/-- `install_headers`: the `install_path` of one header (`outdir` of `generate_header_install`; the interpreter
has already folded `preserve_path` into the subdir) -/
def hdrInstallPath (incroot : Str) (custom subdirKw : Option Str) (preserve : Bool) (fname : Str) : Str :=
  let sub := join (subdirKw.getD []) (if preserve then dirname fname else [])
  match custom with
  | some d => d
  | none => join incroot sub

/-- `install_man`: the `install_path` (`dstabs`) of one man page -/
def manInstallPath (manroot : Str) (custom locale : Option Str) (fname : Str) : Str :=
  let num := lastField '.' fname
  let loc := match locale with | some l => if l = [] then none else some l | none => none
  let subdir := match custom with
    | some d => d
    | none => match loc with
      | some l => joinMany mandirVar [l, manStr ++ num]
      | none => join mandirVar (manStr ++ num)
  let fname' := match loc with
    | some l => replaceAll '.' l [] fname
    | none => fname
  let dstname := join subdir (basename fname')
  replaceAll '{' ['m', 'a', 'n', 'd', 'i', 'r', '}'] manroot dstname

/-- `install_data`: the `install_path` (`dst_abs`) of one file; `rename` is the entry of the rename list -/
def dataInstallPath (installDir : Str) (rename : Option Str) (preserve : Bool) (fname : Str) : Str :=
  let childdir := if preserve then dirname fname else []
  join (join installDir childdir) (rename.getD (basename fname))

/-- `install_subdir`: source directory and `install_path` (`dst_dir`) -/
def subdirSrc (fromDir sourceSubdir installable : Str) : Str := rstripSlash (joinMany fromDir [sourceSubdir, installable])

def subdirInstallPath (pfx installDir srcDir : Str) (strip : Bool) : Str :=
  let d := join pfx installDir
  if strip then d else join d (basename srcDir)

/-- `install_symlink`: the link's `name` (`name_abs`) -/
def symlinkName (installDir name : Str) : Str := join installDir name

end MesonModel.Install
