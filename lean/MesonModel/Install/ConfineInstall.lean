/-
Helper lemmas for C11: every installer function preserves the confinement invariant `Inv`.
-/
import MesonModel.Install.KeyLemmas

namespace MesonModel.Install

/-- an absolute destination string whose key lies under `D` -/
def Good (D : Key) (p : Str) : Prop := isAbs p = true ∧ D <+: keyOfAbs p

/-- an absolute directory string whose key is comparable with `D` -/
def GoodDir (D : Key) (p : Str) : Prop := isAbs p = true ∧ Cmp D (keyOfAbs p)

/-- a directory entry name: non-empty, no slash, neither `..` nor `.` -/
def Plain (n : Str) : Prop := n ≠ [] ∧ '/' ∉ n ∧ n ≠ dotdot ∧ n ≠ ['.']

instance (n : Str) : Decidable (Plain n) := by unfold Plain; infer_instance

theorem keyOf_abs (cwd p : Str) (h : isAbs p = true) : keyOf cwd p = keyOfAbs p := by
  unfold keyOf join; simp [h]

theorem Good.toDir {D : Key} {p : Str} (h : Good D p) : GoodDir D p := ⟨h.1, Or.inl h.2⟩

theorem Good.join_rel {D : Key} {p b : Str} (h : Good D p) (hb : isAbs b = false) (hnd : NoDotDot b) :
    Good D (join p b) :=
  ⟨isAbs_join p b h.1, List.IsPrefix.trans h.2 (prefix_keyOfAbs_join p b hb hnd)⟩

theorem Good.join_name {D : Key} {p n : Str} (h : Good D p) (h1 : '/' ∉ n) (h2 : n ≠ dotdot) :
    Good D (join p n) :=
  h.join_rel (isAbs_false_of_noSep n h1) (noDotDot_single n h1 h2)

theorem dropLast_prefix {α} (l : List α) : l.dropLast <+: l := by
  rcases List.eq_nil_or_concat l with rfl | ⟨t, x, rfl⟩
  · simp
  · simp

theorem Good.dirname {D : Key} {p : Str} (h : Good D p) : GoodDir D (dirname p) := by
  refine ⟨isAbs_dirname p h.1, ?_⟩
  have hk := keyOfAbs_eq_step_dirname p (headRaw_ne_nil_of_isAbs p h.1)
  have hD := h.2
  rw [hk] at hD
  unfold keyStep at hD
  split at hD
  · exact Or.inl hD
  · split at hD
    · exact Or.inl (List.IsPrefix.trans hD (dropLast_prefix _))
    · exact List.prefix_or_prefix_of_prefix hD (List.prefix_append _ _)

theorem isAbs_joinWith_false (a : Str) (t : List Str) (ha : a ≠ []) (hs : '/' ∉ a) :
    isAbs (joinWith '/' (a :: t)) = false := by
  cases a with
  | nil => exact absurd rfl ha
  | cons x r =>
    have hx : x ≠ '/' := fun e => hs (by simp [e])
    cases t with
    | nil => simp only [joinWith, isAbs]; split <;> simp_all
    | cons b t' => simp only [joinWith, isAbs, List.cons_append]; split <;> simp_all

theorem filepart_ok (rel : List Str) (name : Str) (hrel : ∀ c ∈ rel, Plain c) (hn : Plain name) :
    isAbs (filepart rel name) = false ∧ NoDotDot (filepart rel name) := by
  have hall : ∀ c ∈ rel ++ [name], Plain c := by
    intro c hc
    rcases List.mem_append.mp hc with h | h
    · exact hrel c h
    · simp at h; subst h; exact hn
  unfold filepart
  constructor
  · cases hl : rel ++ [name] with
    | nil => simp at hl
    | cons a t =>
      have ha : Plain a := hall a (by simp [hl])
      exact isAbs_joinWith_false a t ha.1 ha.2.1
  · unfold NoDotDot
    rw [splitOn_joinWith '/' _ (by simp) (fun x hx => (hall x hx).2.1)]
    intro hm
    exact (hall _ hm).2.2.1 rfl

/-! ### `os.makedirs` succeeds only on a directory -/

theorem isDirF_write_dir (s : St) (k : Key) (m : Nat) (hk : k ≠ []) : isDirF (s.write k (.dir m)) k = true := by
  simp [isDirF, FS.follow, FS.look, hk, St.write, get_set_same]

theorem mkdirsGo_isDir (mode : Nat) (ok : Bool) (rest : List Str) (pre : Key) (s : St) (hne : rest ≠ [])
    (hs : s.failed = false) (h : (mkdirsGo mode ok pre rest s).failed = false) :
    isDirF (mkdirsGo mode ok pre rest s) (pre ++ rest) = true := by
  induction rest generalizing pre s with
  | nil => exact absurd rfl hne
  | cons c t ih =>
    unfold mkdirsGo at h ⊢
    simp only [] at h ⊢
    have hassoc : pre ++ c :: t = (pre ++ [c]) ++ t := by simp
    split at h
    · split at h
      · simp [St.failed, St.fail] at h
      · rename_i hf hl
        simp only [hf, hl]
        cases t with
        | nil =>
          simp only [mkdirsGo]
          simpa using isDirF_write_dir s (pre ++ [c]) mode (by simp)
        | cons c' t' =>
          rw [hassoc]
          exact ih _ _ (by simp) (by simpa [St.write, St.failed] using hs) (by simpa [hf, hl] using h)
    · rename_i m hf
      split at h
      · simp [St.failed, St.fail] at h
      · rename_i hc
        simp only [hf, hc]
        cases t with
        | nil =>
          simp only [mkdirsGo, if_false]
          simp [isDirF, hf]
        | cons c' t' =>
          rw [hassoc]
          exact ih _ _ (by simp) hs (by simpa [hf, hc] using h)
    · simp [St.failed, St.fail] at h

theorem dmMakedirs_isDir (cfg : Cfg) (path : Str) (b : Bool) (s : St) (hdry : cfg.dryRun = false)
    (hs : s.failed = false) (h : (dmMakedirs cfg path b s).failed = false) :
    isDirF (dmMakedirs cfg path b s) (keyOf cfg.cwd path) = true := by
  unfold dmMakedirs at h ⊢
  simp only [] at h ⊢
  have key : (mkdirs cfg path b s).failed = false →
      isDirF (mkdirs cfg path b s) (keyOf cfg.cwd path) = true := by
    intro hf
    unfold mkdirs at hf ⊢
    simp only [hdry, Bool.false_eq_true, if_false] at hf ⊢
    split
    · rename_i hk
      simp only [hk, if_true] at hf
      split
      · simp [isDirF, FS.follow, FS.look, hk]
      · rename_i hb; simp [hb, St.failed, St.fail] at hf
    · rename_i hk
      simp only [hk, if_false] at hf
      have := mkdirsGo_isDir _ b (keyOf cfg.cwd path) [] s hk hs (by simpa using hf)
      simpa using this
  split
  · rename_i hf; simp [hf] at h
  · rename_i hf
    have := key (by simpa using hf)
    simpa [isDirF] using this

/-! ### `do_copyfile`, `do_symlink` -/

section
variable {D : Key} {fs0 : FS} (cfg : Cfg)

theorem Good.key {p : Str} (h : Good D p) : D <+: keyOf cfg.cwd p := by
  rw [keyOf_abs _ _ h.1]; exact h.2

theorem GoodDir.key {p : Str} (h : GoodDir D p) : Cmp D (keyOf cfg.cwd p) := by
  rw [keyOf_abs _ _ h.1]; exact h.2

theorem Inv_copyPrepare (src : Src) (to : Str) (mk : Option Str) (s : St) (ht : Good D to)
    (hmk : ∀ od, mk = some od → GoodDir D od) (hI : Inv D fs0 s) :
    Inv D fs0 (copyPrepare cfg src to mk s).1 := by
  unfold copyPrepare
  dsimp only
  (repeat' split) <;> first
    | exact hI
    | exact Inv_fail _ hI
    | exact Inv_remove cfg _ _ (ht.key cfg) hI
    | exact Inv_logLine _ (Inv_of_fs rfl hI)
    | exact Inv_dmMakedirs cfg _ _ _ ((hmk _ rfl).key cfg) hI

theorem Inv_copyPayload (fp : Str) (src : Src) (to od : Str) (fo : Option Bool) (s : St) (ht : Good D to)
    (hb : basename fp ≠ dotdot) (hI : Inv D fs0 s) : Inv D fs0 (copyPayload cfg fp src to od fo s) := by
  have hj : Good D (join to (basename fp)) := ht.join_name (basename_noSep fp) hb
  unfold copyPayload
  dsimp only
  (repeat' split) <;> first
    | exact hI
    | exact Inv_fail _ hI
    | exact Inv_putLink cfg _ _ _ (ht.key cfg) hI
    | exact Inv_putLink cfg _ _ _ (hj.key cfg) hI
    | exact Inv_putFile cfg _ _ _ _ _ (ht.key cfg) hI

theorem Inv_doCopyfile (fp : Str) (src : Src) (to : Str) (mk : Option Str) (fo : Option Bool) (s : St)
    (ht : Good D to) (hmk : ∀ od, mk = some od → GoodDir D od) (hb : basename fp ≠ dotdot) (hI : Inv D fs0 s) :
    Inv D fs0 (doCopyfile cfg fp src to mk fo s).1 := by
  have h1 := Inv_copyPrepare cfg src to mk s ht hmk hI
  unfold doCopyfile
  dsimp only
  (repeat' split) <;> first
    | exact Inv_fail _ hI
    | exact h1
    | exact Inv_copyPayload cfg fp src to (copyPrepare cfg src to mk s).2.1 fo (copyPrepare cfg src to mk s).1 ht hb h1
    | exact Inv_logLine _ (Inv_copyPayload cfg fp src to (copyPrepare cfg src to mk s).2.1 fo (copyPrepare cfg src to mk s).1 ht hb h1)

theorem Inv_symlinkTail (t l : Str) (s1 : St) (hl : Good D l) (h1 : Inv D fs0 s1) :
    Inv D fs0 (if s1.failed = true then (s1, false) else
      if cfg.dryRun = true then (s1.logLine l, true) else
      if (lexists s1 (keyOf cfg.cwd l) || !isDirF s1 (keyOf cfg.cwd l).dropLast) = true then
        ({ s1 with symErr := true }, false)
      else ((s1.write (keyOf cfg.cwd l) (.link t)).logLine l, true)).1 := by
  (repeat' split) <;> first
    | exact h1
    | exact Inv_logLine _ h1
    | exact Inv_of_fs rfl h1
    | exact Inv_logLine _ (Inv_write _ _ (hl.key cfg) h1)

theorem Inv_doSymlink (t l : Str) (s : St) (hl : Good D l) (hI : Inv D fs0 s) :
    Inv D fs0 (doSymlink cfg t l s).1 := by
  have h1 : Inv D fs0 (if lexists s (keyOf cfg.cwd l) = true then
      (if (!isLink s (keyOf cfg.cwd l)) = true then s.fail Err.meson else remove cfg (keyOf cfg.cwd l) s) else s) := by
    (repeat' split) <;> first
      | exact hI
      | exact Inv_fail _ hI
      | exact Inv_remove cfg _ _ (hl.key cfg) hI
  unfold doSymlink
  dsimp only
  exact Inv_symlinkTail cfg t l _ hl h1

/-! ### `do_copydir` -/

theorem Good.filepart {dst : Str} {rel : List Str} {name : Str} (hd : Good D dst)
    (hrel : ∀ c ∈ rel, Plain c) (hn : Plain name) : Good D (join dst (filepart rel name)) :=
  hd.join_rel (filepart_ok rel name hrel hn).1 (filepart_ok rel name hrel hn).2

theorem isComp_of_plain {c : Str} (h : Plain c) : isComp c = true := by
  simp [isComp, h.1, h.2.2.2]

/-- the key of `join dst (filepart rel name)`: the key of `dst` followed by `rel` and `name` -/
theorem keyOfAbs_filepart (dst : Str) (rel : List Str) (name : Str)
    (hrel : ∀ c ∈ rel, Plain c) (hn : Plain name) :
    keyOfAbs (join dst (filepart rel name)) = keyOfAbs dst ++ (rel ++ [name]) := by
  have hall : ∀ c ∈ rel ++ [name], Plain c := by
    intro c hc
    rcases List.mem_append.mp hc with h | h
    · exact hrel c h
    · simp at h; subst h; exact hn
  have hok := filepart_ok rel name hrel hn
  have hs : splitOn '/' (filepart rel name) = rel ++ [name] := by
    unfold filepart
    exact splitOn_joinWith '/' _ (by simp) (fun x hx => (hall x hx).2.1)
  rw [keyOfAbs_join _ _ hok.1, foldl_keyStep_noDD _ _ hok.2, hs]
  congr 1
  rw [List.filter_eq_self]
  exact fun c hc => isComp_of_plain (hall c hc)

/-- the parent directory of a copied entry lies under `D` as well -/
theorem good_filepart_dirname {dst : Str} {rel : List Str} {name : Str} (hd : Good D dst)
    (hrel : ∀ c ∈ rel, Plain c) (hn : Plain name) : Good D (dirname (join dst (filepart rel name))) := by
  have hg : Good D (join dst (filepart rel name)) := hd.filepart hrel hn
  refine ⟨isAbs_dirname _ hg.1, ?_⟩
  have hk := keyOfAbs_eq_step_dirname _ (headRaw_ne_nil_of_isAbs _ hg.1)
  have hA := keyOfAbs_filepart dst rel name hrel hn
  have hlen : (keyOfAbs dst).length < (keyOfAbs (join dst (filepart rel name))).length := by
    rw [hA]; simp
  have hD := hg.2
  have hDlen : D.length ≤ (keyOfAbs dst).length := hd.2.length_le
  rw [hk] at hD hlen
  generalize keyOfAbs (dirname (join dst (MesonModel.Install.filepart rel name))) = kp at hD hlen ⊢
  generalize basename (join dst (MesonModel.Install.filepart rel name)) = b at hD hlen
  unfold keyStep at hD hlen
  by_cases h1 : b = []
  · simpa [h1] using hD
  · by_cases h2 : b = ['.']
    · simpa [h2] using hD
    · by_cases h3 : b = dotdot
      · simp only [h1, h2, h3, decide_false, Bool.or_self, Bool.false_eq_true, if_false, if_true] at hD
        exact List.IsPrefix.trans hD (dropLast_prefix _)
      · simp only [h1, h2, h3, decide_false, Bool.or_self, Bool.false_eq_true, if_false] at hD hlen
        apply List.prefix_of_prefix_length_le hD (List.prefix_append _ _)
        simp at hlen
        omega

theorem Inv_copydirDirStep (dst : Str) (ex : List Str) (rel : List Str) (a : CdAcc) (e : Str × DirEnt)
    (hd : Good D dst) (hrel : ∀ c ∈ rel, Plain c) (hn : Plain e.1) (hI : Inv D fs0 a.s) :
    Inv D fs0 (copydirDirStep cfg dst ex rel a e).s := by
  have hg : Good D (join dst (filepart rel e.1)) := hd.filepart hrel hn
  have hk := hg.key cfg
  have hmk : Inv D fs0 (dmMakedirs cfg (join dst (filepart rel e.1)) false a.s) :=
    Inv_dmMakedirs cfg _ _ _ (hg.toDir.key cfg) hI
  unfold copydirDirStep
  dsimp only
  (repeat' split) <;> first
    | exact hI
    | exact Inv_fail _ hI
    | exact hmk
    | exact Inv_chmodNode _ _ _ hk hmk
    | exact Inv_sanitize cfg _ _ hk hmk
    | exact Inv_sanitize cfg _ _ hk (Inv_chmodNode _ _ _ hk hmk)

theorem Inv_fileStepTail (sr dst : Str) (rel : List Str) (m : Option FileMode) (fo : Option Bool)
    (e : Str × Src) (s1 : St) (hg : Good D (join dst (filepart rel e.1)))
    (hb : basename (join sr e.1) ≠ dotdot) (h1 : Inv D fs0 s1) :
    Inv D fs0 (if s1.failed = true then s1 else
      if (doCopyfile cfg (join sr e.1) e.2 (join dst (filepart rel e.1)) none fo s1).1.failed = true then
        (doCopyfile cfg (join sr e.1) e.2 (join dst (filepart rel e.1)) none fo s1).1
      else setMode cfg (keyOf cfg.cwd (join dst (filepart rel e.1))) m
        (doCopyfile cfg (join sr e.1) e.2 (join dst (filepart rel e.1)) none fo s1).1) := by
  have h2 := Inv_doCopyfile cfg (join sr e.1) e.2 (join dst (filepart rel e.1)) none fo s1 hg
    (by intro od h; cases h) hb h1
  split
  · exact h1
  · split
    · exact h2
    · exact Inv_setMode cfg _ _ _ (hg.key cfg) h2

theorem Inv_copydirFileStep (sr dst : Str) (ex : List Str) (rel : List Str) (rm : Nat) (m : Option FileMode)
    (fo : Option Bool) (s : St) (e : Str × Src)
    (hd : Good D dst) (hrel : ∀ c ∈ rel, Plain c) (hn : Plain e.1) (hI : Inv D fs0 s) :
    Inv D fs0 (copydirFileStep cfg sr dst ex rel rm m fo s e) := by
  have hg : Good D (join dst (filepart rel e.1)) := hd.filepart hrel hn
  have hk := hg.key cfg
  have hp : Good D (dirname (join dst (filepart rel e.1))) := good_filepart_dirname hd hrel hn
  have hb : basename (join sr e.1) ≠ dotdot := by rw [basename_join sr e.1 hn.2.1]; exact hn.2.2.1
  unfold copydirFileStep
  dsimp only
  split
  · exact hI
  · rename_i hsf
    have hsf' : s.failed = false := by simpa using hsf
    split
    · exact hI
    · split
      · exact Inv_fail _ hI
      · -- the state after the optional creation of the parent directory
        have h1 : Inv D fs0
            (if (!isDirF s (keyOf cfg.cwd (dirname (join dst (filepart rel e.1))))) = true then
              if (dmMakedirs cfg (dirname (join dst (filepart rel e.1))) false s).failed = true then
                dmMakedirs cfg (dirname (join dst (filepart rel e.1))) false s
              else if cfg.dryRun = true then dmMakedirs cfg (dirname (join dst (filepart rel e.1))) false s
              else chmodNode (keyOf cfg.cwd (dirname (join dst (filepart rel e.1)))) rm
                (dmMakedirs cfg (dirname (join dst (filepart rel e.1))) false s)
            else s) := by
          have hmk := Inv_dmMakedirs (D := D) (fs0 := fs0) cfg (dirname (join dst (filepart rel e.1))) false s
            (hp.toDir.key cfg) hI
          split
          · split
            · exact hmk
            · rename_i hnf
              split
              · exact hmk
              · rename_i hdry
                exact Inv_chmodNode _ _ _ (hp.key cfg) hmk
          · exact hI
        exact Inv_fileStepTail cfg sr dst rel m fo e _ hg hb h1

theorem foldl_pres {α σ : Type} (P : σ → Prop) (Q : α → Prop) (f : σ → α → σ)
    (hf : ∀ s a, Q a → P s → P (f s a)) (l : List α) (hl : ∀ a ∈ l, Q a) (s : σ) (hs : P s) :
    P (l.foldl f s) := by
  induction l generalizing s with
  | nil => exact hs
  | cons a t ih =>
    simp only [List.foldl_cons]
    exact ih (fun x hx => hl x (by simp [hx])) _ (hf s a (hl a (by simp)) hs)

theorem copydirDirStep_extra (dst : Str) (ex : List Str) (rel : List Str) (a : CdAcc) (e : Str × DirEnt)
    (hn : Plain e.1) (ha : ∀ x ∈ a.extra, Plain x.1) :
    ∀ x ∈ (copydirDirStep cfg dst ex rel a e).extra, Plain x.1 := by
  unfold copydirDirStep
  dsimp only
  (repeat' split) <;> first
    | exact ha
    | (intro x hx
       rcases List.mem_append.mp hx with h | h
       · exact ha x h
       · simp at h; subst h; exact hn)

/-- names in a recorded walk are directory entry names -/
def WalkOK (w : List WalkRec) : Prop :=
  ∀ r ∈ w, (∀ c ∈ r.rel, Plain c) ∧ (∀ e ∈ r.dirs, Plain e.1) ∧ (∀ e ∈ r.files, Plain e.1)

instance (w : List WalkRec) : Decidable (WalkOK w) := by unfold WalkOK; infer_instance

theorem Inv_copydirRec (sd dd : Str) (ef ed : List Str) (m : Option FileMode) (fo : Option Bool)
    (st : St × List (List Str)) (r : WalkRec) (hd : Good D dd)
    (hr : (∀ c ∈ r.rel, Plain c) ∧ (∀ e ∈ r.dirs, Plain e.1) ∧ (∀ e ∈ r.files, Plain e.1))
    (hI : Inv D fs0 st.1) : Inv D fs0 (copydirRec cfg sd dd ef ed m fo st r).1 := by
  unfold copydirRec
  dsimp only
  split
  · exact hI
  · split
    · exact hI
    · have hacc := foldl_pres (fun a : CdAcc => Inv D fs0 a.s ∧ ∀ x ∈ a.extra, Plain x.1) (fun e : Str × DirEnt => Plain e.1)
        (copydirDirStep cfg dd ed r.rel)
        (fun a e he ha => ⟨Inv_copydirDirStep cfg dd ed r.rel a e hd hr.1 he ha.1,
          copydirDirStep_extra cfg dd ed r.rel a e he ha.2⟩)
        r.dirs hr.2.1 { s := st.1, pruned := st.2, extra := [] } ⟨hI, by simp⟩
      exact foldl_pres (fun s : St => Inv D fs0 s) (fun e : Str × Src => Plain e.1) _
        (fun s e he hs => Inv_copydirFileStep cfg _ dd ef r.rel r.rootMode m fo s e hd hr.1 he hs)
        _ (by
          intro x hx
          rcases List.mem_append.mp hx with h | h
          · exact hr.2.2 x h
          · exact hacc.2 x h) _ hacc.1

theorem Inv_doCopydir (sd dd : Str) (ex : Option (List Str × List Str)) (m : Option FileMode) (fo : Option Bool)
    (w : List WalkRec) (s : St) (hd : Good D dd) (hw : WalkOK w) (hI : Inv D fs0 s) :
    Inv D fs0 (doCopydir cfg sd dd ex m fo w s) := by
  unfold doCopydir
  dsimp only
  split
  · exact hI
  · split
    · exact Inv_fail _ hI
    · split
      · exact Inv_fail _ hI
      · exact foldl_pres (fun st : St × List (List Str) => Inv D fs0 st.1)
          (fun r : WalkRec => (∀ c ∈ r.rel, Plain c) ∧ (∀ e ∈ r.dirs, Plain e.1) ∧ (∀ e ∈ r.files, Plain e.1)) _
          (fun st r hr hs => Inv_copydirRec cfg sd dd _ _ m fo st r hd hr hs) w hw (s, []) hI

/-! ### the `install_*` methods -/

/-- what the proof needs of a plan: an absolute build directory, directory-entry names in the recorded walks,
and source paths that do not end in `..` -/
structure PlanOK (p : Plan) : Prop where
  buildAbs : isAbs p.buildDir = true
  subdirs : ∀ e ∈ p.subdirs, WalkOK e.walk
  targets : ∀ t ∈ p.targets, WalkOK t.walk ∧ basename t.fname ≠ dotdot ∧
    basename (join p.buildDir (rstripSlash t.fname)) ≠ dotdot
  headers : ∀ e ∈ p.headers, basename e.path ≠ dotdot
  man : ∀ e ∈ p.man, basename e.path ≠ dotdot
  data : ∀ e ∈ p.data, basename e.path ≠ dotdot

/-- `Dest cfg D`: every path `get_destdir_path` hands out lies under `D` -/
def Dest (cfg : Cfg) (D : Key) : Prop := ∀ path out, destPath cfg path = some out → Good D out

variable (hdest : Dest cfg D)
include hdest

theorem Inv_installSubdir (s : St) (e : SubdirEntry) (hw : WalkOK e.walk) (hI : Inv D fs0 s) :
    Inv D fs0 (installSubdir cfg s e) := by
  unfold installSubdir
  dsimp only
  split
  · exact hI
  · split
    · exact hI
    · split
      · exact Inv_fail _ (Inv_of_fs rfl hI)
      · rename_i out hout
        have hg := hdest _ _ hout
        exact Inv_doCopydir cfg _ _ _ _ _ _ _ hg hw
          (Inv_dmMakedirs cfg _ _ _ (hg.toDir.key cfg) (Inv_of_fs rfl hI))

theorem Inv_installFileTo (e : DataEntry) (out outdir : Str) (fo : Option Bool) (s : St)
    (hg : Good D out) (hod : GoodDir D outdir) (hb : basename e.path ≠ dotdot) (hI : Inv D fs0 s) :
    Inv D fs0 (installFileTo cfg e out outdir fo s) := by
  have h1 := Inv_doCopyfile cfg e.path e.src out (some outdir) fo s hg
    (by intro od h; cases h; exact hod) hb hI
  unfold installFileTo
  try dsimp only
  split
  · exact h1
  · split
    · exact Inv_setMode cfg _ _ _ (hg.key cfg) (Inv_of_fs rfl h1)
    · exact Inv_setMode cfg _ _ _ (hg.key cfg) h1

theorem Inv_installHeader (s : St) (e : DataEntry) (hb : basename e.path ≠ dotdot) (hI : Inv D fs0 s) :
    Inv D fs0 (installHeader cfg s e) := by
  unfold installHeader
  try dsimp only
  split
  · exact hI
  · split
    · exact hI
    · split
      · exact Inv_fail _ hI
      · rename_i out hout
        have hg := hdest _ _ hout
        exact Inv_installFileTo cfg hdest e _ _ _ s (hg.join_name (basename_noSep _) hb) hg.toDir hb hI

theorem Inv_installMan (s : St) (e : DataEntry) (hb : basename e.path ≠ dotdot) (hI : Inv D fs0 s) :
    Inv D fs0 (installMan cfg s e) := by
  unfold installMan
  try dsimp only
  split
  · exact hI
  · split
    · exact hI
    · split
      · exact Inv_fail _ hI
      · rename_i out hout
        have hg := hdest _ _ hout
        exact Inv_installFileTo cfg hdest e _ _ _ s hg hg.dirname hb hI

theorem Inv_installDataOne (s : St) (e : DataEntry) (hb : basename e.path ≠ dotdot) (hI : Inv D fs0 s) :
    Inv D fs0 (installDataOne cfg s e) := by
  unfold installDataOne
  try dsimp only
  split
  · exact hI
  · split
    · exact hI
    · split
      · exact Inv_fail _ hI
      · rename_i out hout
        have hg := hdest _ _ hout
        exact Inv_installFileTo cfg hdest e _ _ _ s hg hg.dirname hb hI

theorem Inv_installEmptydir (s : St) (e : EmptyDirEntry) (hI : Inv D fs0 s) :
    Inv D fs0 (installEmptydir cfg s e) := by
  unfold installEmptydir
  try dsimp only
  split
  · exact hI
  · split
    · exact hI
    · split
      · exact Inv_fail _ (Inv_of_fs rfl hI)
      · rename_i out hout
        have hg := hdest _ _ hout
        have h1 := Inv_dmMakedirs (D := D) (fs0 := fs0) cfg out true _ (hg.toDir.key cfg)
          (Inv_of_fs (s' := { s with didInstall := true }) rfl hI)
        split
        · exact Inv_fail _ (Inv_of_fs rfl hI)
        · split
          · exact h1
          · exact Inv_setMode cfg _ _ _ (hg.key cfg) h1

theorem Inv_installSymlink (s : St) (e : SymlinkEntry) (hI : Inv D fs0 s) :
    Inv D fs0 (installSymlink cfg s e) := by
  unfold installSymlink
  try dsimp only
  split
  · exact hI
  · split
    · exact hI
    · split
      · rename_i d l hd hl
        have hgd := hdest _ _ hd
        have hgl := hdest _ _ hl
        have h1 := Inv_dmMakedirs (D := D) (fs0 := fs0) cfg d true s (hgd.toDir.key cfg) hI
        split
        · exact h1
        · have h2 := Inv_doSymlink cfg e.target l _ hgl h1
          split
          · exact Inv_of_fs rfl h2
          · exact h2
      · exact Inv_fail _ hI

theorem Inv_installTarget (buildDir : Str) (hbd : cfg.buildDir = buildDir) (s : St) (t : TargetEntry)
    (ht : WalkOK t.walk ∧ basename t.fname ≠ dotdot ∧ basename (join buildDir (rstripSlash t.fname)) ≠ dotdot)
    (hI : Inv D fs0 s) : Inv D fs0 (installTarget cfg s t) := by
  unfold installTarget
  try dsimp only
  split
  · exact hI
  · split
    · exact hI
    · split
      all_goals first
        | (split
           · exact hI
           · exact Inv_fail _ hI)
        | (split
           · exact Inv_fail _ hI
           · rename_i out hout
             have hg := hdest _ _ hout
             first
               | (have hgo := hg.join_name (basename_noSep t.fname) ht.2.1
                  have h1 := Inv_doCopyfile cfg t.fname t.src _ (some out) none s hgo
                    (by intro od h; cases h; exact hg.toDir) ht.2.1 hI
                  split
                  · exact h1
                  · split
                    · exact Inv_setMode cfg _ _ _ (hgo.key cfg) (Inv_of_fs rfl h1)
                    · exact h1)
               | (have hgo : Good D (join out (basename (join cfg.buildDir (rstripSlash t.fname)))) :=
                    hg.join_name (basename_noSep _) (by rw [hbd]; exact ht.2.2)
                  exact Inv_doCopydir cfg _ _ _ _ _ _ _ hgo ht.1
                    (Inv_dmMakedirs cfg _ _ _ (hg.toDir.key cfg) hI)))

end

/-! ### the whole installation -/

theorem isAbs_resolveDestdir (buildDir : Str) (d : Option Str) (hb : isAbs buildDir = true)
    (hne : resolveDestdir buildDir d ≠ []) : isAbs (resolveDestdir buildDir d) = true := by
  unfold resolveDestdir at hne ⊢
  cases d with
  | none => simp at hne
  | some d =>
    simp only at hne ⊢
    split
    · exact isAbs_join _ _ hb
    · rename_i hc
      by_cases hd : d = []
      · subst hd; simp at hne
      · simpa [hd] using hc

theorem dest_mkCfg (p : Plan) (o : Opts) (hd : isAbs (mkCfg p o).destdir = true) :
    Dest (mkCfg p o) (keyOfAbs (mkCfg p o).destdir) := by
  intro path out h
  unfold destPath at h
  simp only [] at h
  split at h
  · rename_i hok
    simp only [Option.some.injEq] at h
    have ho : isAbs out = true := by
      rw [← h]; exact isAbs_getDestdirPath (mkCfg p o).destdir p.pfx path hd
    exact ⟨ho, destOk_sound _ _ hd ho (h ▸ hok)⟩
  · simp at h

theorem Inv_installBody (p : Plan) (o : Opts) (fs0 : FS) (s : St) (hp : PlanOK p)
    (hd : isAbs (mkCfg p o).destdir = true) (hI : Inv (keyOfAbs (mkCfg p o).destdir) fs0 s) :
    Inv (keyOfAbs (mkCfg p o).destdir) fs0 (installBody (mkCfg p o) p s) := by
  have hdest := dest_mkCfg p o hd
  unfold installBody
  dsimp only
  refine foldl_pres _ (fun _ => True) _ (fun s e _ h => Inv_installSymlink _ hdest s e h) _ (by simp) _ ?_
  refine foldl_pres _ (fun e : DataEntry => basename e.path ≠ dotdot) _
    (fun s e he h => Inv_installDataOne _ hdest s e he h) _ hp.data _ ?_
  refine foldl_pres _ (fun _ => True) _ (fun s e _ h => Inv_installEmptydir _ hdest s e h) _ (by simp) _ ?_
  refine foldl_pres _ (fun e : DataEntry => basename e.path ≠ dotdot) _
    (fun s e he h => Inv_installMan _ hdest s e he h) _ hp.man _ ?_
  refine foldl_pres _ (fun e : DataEntry => basename e.path ≠ dotdot) _
    (fun s e he h => Inv_installHeader _ hdest s e he h) _ hp.headers _ ?_
  refine foldl_pres _ (fun t : TargetEntry => WalkOK t.walk ∧ basename t.fname ≠ dotdot ∧
      basename (join p.buildDir (rstripSlash t.fname)) ≠ dotdot) _
    (fun s t ht h => Inv_installTarget _ hdest p.buildDir rfl s t ht h) _ hp.targets _ ?_
  exact foldl_pres _ (fun e : SubdirEntry => WalkOK e.walk) _
    (fun s e he h => Inv_installSubdir _ hdest s e he h) _ hp.subdirs _ hI

theorem Inv_install (p : Plan) (o : Opts) (fs : FS) (hp : PlanOK p) (hne : (mkCfg p o).destdir ≠ []) :
    Inv (keyOfAbs (mkCfg p o).destdir) fs (install p o fs) := by
  have hd : isAbs (mkCfg p o).destdir = true := isAbs_resolveDestdir p.buildDir o.destdir hp.buildAbs hne
  unfold install
  dsimp only
  apply Inv_of_fs rfl
  apply Inv_installBody p o fs _ hp hd
  intro k _
  exact Or.inl rfl

end MesonModel.Install
