/-
Helper lemmas for C11: path algebra.  Under the hypothesis that no component is `..`, the key of a
destination computed by `get_destdir_path` is the key of DESTDIR followed by the components of the
(prefix and) install path.
-/
import MesonModel.Install.Model

namespace MesonModel.Install

def isComp (c : Str) : Bool := c ≠ [] && c ≠ ['.']

/-- no component of the path is `..` -/
def NoDotDot (p : Str) : Prop := dotdot ∉ splitOn '/' p

instance (p : Str) : Decidable (NoDotDot p) := by unfold NoDotDot; infer_instance

theorem pureTail_eq (p : Str) : pureTail p = (splitOn '/' p).filter isComp := rfl

theorem splitOn_ne_nil (c : Char) (s : Str) : splitOn c s ≠ [] := by
  induction s with
  | nil => simp [splitOn]
  | cons x xs ih =>
    unfold splitOn
    split
    · simp
    · split <;> simp

def consHead (x : Char) : List Str → List Str
  | [] => [[x]]
  | h :: t => (x :: h) :: t

theorem splitOn_cons_ne (c x : Char) (s : Str) (hx : x ≠ c) :
    splitOn c (x :: s) = consHead x (splitOn c s) := by
  rw [splitOn]
  simp only [hx, ↓reduceIte]
  cases splitOn c s <;> rfl

theorem splitOn_append_sep (c : Char) (a b : Str) :
    splitOn c (a ++ c :: b) = splitOn c a ++ splitOn c b := by
  induction a with
  | nil => simp [splitOn]
  | cons x xs ih =>
    by_cases hx : x = c
    · subst hx
      simp only [List.cons_append, splitOn, if_true, ih]
    · simp only [List.cons_append, splitOn_cons_ne c x _ hx, ih]
      cases hs : splitOn c xs with
      | nil => exact absurd hs (splitOn_ne_nil c xs)
      | cons h t => simp [consHead]

theorem mem_splitOn_noSep (c : Char) (s : Str) : ∀ x ∈ splitOn c s, c ∉ x := by
  induction s with
  | nil => simp [splitOn]
  | cons y ys ih =>
    intro x hx
    unfold splitOn at hx
    split at hx
    · rcases List.mem_cons.mp hx with h | h
      · subst h; simp
      · exact ih x h
    · rename_i hne
      cases hs : splitOn c ys with
      | nil => exact absurd hs (splitOn_ne_nil c ys)
      | cons h t =>
        rw [hs] at hx ih
        rcases List.mem_cons.mp hx with h' | h'
        · subst h'
          have := ih h (by simp)
          intro hc
          rcases List.mem_cons.mp hc with e | e
          · exact hne e.symm
          · exact this e
        · exact ih x (by simp [h'])

theorem splitOn_noSep (c : Char) (s : Str) (h : c ∉ s) : splitOn c s = [s] := by
  induction s with
  | nil => rfl
  | cons y ys ih =>
    have hy : y ≠ c := fun e => h (by simp [e])
    have hys : c ∉ ys := fun e => h (by simp [e])
    rw [splitOn]; simp [hy, ih hys]

theorem splitOn_joinWith (c : Char) (l : List Str) (hne : l ≠ []) (h : ∀ x ∈ l, c ∉ x) :
    splitOn c (joinWith c l) = l := by
  induction l with
  | nil => exact absurd rfl hne
  | cons a t ih =>
    cases t with
    | nil => simpa [joinWith] using splitOn_noSep c a (h a (by simp))
    | cons b t' =>
      have : joinWith c (a :: b :: t') = a ++ c :: joinWith c (b :: t') := rfl
      rw [this, splitOn_append_sep, splitOn_noSep c a (h a (by simp)),
          ih (by simp) (fun x hx => h x (by simp [hx]))]
      rfl

/-! ### keys without `..` are the filtered components -/

theorem foldl_keyStep_noDD (cs : List Str) (acc : Key) (h : dotdot ∉ cs) :
    cs.foldl keyStep acc = acc ++ cs.filter isComp := by
  induction cs generalizing acc with
  | nil => simp
  | cons c t ih =>
    have hc : c ≠ dotdot := fun e => h (by simp [e])
    have ht : dotdot ∉ t := fun e => h (by simp [e])
    simp only [List.foldl_cons, List.filter_cons]
    by_cases h1 : c = [] ∨ c = ['.']
    · have : isComp c = false := by
        rcases h1 with h1 | h1 <;> subst h1 <;> decide
      have hk : keyStep acc c = acc := by
        unfold keyStep; rcases h1 with h1 | h1 <;> subst h1 <;> simp
      rw [hk, ih acc ht, this]; simp
    · have h1' : c ≠ [] ∧ c ≠ ['.'] := by
        constructor <;> intro e <;> exact h1 (by simp [e])
      have : isComp c = true := by simp [isComp, h1'.1, h1'.2]
      have hk : keyStep acc c = acc ++ [c] := by
        unfold keyStep; simp [h1'.1, h1'.2, hc]
      rw [hk, ih _ ht, this]; simp

theorem keyOfAbs_noDD (p : Str) (h : NoDotDot p) : keyOfAbs p = pureTail p := by
  unfold keyOfAbs
  rw [foldl_keyStep_noDD _ _ h]; simp [pureTail_eq]

/-! ### `join` -/

theorem endsWithSlash_elim (a : Str) (h : endsWithSlash a = true) : ∃ a', a = a' ++ ['/'] := by
  unfold endsWithSlash at h
  rcases List.eq_nil_or_concat a with rfl | ⟨l, x, rfl⟩
  · simp at h
  · simp at h; subst h; exact ⟨l, by simp⟩

theorem splitOn_join (a b : Str) (hb : isAbs b = false) :
    ∃ pre, (a = [] ∧ splitOn '/' (join a b) = splitOn '/' b) ∨
      (splitOn '/' (join a b) = pre ++ splitOn '/' b ∧
        (splitOn '/' a = pre ∨ splitOn '/' a = pre ++ [[]])) := by
  unfold join
  simp only [hb, Bool.false_eq_true, if_false]
  by_cases ha : a = []
  · exact ⟨[], Or.inl ⟨ha, by simp [ha]⟩⟩
  · by_cases he : endsWithSlash a = true
    · obtain ⟨a', rfl⟩ := endsWithSlash_elim a he
      refine ⟨splitOn '/' a', Or.inr ⟨?_, Or.inr ?_⟩⟩
      · simp [ha, he, splitOn_append_sep]
      · have := splitOn_append_sep '/' a' []
        simpa [splitOn] using this
    · refine ⟨splitOn '/' a, Or.inr ⟨?_, Or.inl rfl⟩⟩
      simp [ha, he, splitOn_append_sep]

theorem pureTail_join (a b : Str) (hb : isAbs b = false) :
    pureTail (join a b) = pureTail a ++ pureTail b := by
  obtain ⟨pre, h | ⟨h1, h2⟩⟩ := splitOn_join a b hb
  · rw [pureTail_eq, h.2, h.1]; simp [pureTail_eq, splitOn, isComp]
  · rw [pureTail_eq, h1, pureTail_eq, pureTail_eq]
    rcases h2 with h2 | h2 <;> rw [h2] <;> simp [isComp]

theorem noDotDot_join (a b : Str) (hb : isAbs b = false) (ha : NoDotDot a) (hb' : NoDotDot b) :
    NoDotDot (join a b) := by
  unfold NoDotDot at *
  obtain ⟨pre, h | ⟨h1, h2⟩⟩ := splitOn_join a b hb
  · rw [h.2]; exact hb'
  · rw [h1]
    intro hm
    rcases List.mem_append.mp hm with hm | hm
    · rcases h2 with h2 | h2 <;> rw [h2] at ha
      · exact ha hm
      · exact ha (by simp [hm])
    · exact hb' hm

/-! ### `destdir_join` -/

theorem pureRoot_cases (p : Str) : pureRoot p = [] ∨ pureRoot p = ['/'] ∨ pureRoot p = ['/', '/'] := by
  unfold pureRoot; split <;> simp

theorem pureRoot_ne_nil_of_isAbs (p : Str) (h : isAbs p = true) : pureRoot p ≠ [] := by
  unfold isAbs at h
  split at h
  · unfold pureRoot; split <;> simp_all
  · simp at h

theorem pureParts_tail_of_isAbs (p : Str) (h : isAbs p = true) : (pureParts p).tail = pureTail p := by
  unfold pureParts
  simp [pureRoot_ne_nil_of_isAbs p h]

theorem joinWith_ne_nil (a : Str) (t : List Str) (ha : a ≠ []) : joinWith '/' (a :: t) ≠ [] := by
  cases t with
  | nil => simpa [joinWith] using ha
  | cons b t' => simp [joinWith, ha]

theorem splitOn_pureFormat (root : Str) (comps : List Str)
    (hr : root = [] ∨ root = ['/'] ∨ root = ['/', '/'])
    (hc : ∀ c ∈ comps, c ≠ [] ∧ '/' ∉ c) :
    ∃ pre, (∀ x ∈ pre, x = [] ∨ x = ['.']) ∧ splitOn '/' (pureFormat root comps) = pre ++ comps := by
  cases comps with
  | nil =>
    rcases hr with rfl | rfl | rfl
    · exact ⟨[['.']], by simp, by decide⟩
    · exact ⟨[[], []], by simp, by decide⟩
    · exact ⟨[[], [], []], by simp, by decide⟩
  | cons a t =>
    have ha : a ≠ [] := (hc a (by simp)).1
    have hj := joinWith_ne_nil a t ha
    have hs := splitOn_joinWith '/' (a :: t) (by simp) (fun x hx => (hc x hx).2)
    have hne : root ++ joinWith '/' (a :: t) ≠ [] := by simp [hj]
    have hf : pureFormat root (a :: t) = root ++ joinWith '/' (a :: t) := by
      unfold pureFormat; simp [hj]
    rw [hf]
    rcases hr with rfl | rfl | rfl
    · exact ⟨[], by simp, by simpa using hs⟩
    · refine ⟨[[]], by simp, ?_⟩
      have := splitOn_append_sep '/' [] (joinWith '/' (a :: t))
      simpa [splitOn, hs] using this
    · refine ⟨[[], []], by simp, ?_⟩
      have h1 := splitOn_append_sep '/' [] (joinWith '/' (a :: t))
      have h2 := splitOn_append_sep '/' [] ('/' :: joinWith '/' (a :: t))
      simp only [List.nil_append] at h1 h2
      rw [show (['/', '/'] ++ joinWith '/' (a :: t)) = '/' :: '/' :: joinWith '/' (a :: t) from rfl, h2, h1, hs]
      simp [splitOn]

theorem mem_pureTail (p : Str) (c : Str) (h : c ∈ pureTail p) :
    c ∈ splitOn '/' p ∧ c ≠ [] ∧ c ≠ ['.'] ∧ '/' ∉ c := by
  rw [pureTail_eq, List.mem_filter] at h
  refine ⟨h.1, ?_, ?_, mem_splitOn_noSep '/' p c h.1⟩
  · intro e; subst e; simp [isComp] at h
  · intro e; subst e; simp [isComp] at h

theorem destdirJoin_split (d p : Str) (hd : d ≠ []) (hp : isAbs p = true) :
    ∃ pre, (∀ x ∈ pre, x = [] ∨ x = ['.']) ∧
      splitOn '/' (destdirJoin d p) = pre ++ (pureTail d ++ pureTail p) := by
  unfold destdirJoin
  simp only [hd, if_false, pureParts_tail_of_isAbs p hp]
  apply splitOn_pureFormat _ _ (pureRoot_cases d)
  intro c hc
  rcases List.mem_append.mp hc with h | h
  · have := mem_pureTail d c h; exact ⟨this.2.1, this.2.2.2⟩
  · have := mem_pureTail p c h; exact ⟨this.2.1, this.2.2.2⟩

theorem filter_isComp_pureTail (p : Str) : (pureTail p).filter isComp = pureTail p := by
  rw [pureTail_eq, List.filter_filter]; simp

theorem pureTail_destdirJoin (d p : Str) (hd : d ≠ []) (hp : isAbs p = true) :
    pureTail (destdirJoin d p) = pureTail d ++ pureTail p := by
  obtain ⟨pre, hpre, hs⟩ := destdirJoin_split d p hd hp
  rw [pureTail_eq, hs, List.filter_append, List.filter_append, filter_isComp_pureTail, filter_isComp_pureTail]
  have : pre.filter isComp = [] := by
    rw [List.filter_eq_nil_iff]
    intro x hx
    rcases hpre x hx with rfl | rfl <;> decide
  simp [this]

theorem noDotDot_destdirJoin (d p : Str) (hd : d ≠ []) (hp : isAbs p = true)
    (h1 : NoDotDot d) (h2 : NoDotDot p) : NoDotDot (destdirJoin d p) := by
  obtain ⟨pre, hpre, hs⟩ := destdirJoin_split d p hd hp
  unfold NoDotDot at *
  rw [hs]
  intro hm
  rcases List.mem_append.mp hm with hm | hm
  · rcases hpre _ hm with e | e <;> exact absurd e (by decide)
  · rcases List.mem_append.mp hm with hm | hm
    · exact h1 (mem_pureTail d _ hm).1
    · exact h2 (mem_pureTail p _ hm).1

/-- destination rule: with DESTDIR set and no `..` anywhere, the key of `get_destdir_path` is the key of
DESTDIR followed by the components of the install path (absolute) or of prefix and install path (relative) -/
theorem dest_key (destdir pfx ip : Str) (hd : destdir ≠ []) (hpfx : isAbs pfx = true)
    (h1 : NoDotDot destdir) (h2 : NoDotDot pfx) (h3 : NoDotDot ip) :
    keyOfAbs (getDestdirPath destdir (destdirJoin destdir pfx) ip) =
      keyOfAbs destdir ++ (if isAbs ip then keyOfAbs ip else keyOfAbs pfx ++ keyOfAbs ip) := by
  unfold getDestdirPath
  by_cases hip : isAbs ip = true
  · simp only [hip, if_true]
    rw [keyOfAbs_noDD _ (noDotDot_destdirJoin _ _ hd hip h1 h3), pureTail_destdirJoin _ _ hd hip,
        keyOfAbs_noDD _ h1, keyOfAbs_noDD _ h3]
  · have hip' : isAbs ip = false := by simpa using hip
    simp only [hip', Bool.false_eq_true, if_false]
    have hn := noDotDot_destdirJoin _ _ hd hpfx h1 h2
    rw [keyOfAbs_noDD _ (noDotDot_join _ _ hip' hn h3), pureTail_join _ _ hip',
        pureTail_destdirJoin _ _ hd hpfx, keyOfAbs_noDD _ h1, keyOfAbs_noDD _ h2, keyOfAbs_noDD _ h3,
        List.append_assoc]

/-! ### `normpath` of an absolute path, and the staging check of `get_destdir_path` -/

theorem foldl_normStep_abs (init : Nat) (hi : init ≠ 0) (cs : List Str) (acc : List Str) (hacc : dotdot ∉ acc) :
    cs.foldl (normStep init) acc = cs.foldl keyStep acc ∧ dotdot ∉ cs.foldl keyStep acc := by
  induction cs generalizing acc with
  | nil => exact ⟨rfl, hacc⟩
  | cons c t ih =>
    simp only [List.foldl_cons]
    have hstep : normStep init acc c = keyStep acc c := by
      unfold normStep keyStep
      by_cases ha : c = []
      · simp [ha]
      · by_cases hb : c = ['.']
        · simp [hb]
        · by_cases h2 : c = dotdot
          · have hl : acc.getLast? ≠ some dotdot := fun hl => hacc (List.mem_of_getLast? hl)
            subst h2
            have hl' : acc.getLast? ≠ some ['.', '.'] := hl
            simp [hi, hl', dotdot]
          · simp [ha, hb, h2]
    have hinv : dotdot ∉ keyStep acc c := by
      unfold keyStep
      split
      · exact hacc
      · split
        · intro hm; exact hacc (List.dropLast_subset _ hm)
        · rename_i _ h2
          intro hm
          rcases List.mem_append.mp hm with hm | hm
          · exact hacc hm
          · simp at hm; exact h2 hm.symm
    rw [hstep]
    exact ih _ hinv

theorem foldl_keyStep_clean (cs : List Str) (acc : Key) (hcs : ∀ c ∈ cs, '/' ∉ c)
    (hacc : ∀ c ∈ acc, c ≠ [] ∧ '/' ∉ c) : ∀ c ∈ cs.foldl keyStep acc, c ≠ [] ∧ '/' ∉ c := by
  induction cs generalizing acc with
  | nil => exact hacc
  | cons c t ih =>
    simp only [List.foldl_cons]
    apply ih _ (fun x hx => hcs x (by simp [hx]))
    unfold keyStep
    split
    · exact hacc
    · split
      · intro x hx; exact hacc x (List.dropLast_subset _ hx)
      · rename_i h1 _
        intro x hx
        rcases List.mem_append.mp hx with hx | hx
        · exact hacc x hx
        · simp at hx; subst hx
          refine ⟨?_, hcs x (by simp)⟩
          intro e; exact h1 (by simp [e])

theorem foldl_keyStep_nodot (cs : List Str) (acc : Key) (hacc : ∀ c ∈ acc, c ≠ ['.']) :
    ∀ c ∈ cs.foldl keyStep acc, c ≠ ['.'] := by
  induction cs generalizing acc with
  | nil => exact hacc
  | cons c t ih =>
    simp only [List.foldl_cons]
    apply ih
    unfold keyStep
    split
    · exact hacc
    · split
      · intro x hx; exact hacc x (List.dropLast_subset _ hx)
      · rename_i h1 _
        intro x hx
        rcases List.mem_append.mp hx with hx | hx
        · exact hacc x hx
        · simp at hx; subst hx
          intro e; exact h1 (by simp [e])

theorem keyOfAbs_clean (p : Str) : ∀ c ∈ keyOfAbs p, c ≠ [] ∧ '/' ∉ c :=
  foldl_keyStep_clean _ _ (mem_splitOn_noSep '/' p) (by simp)

theorem initialSlashes_of_isAbs (p : Str) (h : isAbs p = true) :
    initialSlashes p = 1 ∨ initialSlashes p = 2 := by
  unfold isAbs at h
  unfold initialSlashes
  split at h
  · split <;> simp_all
  · simp at h

/-- for an absolute path, `normpath` is its leading slashes followed by the components of its key -/
theorem normpath_abs (p : Str) (h : isAbs p = true) :
    normpath p = pureFormat (List.replicate (initialSlashes p) '/') (keyOfAbs p) := by
  have hne : p ≠ [] := by intro e; subst e; simp [isAbs] at h
  have hi : initialSlashes p ≠ 0 := by rcases initialSlashes_of_isAbs p h with e | e <;> omega
  unfold normpath
  simp only [hne, if_false]
  rw [(foldl_normStep_abs _ hi _ [] (by simp)).1]
  rfl

theorem pureParts_normpath_abs (p : Str) (h : isAbs p = true) :
    ∃ r, normParts p = r :: keyOfAbs p := by
  have hclean := keyOfAbs_clean p
  have hr : List.replicate (initialSlashes p) '/' = ['/'] ∨ List.replicate (initialSlashes p) '/' = ['/', '/'] := by
    rcases initialSlashes_of_isAbs p h with e | e <;> simp [e, List.replicate]
  obtain ⟨pre, hpre, hs⟩ := splitOn_pureFormat (List.replicate (initialSlashes p) '/') (keyOfAbs p)
    (by rcases hr with e | e <;> simp [e]) hclean
  have htail : pureTail (normpath p) = keyOfAbs p := by
    rw [normpath_abs p h, pureTail_eq, hs, List.filter_append]
    have h1 : pre.filter isComp = [] := by
      rw [List.filter_eq_nil_iff]
      intro x hx
      rcases hpre x hx with rfl | rfl <;> decide
    have h2 : (keyOfAbs p).filter isComp = keyOfAbs p := by
      rw [List.filter_eq_self]
      intro c hc
      have hd : c ≠ ['.'] := by
        intro e
        have := foldl_keyStep_nodot (splitOn '/' p) [] (by simp) c hc
        exact this e
      simp [isComp, (hclean c hc).1, hd]
    simp [h1, h2]
  have habs : isAbs (normpath p) = true := by
    rw [normpath_abs p h]
    unfold pureFormat
    rcases hr with e | e <;> simp [e, isAbs]
  refine ⟨pureRoot (normpath p), ?_⟩
  unfold normParts pureParts
  simp [pureRoot_ne_nil_of_isAbs _ habs, htail]

/-- soundness of the staging check: when it passes, the destination's key lies under DESTDIR's key -/
theorem destOk_sound (d out : Str) (hd : isAbs d = true) (ho : isAbs out = true) (h : destOk d out = true) :
    keyOfAbs d <+: keyOfAbs out := by
  have hne : d ≠ [] := by intro e; subst e; simp [isAbs] at hd
  obtain ⟨rd, h1⟩ := pureParts_normpath_abs d hd
  obtain ⟨ro, h2⟩ := pureParts_normpath_abs out ho
  unfold destOk at h
  simp only [hne, decide_false, Bool.false_or, h1, h2] at h
  have := List.isPrefixOf_iff_prefix.mp h
  exact (List.cons_prefix_cons.mp this).2

theorem isAbs_cons (p : Str) : isAbs ('/' :: p) = true := rfl

theorem isAbs_elim (p : Str) (h : isAbs p = true) : ∃ t, p = '/' :: t := by
  unfold isAbs at h
  split at h
  · exact ⟨_, rfl⟩
  · simp at h

theorem isAbs_destdirJoin (d p : Str) (hd : isAbs d = true) : isAbs (destdirJoin d p) = true := by
  have hne : d ≠ [] := by intro e; subst e; simp [isAbs] at hd
  unfold destdirJoin pureFormat
  simp only [hne, if_false]
  rcases pureRoot_cases d with h | h | h
  · exact absurd h (pureRoot_ne_nil_of_isAbs d hd)
  · simp [h, isAbs]
  · simp [h, isAbs]

theorem isAbs_join (a b : Str) (ha : isAbs a = true) : isAbs (join a b) = true := by
  obtain ⟨t, rfl⟩ := isAbs_elim a ha
  unfold join
  by_cases hb : isAbs b = true
  · simp [hb]
  · have hb' : isAbs b = false := by simpa using hb
    simp only [hb', Bool.false_eq_true, if_false]
    split <;> simp [isAbs]

theorem isAbs_getDestdirPath (d pfx path : Str) (hd : isAbs d = true) :
    isAbs (getDestdirPath d (destdirJoin d pfx) path) = true := by
  unfold getDestdirPath
  split
  · exact isAbs_destdirJoin d path hd
  · exact isAbs_join _ _ (isAbs_destdirJoin d pfx hd)

end MesonModel.Install
